------------------------------- MODULE MapDef -------------------------------
(* C16, definition layer: what the shipped map configuration is and what       *)
(* "well formed", "distinguishable", "addressable by a path" and "the index    *)
(* names a file" mean.  Written from the map schema (map.xsd), the documented  *)
(* path grammar (PathDef, C17) and the property text - it works on the XML as  *)
(* exported by lib/c16_export.py (own xml.etree reading, no pyx12 code).        *)
(*                                                                             *)
(* Constants come from one JSON file (env TRACE_FILE):                          *)
(*   map      [file, found, parsed, root_tag, xid, nodes]                       *)
(*            nodes: document pre-order, node 1 = the <transaction>; a node is  *)
(*            [kind, xid, parent, kids (XML order), usage, pos, repeat,         *)
(*             max_use, seq, data_ele, ext, codes, syntax, has, ...] - all       *)
(*            map fields are the TEXTS of the XML, judged here                  *)
(*   dataele  <<[num, type, min, max]>>      codesets <<[id, ...]>>             *)
(*   index    [entries <<[icvn, vriic, fic, tspc, has_tspc, file]>>,            *)
(*             files <<[file, found, parsed]>>]                                 *)
(*   trace, queries : recorded executions of the real code (T_MapModel only)    *)
EXTENDS Naturals, Sequences, FiniteSets, TLC, Json, IOUtils
PD == INSTANCE PathDef
SY == INSTANCE Syntax

T == JsonDeserialize(IOEnv.TRACE_FILE)
TheMap == T.map
Nodes == TheMap.nodes
NN == Len(Nodes)
DE == T.dataele
CS == T.codesets
Entries == T.index.entries
Files == T.index.files

Range(s) == {s[i] : i \in DOMAIN s}
Min(S) == CHOOSE x \in S : \A y \in S : x <= y
(* a sequence given by an expression, as an explicit tuple (evaluated once) *)
RECURSIVE Conc(_, _, _)
Conc(f, lo, hi) == IF lo > hi THEN <<>> ELSE IF lo = hi THEN <<f[lo]>>
                   ELSE LET mid == (lo + hi) \div 2 IN Conc(f, lo, mid) \o Conc(f, mid + 1, hi)
(* first element of a sequence that satisfies Pred, 0 if none (elements are node numbers >= 1) *)
First(seq, Pred(_)) == LET S == {i \in DOMAIN seq : Pred(seq[i])} IN IF S = {} THEN 0 ELSE seq[Min(S)]

IsNat(s) == Len(s) >= 1 /\ PD!AllIn(s, PD!Digit)
Num(s) == PD!NumVal(s)
K(n) == Nodes[n].kind
Xid(n) == Nodes[n].xid
(* derived once per node and kept as explicit tuples (TLC evaluates these constant definitions a single time) *)
PosT == <<>> \o [n \in 1..NN |-> IF IsNat(Nodes[n].pos) THEN Num(Nodes[n].pos) ELSE 0]
SeqT == <<>> \o [n \in 1..NN |-> IF IsNat(Nodes[n].seq) THEN Num(Nodes[n].seq) ELSE 0]
PosOf(n) == PosT[n]
SeqOf(n) == SeqT[n]
Container(n) == K(n) \in {"map", "loop"}
Addressed(n) == K(n) \in {"loop", "segment", "element", "component"}   \* the node kinds the property lists

(* ------------------------------------------------------------ data tables *)
DENums == {DE[i].num : i \in DOMAIN DE}
DERec(num) == DE[CHOOSE i \in DOMAIN DE : DE[i].num = num]
TypeOf(n) == IF Nodes[n].data_ele \in DENums THEN DERec(Nodes[n].data_ele).type ELSE ""
CodeSetIds == {CS[i].id : i \in DOMAIN CS}

(* ------------------------------------------------------------ child order *)
(* children of a loop are taken by position, equal positions in document      *)
(* order; elements of a segment / components of a composite by sequence number *)
LessDoc(a, b) == PosOf(a) < PosOf(b) \/ (PosOf(a) = PosOf(b) /\ a < b)
KindRank(n) == IF K(n) = "loop" THEN 0 ELSE 1
LessLoopsFirst(a, b) == \/ PosOf(a) < PosOf(b)
                        \/ PosOf(a) = PosOf(b) /\ KindRank(a) < KindRank(b)
                        \/ PosOf(a) = PosOf(b) /\ KindRank(a) = KindRank(b) /\ a < b
LessSeq(a, b) == SeqOf(a) < SeqOf(b) \/ (SeqOf(a) = SeqOf(b) /\ a < b)
KidsA(n) == IF Container(n) THEN SortSeq(Nodes[n].kids, LessDoc) ELSE SortSeq(Nodes[n].kids, LessSeq)
KidsB(n) == IF Container(n) THEN SortSeq(Nodes[n].kids, LessLoopsFirst) ELSE KidsA(n)
Ord == <<>> \o [n \in 1..NN |-> KidsA(n)]

(* child of a segment / composite with sequence number s (0 if none) *)
ChildAt(n, s) == First(Ord[n], LAMBDA k : SeqOf(k) = s)

(* ------------------------------------------------------------ qualifiers *)
(* Same-id segments are told apart by the coded element that qualifies them:  *)
(* element 01, for ENT element 02, the first component of composite 01 (CTX:   *)
(* also when it is typed AN), for HL element 03.                               *)
Coded(e, types) == e # 0 /\ Nodes[e].codes # <<>> /\ TypeOf(e) \in types
KeyElemOf(s) ==
  LET e1 == ChildAt(s, 1)
      e2 == ChildAt(s, 2)
      e3 == ChildAt(s, 3)
      c1 == IF e1 # 0 /\ K(e1) = "composite" THEN ChildAt(e1, 1) ELSE 0
  IN IF e1 # 0 /\ K(e1) = "element" /\ Coded(e1, {"ID"}) THEN e1
     ELSE IF Xid(s) = "ENT" /\ e2 # 0 /\ K(e2) = "element" /\ Coded(e2, {"ID"}) THEN e2
     ELSE IF Coded(c1, IF Xid(s) = "CTX" THEN {"ID", "AN"} ELSE {"ID"}) THEN c1
     ELSE IF Xid(s) = "HL" /\ e3 # 0 /\ K(e3) = "element" /\ Nodes[e3].codes # <<>> THEN e3
     ELSE 0
KeyT == <<>> \o [n \in 1..NN |-> IF K(n) = "segment" THEN KeyElemOf(n) ELSE 0]
KeyElem(s) == KeyT[s]
QualSet(s) == IF KeyElem(s) = 0 THEN {} ELSE Range(Nodes[KeyElem(s)].codes)
QualSeq(s) == IF KeyElem(s) = 0 THEN <<>> ELSE Nodes[KeyElem(s)].codes

(* the segment a node starts with: a segment itself, the first segment of a loop *)
RECURSIVE Trigger(_)
Trigger(n) == IF K(n) = "segment" THEN n
              ELSE IF K(n) = "loop" /\ Ord[n] # <<>> THEN Trigger(Ord[n][1]) ELSE 0
Distinguishable(a, b) ==
  LET ta == Trigger(a)  tb == Trigger(b) IN
  \/ ta = 0 \/ tb = 0
  \/ Xid(ta) # Xid(tb)
  \/ KeyElem(ta) # 0 /\ KeyElem(tb) # 0 /\ QualSet(ta) \cap QualSet(tb) = {}
SharedQual(a, b) == QualSet(Trigger(a)) \cap QualSet(Trigger(b))

(* ------------------------------------------------------------ path resolution *)
(* one component per step; a step is [t, id, q, k]                             *)
LoopChild(n, name) == IF ~Container(n) THEN 0 ELSE First(Ord[n], LAMBDA k : K(k) = "loop" /\ Xid(k) = name)
SegChild(n, id, q) == IF ~Container(n) THEN 0
                      ELSE First(Ord[n], LAMBDA k : K(k) = "segment" /\ Xid(k) = id /\ (q = PD!None \/ q \in QualSet(k)))
StepTo(n, st) ==
  IF n = 0 THEN 0
  ELSE CASE st.t = "loop" -> LoopChild(n, st.id)
         [] st.t = "seg"  -> LET s == SegChild(n, st.id, st.q) IN
                             \* "the last loop id might be a segment id" (path grammar): a bare id names a loop if no segment has it
                             IF s = 0 /\ st.q = PD!None /\ st.bare THEN LoopChild(n, st.id) ELSE s
         [] st.t = "ele"  -> IF K(n) = "segment" THEN ChildAt(n, st.k) ELSE 0
         [] st.t = "sub"  -> IF K(n) = "composite" THEN ChildAt(n, st.k) ELSE 0
Step(t, id, q, k, bare) == [t |-> t, id |-> id, q |-> q, k |-> k, bare |-> bare]
(* the steps a parsed path (PathDef record) asks for; <<>> for a path that addresses nothing *)
StepsOf(d) ==
  IF ~d.ok \/ d.rel \/ (d.hassub /\ ~d.hasele) \/ (d.seg = PD!None /\ d.hasele) THEN <<Step("fail", "", "", 0, FALSE)>>
  ELSE [i \in 1..Len(d.loops) |-> Step("loop", d.loops[i], PD!None, 0, FALSE)]
       \o (IF d.seg = PD!None THEN <<>> ELSE <<Step("seg", d.seg, d.qual, 0, ~d.hasele)>>)
       \o (IF d.hasele THEN <<Step("ele", "", "", d.ele, FALSE)>> ELSE <<>>)
       \o (IF d.hassub THEN <<Step("sub", "", "", d.sub, FALSE)>> ELSE <<>>)
RECURSIVE Walk(_, _, _)
Walk(n, steps, i) == IF n = 0 \/ i > Len(steps) THEN n
                     ELSE IF steps[i].t = "fail" THEN 0 ELSE Walk(StepTo(n, steps[i]), steps, i + 1)
Lookup(d) == LET st == StepsOf(d) IN IF st = <<>> THEN 0 ELSE Walk(1, st, 1)
LookupText(s) == IF NN = 0 THEN 0 ELSE Lookup(PD!Parse(s))

(* ------------------------------------------------------------ canonical path of a node *)
SegOf(n) == IF K(n) = "segment" THEN n ELSE IF K(n) = "component" THEN Nodes[Nodes[n].parent].parent
            ELSE IF K(n) \in {"element", "composite"} THEN Nodes[n].parent ELSE 0
SameIdSibs(s) == {k \in Range(Nodes[Nodes[s].parent].kids) : k # s /\ K(k) = "segment" /\ Xid(k) = Xid(s)}
(* a qualifier with which the segment is found, if there is one *)
BestQualOf(s) ==
  IF SameIdSibs(s) = {} \/ KeyElem(s) = 0 THEN PD!None
  ELSE LET qs == QualSeq(s)
           good == {i \in DOMAIN qs : SegChild(Nodes[s].parent, Xid(s), qs[i]) = s}
       IN IF good = {} THEN qs[1] ELSE qs[Min(good)]
BestT == <<>> \o [n \in 1..NN |-> IF K(n) = "segment" THEN BestQualOf(n) ELSE PD!None]
BestQual(s) == BestT[s]
RECURSIVE LoopIds(_)
LoopIds(n) == IF n = 0 \/ K(n) # "loop" THEN <<>> ELSE LoopIds(Nodes[n].parent) \o <<Xid(n)>>
PRec(loops, seg, qual, ele, hasele, sub, hassub) ==
  [ok |-> TRUE, rel |-> FALSE, loops |-> loops, seg |-> seg, qual |-> qual, ele |-> ele, sub |-> sub,
   hasele |-> hasele, hassub |-> hassub]
CanonOf(n) ==
  LET s == SegOf(n) IN
  IF K(n) = "loop" THEN PRec(LoopIds(n), PD!None, PD!None, 0, FALSE, 0, FALSE)
  ELSE LET lp == LoopIds(Nodes[s].parent)  q == BestQual(s) IN
       IF K(n) = "segment" THEN PRec(lp, Xid(s), q, 0, FALSE, 0, FALSE)
       ELSE IF K(n) \in {"element", "composite"} THEN PRec(lp, Xid(s), q, SeqOf(n), TRUE, 0, FALSE)
       ELSE PRec(lp, Xid(s), q, SeqOf(Nodes[n].parent), TRUE, SeqOf(n), TRUE)
CanonText(n) == PD!PrintPath(CanonOf(n))

(* ------------------------------------------------------------ well-formedness of one node *)
Fact(n, c, a, s) == [n |-> n, c |-> c, a |-> a, s |-> s]
UsageOK(n) == Nodes[n].usage \in {"R", "S", "N"}
LimitOK(t) == t = ">1" \/ (IsNat(t) /\ Num(t) >= 1)
SeqsOK(n) == LET ks == Ord[n] IN \A i \in DOMAIN ks : IsNat(Nodes[ks[i]].seq) /\ SeqOf(ks[i]) = i
NoteOK(n, t) == LET d == SY!SplitNote(t) IN d.ok /\ \A i \in DOMAIN d.pos : d.pos[i] <= Len(Nodes[n].kids)
CodeLenOK(r, c) == ~(IsNat(r.min) /\ IsNat(r.max)) \/ (Len(c) >= Num(r.min) /\ Len(c) <= Num(r.max))   \* r: the data element
SamePosPairs(n) == {p \in Range(Nodes[n].kids) \X Range(Nodes[n].kids) :
                      p[1] < p[2] /\ IsNat(Nodes[p[1]].pos) /\ IsNat(Nodes[p[2]].pos) /\ PosOf(p[1]) = PosOf(p[2])}
RECURSIVE JoinSet(_)
JoinSet(S) == IF S = {} THEN "" ELSE LET x == CHOOSE y \in S : TRUE IN x \o (IF S = {x} THEN "" ELSE ",") \o JoinSet(S \ {x})

WF(n) ==
  LET k == K(n)  r == Nodes[n] IN
  (IF k # "map" /\ ~UsageOK(n) THEN {Fact(n, "usage", 0, r.usage)} ELSE {})
  \cup (IF k \in {"loop", "segment"} /\ ~IsNat(r.pos) THEN {Fact(n, "pos", 0, r.pos)} ELSE {})
  \cup (IF k = "loop" /\ ~LimitOK(r.repeat) THEN {Fact(n, "repeat", 0, r.repeat)} ELSE {})
  \cup (IF k = "segment" /\ ~LimitOK(r.max_use) THEN {Fact(n, "max_use", 0, r.max_use)} ELSE {})
  \cup (IF k \in {"segment", "composite"} /\ ~SeqsOK(n) THEN {Fact(n, "seq", 0, "")} ELSE {})
  \cup (IF k = "segment" THEN {Fact(n, "syntax", 0, r.syntax[i]) : i \in {j \in DOMAIN r.syntax : ~NoteOK(n, r.syntax[j])}} ELSE {})
  \cup (IF k \in {"element", "component"} /\ r.data_ele \notin DENums THEN {Fact(n, "data_ele", 0, r.data_ele)} ELSE {})
  \cup (IF k \in {"element", "component"} /\ r.ext # "" /\ r.ext \notin CodeSetIds THEN {Fact(n, "ext_codes", 0, r.ext)} ELSE {})
  \cup (IF k \in {"element", "component"} /\ r.data_ele \in DENums
        THEN LET de == DERec(r.data_ele) IN
             {Fact(n, "inline_code", 0, r.codes[i]) : i \in {j \in DOMAIN r.codes : ~CodeLenOK(de, r.codes[j])}} ELSE {})
  \cup (IF Container(n) THEN {Fact(p[1], "distinguishable", p[2], JoinSet(SharedQual(p[1], p[2]))) :
                                p \in {q \in SamePosPairs(n) : ~Distinguishable(q[1], q[2])}} ELSE {})
  \cup (IF k = "map" /\ TheMap.root_tag # "transaction" THEN {Fact(n, "root", 0, TheMap.root_tag)} ELSE {})

(* ------------------------------------------------------------ the index *)
(* an entry answers a key when version, release and functional id are equal and the purpose code, if asked for, is equal *)
Answers(e, q) == e.icvn = q.icvn /\ e.vriic = q.vriic /\ e.fic = q.fic /\ (~q.has_tspc \/ (e.has_tspc /\ e.tspc = q.tspc))
Matching(q) == {j \in DOMAIN Entries : Answers(Entries[j], q)}
Clash(i, j) == LET a == Entries[i]  b == Entries[j] IN
               a.icvn = b.icvn /\ a.vriic = b.vriic /\ a.fic = b.fic /\ (~a.has_tspc \/ ~b.has_tspc \/ a.tspc = b.tspc)
FileRec(f) == LET S == {i \in DOMAIN Files : Files[i].file = f} IN
              IF S = {} THEN [file |-> f, found |-> FALSE, parsed |-> FALSE] ELSE Files[Min(S)]
IndexWF ==
  {Fact(i, "index_file", 0, Entries[i].file) : i \in {j \in DOMAIN Entries : ~(FileRec(Entries[j].file).found /\ FileRec(Entries[j].file).parsed)}}
  \cup {Fact(p[1], "index_key", p[2], Entries[p[1]].vriic \o "/" \o Entries[p[1]].fic) :
          p \in {q \in (DOMAIN Entries) \X (DOMAIN Entries) : q[1] < q[2] /\ Clash(q[1], q[2])}}
=============================================================================
