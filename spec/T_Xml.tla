-------------------------------- MODULE T_Xml --------------------------------
(* Trace validation for C08: one record per document converted by the real       *)
(* x12n_document(fd_xmldoc=...) and back by xmlx12_simple.convert:               *)
(*  [id, wellformed, segs: <<[path (loop ids of the map node the segment matched, *)
(*   from the validator's callback), first (is it the first segment of its loop), *)
(*   id, src (source element values as sequences of components, elements the map  *)
(*   marks not-used blanked, ISA separator fields masked), xml (<<tag, id, text>>  *)
(*   children of the XML seg element, composites flattened)]>>,                    *)
(*   events (the XML as a sequence of "O:<loop id>", "C", "S:<seg id>"),           *)
(*   back (segments after converting the XML back, same form as src), exc]         *)
EXTENDS XmlOut, PathDef, Json, IOUtils
Recs == JsonDeserialize(IOEnv.TRACE_FILE)
VARIABLES i, rej

RECURSIVE DefEvents(_, _, _)
DefEvents(segs, k, open) ==
  IF k > Len(segs) THEN [j \in 1..Len(open) |-> "C"]
  ELSE LET s == segs[k]
           r == DefStep(open, s.path, s.first)
       IN [j \in 1..r.pops |-> "C"] \o [j \in 1..Len(r.pushes) |-> "O:" \o r.pushes[j]] \o <<"S:" \o s.id>>
          \o DefEvents(segs, k + 1, After(open, r))

(* rebuild a segment from the labelled XML children: every label must be a reference designator of this segment *)
RECURSIVE Rebuild(_, _, _)
Rebuild(seg, items, k) ==
  IF k > Len(items) THEN seg
  ELSE LET it == items[k]  d == Parse(it[2]) IN
       IF ~d.ok \/ d.seg # seg.id \/ d.ele = Absent \/ (it[1] = "ele" /\ d.sub # Absent) \/ (it[1] = "subele" /\ d.sub = Absent)
       THEN [id |-> "<bad label " \o it[2] \o ">", eles |-> <<>>]
       ELSE Rebuild(IF d.sub = Absent THEN SetEle(seg, d.ele, <<it[3]>>) ELSE SetSub(seg, d.ele, d.sub, it[3]), items, k + 1)
RECURSIVE TrimE(_)
TrimE(q) == IF Len(q) > 0 /\ Trim(q[Len(q)]) = <<"">> THEN TrimE(SubSeq(q, 1, Len(q) - 1)) ELSE q
NormE(q) == LET t == TrimE(q) IN [j \in 1..Len(t) |-> Trim(t[j])]
BadSeg(r) == {k \in 1..Len(r.segs) : NormE(Rebuild([id |-> r.segs[k].id, eles |-> <<>>], r.segs[k].xml, 1).eles) # NormE(r.segs[k].src)}
BadBack(r) == {k \in 1..Len(r.segs) : k > Len(r.back) \/ r.back[k].id # r.segs[k].id \/ NormE(r.back[k].eles) # NormE(r.segs[k].src)}
Clause(r) ==
  IF r.exc # "" THEN "exception"
  ELSE IF ~r.wellformed THEN "not_wellformed"
  ELSE IF r.events # DefEvents(r.segs, 1, <<>>) THEN "nesting"
  ELSE IF BadSeg(r) # {} THEN "labels_or_values"
  ELSE IF Len(r.back) # Len(r.segs) \/ BadBack(r) # {} THEN "roundtrip"
  ELSE ""
Init == i = 1 /\ rej = {}
Step == /\ i <= Len(Recs)
        /\ LET c == Clause(Recs[i]) IN rej' = IF c = "" THEN rej ELSE rej \cup {<<Recs[i].id, c>>}
        /\ i' = i + 1
Spec == Init /\ [][Step]_<<i, rej>>
Report == (i > Len(Recs)) => PrintT(<<"REJECTS", ToJson([rej |-> rej])>>)
=============================================================================
