------------------------------ MODULE T_Writer -------------------------------
(* Trace validation for C11: executions of the real pyx12.x12file.X12Writer.    *)
(* A trace: [id, hist, steps, final, same, reread, w, src, isas, exc]            *)
(*   hist   the abstract segments passed to Write() in order                     *)
(*   steps  per Write(): the abstract segments that call appended to the stream  *)
(*   final  all segments in the stream after Close()                             *)
(*   same   every non-trailer output segment equals its input (values, order)    *)
(*   reread <<level, code>> envelope errors of the real X12Reader on the output  *)
(*   w      the writer's delimiter setting [st, et, ct, rt] (code points)         *)
(*   src    the delimiters [seg, ele, sub, rep] the Segment objects passed to     *)
(*          Write() were parsed with (any; the verdict does not depend on them)   *)
(*   isas   every ISA in the output text as observed: [et, nel, e11, e16, ver]    *)
(* Definition clauses (violations): output = WriterDef(hist), same, reread free  *)
(* of everything but caller-supplied duplicate control numbers, every ISA        *)
(* carries the writer's own delimiters (Writer!IsaFault, judged before the        *)
(* re-read because a wrong ISA is the cause of what the reader then reports), no  *)
(* exception.  Implementation-shaped clause (drift): each step's appended        *)
(* segments = what WWrite appends.                                               *)
EXTENDS Naturals, Sequences, FiniteSets, TLC, Json, IOUtils, Writer
VARIABLES ti, k, st, out, rej, drift
vars == <<ti, k, st, out, rej, drift>>
Traces == JsonDeserialize(IOEnv.TRACE_FILE)
DupCodes == {<<"isa","025">>, <<"gs","6">>, <<"st","23">>}
Norm(s) == [k |-> s.k, id |-> s.id, cnt |-> s.cnt]          \* what identifies an envelope segment in the stream
NormSeq(q) == [i \in 1..Len(q) |-> IF q[i].k \in {"ISA","GS","ST","SE","GE","IEA"} THEN Norm(q[i]) ELSE [k |-> q[i].k, id |-> "", cnt |-> ""]]

FaultRank(f) == CASE f = "isa16" -> 1 [] f = "isa11" -> 2 [] OTHER -> 3
IsaClause(tr) ==                                              \* "" or isa_delims:<field>:<ISA12 of the faulty ISA>
  LET F == {i \in 1..Len(tr.isas) : IsaFault(tr.w, tr.isas[i]) # ""}
      Key(i) == FaultRank(IsaFault(tr.w, tr.isas[i])) * 100000 + i
  IN IF F = {} THEN ""
     ELSE LET i == CHOOSE x \in F : \A y \in F : Key(x) <= Key(y)
          IN "isa_delims:" \o IsaFault(tr.w, tr.isas[i]) \o ":" \o tr.isas[i].ver
FinalClause(tr) ==
  IF tr.exc # "" THEN "crash"
  ELSE IF ~WellNested(tr.hist) \/ ~SettingOk(tr.w) \/ ~SourceOk(tr.src) THEN ""     \* the property makes no claim
  ELSE IF NormSeq(tr.final) # NormSeq(WriterDef(tr.hist)) THEN "output"
  ELSE IF ~tr.same THEN "content"
  ELSE IF IsaClause(tr) # "" THEN IsaClause(tr)
  ELSE IF ~({tr.reread[i] : i \in 1..Len(tr.reread)} \subseteq DupCodes) THEN "reread"
  ELSE ""

Init == ti = 1 /\ k = 1 /\ st = EnvInit /\ out = <<>> /\ rej = {} /\ drift = {}
Step ==
  /\ ti <= Len(Traces)
  /\ LET tr == Traces[ti] IN
     IF k > Len(tr.steps) \/ tr.exc # "" THEN
        LET c == FinalClause(tr) IN
        /\ rej' = IF c = "" THEN rej ELSE rej \cup {<<tr.id, c, Coincide(tr.w, tr.src)>>}
        /\ ti' = ti + 1 /\ k' = 1 /\ st' = EnvInit /\ out' = <<>> /\ UNCHANGED drift
     ELSE
        LET r == WWrite(st, out, tr.hist[k])
            new == SubSeq(r.out, Len(out) + 1, Len(r.out))
        IN /\ drift' = IF NormSeq(new) = NormSeq(tr.steps[k]) \/ Cardinality(drift) >= 10 THEN drift ELSE drift \cup {<<tr.id, k>>}
           /\ st' = r.st /\ out' = r.out /\ k' = k + 1 /\ UNCHANGED <<ti, rej>>
Spec == Init /\ [][Step]_vars
Report == (ti > Len(Traces)) => PrintT(<<"REJECTS", ToJson([rej |-> rej, drift |-> drift])>>)
=============================================================================
