---------------------------- MODULE T_ElemValid ----------------------------
(* Trace validation for C15 (code -> spec).  The trace file holds `groups`, one  *)
(* group per definition signature (read from the map / dataele / codes XML by    *)
(* the recorder's own XML reading, not by pyx12):                                *)
(*                                                                               *)
(*  kind = "element"  : [d (element definition, see ElemValid), cases]           *)
(*     case = [absent, isComp, s, cp, n, ext, rx, cs, excl, tl, qual, res, codes]*)
(*       the real element_if.is_valid was called with this value (directly, or   *)
(*       - qual # "" - through segment_if.is_valid on a segment whose preceding  *)
(*       qualifier element carries `qual` and whose other elements are clean);   *)
(*       n = length measured by the recorder; res = "true"|"false"|"exc";        *)
(*       codes = the error codes found in errh_list.err_ele, in order.           *)
(*  kind = "composite": [d = [usage, kids], cases]                               *)
(*     case = [absent, comps = <<[s, cp, n, ext, rx]>>, cs, excl = <<BOOLEAN>>,  *)
(*             res, codes]   the real composite_if.is_valid was called.          *)
(*                                                                               *)
(* One TLC state per group; every case is judged by the definition (ElemValid):  *)
(* the broken constraints are recomputed from definition and value, the monitor  *)
(* Clause names the failing clause.  Verdicts are total: rejected cases are      *)
(* collected (at most Cap examples per class) and printed once at the end.       *)
EXTENDS ElemValid, Json, IOUtils
CONSTANT Cap
VARIABLES i, rej, nrej, stat
vars == <<i, rej, nrej, stat>>

T == JsonDeserialize(IOEnv.TRACE_FILE)
Groups == T.groups

(* the text and its code points must have survived the transport unchanged *)
TransportOK(x) == /\ Len(x.s) = x.n
                  /\ Len(x.cp) = x.n
                  /\ \A k \in 1..x.n : x.cp[k] \in 32..126 => AsciiCh(x.cp[k]) = Ch(x.s, k)

MkV(x) == [absent |-> FALSE, isComp |-> FALSE, s |-> x.s, cp |-> x.cp, ext |-> x.ext, rx |-> x.rx]

ElemJudge(d, c) ==
  LET V == [absent |-> c.absent, isComp |-> c.isComp, s |-> c.s, cp |-> c.cp, ext |-> c.ext, rx |-> c.rx]
      S == [cs |-> c.cs, excl |-> c.excl, tl |-> IF c.qual # "" THEN Selected(c.qual) ELSE c.tl]
      B == Broken(d, V, S)
      base == Clause(B, c)
  IN [clause |-> IF ~c.absent /\ ~c.isComp /\ ~TransportOK(c) THEN "transport"
                 ELSE IF base # "" THEN base
                 ELSE IF ~Complete(B, SeqSet(c.codes)) THEN "incomplete" ELSE "",
      names |-> {b[1] : b \in B}, nb |-> Cardinality(B), implied |-> Implied(B)]

CompJudge(d, c) ==
  LET V == [absent |-> c.absent, comps |-> [k \in 1..Len(c.comps) |-> MkV(c.comps[k])]]
      S == [cs |-> c.cs, excl |-> c.excl]
      B == CompBroken(d, V, S)
      (* the components are judged one by one: unless the composite itself is at fault (component 0), every component with a broken
         constraint has one of its codes reported AT that component - an error of one component does not hide another's *)
      own(ci) == {b \in B : b[3] = ci}
      hidden == {ci \in 1..Len(d.kids) : own(ci) # {} /\ ~\E x \in 1..Len(c.cc) : c.cc[x][2] = ci /\ c.cc[x][1] \in {b[2] : b \in own(ci)}}
      base == Clause(B, c)
  IN [clause |-> IF \E k \in 1..Len(c.comps) : ~TransportOK(c.comps[k]) THEN "transport"
                 ELSE IF base # "" THEN base
                 ELSE IF own(0) = {} /\ c.res # "exc" /\ hidden # {} THEN "component_missed" ELSE "",
      names |-> {b[1] \o "@" \o ToString(b[3]) : b \in B}, nb |-> Cardinality(B), implied |-> Implied(B)]

Judge(g, k) == IF g.kind = "composite" THEN CompJudge(g.d, g.cases[k]) ELSE ElemJudge(g.d, g.cases[k])

(* examples are kept per class: failing clause, broken constraints, kind / usage / data type of the definition *)
Class(e) == <<e.clause, e.names, e.ctx>>
Ctx(g) == IF g.kind = "composite" THEN <<g.kind, g.d.usage>> ELSE <<g.kind, g.d.usage, g.d.dtype, g.d.inComp>>
Least(S) == CHOOSE e \in S : \A f \in S : e.k <= f.k

Init == i = 1 /\ rej = {} /\ nrej = 0 /\ stat = [cases |-> 0, none |-> 0, one |-> 0, many |-> 0]
Step == /\ i <= Len(Groups)
        /\ LET g == Groups[i]
               J == [k \in 1..Len(g.cases) |-> Judge(g, k)]
               bad == {[g |-> i, k |-> k, clause |-> J[k].clause, names |-> J[k].names, implied |-> J[k].implied, ctx |-> Ctx(g)]
                          : k \in {x \in 1..Len(g.cases) : J[x].clause # ""}}
               firsts == {Least({e \in bad : Class(e) = cl}) : cl \in {Class(e) : e \in bad}}
           IN /\ nrej' = nrej + Cardinality(bad)
              /\ rej' = rej \cup {e \in firsts : Cardinality({f \in rej : Class(f) = Class(e)}) < Cap}
              /\ stat' = [cases |-> stat.cases + Len(g.cases),
                          none |-> stat.none + Cardinality({k \in 1..Len(g.cases) : J[k].nb = 0}),
                          one |-> stat.one + Cardinality({k \in 1..Len(g.cases) : J[k].nb = 1}),
                          many |-> stat.many + Cardinality({k \in 1..Len(g.cases) : J[k].nb > 1})]
        /\ i' = i + 1
Done == i > Len(Groups)
Next == Step
Spec == Init /\ [][Next]_vars
Report == Done => PrintT(<<"REJECTS", ToJson([n |-> nrej, stat |-> stat, rej |-> rej])>>)
=============================================================================
