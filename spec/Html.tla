-------------------------------- MODULE Html --------------------------------
(* C19 - the HTML error report of pyx12 (error_html.py fed by x12n_document).   *)
(*                                                                              *)
(* (a) DEFINITION LAYER.  The report is a sequence of items                     *)
(*        [k |-> "seg",  line, tok]            one source segment               *)
(*        [k |-> "err",  lvl, code, tok, tags] one error message                *)
(*        [k |-> "info", tok]                  a loop heading                   *)
(*     tok is the raw content of the item as a sequence of integer tokens:      *)
(*        n >= 0          the character with code point n written literally     *)
(*        EAmp .. EApos   the named entities &amp; &lt; &gt; &nbsp; &quot; &apos;*)
(*        NumRef(n)       the numeric reference &#n;                            *)
(*        THiOpen/THiClose the highlight span put around a bad element value    *)
(*     Escape(c) is the set of renderings of input character c that cannot      *)
(*     introduce markup, Unescape its inverse, StripMarkup(items) what is left  *)
(*     of the segment lines when the markup is removed.  The predicates at the  *)
(*     end (SegVerdict, ErrVerdicts, EscVerdicts, Complete) are the property.   *)
(*                                                                              *)
(* (b) IMPLEMENTATION-SHAPED LAYER.  err_handler (the growing error tree),      *)
(*     err_iter (the cursor x12n_document advances after every segment until    *)
(*     IterOutOfBounds), error_html.gen_seg / footer, as constant operators on  *)
(*     a state record; HtmlGen.tla drives them with every tree-growth sequence, *)
(*     T_Html.tla with the calls recorded from the real code.                   *)
EXTENDS Integers, Sequences, FiniteSets, TLC

(* ======================= (a) definition layer ============================== *)
Amp == 38   Lt == 60   Gt == 62   Quot == 34   Apos == 39   Blank == 32   NbspChar == 160
EAmp == -1  ELt == -2  EGt == -3  ENbsp == -4  EQuot == -5  EApos == -6
THiOpen == -100   THiClose == -101
NumRefBase == -1000
NumRef(c) == NumRefBase - c
MarkupChars == {Amp, Lt, Gt}          \* written literally these start a tag or an entity
IsTag(t) == t \in {THiOpen, THiClose}

(* renderings of one input character that are inert in a text position *)
Escape(c) ==
  CASE c = Amp   -> {EAmp, NumRef(Amp)}
    [] c = Lt    -> {ELt, NumRef(Lt)}
    [] c = Gt    -> {EGt, NumRef(Gt)}
    [] c = Quot  -> {Quot, EQuot, NumRef(Quot)}
    [] c = Apos  -> {Apos, EApos, NumRef(Apos)}
    [] c = Blank -> {Blank, ENbsp, NumRef(Blank), NumRef(NbspChar)}
    [] OTHER     -> {c, NumRef(c)}
(* the character a token stands for (a non-breaking space shows a blank of the input) *)
Unescape(t) ==
  IF t >= 0 THEN t
  ELSE IF t <= NumRefBase THEN (IF NumRefBase - t = NbspChar THEN Blank ELSE NumRefBase - t)
  ELSE CASE t = EAmp -> Amp [] t = ELt -> Lt [] t = EGt -> Gt [] t = ENbsp -> Blank
         [] t = EQuot -> Quot [] t = EApos -> Apos [] OTHER -> t
Plain(toks) == SelectSeq(toks, LAMBDA t : ~IsTag(t))
TextOf(toks) == LET p == Plain(toks) IN [i \in 1..Len(p) |-> Unescape(p[i])]
RawMarkup(toks) == \E i \in 1..Len(toks) : toks[i] \in MarkupChars
EscapedAs(toks, text) == LET p == Plain(toks) IN
  Len(p) = Len(text) /\ \A i \in 1..Len(p) : p[i] \in Escape(text[i])
HasSpecial(text) == \E i \in 1..Len(text) : text[i] \in MarkupChars

(* Canonical form of a segment text under delimiters d = [st, et, ct]: without the segment terminator, without    *)
(* empty trailing components / elements (X12 does not distinguish "REF*A**" from "REF*A").                       *)
Kept(s, d, i) ==          \* character i of s survives: not part of the empty tail, not an empty trailing component of an element
  LET n == Len(s) IN
  /\ ~(\A k \in i..n : s[k] \in {d.et, d.ct})
  /\ ~(s[i] = d.ct /\ \E j \in (i + 1)..(n + 1) : (j = n + 1 \/ s[j] = d.et) /\ \A k \in (i + 1)..(j - 1) : s[k] = d.ct)
DropTerm(s, d) == IF Len(s) > 0 /\ s[Len(s)] = d.st THEN SubSeq(s, 1, Len(s) - 1) ELSE s
Canon(s, d, sid) ==
  LET t == DropTerm(s, d) IN
  IF sid = "ISA" THEN t
  ELSE LET keep == SelectSeq([q \in 1..Len(t) |-> q], LAMBDA i : Kept(t, d, i)) IN [q \in 1..Len(keep) |-> t[keep[q]]]

SegItems(items) == SelectSeq(items, LAMBDA x : x.k = "seg")
(* what remains of the report when the markup is stripped: the listed segments with their line numbers *)
StripMarkup(items, segs, d) ==
  LET si == SegItems(items) IN
  [i \in 1..Len(si) |-> [line |-> si[i].line,
                         text |-> Canon(TextOf(si[i].tok), d, IF i <= Len(segs) THEN segs[i].sid ELSE "")]]
Source(segs, d) == [i \in 1..Len(segs) |-> [line |-> segs[i].line, text |-> Canon(segs[i].text, d, segs[i].sid)]]
SameText(a, b, d, sid) == a = b \/ Canon(a, d, sid) = Canon(b, d, sid)

(* ---- completeness of the listing: returns [c, i] (clause, position) with c = "" when the listing is right,     *)
(* i.e. exactly when StripMarkup(items, segs, d) = Source(segs, d) and no segment line holds a literal & < >.     *)
Min(S) == CHOOSE x \in S : \A y \in S : x <= y
SegVerdict(segs, items, d) ==
  LET si  == SegItems(items)
      n   == Len(segs)
      m   == Len(si)
      k   == IF m < n THEN m ELSE n
      shown == [i \in 1..m |-> TextOf(si[i].tok)]
      \* raw: the text is the segment as written in the source (cut independently of the reader): the report shows it as it is,
      \* empty trailing elements and components included; otherwise texts are compared in canonical form
      same(i, j) == IF segs[j].raw THEN shown[i] = segs[j].text ELSE SameText(shown[i], segs[j].text, d, segs[j].sid)
      badtext == {i \in 1..k : ~same(i, i)}
      badline == {i \in 1..k : si[i].line # segs[i].line}
      raw == {i \in 1..m : RawMarkup(si[i].tok)}
      perm == \A i \in 1..n : Cardinality({j \in 1..n : same(j, i)})
                              = Cardinality({j \in 1..n : SameText(segs[j].text, segs[i].text, d, segs[i].sid)})
  IN IF raw # {} THEN [c |-> "unescaped_segment_text", i |-> Min(raw)]
     ELSE IF m < n THEN [c |-> "segment_missing", i |-> IF badtext # {} THEN Min(badtext) ELSE m + 1]
     ELSE IF m > n THEN [c |-> "segment_extra", i |-> IF badtext # {} THEN Min(badtext) ELSE n + 1]
     ELSE IF badtext # {} THEN
            LET i == Min(badtext) IN
            IF perm THEN [c |-> "segment_order", i |-> i]
            ELSE IF HasSpecial(segs[i].text) THEN [c |-> "unescaped_segment_text", i |-> i]
            ELSE [c |-> "values", i |-> i]
     ELSE IF badline # {} THEN [c |-> "line_number", i |-> Min(badline)]
     ELSE IF StripMarkup(items, segs, d) # Source(segs, d) THEN [c |-> "strip_markup_mismatch", i |-> 0]
     ELSE [c |-> "", i |-> 0]

(* ---- errors next to their segment ----------------------------------------------------------------------------- *)
(* errs: the errors reported while segment s was validated, in order: [s, lvl, code, msg, att, taint].             *)
(* Claimed: segment-level and element-level errors that were stored for a segment (s >= 1).                        *)
Claimed(e) == e.s >= 1 /\ e.lvl \in {"seg", "ele"} /\ e.att
Idx(n) == [q \in 1..n |-> q]
SegPos(items) == SelectSeq(Idx(Len(items)), LAMBDA p : items[p].k = "seg")
(* SlotSeq(j): the error items standing between segment line j and segment line j+1 (j = 0: before the first) *)
SlotSeq(items, sp, j) ==
  LET lo == IF j = 0 THEN 0 ELSE sp[j]
      hi == IF j >= Len(sp) THEN Len(items) + 1 ELSE sp[j + 1]
  IN SelectSeq([q \in 1..(hi - lo - 1) |-> lo + q], LAMBDA p : items[p].k = "err")
Slot(items, sp, j) == LET q == SlotSeq(items, sp, j) IN {q[x] : x \in 1..Len(q)}
(* the text an error line shows.  A line written without any escaping shows its entities literally: Spelled.      *)
Spell(t) == CASE t = EAmp -> <<38, 97, 109, 112, 59>> [] t = ELt -> <<38, 108, 116, 59>> [] t = EGt -> <<38, 103, 116, 59>>
              [] t = ENbsp -> <<38, 110, 98, 115, 112, 59>> [] t = EQuot -> <<38, 113, 117, 111, 116, 59>>
              [] t = EApos -> <<38, 97, 112, 111, 115, 59>> [] OTHER -> <<t>>
RECURSIVE SpelledR(_, _)
SpelledR(p, i) == IF i > Len(p) THEN <<>> ELSE Spell(p[i]) \o SpelledR(p, i + 1)
Spelled(toks) == SpelledR(Plain(toks), 1)
HasEntity(toks) == \E i \in 1..Len(toks) : toks[i] < 0 /\ toks[i] > NumRefBase /\ ~IsTag(toks[i])
Shows(item, txt, msg) == txt = msg \/ (HasEntity(item.tok) /\ Spelled(item.tok) = msg)
(* "next to segment s": in the slot before or the slot after its line.  Earliest free item first (optimal on a chain). *)
RECURSIVE MatchErrs(_, _, _, _, _, _, _)
MatchErrs(errs, i, items, txt, sp, used, out) ==
  IF i > Len(errs) THEN [used |-> used, out |-> out]
  ELSE LET e == errs[i] IN
       IF ~Claimed(e) \/ e.s > Len(sp) THEN MatchErrs(errs, i + 1, items, txt, sp, used, out)
       ELSE LET cand == {p \in (Slot(items, sp, e.s - 1) \cup Slot(items, sp, e.s)) \ DOMAIN used : Shows(items[p], txt[p], e.msg)} IN
            IF cand # {} THEN MatchErrs(errs, i + 1, items, txt, sp, used @@ (Min(cand) :> i), out)
            ELSE LET far == {p \in 1..Len(items) : items[p].k = "err" /\ p \notin DOMAIN used /\ Shows(items[p], txt[p], e.msg)} IN
                 MatchErrs(errs, i + 1, items, txt, sp, used,
                           Append(out, [c |-> IF far # {} THEN "error_misplaced" ELSE "error_missing", i |-> i]))
EmptyFcn == [x \in {} |-> 0]
ErrTexts(items) == [p \in 1..Len(items) |-> IF items[p].k = "err" THEN TextOf(items[p].tok) ELSE <<>>]
ErrMatching(errs, items) == MatchErrs(errs, 1, items, ErrTexts(items), SegPos(items), EmptyFcn, <<>>)
(* ---- escaping inside messages: an input-derived & < > (position in e.taint) must not be written literally (a    *)
(* line that only matches when its entities are read literally was written without escaping); a message must not  *)
(* contain anything a parser takes for a tag (it would swallow part of the message).                               *)
EscVerdicts(errs, items, used) ==
  LET txt == ErrTexts(items)
      bad(p, e) == \/ (txt[p] # e.msg /\ HasSpecial(e.msg))
                   \/ \E q \in 1..Len(e.taint) : e.taint[q] <= Len(Plain(items[p].tok)) /\ Plain(items[p].tok)[e.taint[q]] \in MarkupChars
      viaMatch == {<<p, used[p]>> : p \in DOMAIN used}
      unclaimed == {i \in 1..Len(errs) : ~Claimed(errs[i]) /\ errs[i].taint # <<>>}
      others == {pi \in ({p \in 1..Len(items) : items[p].k = "err"} \ DOMAIN used) \X unclaimed : Shows(items[pi[1]], txt[pi[1]], errs[pi[2]].msg)}
      input == {pi \in viaMatch \cup others : bad(pi[1], errs[pi[2]])}
      tags == {p \in 1..Len(items) : items[p].k = "err" /\ items[p].tags > 0}
  IN {[c |-> "unescaped_message", origin |-> "input", p |-> pi[1], i |-> pi[2]] : pi \in input}
     \cup {[c |-> "unescaped_message", origin |-> "tag", p |-> p, i |-> 0] : p \in tags}

(* ---- a complete document ---- *)
Complete(doc) == /\ doc.html_open /\ doc.head /\ doc.title /\ doc.body_open /\ doc.body_close /\ doc.html_close
                 /\ doc.balanced /\ ~doc.trailing /\ ~doc.before

(* situation of a segment, used to tell apart the causes of a missing message (not part of the verdict).          *)
(* sids: the segment ids in source order.  NestFold: envelope stack after the first k segments, and whether a     *)
(* header / trailer arrived out of place up to there.                                                              *)
Envelope == {"ISA", "GS", "ST", "SE", "GE", "IEA"}
RECURSIVE NestFold(_, _, _, _)
NestFold(sids, i, k, acc) ==
  IF i > k THEN acc
  ELSE LET s == sids[i]
           st == acc.stack
           top == IF st = <<>> THEN "" ELSE st[Len(st)]
           pop == SubSeq(st, 1, Len(st) - 1)
           open(h, want) == [stack |-> Append(st, h), fault |-> acc.fault \/ top # want]
           close(h) == IF top = h THEN [stack |-> pop, fault |-> acc.fault] ELSE [stack |-> st, fault |-> TRUE]
           r == CASE s = "ISA" -> open("ISA", "") [] s = "GS" -> open("GS", "ISA") [] s = "ST" -> open("ST", "GS")
                  [] s = "SE" -> close("ST") [] s = "GE" -> close("GS") [] s = "IEA" -> close("ISA")
                  [] OTHER -> acc
       IN NestFold(sids, i + 1, k, r)
Where(sids, k) ==
  LET nisa == Cardinality({i \in 1..k : sids[i] = "ISA"})
      f == NestFold(sids, 1, k, [stack |-> <<>>, fault |-> FALSE])
      before == NestFold(sids, 1, k - 1, [stack |-> <<>>, fault |-> FALSE])
  IN IF nisa >= 2 THEN "later_interchange"
     ELSE IF f.fault THEN "after_misnested_envelope"
     ELSE IF sids[k] \in Envelope THEN "envelope_segment"
     ELSE IF before.stack = <<>> \/ before.stack[Len(before.stack)] # "ST" THEN "outside_set"
     ELSE "body_segment"

(* ======================= (b) implementation-shaped layer ==================== *)
(* error tree: nodes[1] is ROOT; a node is [kind, parent, kids, closed, errs, eles]; an error record is           *)
(* [lvl, code, u, on] (u identifies the error, on = id class of the segment being validated when it was reported). *)
(* Element error nodes (err_ele) live in enodes (each a sequence of error records); a node lists the ids of the     *)
(* element nodes appended to its `elements`.  add_ele creates a fresh, unattached element node; ele_error attaches  *)
(* the current one (once) to the current segment node and appends the error to it - also when no add_ele preceded   *)
(* the call ("too many elements"), in which case the error lands in whatever element node was current.              *)
Node(kind, parent) == [kind |-> kind, parent |-> parent, kids |-> <<>>, closed |-> FALSE, errs |-> <<>>, eles |-> <<>>]
HInit == [nodes |-> <<[Node("ROOT", 0) EXCEPT !.closed = TRUE]>>, isa |-> 0, gs |-> 0, st |-> 0, cur |-> 0, added |-> FALSE, crashed |-> FALSE,
          enodes |-> <<>>, ele |-> 0, eleadded |-> FALSE]
AddKid(nodes, p, id) == [nodes EXCEPT ![p].kids = Append(@, id)]
Crash(H) == [H EXCEPT !.crashed = TRUE]
ErrRec(c) == [lvl |-> c.lvl, code |-> c.code, u |-> c.u, on |-> c.on]
AttachCur(H) == IF H.added THEN H ELSE [H EXCEPT !.nodes = AddKid(@, H.st, H.cur), !.added = TRUE]      \* _add_cur_seg
(* one call on err_handler; c = [op, lvl, code, u, on] *)
Apply(H, c) ==
  IF H.crashed THEN H ELSE
  LET id == Len(H.nodes) + 1 IN
  CASE c.op = "add_isa" -> [H EXCEPT !.nodes = AddKid(Append(@, Node("ISA", 1)), 1, id), !.isa = id, !.cur = id, !.added = TRUE]
    [] c.op = "add_gs"  -> IF H.isa = 0 THEN Crash(H)
                           ELSE [H EXCEPT !.nodes = AddKid(Append(@, Node("GS", H.isa)), H.isa, id), !.gs = id, !.cur = id, !.added = TRUE]
    [] c.op = "add_st"  -> IF H.gs = 0 THEN Crash(H)
                           ELSE [H EXCEPT !.nodes = AddKid(Append(@, Node("ST", H.gs)), H.gs, id), !.st = id, !.cur = id, !.added = TRUE]
    [] c.op = "add_seg" -> [H EXCEPT !.nodes = Append(@, [Node("SEG", H.st) EXCEPT !.closed = TRUE]), !.cur = id, !.added = FALSE]
    [] c.op = "seg_error" ->      \* try: _add_cur_seg(); cur_seg_node.add_error(cde, str, value)  except: pass
         IF (~H.added /\ H.st = 0) \/ H.cur = 0 THEN H
         ELSE LET H1 == AttachCur(H) IN
              IF H1.nodes[H1.cur].kind = "SEG" THEN [H1 EXCEPT !.nodes[H1.cur].errs = Append(@, ErrRec(c))]
              ELSE H1             \* the envelope nodes' add_error takes two arguments: TypeError, swallowed
    [] c.op = "add_ele" -> IF H.cur = 0 THEN Crash(H)
                           ELSE [H EXCEPT !.enodes = Append(@, <<>>), !.ele = Len(H.enodes) + 1, !.eleadded = FALSE]
    [] c.op = "ele_error" ->      \* _add_cur_ele(): _add_cur_seg(); if not ele_node_added: cur_seg_node.elements.append(cur_ele_node)
         IF (~H.added /\ H.st = 0) \/ H.cur = 0 \/ H.ele = 0 THEN Crash(H)
         ELSE LET H1 == AttachCur(H)
                  H2 == IF H1.eleadded THEN H1 ELSE [H1 EXCEPT !.nodes[H1.cur].eles = Append(@, H1.ele), !.eleadded = TRUE]
              IN [H2 EXCEPT !.enodes[H2.ele] = Append(@, ErrRec(c))]
    [] c.op = "isa_error" -> IF H.isa = 0 THEN Crash(H) ELSE [H EXCEPT !.nodes[H.isa].errs = Append(@, ErrRec(c))]
    [] c.op = "gs_error"  -> IF H.gs = 0 THEN Crash(H) ELSE [H EXCEPT !.nodes[H.gs].errs = Append(@, ErrRec(c))]
    [] c.op = "st_error"  -> IF H.st = 0 THEN Crash(H) ELSE [H EXCEPT !.nodes[H.st].errs = Append(@, ErrRec(c))]
    [] c.op = "close_isa" -> IF H.isa = 0 THEN Crash(H) ELSE [H EXCEPT !.nodes[H.isa].closed = TRUE, !.cur = H.isa, !.added = TRUE]
    [] c.op = "close_gs"  -> IF H.gs = 0 THEN Crash(H) ELSE [H EXCEPT !.nodes[H.gs].closed = TRUE, !.cur = H.gs, !.added = TRUE]
    [] c.op = "close_st"  -> IF H.st = 0 THEN Crash(H) ELSE [H EXCEPT !.nodes[H.st].closed = TRUE, !.cur = H.st, !.added = TRUE]
    [] OTHER -> H
RECURSIVE ApplyAll(_, _, _)
ApplyAll(H, calls, i) == IF i > Len(calls) THEN H ELSE ApplyAll(Apply(H, calls[i]), calls, i + 1)

(* ---- err_iter: [cur, stack]; IterNext returns [ok, it] (ok = FALSE: IterOutOfBounds was raised) ---- *)
ItInit == [cur |-> 1, stack |-> <<>>]
InSeq(x, s) == \E i \in 1..Len(s) : s[i] = x
NextSibling(nodes, n) ==
  IF nodes[n].parent = 0 THEN 0
  ELSE LET ks == nodes[nodes[n].parent].kids
           at == {i \in 1..Len(ks) : ks[i] = n}
       IN IF at = {} THEN 0 ELSE LET i == Min(at) IN IF i < Len(ks) THEN ks[i + 1] ELSE 0
IterNext(nodes, it) ==
  LET cur == it.cur
      visited == InSeq(cur, it.stack)
      child == IF visited \/ nodes[cur].kids = <<>> THEN 0 ELSE nodes[cur].kids[1]
      sib == NextSibling(nodes, cur)
      par == nodes[cur].parent
  IN IF child # 0 THEN [ok |-> TRUE, it |-> [cur |-> child, stack |-> Append(it.stack, cur)]]
     ELSE IF sib # 0 THEN [ok |-> TRUE, it |-> [it EXCEPT !.cur = sib]]
     ELSE IF ~nodes[cur].closed THEN [ok |-> FALSE, it |-> it]
     ELSE IF par = 0 THEN [ok |-> FALSE, it |-> it]
     ELSE IF ~nodes[par].closed THEN [ok |-> FALSE, it |-> it]
     ELSE LET stk == IF visited THEN SubSeq(it.stack, 1, Len(it.stack) - 1) ELSE it.stack IN
          [ok |-> nodes[par].kind # "ROOT", it |-> [cur |-> par, stack |-> stk]]
(* while True: next(err_iter); err_node_list.append(cur)   until IterOutOfBounds *)
RECURSIVE Collect(_, _, _)
Collect(nodes, it, acc) ==
  LET r == IterNext(nodes, it) IN
  IF r.ok THEN Collect(nodes, r.it, Append(acc, r.it.cur)) ELSE [it |-> r.it, list |-> acc]

(* ---- error_html.gen_seg: which stored errors are written before / after the line of a segment of class sid ---- *)
ErrList(node, sid) ==          \* err_node.get_error_list(seg_id)
  CASE node.kind = "SEG" -> node.errs
    [] node.kind = "GS" -> IF sid = "GS" THEN SelectSeq(node.errs, LAMBDA e : e.code = "6")
                           ELSE IF sid = "GE" THEN SelectSeq(node.errs, LAMBDA e : e.code # "6") ELSE <<>>
    [] node.kind = "ST" -> IF sid = "ST" THEN SelectSeq(node.errs, LAMBDA e : e.code \in {"1", "6", "7", "23"})
                           ELSE IF sid = "SE" THEN SelectSeq(node.errs, LAMBDA e : e.code \notin {"1", "6", "7", "23"}) ELSE <<>>
    [] OTHER -> <<>>           \* ISA node: the filter looks for the segment id inside the (numeric) code
RECURSIVE Flat(_)
Flat(ss) == IF Len(ss) = 0 THEN <<>> ELSE Head(ss) \o Flat(Tail(ss))
EleErrs(H, n) == Flat([i \in 1..Len(H.nodes[n].eles) |-> H.enodes[H.nodes[n].eles[i]]])
GenSeg(H, list, sid) ==
  [pre  |-> Flat([i \in 1..Len(list) |-> SelectSeq(ErrList(H.nodes[list[i]], sid), LAMBDA e : e.code = "3")]),
   post |-> Flat([i \in 1..Len(list) |->
                    SelectSeq(ErrList(H.nodes[list[i]], sid), LAMBDA e : e.code # "3")
                    \* an envelope node holds the element errors of its header and of its trailer: each is written at its own line
                    \o SelectSeq(EleErrs(H, list[i]), LAMBDA e : H.nodes[list[i]].kind \notin {"ISA", "GS", "ST"}
                                                                  \/ ((e.on \in {"IEA", "GE", "SE"}) = (sid \in {"IEA", "GE", "SE"})))])]
(* ---- error_html.footer: trailing envelope errors; crashed when no set / group / interchange was ever opened ---- *)
Footer(H) ==
  IF H.st = 0 \/ H.gs = 0 \/ H.isa = 0 THEN [crashed |-> TRUE, errs |-> <<>>]
  ELSE [crashed |-> FALSE,
        errs |-> (IF H.nodes[H.st].closed THEN <<>> ELSE SelectSeq(H.nodes[H.st].errs, LAMBDA e : e.code = "2"))
              \o (IF H.nodes[H.gs].closed THEN <<>> ELSE SelectSeq(H.nodes[H.gs].errs, LAMBDA e : e.code = "3"))
              \o (IF H.nodes[H.isa].closed THEN <<>> ELSE SelectSeq(H.nodes[H.isa].errs, LAMBDA e : e.code = "023"))]
Uids(es) == [i \in 1..Len(es) |-> es[i].u]
=============================================================================
