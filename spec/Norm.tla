-------------------------------- MODULE Norm --------------------------------
(* C20: the command line normaliser (pyx12/scripts/x12norm.py).                  *)
(*  NormDef  - definition: the segments written are the segments read (values    *)
(*             unchanged, trailing empties trimmed); with count fixing, a        *)
(*             declared IEA01 / GE01 / SE01 / HL01 that disagrees with the       *)
(*             recount is replaced by the recounted value and nothing else.      *)
(*  NormImpl - implementation-shaped: the reader model (Envelope!Reader) run     *)
(*             over the input, a field rewritten from the reader's running       *)
(*             counter when the matching error CODE STRING was popped for that   *)
(*             segment (as coded: by code string only, whatever its level).      *)
EXTENDS Naturals, Sequences, FiniteSets, TLC, Envelope
R == INSTANCE Recount

RightCount(h, i) ==      \* what the count / number of segment i of history h must be
  LET s == h[i] IN
  CASE s.k = "SE"  -> i - R!LastBefore(h, i, "ST") + 1
    [] s.k = "GE"  -> R!CountBetween(h, R!LastBefore(h, i, "GS"), i, {"ST"})
    [] s.k = "IEA" -> R!CountBetween(h, R!LastBefore(h, i, "ISA"), i, {"GS"})
    [] s.k = "HL"  -> R!CountBetween(h, R!LastBefore(h, i, "ST"), i, {"HL"}) + 1
    [] OTHER -> 0
FixSeg(h, i) == LET s == h[i] IN
  IF s.k \in {"SE", "GE", "IEA"} /\ IntOf(s.cnt) # RightCount(h, i) THEN [s EXCEPT !.cnt = ToString(RightCount(h, i))]
  ELSE IF s.k = "HL" /\ IntOf(s.n) # RightCount(h, i) THEN [s EXCEPT !.n = ToString(RightCount(h, i))]
  ELSE s
NormDef(h, fix) == IF fix THEN [i \in 1..Len(h) |-> FixSeg(h, i)] ELSE h

CountClasses == {<<"st", "4">>, <<"gs", "5">>, <<"isa", "021">>, <<"seg", "HL1">>}
OnlyCountDefects(h) ==    \* the inputs the fixing clause of the property talks about
  /\ R!ProperlyNested(h)
  /\ \A i \in 1..Len(h) : R!Discrepancies(SubSeq(h, 1, i), FALSE) \subseteq CountClasses

RECURSIVE ImplFrom(_, _, _, _, _)
ImplFrom(h, i, st, out, fix) ==
  IF i > Len(h) THEN out
  ELSE LET r == Reader(st, h[i], FALSE)
           codes == {r.errs[j][2] : j \in 1..Len(r.errs)}
           s == h[i]
           s2 == IF ~fix THEN s
                 ELSE IF s.k = "IEA" /\ "021" \in codes THEN [s EXCEPT !.cnt = ToString(r.st.gs_count)]
                 ELSE IF s.k = "GE" /\ "5" \in codes THEN [s EXCEPT !.cnt = ToString(r.st.st_count)]
                 ELSE IF s.k = "SE" /\ "4" \in codes THEN [s EXCEPT !.cnt = ToString(r.st.seg_count + 1)]
                 ELSE IF s.k = "HL" /\ "HL1" \in codes THEN [s EXCEPT !.n = ToString(r.st.hl_count)]
                 ELSE s
       IN ImplFrom(h, i + 1, r.st, Append(out, s2), fix)
NormImpl(h, fix) == ImplFrom(h, 1, EnvInit, <<>>, fix)

(* concrete element lists of the abstract segments, exactly as the harness concretises them (lib/c04.seg_elems) *)
RECURSIVE Zeros(_)
Zeros(n) == IF n = 0 THEN "" ELSE "0" \o Zeros(n - 1)
Pad9(id) == IF Len(id) >= 9 THEN id ELSE Zeros(9 - Len(id)) \o id
RECURSIVE TrimEls(_)
TrimEls(q) == IF Len(q) > 1 /\ q[Len(q)] = "" THEN TrimEls(SubSeq(q, 1, Len(q) - 1)) ELSE q
ConcreteEls(s) == TrimEls(
  CASE s.k = "GS"  -> <<"GS", "HC", "SENDER", "RECEIVER", "20200101", "1200", Pad9(s.id), "X", "004010X098A1">>
    [] s.k = "ST"  -> <<"ST", "837", Pad9(s.id)>>
    [] s.k = "SE"  -> <<"SE", s.cnt, Pad9(s.id)>>
    [] s.k = "GE"  -> <<"GE", s.cnt, Pad9(s.id)>>
    [] s.k = "IEA" -> <<"IEA", s.cnt, Pad9(s.id)>>
    [] s.k = "HL"  -> <<"HL", s.n, s.p, "20", "1">>
    [] s.k = "CLM" -> <<"CLM", "A1", "100">>
    [] s.k = "LX"  -> <<"LX", s.n>>
    [] s.k = "ISA" -> <<"ISA", Pad9(s.id)>>      \* the harness reduces an ISA that is unchanged character for character to this
    \* any other (body) segment; a non-empty id is a filler value (real-size inputs: lib/c20.concretise pads documents with it)
    [] OTHER -> <<"REF", "EA", IF s.id = "" THEN "X1" ELSE s.id>>)
=============================================================================
