------------------------------ MODULE T_Session ------------------------------
(* Trace validation for C18 (code -> spec).  The trace file holds               *)
(*   fresh : one record per one-call fresh interpreter                          *)
(*             [doc, kind, seed, ref, g0, g, obs]                               *)
(*           seed = index of the interpreter's string hash seed, ref = TRUE for *)
(*           the process under the first seed                                   *)
(*   hists : one record per history executed in ONE fresh interpreter           *)
(*             [seed, g0, calls]   call = [doc, kind, reuse, g, obs]            *)
(*           g0 / g = digest of the watched globals after import / after the    *)
(*           call;  obs = [verdict, errors, xml, html, ack, out] (digests of    *)
(*           the masked texts, see SessionDef)                                  *)
(* Clauses checked, one TLC state per record / call, total verdicts collected   *)
(* in `rej` and printed once at the end:                                        *)
(*   fresh : Fresh is a function of (doc, kind) alone - every one-call process  *)
(*           observes what the reference process observes, whatever its hash    *)
(*           seed, and leaves globals unchanged                                 *)
(*   hist  : the log is a legal Session behaviour, and for every call           *)
(*           Obs = Fresh(doc, kind) (taken from the one-call process with the   *)
(*           same hash seed) and globals' = globals                             *)
(*   a call that did not return within its CPU / memory budget is recorded with *)
(*   verdict "no_termination" (the process stops there): clause no_termination  *)
EXTENDS SessionDef, Json, IOUtils
VARIABLES phase, i, k, glob, rej
vars == <<phase, i, k, glob, rej>>

T == JsonDeserialize(IOEnv.TRACE_FILE)
Base == T.fresh
Hists == T.hists

BaseIdx == 1..Len(Base)
RefOf(d, kd) == Base[CHOOSE n \in BaseIdx : Base[n].doc = d /\ Base[n].kind = kd /\ Base[n].ref]
FreshOf(d, kd, s) == Base[CHOOSE n \in BaseIdx : Base[n].doc = d /\ Base[n].kind = kd /\ Base[n].seed = s]

CallsOf(h, n) == [j \in 1..n |-> [doc |-> h.calls[j].doc, kind |-> h.calls[j].kind, reuse |-> h.calls[j].reuse]]

Init == phase = "fresh" /\ i = 1 /\ k = 0 /\ glob = "" /\ rej = {}
StepFresh == /\ phase = "fresh" /\ i <= Len(Base)
             /\ LET b == Base[i]
                    cl == CallMismatch(b.obs, RefOf(b.doc, b.kind).obs, b.g0, b.g)
                IN rej' = rej \cup {<<"fresh", i, 1, c>> : c \in cl}
             /\ i' = i + 1 /\ UNCHANGED <<phase, k, glob>>
Switch == /\ phase = "fresh" /\ i > Len(Base)
          /\ phase' = "hists" /\ i' = 1 /\ k' = 0 /\ UNCHANGED <<glob, rej>>
StartHist == /\ phase = "hists" /\ i <= Len(Hists) /\ k = 0
             /\ glob' = Hists[i].g0 /\ k' = 1 /\ UNCHANGED <<phase, i, rej>>
StepHist == /\ phase = "hists" /\ i <= Len(Hists) /\ k >= 1
            /\ IF k > Len(Hists[i].calls) THEN i' = i + 1 /\ k' = 0 /\ UNCHANGED <<glob, rej>>
               ELSE LET h == Hists[i]
                        c == h.calls[k]
                        legal == LegalCall(CallsOf(h, k - 1), c)
                        cl == CallMismatch(c.obs, FreshOf(c.doc, c.kind, h.seed).obs, glob, c.g)
                                \cup (IF legal THEN {} ELSE {"illegal_call"})
                    IN /\ rej' = rej \cup {<<"hist", i, k, x>> : x \in cl}
                       /\ glob' = c.g       \* go on from the observed cell: only the changing call is reported
                       /\ k' = k + 1 /\ i' = i
            /\ UNCHANGED phase
Done == phase = "hists" /\ i > Len(Hists)
Next == StepFresh \/ Switch \/ StartHist \/ StepHist
Spec == Init /\ [][Next]_vars
Report == Done => PrintT(<<"REJECTS", ToJson([n |-> Cardinality(rej), rej |-> rej])>>)
=============================================================================
