------------------------------ MODULE T_Delims -------------------------------
(* Trace validation for C12: for each abstract document, the observations of    *)
(* the real x12n_document under every encoding (delimiter triple x line-break   *)
(* convention) must be one and the same.  A record:                              *)
(*  [doc, enc, verdict, exc, errors (set of <<level, code, segment position,     *)
(*   element position, component position, offending value>>), ack (body of the  *)
(*   acknowledgement as sequences of element strings)]                           *)
(* records of one document are consecutive; the first is the reference.          *)
EXTENDS Naturals, Sequences, FiniteSets, TLC, Json, IOUtils
Recs == JsonDeserialize(IOEnv.TRACE_FILE)
VARIABLES i, ref, rej
ESet(r) == {r.errors[j] : j \in 1..Len(r.errors)}
Clause(r, f) == IF r.exc # f.exc THEN "exception"
                ELSE IF r.verdict # f.verdict THEN "verdict"
                ELSE IF ESet(r) # ESet(f) THEN "errors"
                ELSE IF r.ack # f.ack THEN "acknowledgement"
                ELSE ""
Init == i = 1 /\ ref = 1 /\ rej = {}
Step == /\ i <= Len(Recs)
        /\ LET r == Recs[i]
               first == (i = 1 \/ Recs[i].doc # Recs[ref].doc)
               c == IF first THEN "" ELSE Clause(r, Recs[ref])
           IN /\ ref' = IF first THEN i ELSE ref
              /\ rej' = IF c = "" THEN rej ELSE rej \cup {<<r.doc, r.enc, c>>}
        /\ i' = i + 1
Spec == Init /\ [][Step]_<<i, ref, rej>>
Report == (i > Len(Recs)) => PrintT(<<"REJECTS", ToJson([rej |-> rej])>>)
=============================================================================
