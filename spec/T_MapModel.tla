----------------------------- MODULE T_MapModel ------------------------------
(* C16, trace validation (code -> spec).  Besides the exported constants of    *)
(* MapDef the file holds what the REAL pyx12 did:                               *)
(*   trace   [file, routes ("both" | "dir" | "none": which loads were made),     *)
(*            judged ("pkg"|"dir": the route whose nodes are judged one by one), *)
(*            pkg, dir : [load ("ok" | "exc:<Type>: text"), nodes]]              *)
(*           nodes = the loaded tree in the order the code presents it (map     *)
(*           root first, children as iterated by the code), one record per      *)
(*           node: [kind, id, par, kids, path (get_path(); "" + pexc if it      *)
(*           raised), pos, usage, lim, seq, de, ext, codes, nsyn, dedef,        *)
(*           extdef, g1, g2] with g1 / g2 = what map.getnodebypath(path) /      *)
(*           map.getnodebypath2(path) returned: the number of the node in this  *)
(*           list, 0 for None, -1 for an exception, -2 for a foreign object     *)
(*   queries <<[icvn, vriic, fic, tspc, has_tspc, got]>> map_index.get_filename *)
(*   tables  [given, de <<[num, type, min, max]>>, cs <<[id, n]>>] as loaded    *)
(* One TLC state per loaded node / per query.  Verdicts are total: every        *)
(* failing (node, clause) fact is printed when found (tag FACT) and counted.    *)
(*                                                                             *)
(* Clauses on a node (i = its number in the trace, e = its exported node):      *)
(*   children     the children the code presents are the exported children,     *)
(*                ordered by position (equal positions: document order, or      *)
(*                loops before segments), elements by sequence number           *)
(*   attr_*       kind, id, usage, position, limits, sequence number, data      *)
(*                element, code set name, inline codes as exported              *)
(*   de_defined / ext_defined   the loaded tables define the data element /     *)
(*                code set exactly when the exported tables do                  *)
(*   path_self    the path the node reports resolves (MapDef!Lookup) to it      *)
(*   path_unique  no earlier node of the map reports the same path              *)
(*   fetch1/2     getnodebypath (loops, segments) / getnodebypath2 (loops,      *)
(*                segments, elements, components) on the reported path return   *)
(*                this very node                                               *)
(* On the whole trace: map_loads, routes_equal, all_nodes_loaded, index_lookup, *)
(* tables.                                                                     *)
EXTENDS MapDef
VARIABLES vph, vi, vem, vstat
vars == <<vph, vi, vem, vstat>>

Emit(S) == \A f \in S : PrintT(<<"FACT", ToJson(f)>>)

Tr == T.trace
Judged == IF Tr.judged = "dir" THEN Tr.dir ELSE Tr.pkg
L == Judged.nodes
NL == Len(L)
Queries == T.queries
Tables == T.tables

(* ------------------------------------------------------------ tree correspondence *)
Same(l, e) == L[l].kind = K(e) /\ L[l].id = Xid(e)
MatchKids(lk, ek) == Len(lk) = Len(ek) /\ \A r \in DOMAIN lk : Same(lk[r], ek[r])
ChildrenOK(i, e) == MatchKids(L[i].kids, Ord[e]) \/ MatchKids(L[i].kids, KidsB(e))
KidsFor(i, e) == IF MatchKids(L[i].kids, Ord[e]) THEN Ord[e] ELSE KidsB(e)
RankIn(p, i) == Min({r \in DOMAIN L[p].kids : L[p].kids[r] = i})
(* exported node of loaded node i, given the nodes before it; 0 = none *)
EmOf(i, em) ==
  IF i = 1 THEN (IF NN >= 1 /\ L[1].kind = "map" THEN 1 ELSE 0)
  ELSE LET p == L[i].par IN
       IF p < 1 \/ p >= i \/ em[p] = 0 \/ ~ChildrenOK(p, em[p]) THEN 0
       ELSE IF i \notin Range(L[p].kids) THEN 0 ELSE KidsFor(p, em[p])[RankIn(p, i)]

(* ------------------------------------------------------------ why a path does not work *)
LSeg(i) == IF L[i].kind = "segment" THEN i
           ELSE IF L[i].kind = "component" THEN L[L[i].par].par ELSE IF L[i].kind = "element" THEN L[i].par ELSE 0
SegIdOf(i) == IF L[i].kind = "loop" THEN L[i].id ELSE IF LSeg(i) = 0 THEN "" ELSE L[LSeg(i)].id
(* the structural reason why the own path of node i cannot work, "" if there is none *)
Why(i, e) ==
  LET s == SegOf(e) IN
  IF K(e) = "loop" THEN (IF PD!IsSegId(Xid(e)) THEN "loop_named_like_segment" ELSE "")
  ELSE IF s = 0 THEN ""
  ELSE LET par == Nodes[s].parent
           later == SegChild(par, Xid(s), PD!None) # s           \* an earlier sibling segment has the same id
           ls == LSeg(i)
           segpath == IF ls = 0 \/ L[ls].pexc # "" THEN [ok |-> FALSE] ELSE PD!Parse(L[ls].path)
       IN IF later /\ QualSet(s) = {} THEN "same_id_without_qualifier"
          ELSE IF later /\ \A q \in QualSet(s) : SegChild(par, Xid(s), q) # s THEN "overlapping_qualifier"
          ELSE IF later /\ segpath.ok /\ segpath.qual = PD!None THEN "qualifier_not_in_segment_path"
          ELSE IF later /\ K(e) \in {"element", "component"} THEN "qualifier_not_in_element_path"
          ELSE IF Nodes[par].parent = 1 THEN "segment_of_top_level_loop"
          ELSE ""

(* ------------------------------------------------------------ clauses of one node *)
TF(i, c, a, s) == [n |-> i, c |-> c, a |-> a, s |-> s, k |-> L[i].kind, seg |-> SegIdOf(i), why |-> ""]
TW(i, e, c, a, s) == [n |-> i, c |-> c, a |-> a, s |-> s, k |-> L[i].kind, seg |-> SegIdOf(i), why |-> Why(i, e)]
NoteCount(e) == Cardinality({j \in DOMAIN Nodes[e].syntax : Len(Nodes[e].syntax[j]) >= 1 /\ SubSeq(Nodes[e].syntax[j], 1, 1) \in SY!Types})
AttrFacts(i, e) ==
  LET l == L[i]  k == K(e)  r == Nodes[e] IN
  (IF k # "map" /\ l.usage # r.usage THEN {TF(i, "attr_usage", e, l.usage)} ELSE {})
  \cup (IF k \in {"loop", "segment"} /\ l.pos # PosOf(e) THEN {TF(i, "attr_pos", e, ToString(l.pos))} ELSE {})
  \cup (IF k = "loop" /\ l.lim # r.repeat THEN {TF(i, "attr_repeat", e, l.lim)} ELSE {})
  \cup (IF k = "segment" /\ l.lim # r.max_use THEN {TF(i, "attr_max_use", e, l.lim)} ELSE {})
  \cup (IF k = "segment" /\ l.nsyn # NoteCount(e) THEN {TF(i, "attr_syntax", e, ToString(l.nsyn))} ELSE {})
  \cup (IF k \in {"element", "composite", "component"} /\ l.seq # SeqOf(e) THEN {TF(i, "attr_seq", e, ToString(l.seq))} ELSE {})
  \cup (IF k \in {"element", "composite", "component"} /\ l.de # r.data_ele THEN {TF(i, "attr_data_ele", e, l.de)} ELSE {})
  \cup (IF k \in {"element", "component"} /\ l.ext # r.ext THEN {TF(i, "attr_ext", e, l.ext)} ELSE {})
  \cup (IF k \in {"element", "component"} /\ l.codes # r.codes THEN {TF(i, "attr_codes", e, "")} ELSE {})
  \cup (IF k \in {"element", "component"} /\ l.dedef # (r.data_ele \in DENums) THEN {TF(i, "de_defined", e, r.data_ele)} ELSE {})
  \cup (IF k \in {"element", "component"} /\ r.ext # "" /\ l.extdef # (r.ext \in CodeSetIds) THEN {TF(i, "ext_defined", e, r.ext)} ELSE {})
PathFacts(i, e) ==
  LET l == L[i]  k == K(e) IN
  IF ~Addressed(e) THEN {}
  ELSE IF l.pexc # "" THEN {TW(i, e, "path_raises", 0, l.pexc)}
  ELSE LET found == LookupText(l.path)
           same == {j \in 1..(i - 1) : L[j].path = l.path /\ L[j].kind \in {"loop", "segment", "element", "component"}}
       IN (IF found # e THEN {TW(i, e, "path_self", found, l.path)} ELSE {})
          \cup (IF same # {} THEN {TW(i, e, "path_unique", Min(same), l.path)} ELSE {})
          \cup (IF k \in {"loop", "segment"} /\ l.g1 # i THEN {TW(i, e, "fetch1", l.g1, l.path)} ELSE {})
          \cup (IF l.g2 # i THEN {TW(i, e, "fetch2", l.g2, l.path)} ELSE {})
NodeFacts(i, e) ==
  IF e = 0 THEN {}
  ELSE (IF ~ChildrenOK(i, e) THEN {TF(i, "children", e, "")} ELSE {}) \cup AttrFacts(i, e) \cup PathFacts(i, e)

(* ------------------------------------------------------------ whole-trace clauses *)
G(c, s) == [n |-> 0, c |-> c, a |-> 0, s |-> s, k |-> "", seg |-> "", why |-> ""]
LoadFacts ==
  (IF Tr.routes = "both" /\ Tr.pkg.load # "ok" THEN {G("map_loads", Tr.pkg.load)} ELSE {})
  \cup (IF Tr.routes \in {"both", "dir"} /\ Tr.dir.load # "ok" THEN {G("map_loads_dir", Tr.dir.load)} ELSE {})
  \cup (IF Tr.routes = "both" /\ Tr.pkg.load = "ok" /\ Tr.dir.load = "ok" /\ Tr.pkg.nodes # Tr.dir.nodes
        THEN {[G("routes_equal", "") EXCEPT !.n =
                 IF Len(Tr.pkg.nodes) # Len(Tr.dir.nodes) THEN 0
                 ELSE Min({j \in DOMAIN Tr.pkg.nodes : Tr.pkg.nodes[j] # Tr.dir.nodes[j]})]} ELSE {})
EndFacts(em) ==
  IF Judged.load # "ok" THEN {}
  ELSE LET hit == Range(em) \ {0}  miss == (1..NN) \ hit IN
       (IF miss # {} THEN {[G("all_nodes_loaded", Xid(Min(miss))) EXCEPT !.a = Min(miss)]} ELSE {})
       \cup (IF Cardinality(hit) # Cardinality({j \in DOMAIN em : em[j] # 0}) THEN {G("node_loaded_twice", "")} ELSE {})
QueryFacts(j) ==
  LET q == Queries[j]  M == Matching(q) IN
  IF (M = {} /\ q.got # "") \/ (M # {} /\ q.got \notin {Entries[x].file : x \in M})
  THEN {[G("index_lookup", q.icvn \o "/" \o q.vriic \o "/" \o q.fic \o "/" \o q.tspc) EXCEPT !.n = j, !.seg = q.got]} ELSE {}
TableFacts ==
  IF ~Tables.given THEN {}
  ELSE (IF {[num |-> x.num, type |-> x.type, min |-> ToString(x.min), max |-> ToString(x.max)] : x \in Range(Tables.de)}
           # {[num |-> x.num, type |-> x.type, min |-> ToString(Num(x.min)), max |-> ToString(Num(x.max))] : x \in Range(DE)}
        THEN {G("tables_dataele", "")} ELSE {})
       \cup (IF {[id |-> x.id, n |-> x.n] : x \in Range(Tables.cs)} # {[id |-> x.id, n |-> x.n] : x \in Range(CS)}
             THEN {G("tables_codesets", JoinSet({x.id : x \in Range(CS)} \ {x.id : x \in Range(Tables.cs)}))} ELSE {})

(* ------------------------------------------------------------ the run *)
Init == /\ vph = "load" /\ vi = 1 /\ vem = <<>>
        /\ vstat = [nodes |-> 0, mapped |-> 0, queries |-> 0, facts |-> 0]
Count(S) == vstat' = [vstat EXCEPT !.facts = @ + Cardinality(S)]
LoadStep == /\ vph = "load"
            /\ LET f == LoadFacts \cup TableFacts IN Emit(f) /\ Count(f)
            /\ vph' = "nodes" /\ UNCHANGED <<vi, vem>>
NodeStep == /\ vph = "nodes" /\ vi <= NL
            /\ LET e == EmOf(vi, vem)  f == NodeFacts(vi, e) IN
                 /\ vem' = Append(vem, e)
                 /\ Emit(f)
                 /\ vstat' = [vstat EXCEPT !.nodes = @ + 1, !.mapped = @ + (IF e = 0 THEN 0 ELSE 1), !.facts = @ + Cardinality(f)]
            /\ vi' = vi + 1 /\ UNCHANGED vph
EndNodes == /\ vph = "nodes" /\ vi > NL
            /\ LET f == EndFacts(vem) IN Emit(f) /\ Count(f)
            /\ vph' = "queries" /\ vi' = 1 /\ UNCHANGED vem
QueryStep == /\ vph = "queries" /\ vi <= Len(Queries)
             /\ LET f == QueryFacts(vi) IN
                  Emit(f) /\ vstat' = [vstat EXCEPT !.queries = @ + 1, !.facts = @ + Cardinality(f)]
             /\ vi' = vi + 1 /\ UNCHANGED <<vph, vem>>
Finish == /\ vph = "queries" /\ vi > Len(Queries)
          /\ vph' = "done" /\ UNCHANGED <<vi, vem, vstat>>
Next == LoadStep \/ NodeStep \/ EndNodes \/ QueryStep \/ Finish
Spec == Init /\ [][Next]_vars

(* the trace itself must be a tree listing (a failure is a harness error) *)
TraceShape == vph = "load" => \A j \in DOMAIN L : /\ (j = 1) = (L[j].par = 0)
                                  /\ \A r \in DOMAIN L[j].kids : L[j].kids[r] \in (j + 1)..NL /\ L[L[j].kids[r]].par = j
Report == vph = "done" => PrintT(<<"REJECTS", ToJson([file |-> Tr.file, stat |-> vstat, em |-> vem])>>)
=============================================================================
