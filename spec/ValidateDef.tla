---------------------------- MODULE ValidateDef ----------------------------
(* Definition layer of C07 "validation is total".                                *)
(*                                                                              *)
(* An input text is put into exactly one class (HeaderClass); the class, the     *)
(* API that was called and one extra fact (a later, malformed ISA segment)       *)
(* DEFINE the set of allowed outcomes (Clause = "" iff the outcome is allowed).   *)
(*                                                                              *)
(*   not_x12          the text does not begin with "ISA" or is shorter than the   *)
(*                    106 characters of an ISA segment                            *)
(*   unknown_version  106 characters beginning with ISA, but ISA12 is neither     *)
(*                    00401 nor 00501                                             *)
(*   bad_isa          106 characters, known version, but the three delimiters     *)
(*                    (characters 4, 105, 106) are not pairwise distinct or the    *)
(*                    text up to the first segment terminator is not an ISA        *)
(*                    segment with 16 elements                                    *)
(*   no_map           a well-formed ISA, and some functional group (GS01, GS08     *)
(*                    under the ISA12 in force) - or, for the 278 guides whose map *)
(*                    is chosen by BHT02, some BHT - has no entry in the map index *)
(*   interchange      everything else                                             *)
(*                                                                              *)
(* not_x12 / unknown_version / bad_isa together are the property's "input that   *)
(* is not an interchange at all".                                                *)
(*                                                                              *)
(* Documents are looked at through abstract segments [id, els, term]: segment     *)
(* id, element strings, "is followed by a segment terminator" (an unterminated    *)
(* tail is never delivered by the tokenizer).  Mutate.tla applies these           *)
(* definitions to generated documents, T_Validate.tla to the projection of a      *)
(* concrete text on its ISA/GS/BHT segments.                                      *)
EXTENDS Naturals, Sequences, FiniteSets
CONSTANTS Index3,    \* {"icvn|vriic|fic"}        every transaction map entry of map/maps.xml (not the two entries
                     \*                            of the envelope/control maps, which are no transaction type)
          Index4     \* {"icvn|vriic|fic|tspc"}   the entries that carry a tspc
Key3(a, b, c) == a \o "|" \o b \o "|" \o c
Key4(a, b, c, e) == a \o "|" \o b \o "|" \o c \o "|" \o e

Versions == {"00401", "00501"}
X094 == {"004010X094", "004010X094A1"}      \* guides whose map is re-selected at BHT (BHT02)
APIs == {"x12n", "reader", "ctx"}
Classes == {"not_x12", "unknown_version", "bad_isa", "no_map", "interchange"}
Refusable == {"not_x12", "unknown_version", "bad_isa"}

(* ------------------------------------------------------------ abstract level *)
El(s, j) == IF j <= Len(s.els) THEN s.els[j] ELSE "<absent>"    \* an absent element is no index key (an empty one could be)
Has(s, j) == j <= Len(s.els)
MaxOf(S) == CHOOSE x \in S : \A y \in S : y <= x
LastBefore(d, i, id) == LET S == {k \in 1..(i - 1) : d[k].id = id /\ d[k].term} IN IF S = {} THEN 0 ELSE MaxOf(S)
IcvnAt(d, i) == LET k == LastBefore(d, i, "ISA") IN IF k = 0 THEN "<absent>" ELSE El(d[k], 12)

GroupHasNoMap(d, i) == d[i].id = "GS" /\ d[i].term /\ Key3(IcvnAt(d, i), El(d[i], 8), El(d[i], 1)) \notin Index3
BhtHasNoMap(d, i) ==
  /\ d[i].id = "BHT" /\ d[i].term /\ Has(d[i], 2)
  /\ LET g == LastBefore(d, i, "GS") IN
     /\ g > 0 /\ El(d[g], 8) \in X094
     /\ Key4(IcvnAt(d, i), El(d[g], 8), El(d[g], 1), El(d[i], 2)) \notin Index4
NoMap(d) == \E i \in 1..Len(d) : GroupHasNoMap(d, i) \/ BhtHasNoMap(d, i)
(* an ISA segment after the first one that has not 16 elements draws the documented X12Error *)
LaterBadIsa(d) == \E i \in 2..Len(d) : d[i].id = "ISA" /\ d[i].term /\ Len(d[i].els) # 16

(* ---------------------------------------------------------------- text level *)
(* h = the first (at most) 106 characters of the text as code points             *)
V401 == <<48, 48, 52, 48, 49>>
V501 == <<48, 48, 53, 48, 49>>
Count(q, c) == Cardinality({i \in 1..Len(q) : q[i] = c})
FirstIdx(q, c) == CHOOSE i \in 1..Len(q) : q[i] = c /\ \A k \in 1..(i - 1) : q[k] # c
WellFormedIsa(h) ==
  LET st == h[106]
      et == h[4]
      ct == h[105]
      piece == SubSeq(h, 1, FirstIdx(h, st) - 1)
  IN /\ st # et /\ st # ct /\ et # ct
     /\ et \notin {73, 83, 65}                  \* otherwise the first segment's id is not "ISA"
     /\ Count(piece, et) = 16

HeaderClass(h, env) ==
  IF Len(h) < 3 \/ SubSeq(h, 1, 3) # <<73, 83, 65>> THEN "not_x12"
  ELSE IF Len(h) # 106 THEN "not_x12"
  ELSE IF SubSeq(h, 85, 89) \notin {V401, V501} THEN "unknown_version"
  ELSE IF ~WellFormedIsa(h) THEN "bad_isa"
  ELSE IF NoMap(env) THEN "no_map"
  ELSE "interchange"

(* ------------------------------------------------------------ allowed outcomes *)
(* outcome o = [kind, val, exc, site, mnf]                                       *)
(*   kind "verdict"   x12n_document returned the boolean val                      *)
(*        "completed" iteration (reader: + pop_errors + cleanup) ran to its end   *)
(*        "nonbool"   x12n_document returned something that is not a boolean      *)
(*        "exception" exc escaped (site = innermost pyx12 frame, mnf = the        *)
(*                    message is the documented "Map not found")                  *)
(*        "timeout"   the call did not return within the wall-clock limit         *)
IsRefusal(o) == o.kind = "exception" /\ o.exc = "X12Error"
IsMapNotFound(o) == o.kind = "exception" /\ o.exc = "EngineError" /\ o.mnf

Clause(c, api, o, later) ==
  IF o.kind = "timeout" THEN "no_termination"
  ELSE IF o.kind = "nonbool" THEN "not_boolean"
  ELSE IF o.kind = "exception" THEN
     IF IsRefusal(o) THEN (IF c \in Refusable \/ later THEN "" ELSE "escape")
     ELSE IF IsMapNotFound(o) THEN (IF c \in {"no_map", "bad_isa"} /\ api # "reader" THEN "" ELSE "escape")
     ELSE "escape"
  ELSE IF o.kind = "verdict" THEN
     (IF api = "x12n" /\ (c \in Refusable => ~o.val) THEN "" ELSE "not_refused")
  ELSE IF o.kind = "completed" THEN
     (* the readers have no verdict: they can only refuse by X12Error, which the constructor *)
     (* must do for not_x12 / unknown_version; bad_isa may be detected late or not at all   *)
     (IF api # "x12n" /\ c \notin {"not_x12", "unknown_version"} THEN "" ELSE "not_refused")
  ELSE "bad_record"

Allowed(c, api, o, later) == Clause(c, api, o, later) = ""

(* sanity of the definition itself (checked by TLC in Mutate): every class/API has an allowed   *)
(* outcome, and a non-documented exception or a time-out is never allowed                       *)
Out(kind, val, exc, mnf) == [kind |-> kind, val |-> val, exc |-> exc, site |-> "", mnf |-> mnf]
DefinitionSane ==
  \A c \in Classes, a \in APIs, l \in BOOLEAN :
    /\ \E o \in {Out("verdict", FALSE, "", FALSE), Out("completed", FALSE, "", FALSE), Out("exception", FALSE, "X12Error", FALSE)} : Allowed(c, a, o, l)
    /\ ~Allowed(c, a, Out("timeout", FALSE, "", FALSE), l)
    /\ \A e \in {"ValueError", "AttributeError", "TypeError", "IndexError", "KeyError", "UnboundLocalError", "AssertionError"} :
         ~Allowed(c, a, Out("exception", FALSE, e, FALSE), l)
    /\ ~Allowed(c, a, Out("exception", FALSE, "EngineError", FALSE), l)
    /\ (c \in {"interchange", "no_map"} /\ ~l) => ~Allowed(c, a, Out("exception", FALSE, "X12Error", FALSE), l)
    /\ (c = "interchange") => ~Allowed(c, a, Out("exception", FALSE, "EngineError", TRUE), l)
=============================================================================
