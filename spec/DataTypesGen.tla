---------------------------- MODULE DataTypesGen ----------------------------
(* C13, spec -> code.  Every state is one candidate value built by appending    *)
(* characters / fields; TLC visits the whole bounded space and emits each value *)
(* with the verdict vector the definition (DataTypes) assigns to it over all    *)
(* claimed types and settings.  The replayer feeds every value into the real    *)
(* pyx12.validation.IsValidDataType under every (type, charset, icvn).          *)
(*                                                                              *)
(* Shapes (phase variable ph):                                                  *)
(*   free : all strings up to FreeLen over FreeAlpha (digits, minus, point, a   *)
(*          letter, a line feed) - the N / R languages and their neighbourhood  *)
(*   an   : all strings up to AnLen over AnAlpha (boundary characters of the    *)
(*          three character sets, quote, backslash, control characters)         *)
(*   d8*  : year (Years) + month 00..13 + day 00..32; then optionally HHMM      *)
(*          (DT), a trailing / leading "-" + date (RD8)                         *)
(*   d6*  : YY (YYs) + month 00..13 + day 00..32                                *)
(*   tm*  : hour (Hours) + minute (Minutes) [+ second 00..60 [+ decimals, for    *)
(*          the minutes in DecMinutes]],                                        *)
(*          and the odd length HHMMS                                            *)
(*   rg*  : up to 4 parts from Parts joined by 0..3 hyphens                     *)
EXTENDS DataTypes, Json
CONSTANTS FreeLen, AnLen, Years, YYs, Hours, Minutes, DecMinutes, Parts, Shapes, DtAll
VARIABLES ph, s
vars == <<ph, s>>

FreeAlpha == {"0", "1", "2", "5", "9", "-", ".", "x", "\n"}
AnAlpha == {"A", "Z", "a", "z", "0", " ", "^", "`", "~", "#", "\"", "\\", "\n", "\t"}
Months == {Two(m) : m \in 0..13}
Days == {Two(d) : d \in 0..32}
Seconds == {Two(x) : x \in 0..60}
Decimals == {"0", "9", "00", "59", "60", "99", "000", "999", "x", "0x"}
AllHHMM == {Two(h) \o Two(m) : h \in 0..24, m \in 0..60}
FewHHMM == {"0000", "2359", "2400", "2360", "9999", "0960"}
DtBases == {"20240229", "20230229", "17991231", "18000101"}
FixDate == "20240229"
Hyphens(x) == Cardinality(Positions(x, "-"))

Init == s = "" /\ ph \in Shapes

Next ==
  \/ ph = "free" /\ Len(s) < FreeLen /\ \E c \in FreeAlpha : s' = s \o c /\ UNCHANGED ph
  \/ ph = "an" /\ Len(s) < AnLen /\ \E c \in AnAlpha : s' = s \o c /\ UNCHANGED ph
  \* 8-digit dates and what is built on them
  \/ ph = "d8y" /\ \E y \in Years : s' = y /\ ph' = "d8m"
  \/ ph = "d8m" /\ \E m \in Months : s' = s \o m /\ ph' = "d8d"
  \/ ph = "d8d" /\ \E d \in Days : s' = s \o d /\ ph' = "d8"
  \/ ph = "d8" /\ \E t \in (IF s \in DtBases \/ DtAll THEN AllHHMM ELSE FewHHMM) : s' = s \o t /\ ph' = "dt12"
  \/ ph = "dt12" /\ s \in {b \o "1230" : b \in DtBases} /\ \E x \in {"0", "00", "-"} : s' = s \o x /\ ph' = "dt14"
  \/ ph = "d8" /\ s' = s \o "-" \o FixDate /\ ph' = "rgfix"
  \/ ph = "d8" /\ s' = FixDate \o "-" \o s /\ ph' = "rgfix"
  \* 6-digit dates
  \/ ph = "d6y" /\ \E y \in YYs : s' = y /\ ph' = "d6m"
  \/ ph = "d6m" /\ \E m \in Months : s' = s \o m /\ ph' = "d6d"
  \/ ph = "d6d" /\ \E d \in Days : s' = s \o d /\ ph' = "d6"
  \* times
  \/ ph = "tmh" /\ \E h \in Hours : s' = h /\ ph' = "tmm"
  \/ ph = "tmm" /\ \E m \in Minutes : s' = s \o m /\ ph' = "tm4"
  \/ ph = "tm4" /\ \E x \in Seconds : s' = s \o x /\ ph' = "tm6"
  \/ ph = "tm4" /\ \E x \in {"0", "5", "9"} : s' = s \o x /\ ph' = "tm5"
  \/ ph = "tm6" /\ SubSeq(s, 3, 4) \in DecMinutes /\ \E x \in Decimals : s' = s \o x /\ ph' = "tm8"
  \* ranges: parts joined by hyphens
  \/ ph = "rgp" /\ \E p \in Parts : s' = s \o p /\ ph' = "rgh"
  \/ ph = "rgh" /\ Hyphens(s) < 3 /\ s' = s \o "-" /\ ph' = "rgp"

Spec == Init /\ [][Next]_vars

(* model-level sanity of the definition layer and of the generator's reach *)
Sanity == (ph = "free" /\ s = "") => DefSanity
(* internal consistency of the definition: the verdict vector is consistent with the   *)
(* set inclusions the definitions imply (a D8 value is a DT value and an N value, a    *)
(* TM value is an N value, character sets are nested, nothing is both D8 and RD8 ...)  *)
Consistent ==
  LET n == WhyN(s) = ""    r == WhyR(s) = ""    d6 == WhyD6(s) = ""   d8 == WhyD8(s) = ""
      dt == WhyDT(s) = ""  rg == WhyRD8(s) = "" tm == WhyTM(s) = ""
      b == AllIn(s, BasicChars)  e == AllIn(s, ExtChars)  f == AllIn(s, Ext5010Chars)
  IN /\ (d8 => dt /\ n /\ r)
     /\ (d6 => dt /\ n)
     /\ (tm => n /\ Len(s) \in {4, 6, 7, 8})
     /\ (n => r /\ b)
     /\ (r => b)
     /\ (rg => Len(s) = 17 /\ ~d8 /\ ~n /\ b)
     /\ (b => e) /\ (e => f)
     /\ (dt => Len(s) \in {6, 8, 12})

Emit == PrintT(<<"V", ToJson([s |-> s, a |-> Flags(s)])>>)
=============================================================================
