------------------------------ MODULE T_Accept -------------------------------
(* Trace validation for C02: one record per validation of a TLC-generated        *)
(* conformant document by the real pyx12.x12n_document:                          *)
(*  [id, nodes (the map nodes the generator walked, one per segment), matched    *)
(*   (the map path pyx12 matched each segment to, from its callback), verdict,   *)
(*   nerr (errors in the error tree, any level), sets / groups (AK5|IK5 and AK9  *)
(*   codes of the acknowledgement), nsets, ngroups, exc]                          *)
(* The document is conformant by construction (DocGen); here the map skeleton is *)
(* used to check that the record really is a walk of the map (every node is a    *)
(* segment node, consecutive nodes respect map order inside one loop instance)   *)
(* before the acceptance clauses of the property are evaluated.                  *)
EXTENDS MapWalk
Recs == JsonDeserialize(IOEnv.TRACE_FILE)
VARIABLES i, rej
AllA(q) == \A j \in 1..Len(q) : q[j] = "A"
(* sanity of the generated walk: same-loop consecutive segments never go backwards in position *)
InOrder(ns) == \A j \in 1..(Len(ns) - 1) :
                  (IsSeg(ns[j]) /\ IsSeg(ns[j + 1]) /\ Parent(ns[j]) = Parent(ns[j + 1]) /\ ns[j + 1] # FirstNode(Parent(ns[j + 1])))
                     => Pos(ns[j]) <= Pos(ns[j + 1])
Clause(r) ==
  IF r.exc # "" THEN "exception"
  ELSE IF ~(\A j \in 1..Len(r.nodes) : IsSeg(r.nodes[j])) \/ ~InOrder(r.nodes) THEN "harness_not_a_walk"
  ELSE IF r.verdict # TRUE THEN "verdict"
  ELSE IF r.nerr # 0 THEN "errors_reported"
  ELSE IF Len(r.sets) # r.nsets \/ ~AllA(r.sets) THEN "set_not_accepted"
  ELSE IF Len(r.groups) # r.ngroups \/ ~AllA(r.groups) THEN "group_not_accepted"
  ELSE ""
Init == i = 1 /\ rej = {}
Step == /\ i <= Len(Recs)
        /\ LET c == Clause(Recs[i]) IN rej' = IF c = "" THEN rej ELSE rej \cup {<<Recs[i].id, c>>}
        /\ i' = i + 1
Spec == Init /\ [][Step]_<<i, rej>>
Report == (i > Len(Recs)) => PrintT(<<"REJECTS", ToJson([rej |-> rej])>>)
=============================================================================
