------------------------------- MODULE T_Html -------------------------------
(* Trace validation for C19 (code -> spec): executions of the real              *)
(* pyx12.x12n_document.x12n_document with an HTML sink.  One record per run:    *)
(*   d      delimiters [st, et, ct] (code points)                                *)
(*   segs   source segments as a plain X12Reader yields them: [line, sid, text]  *)
(*   errs   every error reported on the error tree, in order:                    *)
(*          [s (index of the segment being validated, 0 = after the last),       *)
(*           lvl (isa/gs/st/seg/ele), code, msg, att (stored in the tree),        *)
(*           taint (positions of & < > in msg that were copied from the input)]   *)
(*   calls  per segment the calls made on err_handler [op, code, u]; tail: the    *)
(*          calls after the last segment (cleanup)                                *)
(*   items  the HTML parsed back: [k, line, tok, lvl, code, tags]                  *)
(*   doc    document-structure flags from html.parser; exc: exception name or ""  *)
(* One TLC state per record.  Definition layer (Html, part a) -> entries of rej   *)
(* name the failing clause: a VIOLATION.  Implementation-shaped layer (Html,      *)
(* part b, replaying the recorded calls) -> entries of drift: the transcription   *)
(* and the code disagree although the property may hold.                          *)
EXTENDS Html, Json, IOUtils
VARIABLES ti, rej, drift
vars == <<ti, rej, drift>>
Traces == JsonDeserialize(IOEnv.TRACE_FILE)

SidClass(sid) == IF sid \in Envelope THEN sid ELSE "B"
SidsOf(tr) == [k \in 1..Len(tr.segs) |-> SidClass(tr.segs[k].sid)]

(* ---------------- definition layer ---------------- *)
Rec(tr, c, i, lvl, code, where, origin) ==
  [id |-> tr.id, c |-> c, i |-> i, lvl |-> lvl, code |-> code, where |-> where, origin |-> origin]
ErrRecs(tr) ==
  LET m == ErrMatching(tr.errs, tr.items)
      sids == SidsOf(tr)
  IN {Rec(tr, m.out[q].c, m.out[q].i, tr.errs[m.out[q].i].lvl, tr.errs[m.out[q].i].code, Where(sids, tr.errs[m.out[q].i].s), "") : q \in 1..Len(m.out)}
     \cup {Rec(tr, v.c, v.i, IF v.i > 0 THEN tr.errs[v.i].lvl ELSE (IF tr.items[v.p].lvl = "Element" THEN "ele" ELSE "seg"),
               tr.items[v.p].code, "", v.origin) : v \in EscVerdicts(tr.errs, tr.items, m.used)}
Verdicts(tr) ==
  LET sv == SegVerdict(tr.segs, tr.items, tr.d)
      aligned == Len(SegItems(tr.items)) = Len(tr.segs)
  IN (IF tr.exc # "" THEN {Rec(tr, "not_a_complete_document", 0, "", "", "", tr.exc)}
      ELSE IF ~Complete(tr.doc) THEN {Rec(tr, "not_a_complete_document", 0, "", "", "", "structure")} ELSE {})
     \cup (IF sv.c # "" /\ tr.exc = "" THEN {Rec(tr, sv.c, sv.i, "", "", "", "")} ELSE {})
     \cup (IF aligned /\ tr.exc = "" THEN ErrRecs(tr) ELSE {})
(* one representative per abstract cause and run *)
Key(r) == <<r.c, r.lvl, r.code, r.where, r.origin>>
Reduce(S) == {r \in S : \A q \in S : Key(q) = Key(r) => q.i >= r.i}

(* ---------------- implementation-shaped layer: replay the recorded calls ---------------- *)
Decorate(tr, calls, on) ==
  [j \in 1..Len(calls) |-> [op |-> calls[j].op, code |-> calls[j].code, u |-> calls[j].u,
                            lvl |-> IF calls[j].u > 0 THEN tr.errs[calls[j].u].lvl ELSE "", on |-> on]]
RECURSIVE Replay(_, _, _, _, _)
Replay(tr, k, H, it, acc) ==
  IF k > Len(tr.calls) \/ H.crashed THEN [H |-> H, it |-> it, out |-> acc]
  ELSE LET on == SidClass(tr.segs[k].sid)
           H1 == ApplyAll(H, Decorate(tr, tr.calls[k], on), 1)
           r == Collect(H1.nodes, it, <<>>)
           g == GenSeg(H1, r.list, on)
       IN Replay(tr, k + 1, H1, r.it, Append(acc, [pre |-> Uids(g.pre), post |-> Uids(g.post)]))
DriftCmp(tr, m, f, sp) ==
  LET n == Len(tr.calls)
      msgs(us) == [q \in 1..Len(us) |-> tr.errs[us[q]].msg]
      predicted(j) == (IF j >= 1 THEN msgs(m.out[j].post) ELSE <<>>) \o (IF j < n THEN msgs(m.out[j + 1].pre) ELSE <<>>)
                      \o (IF j = n THEN msgs(Uids(f.errs)) ELSE <<>>)
      agrees(j) == LET ps == SlotSeq(tr.items, sp, j)  pr == predicted(j) IN
                   Len(ps) = Len(pr) /\ \A q \in 1..Len(ps) : Shows(tr.items[ps[q]], TextOf(tr.items[ps[q]].tok), pr[q])
      bad == {j \in 0..n : ~agrees(j)}
  IN IF bad = {} THEN {} ELSE {<<tr.id, Min(bad), "slot">>}
DriftOf(tr) ==
  LET m == Replay(tr, 1, HInit, ItInit, <<>>)
      H2 == ApplyAll(m.H, Decorate(tr, tr.tail, "END"), 1)
      f == Footer(H2)
      sp == SegPos(tr.items)
  IN IF H2.crashed THEN {<<tr.id, 0, "model_handler_crash">>}
     ELSE IF tr.exc # "" THEN (IF f.crashed THEN {} ELSE {<<tr.id, 0, "model_no_crash">>})
     ELSE IF f.crashed THEN {<<tr.id, 0, "model_footer_crash">>}
     ELSE IF Len(sp) # Len(tr.calls) \/ Len(m.out) # Len(tr.calls) THEN {}        \* listing itself is off: the definition layer speaks
     ELSE DriftCmp(tr, m, f, sp)

Init == ti = 1 /\ rej = {} /\ drift = {}
Step == /\ ti <= Len(Traces)
        /\ LET tr == Traces[ti] IN
             /\ rej' = rej \cup Reduce(Verdicts(tr))
             /\ drift' = IF Cardinality(drift) >= 40 THEN drift ELSE drift \cup DriftOf(tr)
        /\ ti' = ti + 1
Spec == Init /\ [][Step]_vars
Report == (ti > Len(Traces)) => PrintT(<<"REJECTS", ToJson([rej |-> rej, drift |-> drift])>>)
=============================================================================
