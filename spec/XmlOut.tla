------------------------------- MODULE XmlOut --------------------------------
(* C08: the XML rendering nests every segment inside loop elements that spell    *)
(* out the map path of the node it matched, a repeated loop opening a fresh      *)
(* element.                                                                      *)
(*  DefStep  - definition: given the loop elements currently open and the next   *)
(*             segment (loop path of its node, is it the first segment of its     *)
(*             loop), which elements close and which open.                        *)
(*  ImplStep - x12xml_simple.seg as coded: list-wise match index, CHARACTER-wise  *)
(*             commonprefix of the '/'-joined paths, the match_idx -= 1 rule, the *)
(*             explicit repeat case.                                              *)
(* A step result is [pops (number of loop elements closed), pushes (ids opened)]. *)
(* Escape / Unescape: xmlwriter's character escaping and what an XML parser       *)
(* undoes.                                                                        *)
EXTENDS Naturals, Sequences, FiniteSets, TLC

CommonLen(a, b) == LET n == IF Len(a) < Len(b) THEN Len(a) ELSE Len(b)
                       S == {k \in 0..n : \A j \in 1..k : a[j] = b[j]} IN
                   CHOOSE k \in S : \A x \in S : x <= k
(* ---- definition *)
DefStep(open, path, first) ==
  LET c == CommonLen(open, path)
      keep == IF first /\ c = Len(path) THEN Len(path) - 1 ELSE c      \* a first segment always opens a fresh instance of its loop
  IN [pops |-> Len(open) - keep, pushes |-> SubSeq(path, keep + 1, Len(path))]
After(open, r) == SubSeq(open, 1, Len(open) - r.pops) \o r.pushes

(* ---- implementation-shaped *)
RECURSIVE JoinSlash(_)
JoinSlash(p) == IF Len(p) = 0 THEN "" ELSE IF Len(p) = 1 THEN p[1] ELSE p[1] \o "/" \o JoinSlash(Tail(p))
CharPrefixLen(s, t) == LET n == IF Len(s) < Len(t) THEN Len(s) ELSE Len(t)
                           S == {k \in 0..n : SubSeq(s, 1, k) = SubSeq(t, 1, k)} IN
                       CHOOSE k \in S : \A x \in S : x <= k
RECURSIVE SplitSlash(_, _, _)
SplitSlash(s, start, i) == IF i > Len(s) THEN (IF start > Len(s) THEN <<>> ELSE <<SubSeq(s, start, Len(s))>>)
                           ELSE IF SubSeq(s, i, i) = "/" THEN (IF i > start THEN <<SubSeq(s, start, i - 1)>> ELSE <<>>) \o SplitSlash(s, i + 1, i + 1)
                           ELSE SplitSlash(s, start, i + 1)
PathList(s) == SplitSlash(s, 1, 1)
ImplStep(last, cur, first) ==
  IF last = cur /\ first THEN [pops |-> 1, pushes |-> <<cur[Len(cur)]>>]
  ELSE LET m0 == CommonLen(last, cur)
           js == JoinSlash(cur)  jl == JoinSlash(last)
           root == PathList(SubSeq(js, 1, CharPrefixLen(js, jl)))
           m == IF first /\ root = cur THEN m0 - 1 ELSE m0
       IN [pops |-> Len(last) - m, pushes |-> SubSeq(cur, m + 1, Len(cur))]

(* ---- escaping *)
EscChar(c, attr) == CASE c = "&" -> "&amp;" [] c = "<" -> "&lt;" [] c = ">" -> "&gt;" [] (c = "'" /\ attr) -> "&apos;" [] OTHER -> c
RECURSIVE Escape(_, _)
Escape(s, attr) == IF Len(s) = 0 THEN "" ELSE EscChar(SubSeq(s, 1, 1), attr) \o Escape(SubSeq(s, 2, Len(s)), attr)
Entities == <<<<"&amp;", "&">>, <<"&lt;", "<">>, <<"&gt;", ">">>, <<"&apos;", "'">>, <<"&quot;", "\"">>>>
RECURSIVE Unescape(_)
Unescape(s) == IF Len(s) = 0 THEN ""
               ELSE LET hit == {e \in 1..Len(Entities) : Len(s) >= Len(Entities[e][1]) /\ SubSeq(s, 1, Len(Entities[e][1])) = Entities[e][1]} IN
                    IF hit # {} THEN LET e == CHOOSE x \in hit : TRUE IN Entities[e][2] \o Unescape(SubSeq(s, Len(Entities[e][1]) + 1, Len(s)))
                    ELSE SubSeq(s, 1, 1) \o Unescape(SubSeq(s, 2, Len(s)))
NoMarkup(s) == \A i \in 1..Len(s) : SubSeq(s, i, i) \notin {"<", ">"}
=============================================================================
