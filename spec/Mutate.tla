------------------------------- MODULE Mutate -------------------------------
(* Generator of C07: structural mutations of a conformant document.               *)
(*                                                                              *)
(* The skeleton (a repository fixture reduced to abstract segments by the         *)
(* harness) is read from SKEL_FILE:  a sequence of                                *)
(*   [src  position in the skeleton (0 = synthetic),                              *)
(*    id   segment id,  els  element strings (sub-elements joined by ":"),        *)
(*    pre  text in front of the id ("" or blanks),                                *)
(*    term followed by a segment terminator,  nl  terminator followed by a line   *)
(*    break]                                                                      *)
(* Each step applies one mutation chosen by TLC; up to MaxMut steps.  Every       *)
(* reached document is emitted together with the class the definition layer       *)
(* (ValidateDef) assigns to it - the class fixes the set of allowed outcomes.      *)
(* When the leading ISA is no longer the untouched fixed-width segment, the text  *)
(* level definition decides alone (class "any" here).                             *)
EXTENDS Naturals, Sequences, FiniteSets, TLC, Json, IOUtils, ValidateDef
CONSTANTS MaxMut,      \* number of mutations per document (BFS: all documents with <= MaxMut)
          EmitLen,     \* emit documents with exactly this many mutations; 99: all
          Ops,         \* enabled mutation kinds
          RetagAll,    \* retag to every id of the skeleton (else to two other ids)
          AllEls,      \* element mutations at every element (else first, second and last)
          Sample       \* TRUE (simulation runs): each step draws one mutation at random instead of branching over all
VARIABLES doc, muts
vars == <<doc, muts>>

Skel == JsonDeserialize(IOEnv.SKEL_FILE)

RECURSIVE Rep(_, _)
Rep(s, n) == IF n = 0 THEN "" ELSE s \o Rep(s, n - 1)
LongEle == Rep("X", 300)
Huge == "99999999999999999999"
ManySubs == "A:A:A:A:A:A:A:A:A"          \* 9 components, 17 characters (no ISA field is that wide)
IsaW == <<2, 10, 2, 10, 2, 15, 2, 15, 6, 4, 1, 5, 9, 1, 1, 1>>

AllOps == {"del", "dup", "swap", "trunc", "truncmid", "retag", "orphan", "num", "longseg", "longele",
           "subs", "blank", "drop", "lead", "trail", "empty", "cutsub"}
EnvIds == {"ISA", "GS", "ST", "SE", "GE", "IEA"}
NumFields == {<<"ISA", 13>>, <<"GS", 6>>, <<"ST", 2>>, <<"SE", 1>>, <<"SE", 2>>, <<"GE", 1>>, <<"GE", 2>>,
              <<"IEA", 1>>, <<"IEA", 2>>, <<"HL", 1>>, <<"HL", 2>>, <<"HL", 4>>, <<"LX", 1>>}
HdrFields == {<<"ISA", 11>>, <<"ISA", 12>>, <<"ISA", 15>>, <<"ISA", 16>>, <<"GS", 1>>, <<"GS", 6>>, <<"GS", 8>>,
              <<"ST", 1>>, <<"ST", 2>>, <<"ST", 3>>, <<"BHT", 1>>, <<"BHT", 2>>, <<"BHT", 6>>}

HasColon(e) == \E k \in 2..Len(e) : SubSeq(e, k, k) = ":"            \* the skeletons are written with ":" as component separator
LastColon(e) == MaxOf({k \in 2..Len(e) : SubSeq(e, k, k) = ":"})
M(op, i, j, v) == [op |-> op, i |-> i, j |-> j, v |-> v]
Synth(id, els) == [src |-> 0, id |-> id, els |-> els, pre |-> "", term |-> TRUE, nl |-> TRUE]
(* an orphan trailer is a copy of the skeleton's own trailer of that kind *)
Trailer(id) == LET S == {k \in 1..Len(Skel) : Skel[k].id = id} IN
               IF S = {} THEN Synth(id, <<"1", "0001">>) ELSE [Skel[MaxOf(S)] EXCEPT !.src = 0]

Del(d, i) == SubSeq(d, 1, i - 1) \o SubSeq(d, i + 1, Len(d))
Ins(d, i, s) == SubSeq(d, 1, i - 1) \o <<s>> \o SubSeq(d, i, Len(d))       \* before position i
SetEl(s, j, v) == [s EXCEPT !.els = [@ EXCEPT ![j] = v]]

OtherIds(d, i) == IF RetagAll THEN {d[k].id : k \in 1..Len(d)}
                  ELSE {d[((i + 2) % Len(d)) + 1].id, d[((i + 10) % Len(d)) + 1].id}
RetagIds(d, i) == (EnvIds \cup {"ZZZ", "x1", ""} \cup OtherIds(d, i)) \ {d[i].id}
EleIdx(s) == IF AllEls THEN 1..Len(s.els)
             ELSE {j \in 1..Len(s.els) : j = 1 \/ j = Len(s.els) \/ j = 2}
Fields(F, s) == {f[2] : f \in {g \in F : g[1] = s.id /\ g[2] <= Len(s.els)}}

Mutations(d) ==
  LET n == Len(d)
      P == 1..n
      On(op, S) == IF op \in Ops THEN S ELSE {}
      (* an unterminated tail (after a cut inside a segment) stays the last segment *)
      open == IF d[n].term THEN 0 ELSE 1
  IN  On("del", {M("del", i, 0, "") : i \in P})
 \cup On("dup", {M("dup", i, 0, "") : i \in 1..(n - open)})
 \cup On("swap", {M("swap", i, 0, "") : i \in 1..(n - 1 - open)})
 \cup On("trunc", {M("trunc", i, 0, "") : i \in 1..(n - 1)})
 \cup On("truncmid", {M("truncmid", i, j, "") : i \in P, j \in {0, 1}})
 \cup On("retag", UNION {{M("retag", i, 0, t) : t \in RetagIds(d, i)} : i \in P})
 \cup On("orphan", {M("orphan", i, 0, t) : i \in 1..(n + 1 - open), t \in {"SE", "GE", "IEA"}})
 \cup On("num", UNION {{M("num", i, j, v) : j \in Fields(NumFields, d[i]), v \in {"X", "", Huge}} : i \in P})
 \cup On("longseg", {M("longseg", i, j, "") : i \in P, j \in {30, 120}})
 \cup On("longele", UNION {{M("longele", i, j, "") : j \in EleIdx(d[i])} : i \in P})
 \cup On("subs", UNION {{M("subs", i, j, "") : j \in EleIdx(d[i])} : i \in P})
 \cup On("blank", UNION {{M("blank", i, j, "") : j \in Fields(HdrFields, d[i])} : i \in P})
 \cup On("drop", UNION {{M("drop", i, j, "") : j \in Fields(HdrFields, d[i])} : i \in P})
 \cup On("lead", {M("lead", i, 0, "") : i \in P})
 \cup On("trail", {M("trail", i, 0, "") : i \in P})
 \cup On("empty", {M("empty", i, 0, "") : i \in 1..(n + 1 - open)})
 \cup On("cutsub", UNION {{M("cutsub", i, j, v) : j \in {k \in 1..Len(d[i].els) : HasColon(d[i].els[k])}, v \in {"gone", "empty"}} : i \in P})

Apply(d, m) ==
  LET i == m.i
      j == m.j
  IN CASE m.op = "del" -> Del(d, i)
       [] m.op = "dup" -> Ins(d, i, d[i])
       [] m.op = "swap" -> [d EXCEPT ![i] = d[i + 1], ![i + 1] = d[i]]
       [] m.op = "trunc" -> SubSeq(d, 1, i)
       [] m.op = "truncmid" ->      \* cut inside segment i: keep the id (j = 0) or half of the elements; no terminator
            SubSeq(d, 1, i - 1) \o <<[d[i] EXCEPT !.els = IF j = 0 THEN <<>> ELSE SubSeq(@, 1, (Len(@) + 1) \div 2), !.term = FALSE]>>
       [] m.op = "retag" -> [d EXCEPT ![i].id = m.v]
       [] m.op = "orphan" -> Ins(d, i, Trailer(m.v))
       [] m.op = "num" -> [d EXCEPT ![i] = SetEl(@, j, IF m.v = "X" THEN Rep("X", Len(d[i].els[j])) ELSE m.v)]
       [] m.op = "longseg" -> [d EXCEPT ![i].els = @ \o [k \in 1..j |-> "X"]]        \* 30 / 120 further elements
       [] m.op = "longele" -> [d EXCEPT ![i] = SetEl(@, j, LongEle)]
       [] m.op = "subs" -> [d EXCEPT ![i] = SetEl(@, j, ManySubs)]
       [] m.op = "blank" -> [d EXCEPT ![i] = SetEl(@, j, Rep(" ", Len(d[i].els[j])))]
       [] m.op = "drop" -> [d EXCEPT ![i] = SetEl(@, j, "")]
       [] m.op = "lead" -> [d EXCEPT ![i].pre = " "]
       [] m.op = "trail" -> [d EXCEPT ![i].els = Append(@, "")]
       [] m.op = "empty" -> Ins(d, i, Synth("", <<>>))
       [] m.op = "cutsub" ->        \* a composite loses its last component ("A:B:C" -> "A:B"), or keeps it empty ("A:B:")
            [d EXCEPT ![i] = SetEl(@, j, SubSeq(d[i].els[j], 1, LastColon(d[i].els[j]) - (IF m.v = "gone" THEN 1 ELSE 0)))]

Init == doc = Skel /\ muts = <<>>
Next == /\ Len(muts) < MaxMut /\ Len(doc) > 0
        /\ \E m \in (IF Sample THEN {RandomElement(Mutations(doc))} ELSE Mutations(doc)) :
              doc' = Apply(doc, m) /\ muts' = Append(muts, m)
Spec == Init /\ [][Next]_vars

(* ------------------------------------------------------------------ class *)
IsaIntact(s) == /\ s.id = "ISA" /\ s.pre = "" /\ s.term /\ Len(s.els) = 16
                /\ \A j \in 1..16 : Len(s.els[j]) = IsaW[j]
DocClass(d) ==
  IF Len(d) = 0 THEN "not_x12"
  ELSE IF d[1].id # "ISA" \/ d[1].pre # "" THEN "not_x12"
  ELSE IF ~IsaIntact(d[1]) THEN "any"
  ELSE IF d[1].els[12] \notin Versions THEN "unknown_version"
  ELSE IF NoMap(d) THEN "no_map"
  ELSE "interchange"

(* ------------------------------------------------------------------ model-level checks *)
TypeOK == /\ \A i \in 1..Len(doc) : /\ doc[i].src \in 0..Len(Skel)
                                    /\ DOMAIN doc[i] = {"src", "id", "els", "pre", "term", "nl"}
          /\ Len(muts) <= MaxMut
(* the skeleton is an interchange with a map; only the last segment of a document can lack its terminator *)
SkeletonConformant == (muts = <<>>) => (DocClass(doc) = "interchange" /\ ~LaterBadIsa(doc))
TermOnlyLast == \A i \in 1..(Len(doc) - 1) : doc[i].term
(* a mutation that does not touch the ISA/GS/BHT segments does not change the class *)
ClassStable ==
  (Len(muts) = 1 /\ muts[1].op \in {"num", "longseg", "longele", "subs", "lead", "trail", "cutsub"}
     /\ doc[muts[1].i].id \notin {"ISA", "GS", "BHT"}) => DocClass(doc) = "interchange"
DefSane == DefinitionSane

(* ------------------------------------------------------------------ emission *)
Compact(d) == [i \in 1..Len(d) |-> IF d[i].src > 0 /\ d[i] = Skel[d[i].src] THEN <<d[i].src>> ELSE <<d[i]>>]
Emit == (EmitLen = 99 \/ Len(muts) = EmitLen) =>
          PrintT(<<"DOC", ToJson([m |-> muts, c |-> DocClass(doc), later |-> LaterBadIsa(doc), d |-> Compact(doc)])>>)
=============================================================================
