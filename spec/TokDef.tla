------------------------------- MODULE TokDef -------------------------------
(* Definition layer for C01 / C12 / C20: what the segments of an interchange    *)
(* text ARE, independent of how any reader buffers its input.  Text is a         *)
(* sequence of code points; d = [seg, ele, sub] are the delimiters declared by   *)
(* the ISA header.  The header itself (106 characters ending in the terminator)  *)
(* is not part of `text`: text is what follows it.                               *)
EXTENDS Naturals, Sequences, FiniteSets, TLC, SequencesExt

CR == 13   LF == 10   BLANK == 32
(* pieces of s separated by code point c (always at least one piece); written without deep recursion so that
   it also evaluates quickly on elements of several thousand characters *)
SplitOn(s, c) ==
  LET P == {i \in 1..Len(s) : s[i] = c}
      ps == SetToSortSeq(P, <)
      k == Len(ps)
  IN [j \in 1..(k + 1) |-> SubSeq(s, (IF j = 1 THEN 1 ELSE ps[j - 1] + 1), (IF j = k + 1 THEN Len(s) ELSE ps[j] - 1))]
RECURSIVE StripLead(_, _)
StripLead(s, S) == IF s # <<>> /\ s[1] \in S THEN StripLead(Tail(s), S) ELSE s

(* the terminator-delimited pieces: what follows the last terminator is not a segment *)
Pieces(text, d) == LET ps == SplitOn(text, d.seg) IN SubSeq(ps, 1, Len(ps) - 1)

(* one piece -> the segment line: line breaks after the terminator dropped; a leading blank is dropped too, with an error *)
LineOf(p) == LET p1 == StripLead(p, {CR, LF}) IN
             [blank |-> p1 # <<>> /\ p1[1] = BLANK, line |-> StripLead(p1, {BLANK, CR, LF})]
ParseSeg(line, d) == LET es == SplitOn(line, d.ele) IN
                     [id |-> es[1], eles |-> [i \in 1..(Len(es) - 1) |-> SplitOn(es[i + 1], d.sub)]]
UpperAZ == 65..90   Digit09 == 48..57
ValidSegId(id) == Len(id) \in 2..3 /\ id[1] \in UpperAZ /\ \A i \in 2..Len(id) : id[i] \in UpperAZ \cup Digit09

(* Oracle: the yielded segments with their normalisation flags, in order *)
Oracle(text, d) ==
  LET ls == [i \in 1..Len(Pieces(text, d)) |-> LineOf(Pieces(text, d)[i])]
      keep == SelectSeq(ls, LAMBDA x : x.line # <<>>)
  IN [i \in 1..Len(keep) |-> [seg |-> ParseSeg(keep[i].line, d), blank |-> keep[i].blank,
                              trail |-> keep[i].line[Len(keep[i].line)] = d.ele]]

(* formatting and the normal form under which "the same segments" is meant (trailing empties trimmed) *)
EmptyComp(c) == \A i \in 1..Len(c) : c[i] = <<>>
RECURSIVE TrimVals(_)
TrimVals(q) == IF q # <<>> /\ q[Len(q)] = <<>> THEN TrimVals(SubSeq(q, 1, Len(q) - 1)) ELSE q
RECURSIVE TrimComps(_)
TrimComps(q) == IF q # <<>> /\ EmptyComp(q[Len(q)]) THEN TrimComps(SubSeq(q, 1, Len(q) - 1)) ELSE q
NormComp(c) == LET t == TrimVals(c) IN IF t = <<>> THEN << <<>> >> ELSE t
NormSeg(s) == [id |-> s.id, eles |-> LET t == TrimComps(s.eles) IN [i \in 1..Len(t) |-> NormComp(t[i])]]
RECURSIVE JoinWith(_, _)
JoinWith(q, c) == IF q = <<>> THEN <<>> ELSE IF Len(q) = 1 THEN q[1] ELSE q[1] \o <<c>> \o JoinWith(Tail(q), c)
FormatSeg(s, d) == LET n == NormSeg(s) IN
                   s.id \o <<d.ele>> \o JoinWith([i \in 1..Len(n.eles) |-> JoinWith(n.eles[i], d.sub)], d.ele) \o <<d.seg>>
=============================================================================
