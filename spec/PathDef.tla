------------------------------ MODULE PathDef ------------------------------
(* Definition layer for C17: the X12 path / reference-designator grammar and   *)
(* the meaning of "write a value at a designator / read it back" on a segment. *)
(* Written from the documented grammar (pyx12/path.py module docstring and the *)
(* property text), not from the regular expression the code uses.              *)
(*   path      ::= ["/"] loopid ("/" loopid)* ["/" last] | ["/"] last | ""     *)
(*   last      ::= segid ["[" qual "]"] [ele ["-" sub]] | ele ["-" sub]        *)
(*   segid     ::= Upper (Upper|Digit){1,2}     ele ::= Digit Digit (01..99)    *)
(*   qual      ::= (Upper|Digit)+               sub ::= Digit+      (1..)       *)
(* Strings are TLC strings; TLC supports Len, \o and SubSeq on them.           *)
EXTENDS Naturals, Sequences, FiniteSets, TLC

Upper == {"A","B","C","D","E","F","G","H","I","J","K","L","M","N","O","P","Q","R","S","T","U","V","W","X","Y","Z"}
Digit == {"0","1","2","3","4","5","6","7","8","9"}
Ch(s, i) == SubSeq(s, i, i)
AllIn(s, S) == \A i \in 1..Len(s) : Ch(s, i) \in S
IsSegId(s) == Len(s) \in 2..3 /\ Ch(s, 1) \in Upper /\ AllIn(s, Upper \cup Digit)
IsQual(s)  == Len(s) >= 1 /\ AllIn(s, Upper \cup Digit)
DigitVal(c) == CHOOSE n \in 0..9 : ToString(n) = c
RECURSIVE NumVal(_)
NumVal(s) == IF Len(s) = 0 THEN 0 ELSE NumVal(SubSeq(s, 1, Len(s) - 1)) * 10 + DigitVal(Ch(s, Len(s)))

None == "<none>"          \* absent string field
Absent == 0               \* absent numeric field (indices start at 1)

(* all ways to read the last path component as  segid? [qual]? ele? -sub?  *)
Decomps(s) ==
  LET n == Len(s) IN
  { d \in [a : {0, 2, 3}, q : 0..n, e : {0, 2}, u : 0..n] :
      LET p1 == d.a
          p2 == p1 + d.q
          p3 == p2 + d.e
          p4 == p3 + d.u
      IN /\ p4 = n
         /\ (d.a > 0 => IsSegId(SubSeq(s, 1, p1)))
         /\ (d.q > 0 => /\ d.q >= 3 /\ Ch(s, p1 + 1) = "[" /\ Ch(s, p2) = "]"
                        /\ IsQual(SubSeq(s, p1 + 2, p2 - 1)))
         /\ (d.e > 0 => AllIn(SubSeq(s, p2 + 1, p3), Digit))
         /\ (d.u > 0 => d.u >= 2 /\ Ch(s, p3 + 1) = "-" /\ AllIn(SubSeq(s, p3 + 2, p4), Digit)) }

(* split on "/" *)
RECURSIVE SplitFrom(_, _, _)
SplitFrom(s, start, i) ==
  IF i > Len(s) THEN <<SubSeq(s, start, Len(s))>>
  ELSE IF Ch(s, i) = "/" THEN <<SubSeq(s, start, i - 1)>> \o SplitFrom(s, i + 1, i + 1)
  ELSE SplitFrom(s, start, i + 1)
Split(s) == SplitFrom(s, 1, 1)

Plain(rel, loops) == [ok |-> TRUE, rel |-> rel, loops |-> loops, seg |-> None, qual |-> None, ele |-> Absent, sub |-> Absent,
                      hasele |-> FALSE, hassub |-> FALSE]
PathError == [ok |-> FALSE]

(* Parse: what a path string denotes (or PathError) *)
Parse(s) ==
  IF s = "" THEN Plain(TRUE, <<>>)
  ELSE
    LET rel == Ch(s, 1) # "/"
        comps == IF rel THEN Split(s) ELSE Split(SubSeq(s, 2, Len(s)))
        n == Len(comps)
        last == comps[n]
        front == SubSeq(comps, 1, n - 1)
    IN IF last = "" THEN Plain(rel, front)               \* ended in "/": loops only
       ELSE LET D == Decomps(last) IN
         IF D = {} THEN Plain(rel, comps)                \* last component is a loop id
         ELSE LET d == CHOOSE x \in D : \A y \in D : x.a >= y.a
                  p1 == d.a  p2 == p1 + d.q  p3 == p2 + d.e  p4 == p3 + d.u
                  seg == IF d.a > 0 THEN SubSeq(last, 1, p1) ELSE None
                  qual == IF d.q > 0 THEN SubSeq(last, p1 + 2, p2 - 1) ELSE None
              IN IF seg = None /\ qual # None THEN PathError
                 ELSE IF seg = None /\ (d.e > 0 \/ d.u > 0) /\ Len(front) > 0 THEN PathError
                 ELSE [ok |-> TRUE, rel |-> rel, loops |-> front, seg |-> seg, qual |-> qual,
                       ele |-> IF d.e > 0 THEN NumVal(SubSeq(last, p2 + 1, p3)) ELSE Absent,
                       sub |-> IF d.u > 0 THEN NumVal(SubSeq(last, p3 + 2, p4)) ELSE Absent,
                       hasele |-> d.e > 0, hassub |-> d.u > 0]

(* Print: the canonical text of a parsed path *)
RECURSIVE Join(_, _)
Join(seq, sep) == IF Len(seq) = 0 THEN "" ELSE IF Len(seq) = 1 THEN seq[1] ELSE seq[1] \o sep \o Join(Tail(seq), sep)
Two(n) == IF n < 10 THEN "0" \o ToString(n) ELSE ToString(n)
RefDes(p) == (IF p.seg # None THEN p.seg \o (IF p.qual # None THEN "[" \o p.qual \o "]" ELSE "") ELSE "")
             \o (IF p.ele # Absent THEN Two(p.ele) \o (IF p.sub # Absent THEN "-" \o ToString(p.sub) ELSE "") ELSE "")
PrintPath(p) == LET head == (IF p.rel THEN "" ELSE "/") \o Join(p.loops, "/")
            IN head \o (IF p.seg # None /\ head # "" /\ head # "/" THEN "/" ELSE "") \o RefDes(p)

(* ---------------------------------------------------------------- segments *)
(* A segment is [id, eles] with eles a sequence of composites, a composite a  *)
(* non-empty sequence of values; a simple element is a composite of length 1. *)
Blank == <<"">>
Pad(seq, n, filler) == seq \o [i \in 1..(IF n > Len(seq) THEN n - Len(seq) ELSE 0) |-> filler]

(* write v at element e (sub = Absent) or component (e, c) *)
SetEle(seg, e, v) == [seg EXCEPT !.eles = [Pad(seg.eles, e, Blank) EXCEPT ![e] = v]]          \* v: a composite
SetSub(seg, e, c, v) == [seg EXCEPT !.eles = LET P == Pad(seg.eles, e, Blank)
                                             IN [P EXCEPT ![e] = [Pad(P[e], c, "") EXCEPT ![c] = v]]]
(* read: <<present, value>>; element-level value = its components with trailing empties dropped *)
RECURSIVE Trim(_)
Trim(c) == IF Len(c) > 1 /\ c[Len(c)] = "" THEN Trim(SubSeq(c, 1, Len(c) - 1)) ELSE c
GetEle(seg, e) == IF e > Len(seg.eles) THEN <<FALSE, <<>>>> ELSE <<TRUE, Trim(seg.eles[e])>>
GetSub(seg, e, c) == IF e > Len(seg.eles) \/ c > Len(seg.eles[e]) THEN <<FALSE, "">> ELSE <<TRUE, seg.eles[e][c]>>
=============================================================================
