------------------------------- MODULE T_Norm --------------------------------
(* Trace validation for C20: runs of pyx12.scripts.x12norm.main() on a file.     *)
(* A trace: [id, hist, fix, eol, hdr_same, out, tail, second_same, dest_same, exc] *)
(*   hist   abstract input segments (the harness concretises them to a file)      *)
(*   out    per output segment after the ISA: [lead (code points of line-break    *)
(*          characters in front of it), els (its elements as strings)]            *)
(*   tail   code points after the last terminator                                 *)
(*   second_same  normalising the output again reproduced it byte for byte        *)
(*   dest_same    stdout, -o file and in-place destinations hold the same text    *)
(*   multi_same   given together with another (longer) file in ONE invocation, the  *)
(*                output for this file is what it is when the file is given alone   *)
EXTENDS Naturals, Sequences, FiniteSets, TLC, Json, IOUtils, Norm
VARIABLES ti, rej
Traces == JsonDeserialize(IOEnv.TRACE_FILE)
LFc == <<10>>
Clause(tr) ==
  LET h == tr.hist
      exp == NormDef(h, tr.fix /\ OnlyCountDefects(h))       \* fixing is only specified for inputs whose only defects are counts
      n == Len(h) - 1                                          \* segments after the ISA
  IN IF tr.exc # "" THEN "exception"
     ELSE IF ~tr.hdr_same THEN "isa_changed"
     ELSE IF Len(tr.out) # n THEN "segment_count"
     ELSE IF \E i \in 1..n : tr.out[i].els # ConcreteEls(exp[i + 1]) /\ (~tr.fix \/ OnlyCountDefects(h)) THEN "values"
     ELSE IF \E i \in 1..n : tr.out[i].lead # (IF tr.eol THEN LFc ELSE <<>>) THEN "layout"
     ELSE IF tr.tail # LFc THEN "layout_tail"
     ELSE IF ~tr.second_same THEN "not_idempotent"
     ELSE IF ~tr.dest_same THEN "destinations_differ"
     ELSE IF ~tr.multi_same THEN "several_files_in_one_run"
     ELSE ""
Init == ti = 1 /\ rej = {}
Step == /\ ti <= Len(Traces)
        /\ LET c == Clause(Traces[ti]) IN rej' = IF c = "" THEN rej ELSE rej \cup {<<Traces[ti].id, c>>}
        /\ ti' = ti + 1
Spec == Init /\ [][Step]_<<ti, rej>>
Report == (ti > Len(Traces)) => PrintT(<<"REJECTS", ToJson([rej |-> rej])>>)
=============================================================================
