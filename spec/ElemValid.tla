----------------------------- MODULE ElemValid -----------------------------
(* Definition layer for C15: which constraints of an element / composite        *)
(* definition a candidate value breaks, and the error code each broken           *)
(* constraint implies.  Nothing here follows the order, the early exits or the   *)
(* helper functions of pyx12 (element_if.is_valid / composite_if.is_valid): a    *)
(* value is described by its text, its code points and two facts supplied from   *)
(* outside (membership in the referenced external code set - read from codes.xml *)
(* -, and whether the declared regular expression matches - Python's re); the     *)
(* value languages of the data types come from the C13 definition (DataTypes).   *)
(*                                                                               *)
(* Element definition D:                                                         *)
(*   [usage "R"|"S"|"N", dtype, min, max, codes (inline list, sequence of text), *)
(*    hasExt (an external code set is referenced), hasRx (a pattern is declared),*)
(*    inComp, seq, pusage (usage of the enclosing composite), icvn]              *)
(* Value V: [absent (nothing was supplied), isComp (a composite value was put    *)
(*    where a simple element is defined), s (text), cp (code points),            *)
(*    ext (member of the external set), rx (pattern matches)]                    *)
(* Setting S: [cs (character set "B"|"E"), excl (the referenced external set is  *)
(*    on the exclusion list: every value counts as a member),                    *)
(*    tl (date/time formats selected by a preceding qualifier, <<>> if none)]    *)
(*                                                                               *)
(* Constraints and the AK403/IK403 code of each (numbers as pyx12 uses them):    *)
(*   missing         "1"   required element without a value                      *)
(*   not_used        "10"  value present although the element is not used        *)
(*   too_short       "4"   fewer characters than min  (minus sign and decimal    *)
(*   too_long        "5"   more characters than max    point of numbers are not  *)
(*                                                     counted)                  *)
(*   control_char    "6"   one of the 23 control characters X12 names             *)
(*   trailing_blank  "6"   text types: ends in a blank although the value        *)
(*                         without its trailing blanks already has min length    *)
(*   code            "7"   code list declared and the value is in neither the    *)
(*                         inline list nor the (non-excluded) external set       *)
(*   type            "8" date types, "9" time, "6" otherwise: not in the value   *)
(*                         language of the declared data type                    *)
(*   qualified_type  "9" if a time format was selectable, else "8": in none of   *)
(*                         the value languages selected by the qualifier         *)
(*   pattern         "7"   the declared pattern does not match                   *)
(*   composite_value "6"   a composite value where a simple element is defined   *)
(* Composite definition [usage, kids]: comp_missing (required, no component has  *)
(* a value; pyx12 reports "2", the code "1" of a missing mandatory element is     *)
(* admitted as well), comp_not_used (not used but a component has a value; pyx12  *)
(* reports "5", the not-used code "10" is admitted as well - the property names   *)
(* the constraints, not the numbers), too_many "3" (more components than          *)
(* defined), and, when the composite is present and used, the constraints of      *)
(* every component.                                                               *)
(*                                                                               *)
(* The property does not fix a precedence between constraints.  The monitor      *)
(* (Clause) therefore demands:  no constraint broken -> no error, result true;   *)
(* constraints broken -> result false, at least one error, and every reported    *)
(* code is implied by a broken constraint (for ONE broken constraint this is      *)
(* equality with the singleton); the result is false exactly when an error was   *)
(* reported; is_valid never raises.                                              *)
EXTENDS DataTypes

SeqSet(q) == {q[j] : j \in 1..Len(q)}
If(c, e) == IF c THEN {e} ELSE {}

CBlank == 32
CMinus == 45
CPoint == 46
(* the control characters X12 names in its basic (BEL HT LF VT FF CR FS GS RS US) and extended (SOH..ACK, DC1..ETB)     *)
(* character sets; any other code point outside the character sets is simply not a character of the data type ("type") *)
IsCtrl(c) == c \in {7, 9, 10, 11, 12, 13, 28, 29, 30, 31} \cup (1..6) \cup (17..23)

NumericType(t) == t = "R" \/ t \in NTypes
TextType(t) == t \in {"AN", "ID"}
DateTypes == {"RD8", "DT", "D8", "D6"}
QualTypes == DateTypes \cup {"TM"}

(* number of characters that count for the length limits *)
CountedLen(t, cp) == IF NumericType(t) THEN Cardinality({i \in 1..Len(cp) : cp[i] \notin {CMinus, CPoint}})
                     ELSE Len(cp)
(* length of the value without its trailing blanks *)
StrippedLen(cp) == LET nb == {i \in 1..Len(cp) : cp[i] # CBlank}
                   IN IF nb = {} THEN 0 ELSE CHOOSE i \in nb : \A j \in nb : j <= i

TypeCode(t) == IF t \in DateTypes THEN "8" ELSE IF t = "TM" THEN "9" ELSE "6"
QualCode(tl) == IF "TM" \in SeqSet(tl) THEN "9" ELSE "8"

HasCodeList(D) == Len(D.codes) > 0 \/ D.hasExt
CodeOK(D, V, S) == \/ ~HasCodeList(D)
                   \/ V.s \in SeqSet(D.codes)
                   \/ D.hasExt /\ (S.excl \/ V.ext)

Empty(V) == V.absent \/ (~V.isComp /\ V.s = "")

(* the set of <<constraint, code>> an element value breaks *)
Broken(D, V, S) ==
  IF V.isComp THEN {<<"composite_value", "6">>} \cup If(D.usage = "N", <<"not_used", "10">>)
  ELSE IF Empty(V) THEN If(D.usage = "R", <<"missing", "1">>)
  ELSE IF D.usage = "N" THEN {<<"not_used", "10">>}
  ELSE LET n == CountedLen(D.dtype, V.cp) IN
       If(n < D.min, <<"too_short", "4">>)
       \cup If(n > D.max, <<"too_long", "5">>)
       \cup If(\E i \in 1..Len(V.cp) : IsCtrl(V.cp[i]), <<"control_char", "6">>)
       \cup If(TextType(D.dtype) /\ V.cp[Len(V.cp)] = CBlank /\ StrippedLen(V.cp) >= D.min, <<"trailing_blank", "6">>)
       \cup If(~CodeOK(D, V, S), <<"code", "7">>)
       \cup If(D.dtype \in ClaimedTypes /\ ~Accept(V.s, D.dtype, S.cs, D.icvn), <<"type", TypeCode(D.dtype)>>)
       \cup If(Len(S.tl) > 0 /\ \A t \in SeqSet(S.tl) : ~Accept(V.s, t, S.cs, "00401"), <<"qualified_type", QualCode(S.tl)>>)
       \cup If(D.hasRx /\ ~V.rx, <<"pattern", "7">>)

(* the formats a qualifier value selects *)
Selected(q) == IF q \in QualTypes THEN <<q>> ELSE <<>>

AbsentValue == [absent |-> TRUE, isComp |-> FALSE, s |-> "", cp |-> <<>>, ext |-> FALSE, rx |-> FALSE]

(* composite: V = [absent, comps (sequence of values)], S = [cs, excl (one flag per defined component)] *)
CompPresent(V) == ~V.absent /\ \E i \in 1..Len(V.comps) : ~Empty(V.comps[i])
CompAt(V, i) == IF i <= Len(V.comps) THEN V.comps[i] ELSE AbsentValue
(* <<constraint, code, component (0 = the composite itself)>> *)
CompBroken(D, V, S) ==
  IF ~CompPresent(V) THEN (IF D.usage = "R" THEN {<<"comp_missing", "2", 0>>, <<"comp_missing", "1", 0>>} ELSE {})
  ELSE IF D.usage = "N" THEN {<<"comp_not_used", "5", 0>>, <<"comp_not_used", "10", 0>>}
  ELSE If(Len(V.comps) > Len(D.kids), <<"too_many", "3", 0>>)
       \cup UNION { {<<b[1], b[2], i>> : b \in Broken(D.kids[i], CompAt(V, i), [cs |-> S.cs, excl |-> S.excl[i], tl |-> <<>>])}
                    : i \in 1..Len(D.kids) }

(* ------------------------------------------------------------------ monitor -- *)
(* observation O = [res "true"|"false"|"exc", codes (sequence of reported codes)]; B = broken constraints  *)
Implied(B) == {b[2] : b \in B}
Clause(B, O) ==
  LET rep == SeqSet(O.codes) IN
  IF O.res = "exc" THEN "raise"
  ELSE IF B = {} /\ rep # {} THEN "false_alarm"
  ELSE IF B # {} /\ rep = {} THEN "missed"
  ELSE IF ~(rep \subseteq Implied(B)) THEN "wrong_code"
  ELSE IF (O.res = "true") # (rep = {}) THEN "flag"
  ELSE ""

(* Completeness.  The statement asks for EXACTLY the implied set.  The one precedence the code documents ("control       *)
(* character errors trump all", the fixed order named in the property's anchors: presence/usage, length, control          *)
(* characters, then the rest) is admitted: a value holding a control character must show the control-character code and    *)
(* its length errors, and may keep silent about the constraints checked after it; without a control character every        *)
(* implied code must be reported.                                                                                         *)
Complete(B, rep) ==
  IF \E b \in B : b[1] = "composite_value" THEN "6" \in rep          \* a composite value is not looked at any further
  ELSE IF \E b \in B : b[1] = "control_char"
  THEN "6" \in rep /\ {b[2] : b \in {x \in B : x[1] \in {"too_short", "too_long"}}} \subseteq rep
  ELSE rep = Implied(B)

(* the codes an implementation may report for B: the implied set, less what a composite value or a control character masks *)
Admissible(B, rep) == IF B = {} THEN rep = {} ELSE rep # {} /\ rep \subseteq Implied(B) /\ Complete(B, rep)

(* ------------------------------------------------------- facts (checked once) -- *)
DefSanityEV ==
  LET D == [usage |-> "R", dtype |-> "R", min |-> 1, max |-> 4, codes |-> <<>>, hasExt |-> FALSE, hasRx |-> FALSE,
            inComp |-> FALSE, seq |-> 1, pusage |-> "", icvn |-> "00401"]
      V(s, cp) == [absent |-> FALSE, isComp |-> FALSE, s |-> s, cp |-> cp, ext |-> FALSE, rx |-> FALSE]
      S == [cs |-> "B", excl |-> FALSE, tl |-> <<>>]
  IN /\ Broken(D, V("-12.34", <<45, 49, 50, 46, 51, 52>>), S) = {}
     /\ Broken(D, V("-12.345", <<45, 49, 50, 46, 51, 52, 53>>), S) = {<<"too_long", "5">>}
     /\ Broken(D, V("", <<>>), S) = {<<"missing", "1">>}
     /\ Broken([D EXCEPT !.usage = "S"], V("", <<>>), S) = {}
     /\ Broken([D EXCEPT !.usage = "N"], V("1", <<49>>), S) = {<<"not_used", "10">>}
     /\ Broken([D EXCEPT !.dtype = "AN"], V("AB ", <<65, 66, 32>>), S) = {<<"trailing_blank", "6">>}
     /\ Broken([D EXCEPT !.dtype = "AN", !.min = 3], V("AB ", <<65, 66, 32>>), S) = {}
     /\ Broken([D EXCEPT !.dtype = "ID", !.codes = <<"AB">>], V("AC", <<65, 67>>), S) = {<<"code", "7">>}
     /\ Broken([D EXCEPT !.dtype = "ID", !.codes = <<"AB">>, !.hasExt = TRUE], V("AC", <<65, 67>>), [S EXCEPT !.excl = TRUE]) = {}
     /\ Broken([D EXCEPT !.dtype = "DT", !.max = 8], V("20230229", <<50, 48, 50, 51, 48, 50, 50, 57>>), S) = {<<"type", "8">>}
     /\ Broken([D EXCEPT !.dtype = "AN", !.max = 35], V("2359", <<50, 51, 53, 57>>), [S EXCEPT !.tl = <<"D8">>]) = {<<"qualified_type", "8">>}
     /\ Broken([D EXCEPT !.dtype = "AN", !.max = 35], V("240101-240229", <<50, 52, 48, 49, 48, 49, 45, 50, 52, 48, 50, 50, 57>>),
               [S EXCEPT !.tl = <<"RD8">>]) = {<<"qualified_type", "8">>}
     /\ Broken([D EXCEPT !.dtype = "AN", !.max = 35], V("20240101-", <<50, 48, 50, 52, 48, 49, 48, 49, 45>>),
               [S EXCEPT !.tl = <<"RD8">>]) = {<<"qualified_type", "8">>}
     /\ Clause({}, [res |-> "true", codes |-> <<>>]) = ""
     /\ Clause({<<"code", "7">>}, [res |-> "false", codes |-> <<"7">>]) = ""
     /\ Clause({<<"code", "7">>}, [res |-> "true", codes |-> <<"7">>]) = "flag"
     /\ Clause({<<"code", "7">>}, [res |-> "false", codes |-> <<"6">>]) = "wrong_code"
     /\ Clause({<<"code", "7">>, <<"too_long", "5">>}, [res |-> "false", codes |-> <<"5">>]) = ""
=============================================================================
