----------------------------- MODULE WriterGen ------------------------------
(* Generator + model-level check for C11: the environment writes any           *)
(* well-nested sequence (trailers supplied with right / wrong / absent counts    *)
(* and right / wrong ids, or omitted), every state is a possible Close point.    *)
EXTENDS Naturals, Sequences, FiniteSets, TLC, Json, Writer
CONSTANTS MaxLen, Ids, Versions, EmitAll
VARIABLES st, out, hist
vars == <<st, out, hist>>
R == INSTANCE Recount

Candidates(h) ==
  LET d == OpenDepth(h) IN
     (IF d = 0 THEN {Seg("ISA", id, "", v, "") : id \in Ids, v \in Versions} ELSE {})
  \cup (IF d = 1 THEN {Seg("GS", id, "", "", "") : id \in Ids} ELSE {})
  \cup (IF d = 2 THEN {Seg("ST", id, "", "", "") : id \in Ids} ELSE {})
  \cup (IF d >= 3 THEN {Seg("SE", id, c, "", "") : id \in Ids, c \in {"", "1", "7"}} ELSE {})
  \cup (IF d >= 2 THEN {Seg("GE", id, c, "", "") : id \in {"1"}, c \in {"", "1"}} ELSE {})
  \cup (IF d >= 1 THEN {Seg("IEA", id, c, "", "") : id \in {"2"}, c \in {"1"}} ELSE {})
  \cup (IF d >= 1 THEN {Seg("B", "", "", "", "")} ELSE {})

Init == st = EnvInit /\ out = <<>> /\ hist = <<>>
Write(s) == LET r == WWrite(st, out, s) IN st' = r.st /\ out' = r.out /\ hist' = Append(hist, s)
Next == Len(hist) < MaxLen /\ \E s \in Candidates(hist) : Write(s)
Spec == Init /\ [][Next]_vars

Closed == WCloseAll(st, out).out                    \* what the implementation model writes if Close() is called now
NonTrailers(q) == SelectSeq(q, LAMBDA s : ~IsTrailer(s))
RECURSIVE ReadAll(_, _, _, _)
ReadAll(q, i, rs, acc) == IF i > Len(q) THEN [st |-> rs, errs |-> acc]
                          ELSE LET r == Reader(rs, q[i], FALSE) IN ReadAll(q, i + 1, r.st, acc \o r.errs)
(* model-level theorems, for every well-nested history and every Close point *)
ImplIsDef == Closed = WriterDef(hist)
ContentPreserved == NonTrailers(Closed) = NonTrailers(hist)
DupCodes == {<<"isa","025">>, <<"gs","6">>, <<"st","23">>}      \* reuse of a control number is the caller's, the writer copies headers unchanged
ReaderAccepts == LET r == ReadAll(Closed, 1, EnvInit, <<>>) IN
                 {r.errs[i] : i \in 1..Len(r.errs)} \subseteq DupCodes /\ Cleanup(r.st) = <<>> /\ ~r.st.crashed
RecountClean == /\ R!ProperlyNested(Closed) /\ R!MissingAtEnd(Closed) = {}
                /\ \A i \in 1..Len(Closed) : R!Discrepancies(SubSeq(Closed, 1, i), FALSE) \subseteq {<<"isa","025">>, <<"gs","6">>, <<"st","23">>}
GenWellNested == WellNested(hist)
Emit == (EmitAll /\ Len(hist) > 0) => PrintT(<<"HIST", ToJson(hist)>>)
=============================================================================
