------------------------------ MODULE HtmlGen -------------------------------
(* Generator + model-level check for C19.  The environment plays x12n_document:  *)
(* one step per source segment, each step a sequence of calls on err_handler     *)
(* (the shapes the walker, the reader and is_valid produce), then the HTML step  *)
(* exactly as coded: advance err_iter until IterOutOfBounds, hand the collected  *)
(* nodes to gen_seg.  The last step is cleanup() + footer().                     *)
(* TLC explores every tree-growth sequence within the bounds and checks          *)
(*   - every segment-level error node is collected exactly once,                 *)
(*   - every stored segment-/element-level error of a body segment of a properly *)
(*     nested first interchange is written exactly once, next to its segment,    *)
(*   - footer() does not crash once a set has been opened.                       *)
(* Everything else the model predicts to go wrong is not asserted but classified *)
(* (MODELDIFF) and emitted as a behaviour, to be decided on the real code by the *)
(* definition layer (T_Html).                                                    *)
EXTENDS Html, Json
CONSTANTS MaxSeg,      \* number of source segments
          MaxErr,      \* total number of reported errors in a behaviour
          Per,         \* at most Per errors of one kind on one segment
          Unnested,    \* headers inside open loops, missing trailers, truncated input
          MultiIsa,    \* more than one interchange
          NotUsed,     \* "segment marked not used": seg_error without add_seg
          EnvErr,      \* errors on envelope segments (levels isa/gs/st and element errors)
          StaleEle,    \* element errors reported without add_ele / last validated element in error
          EmitAll      \* print every finished behaviour
VARIABLES H, it, hist, out, useg, ulvl, done, foot, fcrash, colls
vars == <<H, it, hist, out, useg, ulvl, done, foot, fcrash, colls>>

Call(op, lvl, code) == [op |-> op, lvl |-> lvl, code |-> code, u |-> 0, on |-> ""]
AddSeg == Call("add_seg", "", "")
SegE(code) == Call("seg_error", "seg", code)
EleE == <<Call("add_ele", "", ""), Call("ele_error", "ele", "4")>>
AddEle == Call("add_ele", "", "")
Stale == Call("ele_error", "ele", "3")     \* "too many elements": reported without add_ele
IsaE(code) == Call("isa_error", "isa", code)
GsE(code) == Call("gs_error", "gs", code)
StE(code) == Call("st_error", "st", code)
RECURSIVE Rep(_, _)
Rep(n, s) == IF n = 0 THEN <<>> ELSE s \o Rep(n - 1, s)
IsErr(c) == c.lvl # ""
NErr(calls) == Len(SelectSeq(calls, IsErr))
RECURSIVE Number(_, _, _, _)
Number(calls, i, base, sid) ==
  IF i > Len(calls) THEN <<>>
  ELSE LET c == calls[i] IN
       IF IsErr(c) THEN <<[c EXCEPT !.u = base + 1, !.on = sid]>> \o Number(calls, i + 1, base + 1, sid)
       ELSE <<[c EXCEPT !.on = sid]>> \o Number(calls, i + 1, base, sid)

Lvls(calls) == LET es == SelectSeq(calls, IsErr) IN [i \in 1..Len(es) |-> es[i].lvl]
Open(n) == n # 0 /\ ~H.nodes[n].closed
isaOpen == Open(H.isa)   gsOpen == Open(H.gs)   stOpen == Open(H.st)
NIsa == Len(SelectSeq(hist, LAMBDA e : e.sid = "ISA"))
EnvN == IF EnvErr THEN 0..1 ELSE {0}
EnvE == IF EnvErr THEN 0..Per ELSE {0}

Events ==
  LET b == MaxErr - Len(useg) IN
  {ev \in
     (IF ~isaOpen \/ Unnested THEN
        {[sid |-> "ISA", calls |-> <<Call("add_isa", "", "")>> \o (IF isaOpen THEN <<IsaE("024")>> ELSE <<>>) \o Rep(a, <<IsaE("025")>>) \o Rep(e, EleE) \o <<AddEle>>]
           : a \in EnvN, e \in EnvE}
      ELSE {})
     \cup (IF isaOpen /\ (~gsOpen \/ Unnested) THEN
        {[sid |-> "GS", calls |-> <<Call("add_gs", "", "")>> \o (IF gsOpen THEN <<IsaE("024")>> ELSE <<>>) \o Rep(a, <<GsE("6")>>) \o Rep(e, EleE) \o <<AddEle>>]
           : a \in EnvN, e \in EnvE}
      ELSE {})
     \cup (IF gsOpen /\ (~stOpen \/ Unnested) THEN
        {[sid |-> "ST", calls |-> (IF stOpen THEN <<AddSeg, SegE("3")>> ELSE <<>>) \o <<Call("add_st", "", "")>>
                                  \o (IF stOpen THEN <<IsaE("024")>> ELSE <<>>) \o Rep(a, <<StE("23")>>) \o Rep(e, EleE) \o <<AddEle>>]
           : a \in EnvN, e \in EnvE}
      ELSE {})
     \cup (IF stOpen THEN
        {[sid |-> "B", calls |-> Rep(p, <<AddSeg, SegE("3")>>) \o Rep(nu, <<SegE("2")>>) \o Rep(m, <<AddSeg, SegE("5")>>)
                                 \o <<AddSeg>> \o Rep(s, <<SegE("8")>>) \o Rep(x, <<Stale>>) \o Rep(e, EleE) \o Rep(z, <<AddEle>>)]
           : p \in 0..Per, nu \in (IF NotUsed THEN 0..1 ELSE {0}), m \in 0..1, s \in 0..Per, e \in 0..Per,
             x \in (IF StaleEle THEN 0..1 ELSE {0}), z \in (IF StaleEle THEN 0..1 ELSE {1})}
        \cup {[sid |-> "SE", calls |-> Rep(p, <<AddSeg, SegE("3")>>) \o Rep(s, <<SegE("8")>>) \o Rep(a, <<StE("4")>>)
                                       \o <<Call("close_st", "", "")>> \o Rep(e, EleE) \o <<AddEle>>]
                : p \in 0..Per, s \in EnvN, a \in EnvN, e \in EnvE}
      ELSE {})
     \cup (IF gsOpen THEN {[sid |-> "X", calls |-> <<AddSeg, SegE("1")>>]} ELSE {})     \* segment not found in the map
     \cup (IF gsOpen /\ (~stOpen \/ Unnested) THEN
        {[sid |-> "GE", calls |-> (IF stOpen THEN <<AddSeg, SegE("3"), GsE("3")>> ELSE IF H.nodes[H.gs].kids = <<>> THEN <<AddSeg, SegE("3")>> ELSE <<>>)
                                  \o Rep(a, <<GsE("5")>>)
                                  \o <<Call("close_gs", "", "")>> \o Rep(e, EleE) \o <<AddEle>>]
           : a \in EnvN, e \in EnvE}
      ELSE {})
     \cup (IF isaOpen /\ (~gsOpen \/ Unnested) THEN
        {[sid |-> "IEA", calls |-> (IF gsOpen THEN <<IsaE("024")>> ELSE IF H.nodes[H.isa].kids = <<>> THEN <<AddSeg, SegE("3")>> ELSE <<>>)
                                   \o Rep(a, <<IsaE("021")>>)
                                   \o <<Call("close_isa", "", "")>> \o Rep(e, EleE) \o <<AddEle>>]
           : a \in EnvN, e \in EnvE}
      ELSE {})
   : /\ NErr(ev.calls) <= b
     /\ (ev.sid = "ISA" /\ NIsa >= 1) => MultiIsa}

Init == /\ H = HInit /\ it = ItInit /\ hist = <<>> /\ out = <<>> /\ useg = <<>> /\ done = FALSE
        /\ foot = <<>> /\ fcrash = FALSE /\ colls = <<>> /\ ulvl = <<>>

Seg(ev) ==
  LET calls == Number(ev.calls, 1, Len(useg), IF ev.sid = "X" THEN "B" ELSE ev.sid)
      H1 == ApplyAll(H, calls, 1)
      r == Collect(H1.nodes, it, <<>>)
      g == GenSeg(H1, r.list, IF ev.sid = "X" THEN "B" ELSE ev.sid)
  IN /\ H' = H1 /\ it' = r.it
     /\ hist' = Append(hist, [sid |-> ev.sid, calls |-> calls])
     /\ out' = Append(out, [pre |-> Uids(g.pre), post |-> Uids(g.post)])
     /\ colls' = Append(colls, r.list)
     /\ useg' = useg \o Rep(NErr(calls), <<Len(hist) + 1>>)
     /\ ulvl' = ulvl \o Lvls(calls)
     /\ UNCHANGED <<done, foot, fcrash>>
MayEnd == Len(hist) > 0 /\ (Unnested \/ (~isaOpen /\ ~gsOpen /\ ~stOpen))
End ==
  LET tail == (IF isaOpen THEN <<IsaE("023")>> ELSE <<>>) \o (IF gsOpen THEN <<GsE("3")>> ELSE <<>>) \o (IF stOpen THEN <<StE("2")>> ELSE <<>>)
      calls == Number(tail, 1, Len(useg), "END")
      H1 == ApplyAll(H, calls, 1)
      f == Footer(H1)
  IN /\ MayEnd /\ H' = H1 /\ done' = TRUE /\ foot' = Uids(f.errs) /\ fcrash' = f.crashed
     /\ hist' = Append(hist, [sid |-> "END", calls |-> calls])
     /\ useg' = useg \o Rep(NErr(calls), <<0>>)
     /\ ulvl' = ulvl \o Lvls(calls)
     /\ UNCHANGED <<it, out, colls>>
Next == /\ ~done /\ ~H.crashed
        /\ \/ (Len(hist) < MaxSeg /\ \E ev \in Events : Seg(ev))
           \/ End
Spec == Init /\ [][Next]_vars

(* ---------------- what the model says about the property ---------------- *)
NSegs == Len(out)
AllNodes == 1..Len(H.nodes)
Attached(n) == H.nodes[n].kind # "SEG" \/ (H.nodes[n].parent # 0 /\ InSeq(n, H.nodes[H.nodes[n].parent].kids))
Stored == UNION {{e.u : e \in {H.nodes[n].errs[i] : i \in 1..Len(H.nodes[n].errs)}} \cup
                 {e.u : e \in {EleErrs(H, n)[i] : i \in 1..Len(EleErrs(H, n))}} : n \in {m \in AllNodes : Attached(m)}}
LvlOf(u) == ulvl[u]
ClaimedU == {u \in Stored : LvlOf(u) \in {"seg", "ele"} /\ useg[u] >= 1 /\ useg[u] <= NSegs}
Count(u, s) == Len(SelectSeq(s, LAMBDA x : x = u))
Block(k) == out[k].pre \o out[k].post
ShownNext(u) == Count(u, Block(useg[u])) >= 1
(* situation of segment k in the generated history (the classification of Html!Where) *)
Sids == [k \in 1..Len(hist) |-> IF hist[k].sid = "X" THEN "B" ELSE hist[k].sid]
WhereK(k) == Where(Sids, k)
HasStale == \E k \in 1..Len(hist) : \E j \in 1..Len(hist[k].calls) : hist[k].calls[j].code = "3" /\ hist[k].calls[j].op = "ele_error"
HasNotUsed == \E k \in 1..Len(hist) : \E j \in 1..Len(hist[k].calls) : hist[k].calls[j].code = "2" /\ hist[k].calls[j].op = "seg_error"
Plainly == ~HasNotUsed /\ ~HasStale
BodyU(u) == LvlOf(u) \in {"seg", "ele"} /\ useg[u] >= 1 /\ WhereK(useg[u]) = "body_segment"

(* hard model-level invariants.  Every prefix of a behaviour is a reachable state, so it suffices to look at the    *)
(* segment processed last.                                                                                         *)
SegNodeOnce ==       \* a segment error node is never collected twice
  NSegs >= 1 =>
    LET last == colls[NSegs] IN
    \A j \in 1..Len(last) : H.nodes[last[j]].kind = "SEG" =>
        /\ Count(last[j], last) = 1
        /\ \A k \in 1..(NSegs - 1) : Count(last[j], colls[k]) = 0
BodyErrorsShown ==   \* first interchange, envelopes nested properly: every stored body-segment error once, next to its segment
  (Plainly /\ NSegs >= 1) =>
    /\ \A u \in ClaimedU : (useg[u] = NSegs /\ BodyU(u)) => Count(u, Block(NSegs)) = 1
    /\ \A j \in 1..Len(Block(NSegs)) : BodyU(Block(NSegs)[j]) => useg[Block(NSegs)[j]] = NSegs
    /\ \A j \in 1..Len(foot) : ~BodyU(foot[j])
NoFooterCrash == (done /\ H.st # 0) => ~fcrash
NoModelCrash == ~H.crashed

(* soft: classified, emitted, decided on the real code *)
Missed == {u \in ClaimedU : ~ShownNext(u)}
DiffClasses == {<<WhereK(useg[u]), LvlOf(u)>> : u \in Missed} \cup (IF fcrash THEN {<<"footer_crash", "">>} ELSE {})
              \cup {<<"not_used", "seg">> : u \in {v \in Missed : HasNotUsed}} \cup {<<"stale_element_node", "ele">> : u \in {v \in Missed : HasStale}}
Shape == [i \in 1..Len(hist) |-> [sid |-> hist[i].sid, calls |-> [j \in 1..Len(hist[i].calls) |-> hist[i].calls[j].op \o ":" \o hist[i].calls[j].code]]]
ModelDiff == (done /\ DiffClasses # {}) => PrintT(<<"MODELDIFF", ToJson([c |-> DiffClasses, h |-> Shape, out |-> out, foot |-> foot])>>)
Emit == (done /\ EmitAll) => PrintT(<<"HIST", ToJson([h |-> Shape, out |-> out, foot |-> foot, missed |-> Missed, fcrash |-> fcrash])>>)
=============================================================================
