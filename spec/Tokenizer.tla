------------------------------ MODULE Tokenizer ------------------------------
(* Implementation-shaped model of pyx12.rawx12file.RawX12File (buffer refill /   *)
(* split loop) and of the per-line normalisation in X12Reader.__iter__, driven   *)
(* by an environment that first writes a text and then serves read() calls in    *)
(* chunks of its choosing.  Model-level theorem: whatever the chunking, the      *)
(* yielded segments are exactly TokDef!Oracle(text).                             *)
EXTENDS Naturals, Sequences, FiniteSets, TLC, Json, TokDef
CONSTANTS Alphabet,     \* code points the text is built from
          MaxText,      \* text length bound
          Buf,          \* DEFAULT_BUFSIZE of the model
          Short,        \* TRUE: the stream may return fewer characters than requested
          EmitAll
VARIABLES phase, text, rpos, buf, lines, sched
vars == <<phase, text, rpos, buf, lines, sched>>
D == [seg |-> 126, ele |-> 42, sub |-> 58]

Remaining == Len(text) - rpos
Sizes == IF Remaining = 0 THEN {0}
         ELSE IF Short THEN 1..(IF Buf < Remaining THEN Buf ELSE Remaining)
         ELSE {IF Buf < Remaining THEN Buf ELSE Remaining}
HasTerm(b) == \E i \in 1..Len(b) : b[i] = D.seg
FirstTerm(b) == CHOOSE i \in 1..Len(b) : b[i] = D.seg /\ \A j \in 1..(i - 1) : b[j] # D.seg
Take(k) == SubSeq(text, rpos + 1, rpos + k)

Init == phase = "gen" /\ text = <<>> /\ rpos = 0 /\ buf = <<>> /\ lines = <<>> /\ sched = <<>>
AddChar == /\ phase = "gen" /\ Len(text) < MaxText
           /\ \E c \in Alphabet : text' = Append(text, c)
           /\ UNCHANGED <<phase, rpos, buf, lines, sched>>
(* RawX12File.__init__: self.buffer = header + fd.read(DEFAULT_BUFSIZE); the header line is split off first *)
InitRead == /\ phase = "gen"
            /\ \E k \in Sizes : buf' = Take(k) /\ rpos' = rpos + k /\ sched' = <<k>>
            /\ phase' = "iter" /\ UNCHANGED <<text, lines>>
(* __iter__: no terminator in the buffer -> read more (until one arrives or the stream is exhausted) *)
Refill == /\ phase = "iter" /\ ~HasTerm(buf) /\ Remaining > 0
          /\ \E k \in Sizes : buf' = buf \o Take(k) /\ rpos' = rpos + k /\ sched' = Append(sched, k)
          /\ UNCHANGED <<phase, text, lines>>
GiveUp == /\ phase = "iter" /\ ~HasTerm(buf) /\ Remaining = 0
          /\ phase' = "done" /\ sched' = Append(sched, 0) /\ UNCHANGED <<text, rpos, buf, lines>>
(* split the first segment off the buffer; drop the line break after the terminator; skip empty pieces *)
Split == /\ phase = "iter" /\ HasTerm(buf)
         /\ LET i == FirstTerm(buf)
                line == StripLead(SubSeq(buf, 1, i - 1), {CR, LF})
            IN /\ buf' = SubSeq(buf, i + 1, Len(buf))
               /\ lines' = IF line = <<>> THEN lines ELSE Append(lines, line)
         /\ UNCHANGED <<phase, text, rpos, sched>>
Next == AddChar \/ InitRead \/ Refill \/ GiveUp \/ Split
Spec == Init /\ [][Next]_vars

(* liveness: on a finite input the iteration always terminates, whatever the stream does (it must make progress or
   report the end of the data: read() returning nothing) - checked with weak fairness on the composite step *)
FairSpec == Spec /\ WF_vars(Next)
Terminates == <>(phase = "done")

(* X12Reader.__iter__ on one raw line: leading blank -> error, lstrip; blank-only line skipped; trailing separator flagged *)
ReaderLine(line) == LET l2 == IF line[1] = BLANK THEN StripLead(line, {BLANK, CR, LF}) ELSE line IN
                    [skip |-> l2 = <<>>, blank |-> line[1] = BLANK,
                     seg |-> IF l2 = <<>> THEN [id |-> <<>>, eles |-> <<>>] ELSE ParseSeg(l2, D),
                     trail |-> l2 # <<>> /\ l2[Len(l2)] = D.ele]
Yielded == LET rs == [i \in 1..Len(lines) |-> ReaderLine(lines[i])]
               keep == SelectSeq(rs, LAMBDA r : ~r.skip)
           IN [i \in 1..Len(keep) |-> [seg |-> keep[i].seg, blank |-> keep[i].blank, trail |-> keep[i].trail]]

(* model-level theorems *)
Lossless == phase = "done" => Yielded = Oracle(text, D)
RoundTrip == phase = "done" =>
   \A i \in 1..Len(Yielded) : LET s == Yielded[i].seg
                                  again == Oracle(FormatSeg(s, D), D)
                              IN Len(again) = 1 /\ NormSeg(again[1].seg) = NormSeg(s)
Emit == (EmitAll /\ phase = "done") => PrintT(<<"RUN", ToJson([text |-> text, sched |-> sched])>>)
=============================================================================
