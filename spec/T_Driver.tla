------------------------------ MODULE T_Driver -------------------------------
(* Trace validation of the map dispatch: executions of the real x12n_document    *)
(* and X12ContextReader.iter_segments.  A trace:                                  *)
(*   [id, api, hist, obs, lx, raised_at, exc]                                     *)
(*   obs[i]   file of the map whose node segment i was handed to the callback /   *)
(*            yielded with ("" = not observed)                                    *)
(*   lx[i]    "T"/"F" the reader's check_837_lx flag after segment i ("" = n/a)   *)
(*   raised_at 0, or the segment at which EngineError 'Map not found' was raised  *)
(*   exc      "" | "EngineError" (map not found) | any other exception name       *)
(* Definition clauses (violations): wrong_map, no_raise, spurious_raise, lx_flag, *)
(* crash.  Implementation-shaped clause (drift): obs[i] = node_map of Driver!Run. *)
EXTENDS Driver
VARIABLES ti, rej, drift
vars == <<ti, rej, drift>>
Traces == JsonDeserialize(IOEnv.TRACE_FILE)
Seen(tr) == IF tr.raised_at = 0 THEN Len(tr.hist) ELSE tr.raised_at - 1
InGroupAt(h, i) == LET isa == LastOf(h, i, {"ISA"}, 0)  gs == LastOf(h, i, {"GS"}, isa) IN
                   isa # 0 /\ gs # 0 /\ h[i].k \notin {"ISA", "GE", "IEA"} /\ LastOf(h, i, {"GE"}, gs) = 0
Clause(tr) ==
  LET h == tr.hist
      W == {i \in 1..Len(h) : Claimed(h, i) /\ WantRaise(h, i)}
      want == IF W = {} THEN 0 ELSE Min(W)
      n == IF want = 0 THEN Seen(tr) ELSE Min({want - 1, Seen(tr)})
  IN IF tr.exc \notin {"", "EngineError"} THEN "crash"
     ELSE IF want # 0 /\ tr.raised_at # want THEN (IF tr.raised_at = 0 THEN "no_raise" ELSE "raise_position")
     ELSE IF want = 0 /\ tr.raised_at # 0 THEN "spurious_raise"
     ELSE IF \E i \in 1..n : Claimed(h, i) /\ tr.obs[i] # "" /\ tr.obs[i] \notin WantMaps(h, i) THEN "wrong_map"
     ELSE IF \E i \in 1..n : InGroupAt(h, i) /\ tr.lx[i] # "" /\ (tr.lx[i] = "T") # WantLx(h, i) THEN "lx_flag"
     ELSE ""
RECURSIVE DriftAt(_, _, _)
DriftAt(tr, st, i) ==
  IF i > Seen(tr) THEN 0
  ELSE LET s2 == DStep(st, tr.hist[i]) IN
       IF Claimed(tr.hist, i) /\ tr.obs[i] # "" /\ ~s2.raised /\ tr.obs[i] # s2.node_map THEN i ELSE DriftAt(tr, s2, i + 1)
Init == ti = 1 /\ rej = {} /\ drift = {}
Step ==
  /\ ti <= Len(Traces)
  /\ LET tr == Traces[ti]  c == Clause(tr)  d == IF Len(tr.hist) = 0 THEN 0 ELSE DriftAt(tr, DInit(tr.hist[1].a), 1) IN
     /\ rej' = IF c = "" THEN rej ELSE rej \cup {<<tr.id, c>>}
     /\ drift' = IF d = 0 \/ Cardinality(drift) >= 10 THEN drift ELSE drift \cup {<<tr.id, d>>}
     /\ ti' = ti + 1
Spec == Init /\ [][Step]_vars
Report == (ti > Len(Traces)) => PrintT(<<"REJECTS", ToJson([rej |-> rej, drift |-> drift, n |-> Len(Traces)])>>)
=============================================================================
