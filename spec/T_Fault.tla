------------------------------- MODULE T_Fault -------------------------------
(* Trace validation for C03: one record per validation, by the real              *)
(* x12n_document, of a conformant document with exactly one injected fault:      *)
(* [id, kind, local, inj: [seg (segment id), segpos (position in the set), line, *)
(*  ele, sub, value], alt (other element positions that would also localise the  *)
(*  fault, e.g. the positions of a syntax note), verdict, exc,                    *)
(*  errors: <<[lvl, code, seg, segpos, line, ele, sub, val]>>, sets, faultset     *)
(*  (index of the set that carries the fault), clean (the same document without   *)
(*  the fault was accepted)]                                                      *)
EXTENDS Naturals, Sequences, FiniteSets, TLC, Json, IOUtils
Recs == JsonDeserialize(IOEnv.TRACE_FILE)
VARIABLES i, rej

ElementLevel == {"TooLong", "TooShort", "BadCode", "BadClass", "BadDate", "BadTime", "MissingRequired", "NotUsedPresent",
                 "TooManySubElements", "TooManyElements", "SyntaxBroken"}
AllowedCodes(kind) ==
  CASE kind = "TooLong" -> {"5"} [] kind = "TooShort" -> {"4"} [] kind = "BadCode" -> {"7"} [] kind = "BadClass" -> {"6"}
    [] kind = "BadDate" -> {"8"} [] kind = "BadTime" -> {"9"} [] kind = "MissingRequired" -> {"1"} [] kind = "NotUsedPresent" -> {"10"}
    [] kind = "TooManyElements" -> {"3"} [] kind = "TooManySubElements" -> {"3"} [] kind = "SyntaxBroken" -> {"2", "10"}
    [] kind = "UnknownSeg" -> {"1"} [] kind = "OutOfPlaceSeg" -> {"1", "2", "7"} [] kind = "MissingRequiredSeg" -> {"3"} [] kind = "MissingRequiredLoop" -> {"3"} [] kind = "SegOverMax" -> {"5"} [] kind = "LoopOverMax" -> {"4"}
    [] OTHER -> {}
Errs(r) == {r.errors[j] : j \in 1..Len(r.errors)}
(* an error that localises the fault: right level, matching code, at the injected segment position and element position *)
AtInjection(r, e) ==
  IF r.kind \in ElementLevel
  THEN \/ /\ e.lvl = "ele" /\ e.code \in AllowedCodes(r.kind) /\ e.seg = r.inj.seg /\ e.segpos = r.inj.segpos
          /\ (e.ele = r.inj.ele \/ e.ele \in {r.alt[j] : j \in 1..Len(r.alt)})
          /\ (r.inj.sub = 0 \/ e.sub = r.inj.sub \/ r.kind = "TooManySubElements")
       \* a fault on an element the segment is recognised by: the segment itself is then unrecognised / unexpected there
       \/ /\ ~r.local /\ e.lvl = "seg" /\ e.code \in {"1", "2"} /\ e.seg = r.inj.seg /\ e.segpos = r.inj.segpos
       \* ... or it is taken for another segment of the same id, and the one it was meant to be is then reported missing
       \/ /\ ~r.local /\ e.lvl = "seg" /\ e.code = "3" /\ e.seg = r.inj.seg
  ELSE /\ e.lvl = "seg" /\ e.code \in AllowedCodes(r.kind) /\ e.seg = r.inj.seg
       \* a missing segment or loop is reported where its absence shows: at the segment that follows the gap - for a missing
       \* SEGMENT no later than the first following segment beyond its own ordinal (segments that share an ordinal may come in
       \* any order, so a same-ordinal sibling right after the gap decides nothing yet; inj.until carries that position)
       /\ IF r.kind = "MissingRequiredSeg" THEN e.segpos >= r.inj.segpos /\ e.segpos <= r.inj.until ELSE e.segpos = r.inj.segpos
Clause(r) ==
  IF ~r.clean THEN ""                       \* the unfaulted document itself was not accepted: C02's business, no claim here
  ELSE IF r.exc # "" THEN "exception"
  ELSE IF r.verdict # FALSE THEN "not_rejected"
  ELSE IF ~\E e \in Errs(r) : AtInjection(r, e) THEN "not_localised"
  ELSE IF r.local /\ \E e \in Errs(r) : ~AtInjection(r, e) THEN "other_errors_reported"
  ELSE IF r.local /\ \E j \in 1..Len(r.sets) : j # r.faultset /\ r.sets[j] # "A" THEN "other_set_not_accepted"
  ELSE IF r.local /\ r.faultset >= 1 /\ r.faultset <= Len(r.sets) /\ r.sets[r.faultset] = "A" THEN "faulty_set_accepted"      \* faultset 0: the fault lies outside any set
  ELSE ""
Init == i = 1 /\ rej = {}
Step == /\ i <= Len(Recs)
        /\ LET c == Clause(Recs[i]) IN rej' = IF c = "" THEN rej ELSE rej \cup {<<Recs[i].id, c>>}
        /\ i' = i + 1
Spec == Init /\ [][Step]_<<i, rej>>
Report == (i > Len(Recs)) => PrintT(<<"REJECTS", ToJson([rej |-> rej])>>)
=============================================================================
