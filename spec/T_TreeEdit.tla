----------------------------- MODULE T_TreeEdit -----------------------------
(* Trace validation for C10 (code -> spec).  The file named by env C10_TRACE    *)
(* holds executions of the REAL tree API recorded by lib/c10.py:                 *)
(*   traces : [init (projected forest), ser0 (iterate_segments() of the fresh      *)
(*            tree), events]; an event is one public call on                       *)
(*            a real node: [h (node), op, path (text), sd (segment argument), v,  *)
(*            a (node argument), ret (projected return value / exception class),  *)
(*            pi (index of the path text in `paths'),                             *)
(*            chg, f (projected forest after the call, when it changed),          *)
(*            ser (iterate_segments() of every detached root, when it changed)]   *)
(*   obs    : [f (forest), same, recs]: read-only calls (get_value, and           *)
(*            exists/count/first/select as one record) observed on a real tree in *)
(*            state f; `same' = the tree was still f afterwards.                  *)
(* The map fragment comes from env C10_FRAG (TreeDef).  One TLC state per event / *)
(* per observed forest.  Every event is judged by TreeDef: the call is parsed     *)
(* (PathDef!Parse), classified, and for a defined call the recorded outcome must  *)
(* be one of Outs; for a call the property text leaves open only `nothing         *)
(* changed' and the agreement of the four query methods are required.  Verdicts   *)
(* are total: a rejection is collected in `rej' with the failing clause and the   *)
(* validation of that trace goes on whenever the recorded tree is an accepted one.*)
EXTENDS TreeDef
VARIABLES phase, i, k, st, rej

T == JsonDeserialize(IOEnv.C10_TRACE)
Traces == T.traces
Obs == T.obs
vars == <<phase, i, k, st, rej>>

(* every distinct path text of the file is parsed once (T.paths lists them, an event names its text by index pi) *)
PathTable == [j \in 1..Len(T.paths) |-> ParsePath(T.paths[j])]
HasPath == {"query", "get", "set", "delete_node"}
CallOf(ev) == [h |-> ev.h, op |-> ev.op, p |-> IF ev.op \in HasPath THEN PathTable[ev.pi] ELSE NoPath,
               sd |-> ev.sd, v |-> ev.v, a |-> ev.a]
ASSUME \A ti \in 1..Len(T.traces) : \A ei \in 1..Len(T.traces[ti].events) :
          LET ev == T.traces[ti].events[ei] IN ev.op \in HasPath => T.paths[ev.pi] = ev.path
NoExp == [ret |-> OkRet, f |-> <<>>]
(* how a rejected tree differs from an accepted one (for the report): the first differing field of the first differing  *)
(* node, and the first node whose children are the expected ones in another order                                       *)
DiffField(a, b) ==
  IF Len(a) # Len(b) THEN "nodes"
  ELSE LET D == {n \in 1..Len(a) : a[n] # b[n]} IN
       IF D = {} THEN ""
       ELSE LET n == Least(D) IN
            IF a[n].k # b[n].k THEN "k" ELSE IF a[n].mn # b[n].mn THEN "mn" ELSE IF a[n].eles # b[n].eles THEN "eles"
            ELSE IF a[n].ch # b[n].ch THEN "ch" ELSE "par"
PermNode(a, b) ==
  IF Len(a) # Len(b) THEN 0
  ELSE LET D == {n \in 1..Len(a) : a[n].ch # b[n].ch /\ Len(a[n].ch) = Len(b[n].ch) /\ SeqToSet(a[n].ch) = SeqToSet(b[n].ch)}
       IN IF D = {} THEN 0 ELSE Least(D)
V(clause, cont, next, exp) == [clause |-> clause, cont |-> cont, next |-> next, exp |-> exp]

Verdict(s, ev) ==
  LET c == CallOf(ev)
      after == IF ev.chg THEN ev.f ELSE s
      cls == IF c.h \in 1..Len(s) THEN Class(s, c) ELSE "bad"
      agree == ev.op # "query" \/ AgreeOK(ev.ret)
  IN IF cls = "bad" THEN V("bad_call", FALSE, s, NoExp)
     ELSE IF cls = "free" THEN
          (IF ev.chg THEN V("free_call_changed_tree", FALSE, s, [ret |-> OkRet, f |-> s])
           ELSE IF ~agree THEN V("agreement", TRUE, s, NoExp)
           ELSE V("", TRUE, s, NoExp))
     ELSE LET O == Outs(s, c)
              same == {o \in O : o.f = after}
              e == IF same # {} THEN CHOOSE o \in same : TRUE ELSE CHOOSE o \in O : TRUE
          IN IF same = {} THEN V("tree", FALSE, s, e)
             ELSE IF ev.chg /\ ev.ser # SerAll(after) THEN V("serialisation", FALSE, s, [ret |-> OkRet, f |-> <<>>])
             ELSE IF ~agree THEN V("agreement", TRUE, after, e)
             ELSE IF [ret |-> ev.ret, f |-> after] \notin O THEN V("ret", TRUE, after, e)
             ELSE V("", TRUE, after, NoExp)

ObsClause(s, r) ==
  LET c == CallOf(r)
      cls == IF c.h \in 1..Len(s) THEN Class(s, c) ELSE "bad"
      agree == r.op # "query" \/ AgreeOK(r.ret)
  IN IF cls = "bad" THEN "bad_call"
     ELSE IF ~agree THEN "agreement"
     ELSE IF cls = "free" THEN ""
     ELSE IF [ret |-> r.ret, f |-> s] \in Outs(s, c) THEN "" ELSE "ret"
ObsExp(s, r) == LET c == CallOf(r) IN IF Class(s, c) = "defined" THEN (CHOOSE o \in Outs(s, c) : TRUE).ret ELSE OkRet

(* (values used several times are bound by a quantifier over a singleton, so that TLC computes them once) *)
Init == phase = "traces" /\ i = 1 /\ k = 0 /\ st = <<>> /\ rej = <<>>
(* a tree as it comes from the context reader: well formed, children in map order, iterate_segments() = its segments in pre-order *)
InitClause(t) == IF ~WellFormed(t.init) THEN "reader_tree_malformed"
                 ELSE IF ~Sorted(t.init) THEN "reader_tree_not_in_map_order"
                 ELSE IF t.ser0 # SerAll(t.init) THEN "serialisation"
                 ELSE ""
Start == /\ phase = "traces" /\ i <= Len(Traces) /\ k = 0
         /\ \E c \in {InitClause(Traces[i])} :
              IF c = "" THEN st' = Traces[i].init /\ k' = 1 /\ UNCHANGED <<phase, i, rej>>
              ELSE /\ rej' = Append(rej, [kind |-> "trace", i |-> i, k |-> 0, clause |-> c, ret |-> OkRet, fld |-> "",
                                           expch |-> <<>>, obsch |-> <<>>])
                   /\ i' = i + 1 /\ UNCHANGED <<phase, k, st>>
Step == /\ phase = "traces" /\ i <= Len(Traces) /\ k >= 1
        /\ IF k > Len(Traces[i].events) THEN i' = i + 1 /\ k' = 0 /\ UNCHANGED <<st, rej>>
           ELSE \E v \in {Verdict(st, Traces[i].events[k])} :
                /\ rej' = IF v.clause = "" THEN rej
                          ELSE LET ev == Traces[i].events[k]
                                   after == IF ev.chg THEN ev.f ELSE st
                                   tree == v.clause \in {"tree", "free_call_changed_tree"}
                                   n == IF tree THEN PermNode(v.exp.f, after) ELSE 0
                               IN Append(rej, [kind |-> "trace", i |-> i, k |-> k, clause |-> v.clause, ret |-> v.exp.ret,
                                               fld |-> IF tree THEN DiffField(v.exp.f, after) ELSE "",
                                               expch |-> IF n = 0 THEN <<>> ELSE v.exp.f[n].ch,
                                               obsch |-> IF n = 0 THEN <<>> ELSE after[n].ch])
                /\ IF v.cont THEN st' = v.next /\ k' = k + 1 /\ i' = i
                   ELSE i' = i + 1 /\ k' = 0 /\ st' = st            \* the recorded tree is not an accepted one: give up on this trace
        /\ UNCHANGED phase
Switch == /\ phase = "traces" /\ i > Len(Traces)
          /\ phase' = "obs" /\ i' = 1 /\ UNCHANGED <<k, st, rej>>
ObsRec(o, j) == LET cl == ObsClause(o.f, o.recs[j])
                IN IF cl = "" THEN [clause |-> ""]
                   ELSE [kind |-> "obs", i |-> i, k |-> j, clause |-> cl, ret |-> ObsExp(o.f, o.recs[j]), fld |-> "",
                         expch |-> <<>>, obsch |-> <<>>]
StepObs == /\ phase = "obs" /\ i <= Len(Obs)
           /\ \E o \in {Obs[i]} :
                rej' = rej \o SelectSeq([j \in 1..Len(o.recs) |-> ObsRec(o, j)], LAMBDA x : x.clause # "")
                           \o (IF o.same THEN <<>> ELSE <<[kind |-> "obs", i |-> i, k |-> 0, clause |-> "readonly_changed_tree",
                                                           ret |-> OkRet, fld |-> "", expch |-> <<>>, obsch |-> <<>>]>>)
           /\ i' = i + 1 /\ UNCHANGED <<phase, k, st>>
Done == phase = "obs" /\ i > Len(Obs)
Next == Start \/ Step \/ Switch \/ StepObs
Spec == Init /\ [][Next]_vars
Report == Done => PrintT(<<"REJECTS", ToJson([n |-> Len(rej), rej |-> rej])>>)
=============================================================================
