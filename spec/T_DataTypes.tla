---------------------------- MODULE T_DataTypes -----------------------------
(* Trace validation for C13 (code -> spec).  The trace file holds `recs`, a      *)
(* sequence of tables recorded from the real pyx12.validation.IsValidDataType:   *)
(*                                                                               *)
(*  k = "suf" : [typ, cs, icvn, pre, n, hi, suf, acc, exc]                       *)
(*              the function was called on  pre \o Pad(v, n) \o suf  for every   *)
(*              v in 0..hi;  acc = the v it accepted, exc = the v it raised on.  *)
(*              (complete calendars: pre = CCYYMM, n = 2; clocks: pre = HHMM ..) *)
(*  k = "list": [typ, cs, icvn, strs, lens, acc, exc]                            *)
(*              called on every strs[j]; acc / exc = the indices j accepted /    *)
(*              raised on.  lens[j] = length measured by the recorder, compared  *)
(*              with Len(strs[j]) to make sure the string survived the transport.*)
(*                                                                               *)
(* One TLC state per table.  Each entry is judged by the definition: a raise is  *)
(* always rejected; a verdict is compared wherever the property claims one.      *)
(* Mismatches are collected (total verdicts, with the clause of the definition   *)
(* that decides the entry) and printed once at the end.                          *)
EXTENDS DataTypes, Json, IOUtils
CONSTANTS Cap,        \* details kept per class of rejection over the whole trace (the count nrej goes on)
          KeepAll     \* TRUE: keep every rejected entry of a table; FALSE: the two smallest of each class
VARIABLES i, rej, nrej
vars == <<i, rej, nrej>>

T == JsonDeserialize(IOEnv.TRACE_FILE)
Recs == T.recs
ToSet(q) == {q[j] : j \in 1..Len(q)}

Vals(r) == IF r.k = "suf" THEN 0..r.hi ELSE 1..Len(r.strs)
Str(r, v) == IF r.k = "suf" THEN r.pre \o Pad(v, r.n) \o r.suf ELSE r.strs[v]

Bad(r) ==
  LET acc == ToSet(r.acc)
      exc == ToSet(r.exc)
  IN { v \in Vals(r) :
         \/ v \in exc
         \/ (r.k = "list" /\ Len(r.strs[v]) # r.lens[v])
         \/ (Claimed(Str(r, v), r.typ) /\ ((v \in acc) # Accept(Str(r, v), r.typ, r.cs, r.icvn))) }

Entry(idx, r, v) ==
  LET x == Str(r, v) IN
  [i |-> idx, v |-> v, typ |-> r.typ,
   clause |-> IF r.k = "list" /\ Len(r.strs[v]) # r.lens[v] THEN "transport"
              ELSE IF v \in ToSet(r.exc) THEN "raise" ELSE "verdict",
   claimed |-> Claimed(x, r.typ),
   exp |-> Accept(x, r.typ, r.cs, r.icvn),
   why |-> Why(x, r.typ, r.cs, r.icvn)]

(* Details are kept per class of rejection (type, clause, deciding clause of the definition,  *)
(* expected verdict): from one table the two smallest entries of each class, and over the     *)
(* whole trace at most Cap entries of each class - so a frequent class can never crowd out a  *)
(* rare one.  nrej counts every rejected entry.                                               *)
Class(e) == <<e.typ, e.clause, e.why, e.exp>>
Least(S) == CHOOSE e \in S : \A f \in S : e.v <= f.v
TwoOf(S) == IF KeepAll \/ Cardinality(S) <= 2 THEN S ELSE {Least(S), Least(S \ {Least(S)})}
Kept(idx, r, b) ==
  LET es == {Entry(idx, r, v) : v \in b}
  IN UNION { TwoOf({e \in es : Class(e) = c}) : c \in {Class(e) : e \in es} }

Init == i = 1 /\ rej = {} /\ nrej = 0
Step == /\ i <= Len(Recs)
        /\ LET r == Recs[i]
               b == Bad(r)
           IN /\ nrej' = nrej + Cardinality(b)
              /\ rej' = IF b = {} THEN rej
                        ELSE IF KeepAll THEN rej \cup Kept(i, r, b)
                        ELSE rej \cup {e \in Kept(i, r, b) : Cardinality({f \in rej : Class(f) = Class(e)}) < Cap}
        /\ i' = i + 1
Done == i > Len(Recs)
Next == Step
Spec == Init /\ [][Next]_vars
Report == Done => PrintT(<<"REJECTS", ToJson([n |-> nrej, rej |-> rej])>>)
=============================================================================
