------------------------------- MODULE AckDef -------------------------------
(* DEFINITION layer for C05 / C06: what a correct acknowledgement of a received  *)
(* document is.  Nothing here looks at the error tree or at how a visitor walks   *)
(* it.  Inputs:                                                                   *)
(*   h    what was received: one record per input segment                         *)
(*        [k, id, cnt, sid, a, b, c, d, e] (k: ISA GS ST SE GE IEA B; id control  *)
(*        number; cnt declared count; sid segment id; ISA: a..d = ISA05..08,      *)
(*        e = ISA14; GS: a = GS01, b = GS02, c = GS03, d = GS08; ST: a = ST01)     *)
(*   rep  the errors that were REPORTED (every isa_/gs_/st_/seg_/ele_error call    *)
(*        made on the handler), each stamped with si = index in h of the segment   *)
(*        being processed (Len(h)+1 = end of input), code, val and, for element    *)
(*        errors, the reference designator position rpos/rsub given by the caller  *)
(*        and apos = the position announced by the last add_ele call before it     *)
(*   ack  the acknowledgement as segments [id, e] (module AckText)                 *)
(* C05Fails / C06Fails return the set of clauses that do not hold, each with the  *)
(* few discriminating facts that make up the violation signature.                 *)
EXTENDS AckText
LOCAL R == INSTANCE Recount
LOCAL Ev == INSTANCE Envelope

F(c, d1, d2, d3) == [c |-> c, d1 |-> d1, d2 |-> d2, d3 |-> d3]
IsErr(c) == c.op \in {"isa_error", "gs_error", "st_error", "seg_error", "ele_error"}
Reported(calls) == SelectSeq(calls, IsErr)
Lvl(e) == CASE e.op = "isa_error" -> "isa" [] e.op = "gs_error" -> "gs" [] e.op = "st_error" -> "st" [] e.op = "seg_error" -> "seg" [] OTHER -> "ele"
Min(S) == CHOOSE x \in S : \A y \in S : x <= y
Max(S) == CHOOSE x \in S : \A y \in S : y <= x
IdxWhere(h, P(_)) == SelectSeq([i \in 1..Len(h) |-> i], P)

(* ---- the received structure, by scanning h (a header implicitly ends deeper loops still open) ---- *)
First(h, i, K) == LET S == {j \in (i + 1)..Len(h) : h[j].k \in K} IN IF S = {} THEN Len(h) + 1 ELSE Min(S)
RECURSIVE HeadersNestFrom(_, _, _)
HeadersNestFrom(h, i, d) ==       \* every header / trailer finds its enclosing loop open
  IF i > Len(h) THEN TRUE
  ELSE LET k == h[i].k IN
    CASE k = "ISA" -> HeadersNestFrom(h, i + 1, 1)
      [] k = "GS"  -> d >= 1 /\ HeadersNestFrom(h, i + 1, 2)
      [] k = "ST"  -> d >= 2 /\ HeadersNestFrom(h, i + 1, 3)
      [] k = "SE"  -> d = 3 /\ HeadersNestFrom(h, i + 1, 2)
      [] k = "GE"  -> d >= 2 /\ HeadersNestFrom(h, i + 1, 1)
      [] k = "IEA" -> d >= 1 /\ HeadersNestFrom(h, i + 1, 0)
      [] OTHER -> HeadersNestFrom(h, i + 1, d)
HeadersNest(h) == HeadersNestFrom(h, 1, 0)
(* the segments that end a loop whose own trailer is missing (ST / GE / GS / IEA / ISA arriving while a deeper loop is open).  A loop-level or
   segment-level error reported there (missing SE, unterminated loop ..) is about the loop that lost its trailer as much as about the new
   one: the text does not say to which it belongs, so it decides nothing about the acceptance of either *)
RECURSIVE ClosersFrom(_, _, _, _)
ClosersFrom(h, i, d, acc) ==
  IF i > Len(h) THEN acc
  ELSE LET k == h[i].k
           imp == (k \in {"ST", "GE"} /\ d = 3) \/ (k \in {"GS", "IEA"} /\ d >= 2) \/ (k = "ISA" /\ d >= 1)
           nd == CASE k = "ISA" -> 1 [] k = "GS" -> 2 [] k = "ST" -> 3 [] k = "SE" -> 2 [] k = "GE" -> 1 [] k = "IEA" -> 0 [] OTHER -> d
       IN ClosersFrom(h, i + 1, nd, IF imp THEN acc \cup {i} ELSE acc)
ImplicitClosers(h) == ClosersFrom(h, 1, 0, {})
Interchanges(h) == IdxWhere(h, LAMBDA i : h[i].k = "ISA")
Groups(h) == IdxWhere(h, LAMBDA i : h[i].k = "GS")
GroupEnd(h, g) == First(h, g, {"GE", "GS", "IEA", "ISA"})
SetEnd(h, s) == First(h, s, {"SE", "ST", "GE", "GS", "IEA", "ISA"})
IsClosedBy(h, end, k) == end <= Len(h) /\ h[end].k = k
HiOf(h, end, k) == IF IsClosedBy(h, end, k) \/ end > Len(h) THEN end ELSE end - 1          \* the trailer, or end of input, belongs to the loop
Between(rep, ops, lo, hi) == SelectSeq(rep, LAMBDA e : e.op \in ops /\ lo <= e.si /\ e.si <= hi)
SetOps == {"st_error", "seg_error", "ele_error"}
GroupOps == {"gs_error", "st_error", "seg_error", "ele_error"}
(* where an error was reported: on an envelope segment, on a body segment inside / outside a set, or at end of input *)
OpenSetAt(h, i) == LET S == {j \in 1..i : h[j].k \in {"ST", "SE", "GE", "GS", "IEA", "ISA"}} IN S # {} /\ h[Max(S)].k = "ST"
Where(h, i) == IF i < 1 \/ i > Len(h) THEN "EOF" ELSE IF h[i].k # "B" THEN h[i].k ELSE IF OpenSetAt(h, i) THEN "in_set" ELSE "outside_set"
(* the circumstances of a report, named by what they have in common for the error handler *)
Ctx(h, e) == LET w == Where(h, e.si) IN
  CASE e.op = "seg_error" /\ w \in {"ISA", "GS", "ST", "GE", "IEA", "outside_set"} -> "seg_error_outside_set_body"
    [] e.op = "seg_error" /\ w = "SE" -> "seg_error_at_SE"
    [] e.op = "ele_error" /\ w \in {"ST", "SE"} -> "ele_error_on_ST_SE"
    [] e.op = "ele_error" /\ w \in {"GS", "GE"} -> "ele_error_on_GS_GE"
    [] e.op = "ele_error" /\ w \in {"ISA", "IEA"} -> "ele_error_on_ISA_IEA"
    [] OTHER -> Lvl(e) \o "@" \o w
(* acceptance wanted: "A" exactly when nothing was reported inside; a loop that lost its trailer and drew no error of its
   own level is left open (the text does not say at which level the missing trailer is to be reported) *)
Want(closed, sure, maybe) == IF sure # <<>> THEN "notA" ELSE IF closed /\ maybe = <<>> THEN "A" ELSE "any"
Ambiguous(e, IC) == e.op # "ele_error" /\ e.si \in IC
CodeOk(want, got) == CASE want = "A" -> got = "A" [] want = "notA" -> got # "A" /\ got # "" [] OTHER -> TRUE

StdSeg(ver) == IF ver = "5010" THEN {"1", "2", "3", "4", "5", "6", "7", "8", "I4", "I6", "I7", "I8", "I9"} ELSE {"1", "2", "3", "4", "5", "6", "7", "8"}
StdEle(ver) == IF ver = "5010" THEN {"1", "2", "3", "4", "5", "6", "7", "8", "9", "10", "12", "13", "I10", "I11", "I12", "I13", "I6", "I9"}
               ELSE {"1", "2", "3", "4", "5", "6", "7", "8", "9", "10"}
(* what has to be itemised under set s: errors with a standard code reported on a segment strictly between ST and SE *)
DefSet(h, rep, s, ver, IC) ==
  LET end == SetEnd(h, s)
      closed == IsClosedBy(h, end, "SE")
      all == Between(rep, SetOps, s, HiOf(h, end, "SE"))
      ins == SelectSeq(all, LAMBDA e : ~Ambiguous(e, IC))
      maybe == SelectSeq(all, LAMBDA e : Ambiguous(e, IC))
      body == SelectSeq(ins, LAMBDA e : s < e.si /\ e.si < end /\ e.si <= Len(h) /\ h[e.si].k = "B")
      sq == SelectSeq(body, LAMBDA e : e.op = "seg_error" /\ e.code \in StdSeg(ver))
      eq == SelectSeq(body, LAMBDA e : e.op = "ele_error" /\ e.code \in StdEle(ver))
  IN [tsid |-> h[s].a, id |-> Strip(h[s].id), want |-> Want(closed, ins, maybe), closed |-> closed,
      ctx |-> IF ins = <<>> THEN "none" ELSE Ctx(h, ins[1]),
      segreq |-> {[pos |-> sq[i].si - s + 1, sid |-> h[sq[i].si].sid, code |-> sq[i].code] : i \in 1..Len(sq)},
      elereq |-> {[pos |-> eq[i].si - s + 1, sid |-> h[eq[i].si].sid, epos |-> eq[i].rpos, esub |-> eq[i].rsub, code |-> eq[i].code,
                   val |-> eq[i].val, apos |-> eq[i].apos] : i \in 1..Len(eq)}]
DefGroup(h, rep, g, ver, IC) ==
  LET end == GroupEnd(h, g)
      closed == IsClosedBy(h, end, "GE")
      all == Between(rep, GroupOps, g, HiOf(h, end, "GE"))
      ing == SelectSeq(all, LAMBDA e : ~Ambiguous(e, IC))
      maybe == SelectSeq(all, LAMBDA e : Ambiguous(e, IC))
      ss == IdxWhere(h, LAMBDA i : g < i /\ i < end /\ h[i].k = "ST")
      sets == [k \in 1..Len(ss) |-> DefSet(h, rep, ss[k], ver, IC)]
  IN [fic |-> h[g].a, id |-> h[g].id, want |-> Want(closed, ing, maybe), closed |-> closed,
      ctx |-> IF ing = <<>> THEN "none" ELSE Ctx(h, ing[1]),
      declared |-> IF closed THEN Ev!IntOf(h[end].cnt) ELSE Ev!NaN,
      received |-> Len(ss),
      accepted_lo |-> Cardinality({k \in 1..Len(ss) : sets[k].want = "A"}),           \* sets that must count as accepted
      accepted_hi |-> Cardinality({k \in 1..Len(ss) : sets[k].want # "notA"}),       \* ... and those that may
      sets |-> sets]
DefGroups(h, rep, ver) == LET gg == Groups(h)  IC == ImplicitClosers(h) IN [k \in 1..Len(gg) |-> DefGroup(h, rep, gg[k], ver, IC)]

(* ---- what the acknowledgement says ---- *)
FirstLine(ack, lo, hi, ids) == LET S == {i \in lo..hi : i <= Len(ack) /\ ack[i].id \in ids} IN IF S = {} THEN 0 ELSE Min(S)
LastLine(ack, lo, hi, ids) == LET S == {i \in lo..hi : i <= Len(ack) /\ ack[i].id \in ids} IN IF S = {} THEN 0 ELSE Max(S)
AK1s(ack) == IdxWhere(ack, LAMBDA i : ack[i].id = "AK1")
NextOr(ack, i, ids, dflt) == LET S == {j \in (i + 1)..Len(ack) : ack[j].id \in ids} IN IF S = {} THEN dflt ELSE Min(S) - 1
AckSet(ack, k, hi) ==     \* k: index of an AK2 line, hi: last line of its block
  LET end == NextOr(ack, k, {"AK2", "AK9", "SE"}, hi)
      c == FirstLine(ack, k, end, {"AK5", "IK5"})
      s3 == {i \in k..end : ack[i].id \in {"AK3", "IK3"}}
      s4 == {i \in k..end : ack[i].id \in {"AK4", "IK4"}}
  IN [tsid |-> El(ack[k], 1), id |-> Strip(El(ack[k], 2)), code |-> IF c = 0 THEN "" ELSE El(ack[c], 1),
      segitems |-> {[sid |-> El(ack[i], 1), pos |-> El(ack[i], 2), code |-> El(ack[i], 4)] : i \in s3},
      eleitems |-> {LET m == LastLine(ack, k, i, {"AK3", "IK3"}) IN
                    [sid |-> IF m = 0 THEN "" ELSE El(ack[m], 1), pos |-> IF m = 0 THEN "" ELSE El(ack[m], 2),
                     epos |-> Comp(ack[i], 1, 1), esub |-> Comp(ack[i], 1, 2), code |-> El(ack[i], 3),
                     val |-> IF Len(ack[i].e) >= 4 THEN JoinStr(ack[i].e[4], SUB) ELSE "", nel |-> Len(ack[i].e)] : i \in s4}]
AckGroup(ack, a) ==       \* a: index of an AK1 line
  LET hi == NextOr(ack, a, {"AK1"}, Len(ack))
      k9 == FirstLine(ack, a, hi, {"AK9"})
      k2 == IdxWhere(ack, LAMBDA i : a < i /\ i <= hi /\ ack[i].id = "AK2")
  IN [fic |-> El(ack[a], 1), id |-> El(ack[a], 2), code |-> IF k9 = 0 THEN "" ELSE El(ack[k9], 1),
      declared |-> IF k9 = 0 THEN "" ELSE El(ack[k9], 2), received |-> IF k9 = 0 THEN "" ELSE El(ack[k9], 3),
      accepted |-> IF k9 = 0 THEN "" ELSE El(ack[k9], 4), sets |-> [j \in 1..Len(k2) |-> AckSet(ack, k2[j], hi)]]
AckGroups(ack) == LET aa == AK1s(ack) IN [k \in 1..Len(aa) |-> AckGroup(ack, aa[k])]

(* ---- C05 ---- *)
ValClass(v) == IF HasChar(v, TERM) THEN "TERM" ELSE IF HasChar(v, ELE) THEN "ELE" ELSE IF HasChar(v, SUB) THEN "SUB"
               ELSE IF HasChar(v, REP) THEN "REP" ELSE "plain"
(* A value copied from the input is echoed as it is; a character that is a separator of the acknowledgement itself cannot be carried by an
   element (C06: an echoed value never adds or splits elements or segments), so at such a position any stand-in that is not a separator is
   right.  This holds for every echo: offending values, segment identifiers, group and set control numbers and identifiers. *)
IsSepCh(c) == c \in {TERM, ELE, SUB, REP}
Echoed(src, got) == \/ got = src
                    \/ /\ Len(got) = Len(src)
                       /\ \A i \in 1..Len(src) : LET a == SubSeq(src, i, i)  b == SubSeq(got, i, i) IN a = b \/ (IsSepCh(a) /\ ~IsSepCh(b))
SegItemOk(rq, items) == \E it \in items : it.code = rq.code /\
                           (IF rq.code = "3" THEN it.pos \in {ToString(rq.pos), ToString(rq.pos - 1)}          \* a missing segment has no position of its own
                            ELSE it.pos = ToString(rq.pos) /\ Echoed(rq.sid, it.sid))
SegItemWhy(rq, items) == IF \E it \in items : it.code = rq.code /\ Echoed(rq.sid, it.sid) THEN "segment_position" ELSE "absent"
SameSeg(rq, it) == it.pos = ToString(rq.pos) /\ Echoed(rq.sid, it.sid)
EPosOk(rq, it) == rq.epos = 0 \/ (it.epos = ToString(rq.epos) /\ (rq.esub = 0 \/ it.esub = ToString(rq.esub)))
ValOk(rq, it) == rq.val = "" \/ Echoed(rq.val, it.val)
EleItemOk(rq, items) == \E it \in items : SameSeg(rq, it) /\ it.code = rq.code /\ EPosOk(rq, it) /\ ValOk(rq, it)
EleItemWhy(rq, items) ==
  IF \E it \in items : SameSeg(rq, it) /\ it.code = rq.code /\ EPosOk(rq, it) THEN "value"
  ELSE IF \E it \in items : SameSeg(rq, it) /\ it.code = rq.code /\ ValOk(rq, it) THEN "element_position"
  ELSE IF \E it \in items : it.code = rq.code /\ EPosOk(rq, it) /\ ValOk(rq, it) THEN "segment_position"
  ELSE "absent"
Addressed(h, ack) ==
  LET i == FirstLine(ack, 1, Len(ack), {"ISA"})   g == FirstLine(ack, 1, Len(ack), {"GS"}) IN
  /\ i # 0 /\ g # 0
  /\ \E x \in 1..Len(h) : h[x].k = "ISA" /\ El(ack[i], 5) = h[x].c /\ El(ack[i], 6) = h[x].d /\ El(ack[i], 7) = h[x].a /\ El(ack[i], 8) = h[x].b
  /\ \E x \in 1..Len(h) : h[x].k = "GS" /\ RStrip(El(ack[g], 2)) = RStrip(h[x].c) /\ RStrip(El(ack[g], 3)) = RStrip(h[x].b)
  /\ El(ack[g], 1) = "FA"
Named(q) == [i \in 1..Len(q) |-> <<q[i].fic, q[i].id>>]
NamedSets(q) == [i \in 1..Len(q) |-> <<q[i].tsid, q[i].id>>]
TotalsField(d, a) == IF d.declared # Ev!NaN /\ a.declared # ToString(d.declared) THEN "declared"
                     ELSE IF a.received # ToString(d.received) THEN "received"
                     ELSE IF a.accepted \notin {ToString(n) : n \in d.accepted_lo..d.accepted_hi} THEN "accepted" ELSE ""
TF(b) == IF b THEN "true" ELSE "false"
HasLine(ack, id) == \E i \in 1..Len(ack) : ack[i].id = id
(* the reported error next to which an acknowledgement breaks off *)
BreakCause(h, rep, ack) ==
  LET K == IF HasLine(ack, "GE") THEN {"ISA", "IEA"} ELSE {"ST", "SE"}
      q == SelectSeq(rep, LAMBDA e : e.op = "ele_error" /\ e.si >= 1 /\ e.si <= Len(h) /\ h[e.si].k \in K)
  IN IF q # <<>> THEN Ctx(h, q[1]) ELSE IF rep = <<>> THEN "none" ELSE "other"
HowNamed(a, d) == IF Len(a) < Len(d) THEN "fewer" ELSE IF Len(a) > Len(d) THEN "more" ELSE "differs"
(* the first clause in `order` that has a finding *)
RECURSIVE FirstOf(_, _)
FirstOf(order, i) == IF i > Len(order) THEN {} ELSE IF order[i] # {} THEN order[i] ELSE FirstOf(order, i + 1)
C05Fails(h, rep, ack, verdict, ver, truncated) ==
  LET D == DefGroups(h, rep, ver)
      A == AckGroups(ack)
      written == ack # <<>>
      nest == HeadersNest(h)
      gOk == Len(A) = Len(D) /\ \A i \in 1..Len(D) : Echoed(D[i].fic, A[i].fic) /\ Echoed(D[i].id, A[i].id)
      sOk == gOk /\ \A i \in 1..Len(D) : Len(A[i].sets) = Len(D[i].sets) /\
                    \A j \in 1..Len(D[i].sets) : Echoed(D[i].sets[j].tsid, A[i].sets[j].tsid) /\ Echoed(D[i].sets[j].id, A[i].sets[j].id)
      GI == 1..Len(D)
      SI == {<<i, j>> \in (1..Len(D)) \X (1..30) : j <= Len(D[i].sets)}
      badSet == {p \in SI : ~CodeOk(D[p[1]].sets[p[2]].want, A[p[1]].sets[p[2]].code)}
      badGrp == {i \in GI : ~CodeOk(D[i].want, A[i].code)}
      badTot == {i \in GI : A[i].code # "" /\ TotalsField(D[i], A[i]) # ""}
      badSeg == {<<p, rq>> \in SI \X UNION {D[p[1]].sets[p[2]].segreq : p \in SI} :
                   rq \in D[p[1]].sets[p[2]].segreq /\ ~SegItemOk(rq, A[p[1]].sets[p[2]].segitems)}
      badEle == {<<p, rq>> \in SI \X UNION {D[p[1]].sets[p[2]].elereq : p \in SI} :
                   rq \in D[p[1]].sets[p[2]].elereq /\ ~EleItemOk(rq, A[p[1]].sets[p[2]].eleitems)}
      unclosedG == IF \E i \in GI : ~D[i].closed THEN "some_group_unclosed" ELSE ""
      unclosedS == IF \E p \in SI : ~D[p[1]].sets[p[2]].closed THEN "some_set_unclosed" ELSE ""
      tr == IF truncated THEN "truncated" ELSE "complete"
      tcause == BreakCause(h, rep, ack)
      Tr(S) == {F(f.c, "truncated", tcause, "") : f \in S}
      cVerdict == IF verdict # (rep = <<>>) THEN {F("verdict_vs_tree", TF(verdict), IF rep = <<>> THEN "none" ELSE Ctx(h, rep[1]), "")} ELSE {}
      cAddr == IF written /\ ~Addressed(h, ack) THEN {F("addressed_to_sender", "", "", "")} ELSE {}
      cGroups == IF written /\ nest /\ ~gOk THEN {F("groups_named_in_order", HowNamed(A, D), tr, unclosedG)} ELSE {}
      cSets == IF written /\ nest /\ gOk /\ ~sOk THEN {F("sets_named_in_order", tr, unclosedS, "")} ELSE {}
      cSetCode == IF written /\ nest /\ sOk /\ badSet # {} THEN
                    LET p == CHOOSE q \in badSet : \A r \in badSet : q[1] < r[1] \/ (q[1] = r[1] /\ q[2] <= r[2]) IN
                    {F("set_code", A[p[1]].sets[p[2]].code, D[p[1]].sets[p[2]].want, IF truncated THEN tr ELSE D[p[1]].sets[p[2]].ctx)} ELSE {}
      cGrpCode == IF written /\ nest /\ gOk /\ badGrp # {} THEN
                    LET i == Min(badGrp)
                        stale == \E j \in 1..(i - 1) : \E k \in 1..Len(D[j].sets) : ~D[j].sets[k].closed       \* a set of an earlier group never got its SE
                    IN {F("group_code", A[i].code, D[i].want,
                          IF truncated THEN tr ELSE IF stale /\ D[i].ctx = "seg_error_outside_set_body" THEN "seg_error_outside_set_body_after_unclosed_set" ELSE D[i].ctx)} ELSE {}
      cTotals == IF written /\ nest /\ sOk /\ badTot # {} THEN
                   LET i == Min(badTot)
                       fld == TotalsField(D[i], A[i])
                       ownA == Cardinality({j \in 1..Len(A[i].sets) : A[i].sets[j].code = "A"})
                   IN {F("group_totals", fld, TF(D[i].closed),
                         IF fld = "accepted" THEN (IF A[i].accepted = ToString(ownA) THEN "equals_number_of_sets_marked_A" ELSE "differs_from_number_of_sets_marked_A")
                         ELSE IF fld = "received" THEN (IF A[i].received = "0" THEN "zero" ELSE "nonzero") ELSE "")} ELSE {}
      cSegItem == IF written /\ nest /\ sOk /\ badSeg # {} THEN
                    LET b == CHOOSE x \in badSeg : TRUE IN
                    {F("itemised_segment_error", SegItemWhy(b[2], A[b[1][1]].sets[b[1][2]].segitems), b[2].code, "")} ELSE {}
      cEleItem == IF written /\ nest /\ sOk /\ badEle # {} THEN
                    LET b == CHOOSE x \in badEle : TRUE IN
                    LET why == EleItemWhy(b[2], A[b[1][1]].sets[b[1][2]].eleitems) IN
                    {F("itemised_element_error", why, b[2].code,
                       IF why \in {"value", "absent"} /\ ValClass(b[2].val) # "plain" THEN ValClass(b[2].val)
                       ELSE IF b[2].epos # 0 /\ b[2].apos # b[2].epos THEN "reported_without_add_ele" ELSE "")} ELSE {}
  IN cVerdict \cup cAddr \cup
     (IF truncated THEN Tr(FirstOf(<<cGroups, cSets, cSetCode, cGrpCode>>, 1))      \* one finding for an acknowledgement that breaks off
      ELSE cGroups \cup cSets \cup cSetCode \cup cGrpCode \cup cTotals \cup cSegItem \cup cEleItem)

(* ---- C06 ---- *)
(* the lines an acknowledgement consists of: [min, max] number of elements, components allowed in the first element *)
Schema(id, ver) ==
  LET v5 == ver = "5010" IN
  CASE id = "ISA" -> <<16, 16, 1>> [] id = "GS" -> <<8, 8, 1>> [] id = "ST" -> IF v5 THEN <<3, 3, 1>> ELSE <<2, 2, 1>>
    \* (AK102 / AK202 echo the received control number: a group or set that has none is named with an empty, i.e. trimmed, one)
    [] id = "AK1" -> IF v5 THEN <<1, 3, 1>> ELSE <<1, 2, 1>> [] id = "AK2" -> IF v5 THEN <<1, 3, 1>> ELSE <<1, 2, 1>>
    [] id \in {"AK3", "IK3"} -> <<2, 4, 1>> [] id \in {"AK4", "IK4"} -> <<3, 4, IF v5 THEN 3 ELSE 2>>
    [] id \in {"AK5", "IK5"} -> <<1, 6, 1>> [] id = "AK9" -> <<4, 9, 1>> [] id \in {"SE", "GE", "IEA"} -> <<2, 2, 1>>
    [] id = "TA1" -> <<4, 5, 1>> [] id = "CTX" -> <<1, 6, 9>> [] OTHER -> <<0, 0, 0>>
LineOk(l, ver) == LET s == Schema(l.id, ver) IN
                  /\ s[3] # 0 /\ Len(l.e) >= s[1] /\ Len(l.e) <= s[2]
                  /\ \A i \in 1..Len(l.e) : Len(l.e[i]) <= (IF i = 1 \/ l.id = "CTX" THEN s[3] ELSE 1)
BadLines(ack, ver) == {i \in 1..Len(ack) : ~LineOk(ack[i], ver)}
EnvClean(ack) ==    \* which envelope clauses fail, by independent recount of the acknowledgement itself
  LET env == EnvOf(ack)
      n == R!Nest(env)
      complete == ack # <<>> /\ env[1].k = "ISA" /\ n.ok /\ n.stack = <<>> /\ (\E i \in 1..Len(env) : env[i].k = "ST")
      D == UNION {R!Discrepancies(SubSeq(env, 1, i), FALSE) : i \in 1..Len(env)}
  IN IF ~complete THEN {"complete"}
     ELSE (IF <<"st", "4">> \in D THEN {"se_count"} ELSE {}) \cup (IF <<"gs", "5">> \in D THEN {"ge_count"} ELSE {})
          \cup (IF <<"isa", "021">> \in D THEN {"iea_count"} ELSE {})
          \cup (IF D \cap {<<"st", "3">>, <<"gs", "4">>, <<"isa", "001">>} # {} THEN {"trailer_ids"} ELSE {})
          \cup (IF D \cap {<<"st", "23">>, <<"gs", "6">>} # {} THEN {"st_unique"} ELSE {})
(* positions of an acknowledgement whose value is copied from the input *)
EchoPos == ({"ISA"} \X {5, 6, 7, 8, 11, 15}) \cup ({"GS"} \X {2, 3, 6, 7}) \cup ({"AK1", "AK2"} \X {1, 2, 3})
           \cup ({"AK3", "IK3"} \X {1, 3}) \cup ({"AK4", "IK4"} \X {2, 4}) \cup ({"TA1"} \X {1, 2, 3}) \cup ({"AK9"} \X {2}) \cup ({"GE"} \X {2})
AckMapFor(ver) == IF ver = "4010" THEN "997" ELSE "999"
Truncated(ack) == ack # <<>> /\ "complete" \in EnvClean(ack)
(* broke off inside the AK1..AK9 blocks (after GE everything about groups and sets has been said) *)
TruncatedInBlocks(ack) == Truncated(ack) /\ ~HasLine(ack, "GE")
KnownLine(id) == id \in {"ISA", "GS", "ST", "AK1", "AK2", "AK3", "AK4", "AK5", "AK9", "IK3", "IK4", "IK5", "CTX", "SE", "GE", "TA1", "IEA"}
(* an echoed value that contains one of the acknowledgement's own delimiters *)
EchoClass(rep) == LET cs == {ValClass(rep[i].val) : i \in {j \in 1..Len(rep) : rep[j].op = "ele_error"}} IN
                  IF "TERM" \in cs THEN "TERM" ELSE IF "ELE" \in cs THEN "ELE" ELSE IF "SUB" \in cs THEN "SUB" ELSE IF "REP" \in cs THEN "REP" ELSE "none"
C06Fails(ack, ver, reread, reval, h, rep) ==
  IF ack = <<>> THEN {} ELSE
  LET ec == EnvClean(ack)
      bl == BadLines(ack, ver)
      trunc == "complete" \in ec
      cause == BreakCause(h, rep, ack)
      echo == EchoClass(rep)
  IN (IF trunc THEN {F("complete", cause, "", "")} ELSE {F(c, echo, "", "") : c \in ec})
     \cup (IF ~trunc /\ bl # {} THEN
             LET l == ack[Min(bl)] IN
             {F("structure_preserved_by_echo", IF KnownLine(l.id) THEN l.id ELSE "junk_line",
                IF ~KnownLine(l.id) THEN "" ELSE IF Len(l.e) > Schema(l.id, ver)[2] THEN "extra_element" ELSE IF Len(l.e) < Schema(l.id, ver)[1] THEN "lost_element" ELSE "split_into_components",
                echo)} ELSE {})
     \cup (IF ~trunc /\ reread # <<>> THEN {F("reread_clean", reread[1][1], reread[1][2], echo)} ELSE {})
     \cup (IF reval.ran /\ ~trunc /\ reval.map # AckMapFor(ver) THEN {F("revalidate_selects_ack_map", reval.map, reval.exc, "")} ELSE {})
     \cup (IF reval.ran /\ ~trunc /\ bl = {} /\ reval.map = AckMapFor(ver) /\ ~reval.verdict THEN
             LET bad == SelectSeq(reval.errs, LAMBDA x : ~(x.op = "ele_error" /\ <<x.sid, x.pos>> \in EchoPos)) IN
             IF reval.exc # "" THEN {F("revalidate_accepts_when_values_fit", reval.exc, "", "")}
             ELSE IF bad # <<>> THEN {F("revalidate_accepts_when_values_fit", bad[1].op, bad[1].sid, bad[1].code)}
             ELSE IF reval.errs = <<>> THEN {F("revalidate_accepts_when_values_fit", "no_error_reported", "", "")} ELSE {}
           ELSE {})
=============================================================================
