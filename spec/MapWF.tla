------------------------------- MODULE MapWF -------------------------------
(* C16, model run: the well-formedness and addressability predicates of the    *)
(* property evaluated over ONE exported map (and, when the constants carry     *)
(* index entries, over the index).  A small state machine:                     *)
(*   index   : the index clauses, once                                         *)
(*   wf      : node n - every node-local clause of MapDef!WF                   *)
(*   descend : for a loop / segment / element / component the canonical path   *)
(*             text of the node is printed, parsed with the path grammar and    *)
(*             resolved from the root ONE COMPONENT PER STEP; arriving anywhere *)
(*             but at n is the fact "addressable"                              *)
(* Verdicts are total: every failing (node, clause) fact is printed when it is  *)
(* found (tag FACT) and counted; the run goes on.  Since resolution is a        *)
(* function of the path, "fetch again by the own path" for all nodes implies    *)
(* that paths are unique; UniqueIfAddressable re-checks that on the texts.      *)
(* The state variables carry a v prefix on purpose: a variable that shares its  *)
(* name with a bound variable of MapDef stops TLC from caching MapDef's         *)
(* constant tables.                                                            *)
EXTENDS MapDef
VARIABLES vph, vn, vcur, vtodo, vtext, vbad, vstat
vars == <<vph, vn, vcur, vtodo, vtext, vbad, vstat>>

Emit(S) == \A f \in S : PrintT(<<"FACT", ToJson(f)>>)

(* an element of a segment that cannot be addressed cannot be addressed either: reported once, for the segment *)
Implied(m, bad) == K(m) \in {"element", "component"} /\ SegOf(m) \in bad

Init == /\ vph = (IF Len(Entries) > 0 THEN "index" ELSE "wf")
        /\ vn = 1 /\ vcur = 0 /\ vtodo = <<>> /\ vtext = "" /\ vbad = {}
        /\ vstat = [nodes |-> 0, descents |-> 0, steps |-> 0, addressable |-> 0, facts |-> 0]

IndexStep == /\ vph = "index"
             /\ Emit(IndexWF)
             /\ vstat' = [vstat EXCEPT !.facts = @ + Cardinality(IndexWF)]
             /\ vph' = "wf" /\ UNCHANGED <<vn, vcur, vtodo, vtext, vbad>>

WfStep == /\ vph = "wf" /\ vn <= NN
          /\ LET w == WF(vn) IN Emit(w) /\ vstat' = [vstat EXCEPT !.nodes = @ + 1, !.facts = @ + Cardinality(w)]
          /\ IF Addressed(vn)
             THEN /\ vph' = "descend" /\ vcur' = 1
                  /\ vtext' = CanonText(vn)
                  /\ vtodo' = StepsOf(PD!Parse(vtext'))
                  /\ UNCHANGED <<vn, vbad>>
             ELSE vn' = vn + 1 /\ UNCHANGED <<vph, vcur, vtodo, vtext, vbad>>

Descend == /\ vph = "descend" /\ vtodo # <<>> /\ vcur # 0
           /\ vcur' = (IF Head(vtodo).t = "fail" THEN 0 ELSE StepTo(vcur, Head(vtodo)))
           /\ vtodo' = Tail(vtodo)
           /\ vstat' = [vstat EXCEPT !.steps = @ + 1]
           /\ UNCHANGED <<vph, vn, vtext, vbad>>

Arrive == /\ vph = "descend" /\ (vtodo = <<>> \/ vcur = 0)
          /\ LET fail == vcur # vn /\ ~Implied(vn, vbad) IN
               /\ (fail => Emit({Fact(vn, "addressable", vcur, vtext)}))
               /\ PrintT(<<"CANON", ToJson([n |-> vn, t |-> vtext, r |-> vcur])>>)      \* spec -> code: this text resolves to node r
               /\ vbad' = (IF fail /\ K(vn) = "segment" THEN vbad \cup {vn} ELSE vbad)
               /\ vstat' = [vstat EXCEPT !.descents = @ + 1, !.addressable = @ + (IF vcur = vn THEN 1 ELSE 0),
                                          !.facts = @ + (IF fail THEN 1 ELSE 0)]
          /\ vn' = vn + 1 /\ vph' = "wf" /\ vcur' = 0 /\ vtodo' = <<>> /\ vtext' = ""

Finish == /\ vph = "wf" /\ vn > NN
          /\ vph' = "done" /\ UNCHANGED <<vn, vcur, vtodo, vtext, vbad, vstat>>

Next == IndexStep \/ WfStep \/ Descend \/ Arrive \/ Finish
Spec == Init /\ [][Next]_vars

(* model-level laws (a failure here is a modelling error, never an alarm) *)
TypeOK == /\ vph \in {"index", "wf", "descend", "done"}
          /\ vn \in 1..(NN + 1) /\ vcur \in 0..NN
(* the stepwise descent arrives where the resolution function says *)
DescentAgrees == (vph = "descend" /\ (vtodo = <<>> \/ vcur = 0)) => vcur = LookupText(vtext)
(* a step never leaves the subtree: the node reached is a child of the node left *)
StepsGoDown == [][(vph = "descend" /\ vph' = "descend" /\ vcur' # 0) => Nodes[vcur'].parent = vcur]_vars
(* paths of the nodes that are reached again are pairwise different (follows from the above; re-checked on the texts *)
(* of the segments and loops, the elements add their ordinal to the text of their segment)                        *)
UniqueIfAddressable ==
  vph = "done" => LET A == {m \in 1..NN : K(m) \in {"loop", "segment"} /\ m \notin vbad /\ LookupText(CanonText(m)) = m}
                  IN Cardinality({CanonText(m) : m \in A}) = Cardinality(A)
Report == vph = "done" => PrintT(<<"REJECTS", ToJson([file |-> TheMap.file, stat |-> vstat])>>)
=============================================================================
