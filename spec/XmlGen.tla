------------------------------- MODULE XmlGen --------------------------------
(* Model run for C08: (i) all transitions between loop paths of a small tree     *)
(* whose sibling ids include character-prefixes of one another, comparing the    *)
(* implementation-shaped step with the definition; (ii) all strings up to a      *)
(* bound over the markup-relevant alphabet, checking Unescape(Escape(s)) = s and *)
(* that an escaped text carries no markup.                                       *)
EXTENDS XmlOut, Json
CONSTANTS Ids, MaxDepth, Alphabet, MaxStr
VARIABLES phase, last, open, str
Paths == UNION {[1..n -> Ids] : n \in 1..MaxDepth}
Safe(l, c, f) == LET m0 == CommonLen(l, c)  js == JoinSlash(c)  jl == JoinSlash(l) IN
                 ~(f /\ PathList(SubSeq(js, 1, CharPrefixLen(js, jl))) = c /\ m0 = 0)      \* the coded step would index before the first component
Init == phase = "paths" /\ last = <<>> /\ open = <<>> /\ str = ""
StepPath == /\ phase = "paths"
            /\ \E cur \in Paths, first \in BOOLEAN :
                 /\ Safe(last, cur, first)
                 /\ LET r == ImplStep(last, cur, first) IN
                    last' = cur /\ open' = After(open, r) /\ UNCHANGED <<phase, str>>
ToStrings == phase = "paths" /\ last = <<>> /\ phase' = "str" /\ UNCHANGED <<last, open, str>>
Grow == phase = "str" /\ Len(str) < MaxStr /\ \E c \in Alphabet : str' = str \o c /\ UNCHANGED <<phase, last, open>>
Next == StepPath \/ ToStrings \/ Grow
Spec == Init /\ [][Next]_<<phase, last, open, str>>
(* the open elements always spell the path of the last segment's loop *)
StackIsPath == phase = "paths" => open = last
(* implementation step = definition step, for every reachable (last, cur, first); differences are printed, not asserted *)
StepDiff == [][phase = "paths" /\ phase' = "paths" =>
               \A first \in BOOLEAN : ImplStep(last, last', first) = DefStep(last, last', first)]_<<phase, last, open, str>>
(* informational variant for id alphabets that contain character-prefix siblings: print, never fail *)
DiffNote == (phase = "paths" /\ phase' = "paths") =>
              \A first \in BOOLEAN :
                 (IF Safe(last, last', first) THEN ImplStep(last, last', first) # DefStep(last, last', first) ELSE TRUE)
                   => PrintT(<<"MODELDIFF", ToJson([last |-> last, cur |-> last', first |-> first])>>)
(* every string is handed to the real xmlwriter (content and attribute) and read back with a standard XML parser *)
EmitStr == phase = "str" => PrintT(<<"STR", ToJson([s |-> str, c |-> Escape(str, FALSE), a |-> Escape(str, TRUE)])>>)
EscapeRoundTrip == phase = "str" => /\ Unescape(Escape(str, FALSE)) = str /\ Unescape(Escape(str, TRUE)) = str
                                    /\ NoMarkup(Escape(str, FALSE)) /\ NoMarkup(Escape(str, TRUE))
=============================================================================
