------------------------------- MODULE DocGen -------------------------------
(* The language of an implementation-guide map ("built by walking the map in     *)
(* order") as a generator, composed with the walker transcription (MapWalk).     *)
(* Children of a loop are visited in map order (position, ties by XML document   *)
(* order); a node may repeat up to its declared limit (capped by Cap) before     *)
(* moving on; a node may be skipped unless it is needed; a loop is entered by    *)
(* emitting its first segment; type="wrapper" loops are transparent (at most     *)
(* once per parent instance; needed when they contain a needed child).           *)
(* State: stack of frames [loop, idx, n] (index in map order of the last child   *)
(* emitted in this loop instance and how often), the walker's current node and   *)
(* counter, and the history (kept out of the VIEW).  Every state reached is      *)
(* completed to a whole conformant document by MinimalCompletion and printed.    *)
(* Model-level check: the walker transcription raises no error on any emitted    *)
(* segment (disagreements are printed as VIOL, they are candidates to confirm on *)
(* the real code).                                                               *)
EXTENDS MapWalk
MKids(n) == IF n = 0 THEN M.rootorder ELSE N[n].maporder

CONSTANT Cap, MaxDepth
VARIABLES stack, cur, cnt, nseg, bad, last, hist
gvars == <<stack, cur, cnt, nseg, bad, last, hist>>

RECURSIVE HasReq(_)
HasReq(l) == \E j \in 1..Len(MKids(l)) : LET c == MKids(l)[j] IN
                N[c].usage = "R" \/ (IsLoop(c) /\ N[c].usage # "N" /\ N[c].wrapper /\ HasReq(c))
Needed(c) == N[c].usage = "R" \/ (IsLoop(c) /\ N[c].usage # "N" /\ N[c].wrapper /\ HasReq(c))

(* minimal completion: required kids after idx (opening required loops minimally), then close *)
RECURSIVE MinLoop(_), MinKids(_, _), Complete(_)
MinKids(l, j) == IF j > Len(MKids(l)) THEN <<>>
                 ELSE LET c == MKids(l)[j] IN
                      (IF Needed(c) THEN (IF IsSeg(c) THEN <<c>> ELSE MinLoop(c)) ELSE <<>>) \o MinKids(l, j + 1)
MinLoop(l) == LET f == FirstNode(l) IN (IF IsSeg(f) THEN <<f>> ELSE MinLoop(f)) \o MinKids(l, 2)
Complete(stk) == IF Len(stk) = 0 THEN <<>>
                 ELSE MinKids(stk[Len(stk)].loop, stk[Len(stk)].idx + 1) \o Complete(SubSeq(stk, 1, Len(stk) - 1))
Frame(l) == [loop |-> l, idx |-> 0, n |-> 0]
Top == stack[Len(stack)]
Lim(c) == IF IsLoop(c) /\ N[c].wrapper THEN 1 ELSE IF MaxRep(c) < Cap THEN MaxRep(c) ELSE Cap
KidAt(f, j) == MKids(f.loop)[j]
Allowed(f, j) == /\ j >= f.idx /\ j >= 1 /\ N[KidAt(f, j)].usage # "N"
                 /\ (j = f.idx => f.n < Lim(KidAt(f, j)))
                 /\ \A r \in (f.idx + 1)..(j - 1) : ~Needed(KidAt(f, r))
Bump(f, j) == IF j = f.idx THEN [f EXCEPT !.n = @ + 1] ELSE [f EXCEPT !.idx = j, !.n = 1]
CanClose(f) == \A r \in (f.idx + 1)..Len(MKids(f.loop)) : ~Needed(KidAt(f, r))
RECURSIVE Open(_, _)
\* open loop l (push frames down to its first segment); returns <<frames, firstseg>>
Open(l, acc) == LET f == FirstNode(l) IN
   IF IsSeg(f) THEN <<Append(acc, Bump(Frame(l), 1)), f>>
   ELSE Open(f, Append(acc, Bump(Frame(l), 1)))
SegOf(c) == [seg |-> N[c].id,
             v01  |-> IF \E i \in 1..Len(N[c].quals) : N[c].quals[i].k = "01" THEN (LET i == CHOOSE i \in 1..Len(N[c].quals) : N[c].quals[i].k = "01" IN N[c].quals[i].codes[1]) ELSE "zz",
             v02  |-> IF \E i \in 1..Len(N[c].quals) : N[c].quals[i].k = "02" THEN (LET i == CHOOSE i \in 1..Len(N[c].quals) : N[c].quals[i].k = "02" IN N[c].quals[i].codes[1]) ELSE "zz",
             v011 |-> IF \E i \in 1..Len(N[c].quals) : N[c].quals[i].k = "01-1" THEN (LET i == CHOOSE i \in 1..Len(N[c].quals) : N[c].quals[i].k = "01-1" IN N[c].quals[i].codes[1]) ELSE "zz",
             v03  |-> IF \E i \in 1..Len(N[c].quals) : N[c].quals[i].k = "03" THEN (LET i == CHOOSE i \in 1..Len(N[c].quals) : N[c].quals[i].k = "03" IN N[c].quals[i].codes[1]) ELSE "zz"]
Force(segnode) ==
  LET lp == PathOf(Parent(segnode)) IN
  /\ cur' = segnode
  /\ cnt' = Inc(Inc(ResetTo(cnt, lp), lp), PathOf(segnode))
  /\ nseg' = nseg + 1
  /\ UNCHANGED <<bad, last>>
  /\ hist' = Append(hist, segnode)
Feed(segnode) ==
  IF N[segnode].id \in {"ISA", "GS"} THEN Force(segnode) ELSE
  LET w == Walk(cur, SegOf(segnode), cnt) IN
  /\ cur' = IF w.res = 0 THEN cur ELSE w.res
  /\ cnt' = w.st.cnt
  /\ nseg' = nseg + 1
  /\ last' = [gen |-> PathOf(segnode), got |-> IF w.res = 0 THEN "" ELSE PathOf(w.res), errs |-> w.st.errs]
  /\ bad' = bad
  /\ hist' = Append(hist, segnode)
  /\ (w.st.errs # <<>>) => PrintT(<<"VIOL", ToJson([prev |-> PathOf(cur), gen |-> PathOf(segnode), got |-> IF w.res = 0 THEN "" ELSE PathOf(w.res), errs |-> w.st.errs])>>)
EmitSeg(j) == /\ IsSeg(KidAt(Top, j)) /\ Allowed(Top, j)
              /\ stack' = [stack EXCEPT ![Len(stack)] = Bump(Top, j)]
              /\ Feed(KidAt(Top, j))
EmitLoop(j) == /\ IsLoop(KidAt(Top, j)) /\ Allowed(Top, j)
               /\ LET o == Open(KidAt(Top, j), <<>>) IN
                    /\ stack' = [stack EXCEPT ![Len(stack)] = Bump(Top, j)] \o o[1]
                    /\ Feed(o[2])
Close == /\ Len(stack) > 1 /\ CanClose(Top)
         /\ stack' = SubSeq(stack, 1, Len(stack) - 1)
         /\ UNCHANGED <<cur, cnt, nseg, bad, last, hist>>
GInit == /\ stack = <<Frame(0)>> /\ cur = 0 /\ cnt = EmptyCnt /\ nseg = 0 /\ bad = FALSE
         /\ last = [gen |-> "", got |-> "", errs |-> <<>>] /\ hist = <<>>
GNext == /\ ~bad /\ nseg < MaxDepth
         /\ \/ \E j \in 1..Len(MKids(Top.loop)) : EmitSeg(j) \/ EmitLoop(j)
            \/ Close
EmitDoc == (nseg > 0 /\ hist # <<>>) => PrintT(<<"DOC", ToJson(hist \o Complete(stack))>>)
GSpec == GInit /\ [][GNext]_gvars
NoErr == ~bad
GView == <<Top, Len(stack), cur>>
=============================================================================
