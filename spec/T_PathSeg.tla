----------------------------- MODULE T_PathSeg ------------------------------
(* Trace validation for C17 (code -> spec).  The trace file holds              *)
(*   paths : records [text, ok, rel, loops, seg, qual, ele, sub, hasele,        *)
(*           hassub, printed, eq] logged from pyx12.path.X12Path(text)          *)
(*   segs  : traces; each is [id, init, events], an event is one public call on *)
(*           a real pyx12.segment.Segment: [op, refdes, val (sequence of        *)
(*           component values), outcome, after (projected segment), got]        *)
(* One TLC state per consumed record / event; a mismatch is recorded with the   *)
(* failing clause in `rej` and validation continues (total verdicts).           *)
EXTENDS PathDef, Json, IOUtils
VARIABLES phase, i, k, st, rej

T == JsonDeserialize(IOEnv.TRACE_FILE)
Paths == T.paths
Segs == T.segs
vars == <<phase, i, k, st, rej>>
NoSeg == [id |-> "", eles |-> <<>>]

PathClause(r) ==
  LET d == Parse(r.text) IN
  IF d.ok # r.ok THEN "ok"
  ELSE IF ~d.ok THEN ""
  ELSE IF d.rel # r.rel THEN "rel"
  ELSE IF d.loops # r.loops THEN "loops"
  ELSE IF d.seg # r.seg THEN "seg"
  ELSE IF d.qual # r.qual THEN "qual"
  ELSE IF d.hasele # r.hasele \/ d.ele # r.ele THEN "ele"
  ELSE IF d.hassub # r.hassub \/ d.sub # r.sub THEN "sub"
  ELSE IF r.printed # PrintPath(d) THEN "print"
  ELSE IF r.eq # (Parse(PrintPath(d)) = d) THEN "reparse_equal"
  ELSE ""

(* expected effect of one call on the abstract segment *)
Expect(s, ev) ==
  LET d == Parse(ev.refdes) IN
  IF ~d.ok THEN [outcome |-> "patherror", seg |-> s, got |-> <<>>]
  ELSE IF d.seg # None /\ d.seg # s.id THEN [outcome |-> "refused", seg |-> s, got |-> <<>>]
  ELSE IF ev.op = "set" THEN
       [outcome |-> "ok", got |-> <<>>,
        seg |-> IF d.sub = Absent THEN SetEle(s, d.ele, ev.val) ELSE SetSub(s, d.ele, d.sub, ev.val[1])]
  ELSE \* get
       LET g == IF d.sub = Absent THEN GetEle(s, d.ele) ELSE GetSub(s, d.ele, d.sub) IN
       [outcome |-> IF g[1] THEN "ok" ELSE "none", seg |-> s,
        got |-> IF ~g[1] THEN <<>> ELSE IF d.sub = Absent THEN g[2] ELSE <<g[2]>>]

EvClause(s, ev) ==
  LET x == Expect(s, ev) IN
  IF x.outcome # ev.outcome THEN "outcome"
  ELSE IF x.seg # ev.after THEN "state"
  ELSE IF x.got # ev.got THEN "got"
  ELSE ""

Init == phase = "paths" /\ i = 1 /\ k = 0 /\ st = NoSeg /\ rej = {}
StepPath == /\ phase = "paths" /\ i <= Len(Paths)
            /\ LET c == PathClause(Paths[i]) IN
                 rej' = IF c = "" THEN rej ELSE rej \cup {<<"path", i, 0, c>>}
            /\ i' = i + 1 /\ UNCHANGED <<phase, k, st>>
Switch == /\ phase = "paths" /\ i > Len(Paths)
          /\ phase' = "segs" /\ i' = 1 /\ k' = 0 /\ UNCHANGED <<st, rej>>
StartSeg == /\ phase = "segs" /\ i <= Len(Segs) /\ k = 0
            /\ st' = Segs[i].init /\ k' = 1 /\ UNCHANGED <<phase, i, rej>>
StepSeg == /\ phase = "segs" /\ i <= Len(Segs) /\ k >= 1
           /\ IF k > Len(Segs[i].events) THEN i' = i + 1 /\ k' = 0 /\ UNCHANGED <<st, rej>>
              ELSE LET ev == Segs[i].events[k]  c == EvClause(st, ev) IN
                   IF c = "" THEN /\ st' = Expect(st, ev).seg /\ k' = k + 1 /\ UNCHANGED <<i, rej>>
                   ELSE /\ rej' = rej \cup {<<"seg", i, k, c>>}      \* give up on this trace, go on with the next
                        /\ i' = i + 1 /\ k' = 0 /\ UNCHANGED st
           /\ UNCHANGED phase
Done == phase = "segs" /\ i > Len(Segs)
Next == StepPath \/ Switch \/ StartSeg \/ StepSeg
Spec == Init /\ [][Next]_vars
Report == Done => PrintT(<<"REJECTS", ToJson([n |-> Cardinality(rej), rej |-> rej])>>)
=============================================================================
