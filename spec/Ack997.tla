------------------------------- MODULE Ack997 -------------------------------
(* Implementation-shaped model of pyx12.error_997.error_997_visitor walking the  *)
(* error tree (ErrTree) through err_handler.accept(): one ISA/GS pair taken from  *)
(* the handler's *last* interchange and group, one ST..SE per received group of   *)
(* any interchange, hand-maintained seg_count and ST control numbers, GE/IEA      *)
(* written from the visitor's own counters.  An exception inside the visitor is   *)
(* caught by x12n_document: what was written so far stays (crashed = TRUE).       *)
(* Dates, times and the interchange control number are the placeholders of        *)
(* AckVisit.                                                                      *)
EXTENDS AckVisit

V0 == [out |-> <<>>, seg_count |-> 0, stn |-> 0, st_loops |-> 0, crashed |-> FALSE]
W(v, seg) == IF v.crashed THEN v ELSE [v EXCEPT !.out = Append(@, seg), !.seg_count = @ + 1]      \* _write
RootPre(v, t) ==
  IF t.isa = 0 THEN [v EXCEPT !.crashed = TRUE] ELSE
  LET i == t.nodes[t.isa].info      \* <<ISA05, ISA06, ISA07, ISA08, ISA11, ISA12, ISA15>>
      v1 == W(v, SegOf("ISA", <<"00", "          ", "00", "          ", i[3], i[4], i[1], i[2], DATE, TIME, i[5], i[6], ICN, "0", i[7], ":">>))
  IN IF t.gs = 0 THEN [v1 EXCEPT !.crashed = TRUE] ELSE
     LET g == t.nodes[t.gs].info    \* <<GS02, GS03, GS06, GS07>>
     IN W(v1, SegOf("GS", <<"FA", RStrip(g[2]), RStrip(g[1]), DATE, TIME, g[3], g[4], "004010">>))
GsPre(v, gs) == LET v1 == W([v EXCEPT !.stn = @ + 1], SegOf("ST", <<"997", Pad4(v.stn + 1)>>))
                    v2 == [v1 EXCEPT !.seg_count = 1, !.st_loops = @ + 1]
                IN W(v2, SegOf("AK1", <<gs.fic, gs.id>>))
StPre(v, st) == W(v, SegOf("AK2", <<st.tsid, Strip(st.id)>>))
RECURSIVE WAll(_, _, _)
WAll(v, lines, i) == IF i > Len(lines) THEN v ELSE WAll(W(v, lines[i]), lines, i + 1)
SegLines(sg) == LET cs == SegLineCodes(sg, Valid3_997) IN
                [k \in 1..Len(cs) |-> SegOf("AK3", <<sg.id, ToString(sg.pos), sg.ls, cs[k]>>)]
EleLines(el) == LET ok == SelectSeq(el.errs, LAMBDA er : er[1] \in Valid4_997) IN
                [k \in 1..Len(ok) |-> [id |-> "AK4", e |-> <<PosEl(el), S1(el.ref), S1(ok[k][1])>> \o (IF ok[k][2] # "" THEN <<Echo(ok[k][2], {TERM, ELE, SUB})>> ELSE <<>>)]]
VisitSeg(v, sg) == WAll(WAll(v, SegLines(sg), 1), Flatten([k \in 1..Len(sg.eles) |-> EleLines(sg.eles[k])]), 1)
StPost(v, st) == W(v, SegOf("AK5", <<st.ack>> \o Take(StCodes(st), 5)))
RECURSIVE VisitSegs(_, _, _)
VisitSegs(v, segs, i) == IF i > Len(segs) \/ v.crashed THEN v ELSE VisitSegs(VisitSeg(v, segs[i]), segs, i + 1)
VisitSt(v, st) == StPost(VisitSegs(StPre(v, st), st.segs, 1), st)
RECURSIVE VisitSets(_, _, _)
VisitSets(v, sets, i) == IF i > Len(sets) \/ v.crashed THEN v ELSE VisitSets(VisitSt(v, sets[i]), sets, i + 1)
GsPost(v, gs) == LET v1 == W(v, SegOf("AK9", <<GsAck(gs), ToString(gs.orig), ToString(gs.recv), ToString(CountOk(gs))>> \o GsCodes(gs)))
                 IN W(v1, SegOf("SE", <<ToString(v1.seg_count + 1), Pad4(v1.stn)>>))
VisitGs(v, gs) == LET v1 == VisitSets(GsPre(v, gs), gs.sets, 1) IN IF v1.crashed THEN v1 ELSE GsPost(v1, gs)
RECURSIVE VisitGroups(_, _, _)
VisitGroups(v, gg, i) == IF i > Len(gg) \/ v.crashed THEN v ELSE VisitGroups(VisitGs(v, gg[i]), gg, i + 1)
RECURSIVE VisitIsas(_, _, _)
VisitIsas(v, ii, i) == IF i > Len(ii) \/ v.crashed THEN v ELSE VisitIsas(VisitGroups(v, ii[i].groups, 1), ii, i + 1)
RootPost(v, t) == IF v.crashed THEN v ELSE
                  LET v1 == W(v, SegOf("GE", <<ToString(v.st_loops), t.nodes[t.gs].info[3]>>))
                      v2 == IF t.nodes[t.isa].x = "1" THEN W(v1, SegOf("TA1", <<t.nodes[t.isa].id, DATE, TIME, "#ACK", "#NOTE">>)) ELSE v1
                  IN W(v2, SegOf("IEA", <<"1", ICN>>))
Visit997(t) == RootPost(VisitIsas(RootPre(V0, t), Nested(t), 1), t)
Ack997(t) == Visit997(t).out
=============================================================================
