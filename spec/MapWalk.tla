------------------------------ MODULE MapWalk -------------------------------
(* Implementation-shaped transcription of pyx12.map_walker.walk_tree.walk and    *)
(* its helpers (_is_loop_match, _goto_seg_match, _check_loop_usage,              *)
(* _check_seg_usage, _flush_mandatory_segs), of pyx12.nodeCounter.NodeCounter    *)
(* and of segment_if.is_match, over ONE exported implementation-guide map.       *)
(* The map is data: M == JsonDeserialize(IOEnv.MAP_FILE) is the skeleton written *)
(* by lib/mapexport.py from the XML in the working tree (node 0 = map root).     *)
(* A segment is seen by the walker as [seg, v01, v02, v011, v03] (its id and the *)
(* values of the elements the qualifier tests look at).  The walker state is     *)
(* [cnt, missing, errs]: the path-keyed counter, the pending "mandatory missing" *)
(* list and the error codes raised during this call, in order.                   *)
(* Facts preserved from the code: is_match is a conjunction of up to five        *)
(* qualifier tests; node equality is "same id and same parent id"; the missing   *)
(* list is flushed by comparing the missing node's own position with the matched *)
(* node's position; _goto_seg_match flushes everything; the counter is keyed by  *)
(* path and reset by path-component prefix.                                      *)
EXTENDS Naturals, Integers, Sequences, TLC, Json, IOUtils, FiniteSets, SequencesExt
M == JsonDeserialize(IOEnv.MAP_FILE)
N == M.nodes
MAXINT == 2147483647

Kids(n)   == IF n = 0 THEN M.rootkids ELSE N[n].kids
IsLoop(n) == n # 0 /\ N[n].kind = "loop"
IsSeg(n)  == n # 0 /\ N[n].kind = "seg"
Parent(n) == N[n].parent
Pos(n)    == N[n].pos
PathOf(n) == IF n = 0 THEN "/" ELSE N[n].path
MaxRep(n) == IF N[n].rep = -1 THEN MAXINT ELSE N[n].rep
IdOf(n)   == IF n = 0 THEN "ROOT" ELSE N[n].id
NodeEq(a, b) == IdOf(a) = IdOf(b) /\ (a # 0 /\ b # 0 => IdOf(Parent(a)) = IdOf(Parent(b)))
NodeByPath(p) == CHOOSE n \in 1..Len(N) : N[n].path = p
CompsOf == [p \in {N[n].path : n \in 1..Len(N)} |-> N[NodeByPath(p)].comps]
IsChildPath(p, k) == /\ p \in DOMAIN CompsOf /\ k \in DOMAIN CompsOf
                     /\ Len(CompsOf[p]) < Len(CompsOf[k])
                     /\ SubSeq(CompsOf[k], 1, Len(CompsOf[p])) = CompsOf[p]

(* ---- NodeCounter ---- *)
Get(cnt, p)  == IF p \in DOMAIN cnt THEN cnt[p] ELSE 0
Inc(cnt, p)  == IF p \in DOMAIN cnt THEN [cnt EXCEPT ![p] = @ + 1] ELSE cnt @@ (p :> 1)
ResetTo(cnt, p) == [k \in {k \in DOMAIN cnt : ~IsChildPath(p, k)} |-> cnt[k]]

(* ---- segment_if.is_match ---- *)
QVal(s, k) == CASE k = "01" -> s.v01 [] k = "02" -> s.v02 [] k = "01-1" -> s.v011 [] k = "03" -> s.v03
SegMatch(n, s) == /\ N[n].id = s.seg
                  /\ \A i \in 1..Len(N[n].quals) : QVal(s, N[n].quals[i].k) \in ToSet(N[n].quals[i].codes)
FirstNode(l) == IF Len(Kids(l)) = 0 THEN 0 ELSE Kids(l)[1]
FirstSegMatch(c, s) == IsSeg(c) /\ SegMatch(c, s)

(* st = [cnt, missing, errs] ; missing entries [node, kind] *)
(* ---- _is_loop_match : returns [m, st] ---- *)
RECURSIVE LoopMatch(_, _, _), AnyChildLoopMatch(_, _, _, _)
AnyChildLoopMatch(kids, i, s, st) ==
  IF i > Len(kids) THEN [m |-> FALSE, st |-> st]
  ELSE IF IsLoop(kids[i]) THEN
         LET r == LoopMatch(kids[i], s, st) IN
           IF r.m THEN r ELSE AnyChildLoopMatch(kids, i + 1, s, r.st)
       ELSE AnyChildLoopMatch(kids, i + 1, s, st)
LoopMatch(l, s, st) ==
  IF Len(Kids(l)) = 0 THEN [m |-> FALSE, st |-> st]
  ELSE LET f == FirstNode(l) IN
    IF IsLoop(f) THEN AnyChildLoopMatch(Kids(l), 1, s, st)
    ELSE IF FirstSegMatch(f, s) THEN [m |-> TRUE, st |-> st]
    ELSE IF N[l].usage = "R" /\ Get(st.cnt, PathOf(l)) < 1
         THEN [m |-> FALSE, st |-> [st EXCEPT !.missing = Append(@, [node |-> f, kind |-> "loop"])]]
         ELSE [m |-> FALSE, st |-> st]

Flush(st, curpos) ==
  [st EXCEPT !.errs = @ \o [i \in 1..Len(SelectSeq(st.missing, LAMBDA x : Pos(x.node) # curpos)) |-> "3"],
             !.missing = SelectSeq(@, LAMBDA x : Pos(x.node) = curpos)]

CheckLoopUsage(l, st) ==
  IF N[l].usage = "N" THEN [st EXCEPT !.errs = Append(@, "2")]
  ELSE LET c1 == Inc(ResetTo(st.cnt, PathOf(l)), PathOf(l)) IN
       IF c1[PathOf(l)] > MaxRep(l) THEN [st EXCEPT !.cnt = c1, !.errs = Append(@, "4")]
       ELSE [st EXCEPT !.cnt = c1]
CheckSegUsage(c, st) ==
  IF N[c].usage = "N" THEN [st EXCEPT !.errs = Append(@, "2")]
  ELSE IF Get(st.cnt, PathOf(c)) > MaxRep(c) THEN [st EXCEPT !.errs = Append(@, "5")] ELSE st

(* ---- _goto_seg_match : returns [node, push, st] ---- *)
RECURSIVE Goto(_, _, _), GotoKids(_, _, _, _, _)
GotoKids(l, kids, i, s, st) ==
  IF i > Len(kids) THEN [node |-> 0, push |-> <<>>, st |-> st]
  ELSE IF IsLoop(kids[i]) THEN
         LET r == Goto(kids[i], s, st) IN
           IF r.node # 0 THEN [node |-> r.node, push |-> <<l>> \o r.push, st |-> r.st]
           ELSE GotoKids(l, kids, i + 1, s, r.st)
       ELSE GotoKids(l, kids, i + 1, s, st)
Goto(l, s, st) ==
  LET f == FirstNode(l) IN
  IF IsSeg(f) /\ FirstSegMatch(f, s) THEN
     LET s1 == CheckLoopUsage(l, st)
         s2 == [s1 EXCEPT !.cnt = Inc(@, PathOf(f))]
         s3 == Flush(s2, -1)
     IN [node |-> f, push |-> <<l>>, st |-> s3]
  ELSE GotoKids(l, Kids(l), 1, s, st)

(* ---- walk ---- *)
(* the loop instance being left (the walk started at its first segment) holds nothing after that segment: every other
   child at or after the start position that is required and has not occurred is recorded missing *)
RECURSIVE MissRest(_, _, _, _, _)
MissRest(kids, i, skip, s, st) ==
  IF i > Len(kids) THEN st
  ELSE LET c == kids[i] IN
    IF i = skip THEN MissRest(kids, i + 1, skip, s, st)
    ELSE IF IsLoop(c) THEN MissRest(kids, i + 1, skip, s, LoopMatch(c, s, st).st)
    ELSE IF N[c].usage = "R" /\ Get(st.cnt, PathOf(c)) < 1
         THEN MissRest(kids, i + 1, skip, s, [st EXCEPT !.missing = Append(@, [node |-> c, kind |-> "seg"])])
         ELSE MissRest(kids, i + 1, skip, s, st)
RECURSIVE Level(_, _, _, _, _, _), Scan(_, _, _, _, _, _, _)
Scan(node, kids, i, s, st, pops, origloop) ==
  IF i > Len(kids) THEN [found |-> FALSE, st |-> st]
  ELSE LET c == kids[i] IN
    IF IsSeg(c) THEN
      IF SegMatch(c, s) THEN
        LET lm == IF IsLoop(node) THEN LoopMatch(node, s, st) ELSE [m |-> FALSE, st |-> st] IN
        IF lm.m THEN
          LET g == Goto(node, s, IF lm.st.fromseg THEN MissRest(kids, 1, i, s, lm.st) ELSE lm.st) IN
            IF NodeEq(node, origloop)
            THEN [found |-> TRUE, res |-> g.node, pops |-> <<node>>, pushes |-> <<node>>, st |-> g.st]
            ELSE [found |-> TRUE, res |-> g.node, pops |-> pops, pushes |-> g.push, st |-> g.st]
        ELSE
          LET s1 == [lm.st EXCEPT !.cnt = Inc(@, PathOf(c))]
              s2 == CheckSegUsage(c, s1)
              s3 == [s2 EXCEPT !.missing = SelectSeq(@, LAMBDA x : ~NodeEq(x.node, c))]
              s4 == Flush(s3, Pos(c))
          IN [found |-> TRUE, res |-> c, pops |-> pops, pushes |-> <<>>, st |-> s4]
      ELSE IF N[c].usage = "R" /\ Get(st.cnt, PathOf(c)) < 1
           THEN Scan(node, kids, i + 1, s, [st EXCEPT !.missing = Append(@, [node |-> c, kind |-> "seg"])], pops, origloop)
           ELSE Scan(node, kids, i + 1, s, st, pops, origloop)
    ELSE
      LET lm == LoopMatch(c, s, st) IN
        IF lm.m THEN
          LET g == Goto(c, s, lm.st) IN
            [found |-> TRUE, res |-> g.node, pops |-> pops, pushes |-> g.push, st |-> g.st]
        ELSE Scan(node, kids, i + 1, s, lm.st, pops, origloop)

Level(node, nodepos, s, st, pops, origloop) ==
  LET kids == SelectSeq(Kids(node), LAMBDA c : Pos(c) >= nodepos)
      r == Scan(node, kids, 1, s, st, pops, origloop) IN
  IF r.found THEN r
  ELSE IF node = 0
       THEN [found |-> FALSE, res |-> 0, pops |-> <<>>, pushes |-> <<>>,
             st |-> [r.st EXCEPT !.errs = Append(@, "1")]]
       ELSE Level(Parent(node), Pos(node), s, r.st, Append(pops, node), origloop)

Walk(start, s, cnt) ==
  LET loop0 == IF IsLoop(start) \/ start = 0 THEN start ELSE Parent(start)
      st0 == [cnt |-> cnt, missing |-> <<>>, errs |-> <<>>, fromseg |-> (start # 0 /\ IsSeg(start))]
  IN Level(loop0, Pos(start), s, st0, <<>>, loop0)


EmptyCnt == [p \in {} |-> 0]
(* forceWalkCounterToLoopStart(loop path, first segment path), used by x12n_document for ISA and GS *)
ForceCnt(cnt, lp, sp) == Inc(Inc(ResetTo(cnt, lp), lp), sp)
=============================================================================
