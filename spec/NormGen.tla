------------------------------ MODULE NormGen -------------------------------
(* Generator + model-level theorems for C20: properly nested histories whose    *)
(* only defects are wrong counts / HL numbers.                                   *)
EXTENDS Naturals, Sequences, FiniteSets, TLC, Json, Norm
CONSTANTS MaxLen, Kinds, Ids, EmitAll
VARIABLES hist
Prefix == <<Seg("ISA", "1", "", "", "")>>
Cnt(h, k, m) == LET hh == Append(h, Seg(k, "", "", "", "")) IN
                IF m = "right" THEN ToString(RightCount(hh, Len(hh))) ELSE IF m = "wrong" THEN ToString(RightCount(hh, Len(hh)) + 2) ELSE "X"
Candidates(h) ==
  UNION {
    IF k \in {"ISA", "GS", "ST"} THEN {Seg(k, id, "", "", "") : id \in Ids}
    ELSE IF k \in {"SE", "GE", "IEA"} THEN {Seg(k, id, Cnt(h, k, m), "", "") : id \in Ids, m \in {"right", "wrong", "nonnum"}}
    ELSE IF k = "HL" THEN {Seg("HL", "", "", Cnt(h, "HL", m), p) : m \in {"right", "wrong"}, p \in {"", "1"}}
    ELSE {Seg(k, "", "", "", "")}
    : k \in Kinds }
Init == hist = Prefix
Next == /\ Len(hist) < MaxLen
        /\ \E s \in Candidates(hist) : OnlyCountDefects(Append(hist, s)) /\ hist' = Append(hist, s)
Spec == Init /\ [][Next]_hist

RECURSIVE ReadErrs(_, _, _, _)
ReadErrs(q, i, st, acc) == IF i > Len(q) THEN acc
                           ELSE LET r == Reader(st, q[i], FALSE) IN ReadErrs(q, i + 1, r.st, acc \cup {r.errs[j] : j \in 1..Len(r.errs)})
(* model-level theorems *)
ImplIsDef == NormImpl(hist, TRUE) = NormDef(hist, TRUE) /\ NormImpl(hist, FALSE) = hist
Repaired == ReadErrs(NormDef(hist, TRUE), 1, EnvInit, {}) \cap CountClasses = {}
            /\ \A i \in 1..Len(hist) : R!Discrepancies(SubSeq(NormDef(hist, TRUE), 1, i), FALSE) \cap CountClasses = {}
NothingElse == \A i \in 1..Len(hist) : LET a == hist[i]  b == NormDef(hist, TRUE)[i] IN
                  /\ a.k = b.k /\ a.id = b.id /\ a.p = b.p
                  /\ (a.k # "HL" => a.n = b.n) /\ (a.k \notin {"SE", "GE", "IEA"} => a.cnt = b.cnt)
Idempotent == NormDef(NormDef(hist, TRUE), TRUE) = NormDef(hist, TRUE)
Emit == (EmitAll /\ Len(hist) > 1) => PrintT(<<"HIST", ToJson(hist)>>)
=============================================================================
