------------------------------ MODULE AckVisit ------------------------------
(* What error_997_visitor and error_999_visitor have in common: the traversal    *)
(* order of err_handler.accept() and the code lists they compute from a node.    *)
(* Works on the nested projection of ErrTree (PIsa / PGs / PSt / PSeg / PEle).    *)
EXTENDS ErrTree, AckText

DATE == "#DATE"   TIME == "#TIME"   ICN == "#ICN"   GCN == "#GCN"
InSeq(x, q) == \E i \in 1..Len(q) : q[i] = x
RECURSIVE DistinctFrom(_, _, _)
DistinctFrom(q, i, acc) == IF i > Len(q) THEN acc ELSE DistinctFrom(q, i + 1, IF InSeq(q[i], acc) THEN acc ELSE Append(acc, q[i]))
Distinct(q) == DistinctFrom(q, 1, <<>>)
Codes(errs) == [i \in 1..Len(errs) |-> errs[i][1]]
Take(q, n) == SubSeq(q, 1, IF Len(q) < n THEN Len(q) ELSE n)
(* Python's sort of code strings, for the codes that occur *)
RankList == <<"1", "10", "12", "13", "2", "23", "3", "4", "5", "6", "7", "8", "9", "I4", "I6", "I7", "I8", "I9">>
RECURSIVE SetToSeq(_)
SetToSeq(S) == IF S = {} THEN <<>> ELSE LET x == CHOOSE y \in S : TRUE IN <<x>> \o SetToSeq(S \ {x})
SortCodes(q) == LET S == {q[i] : i \in 1..Len(q)} IN
                SelectSeq(RankList, LAMBDA c : c \in S) \o SetToSeq(S \ {RankList[i] : i \in 1..Len(RankList)})

RECURSIVE Flatten(_)
Flatten(qq) == IF qq = <<>> THEN <<>> ELSE Head(qq) \o Flatten(Tail(qq))

(* __get_st_errors: element errors on ST/SE at position 1 / 2 are translated to the notes 6 / 7; other positions give no note *)
HasW(mark, w) == InSeq(w, mark)
StEleCodes(st) == Flatten([k \in 1..Len(st.eles) |-> Flatten([m \in 1..Len(st.eles[k].errs) |->
                     IF (HasW(st.eles[k].marks[m], "ST") \/ HasW(st.eles[k].marks[m], "SE")) /\ st.eles[k].pos \in {1, 2}
                     THEN <<IF st.eles[k].pos = 1 THEN "6" ELSE "7">> ELSE <<>>])])
SegHasEleErr(sg) == \E k \in 1..Len(sg.eles) : sg.eles[k].errs # <<>>
SegErrCt(sg) == Len(sg.errs) + (IF SegHasEleErr(sg) THEN 1 ELSE 0)
StChildErrCt(st) == Cardinality({k \in 1..Len(st.segs) : SegErrCt(st.segs[k]) > 0})
StCodes(st) == SortCodes(Codes(st.errs) \o (IF StChildErrCt(st) > 0 THEN <<"5">> ELSE <<>>) \o StEleCodes(st))
GsEleCodes(gs) == Flatten([k \in 1..Len(gs.eles) |-> Flatten([m \in 1..Len(gs.eles[k].errs) |->
                     LET el == gs.eles[k] IN
                     IF HasW(el.marks[m], "GS") THEN <<IF el.pos = 6 THEN "6" ELSE IF el.pos = 8 THEN "2" ELSE "1">>
                     ELSE IF HasW(el.marks[m], "GE") THEN <<IF el.pos = 2 THEN "6" ELSE "1">> ELSE <<>>])])
GsCodes(gs) == SortCodes(Codes(gs.errs) \o GsEleCodes(gs))
FailedSt(gs) == Cardinality({k \in 1..Len(gs.sets) : gs.sets[k].ack \notin {"A", "E"}})
CountOk(gs) == IF gs.recv > FailedSt(gs) THEN gs.recv - FailedSt(gs) ELSE 0
GsAck(gs) == IF gs.ack = "" THEN "R" ELSE gs.ack               \* visit_gs_post patches a group that was never closed

(* visit_seg: the codes that get a line *)
SegLineCodes(sg, valid) ==
  LET e0 == Codes(sg.errs)
      e1 == IF InSeq("SEG1", e0) THEN SelectSeq(IF InSeq("8", e0) THEN e0 ELSE Append(e0, "8"), LAMBDA c : c # "SEG1") ELSE e0
  IN SelectSeq(Distinct(e1), LAMBDA c : c \in valid) \o (IF SegHasEleErr(sg) /\ ~InSeq("8", e1) THEN <<"8">> ELSE <<>>)
Valid3_997 == {"1", "2", "3", "4", "5", "6", "7", "8"}
Valid3_999 == Valid3_997 \cup {"I4", "I6", "I7", "I8", "I9"}
Valid4_997 == {"1", "2", "3", "4", "5", "6", "7", "8", "9", "10"}
Valid4_999 == Valid4_997 \cup {"12", "13", "I10", "I11", "I12", "I13", "I6", "I9"}
PosEl(el) == IF el.sub > 0 THEN <<ToString(el.pos), ToString(el.sub)>> ELSE <<ToString(el.pos)>>
(* the echoed value: every separator of the acknowledgement is replaced by a blank, and the value is set as ONE component *)
RECURSIVE Blanked(_, _, _)
Blanked(v, seps, i) == IF i > Len(v) THEN "" ELSE (IF SubSeq(v, i, i) \in seps THEN " " ELSE SubSeq(v, i, i)) \o Blanked(v, seps, i + 1)
Echo(v, seps) == << Blanked(v, seps, 1) >>
=============================================================================
