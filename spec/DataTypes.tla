----------------------------- MODULE DataTypes -----------------------------
(* Definition layer for C13: the value languages of the X12 data types as the  *)
(* property text and the X12 definitions state them.  Nothing here follows the *)
(* way pyx12 computes a verdict (no regular expressions, no length ladder, no  *)
(* string comparisons): a value is decomposed into its fields and the fields   *)
(* are judged by calendar / clock arithmetic and by explicit character sets.   *)
(*                                                                             *)
(*   N, N0..N9 : optional minus, then one or more digits                       *)
(*   R         : optional minus, digits, optionally one point followed by one  *)
(*               or more digits; at least one digit in the whole value         *)
(*   D8        : CCYYMMDD, a real calendar date, year >= 1800                  *)
(*   D6        : YYMMDD, century window YY < 50 -> 20YY, else 19YY (the window *)
(*               pyx12 documents in is_valid_date: "if 2 digit year, add CC")  *)
(*   DT        : a D6 value, a D8 value, or a D8 value followed by HHMM        *)
(*   RD8       : D8 "-" D8, exactly one hyphen in the whole value              *)
(*   TM        : HHMM, HHMMSS, HHMMSSd, HHMMSSdd; HH 00..23, MM 00..59,        *)
(*               SS 00..59, d any digit                                        *)
(*   ID, AN    : every character in the selected character set                 *)
(*               (charset B -> basic; E with 00501 -> extended 5010;           *)
(*                E otherwise -> extended)                                     *)
(*                                                                             *)
(* Every judgement is total and names the clause that fails: Why...(s) = ""    *)
(* means "accepted", anything else is the reason of the rejection.             *)
(* Strings are TLC strings: Len, \o and SubSeq(s,i,i) (a 1-character string).  *)
EXTENDS Naturals, Sequences, FiniteSets, TLC

Ch(s, i) == SubSeq(s, i, i)
From(s, i) == SubSeq(s, i, Len(s))
AllIn(s, S) == \A i \in 1..Len(s) : Ch(s, i) \in S
Positions(s, c) == {i \in 1..Len(s) : Ch(s, i) = c}

(* ----------------------------------------------------------- characters -- *)
Digit == {"0","1","2","3","4","5","6","7","8","9"}
Upper == {"A","B","C","D","E","F","G","H","I","J","K","L","M","N","O","P","Q","R","S","T","U","V","W","X","Y","Z"}
Lower == {"a","b","c","d","e","f","g","h","i","j","k","l","m","n","o","p","q","r","s","t","u","v","w","x","y","z"}

(* X12.6 basic character set: upper case letters, digits, the space and        *)
(*   ! " & ' ( ) * + , - . / : ; ? =                                           *)
BasicChars == Upper \cup Digit \cup
              {"!", "\"", "&", "'", "(", ")", "*", "+", ",", "-", ".", "/", ":", ";", "?", "=", " "}
(* extended character set: basic plus lower case letters and                   *)
(*   % ~ @ [ ] _ { } \ | < > # $                                               *)
ExtChars == BasicChars \cup Lower \cup
            {"%", "~", "@", "[", "]", "_", "{", "}", "\\", "|", "<", ">", "#", "$"}
(* extended character set of version 5010: additionally ^ and `                *)
Ext5010Chars == ExtChars \cup {"^", "`"}

CharSet(cs, icvn) == IF cs = "B" THEN BasicChars
                     ELSE IF icvn = "00501" THEN Ext5010Chars ELSE ExtChars

(* the printable ASCII table, code points 32..126 (used to state the character *)
(* sets as sets of code points as well)                                        *)
Ascii == " !\"#$%&'()*+,-./0123456789:;<=>?@ABCDEFGHIJKLMNOPQRSTUVWXYZ[\\]^_`abcdefghijklmnopqrstuvwxyz{|}~"
AsciiCh(c) == Ch(Ascii, c - 31)
CodeSet(cs, icvn) == {c \in 32..126 : AsciiCh(c) \in CharSet(cs, icvn)}

(* -------------------------------------------------------------- numbers -- *)
DigitVal(c) == CASE c = "0" -> 0 [] c = "1" -> 1 [] c = "2" -> 2 [] c = "3" -> 3 [] c = "4" -> 4
                 [] c = "5" -> 5 [] c = "6" -> 6 [] c = "7" -> 7 [] c = "8" -> 8 [] c = "9" -> 9
RECURSIVE NumVal(_)
NumVal(s) == IF Len(s) = 0 THEN 0 ELSE NumVal(SubSeq(s, 1, Len(s) - 1)) * 10 + DigitVal(Ch(s, Len(s)))
AllDigits(s) == AllIn(s, Digit)

(* the value without its optional leading minus *)
Unsigned(s) == IF Len(s) >= 1 /\ Ch(s, 1) = "-" THEN From(s, 2) ELSE s

WhyN(s) == LET b == Unsigned(s) IN
           IF ~AllDigits(b) THEN "shape"
           ELSE IF Len(b) = 0 THEN "no_digit"
           ELSE ""

WhyR(s) == LET b == Unsigned(s)
               pts == Positions(b, ".")
           IN IF Cardinality(pts) > 1 THEN "shape"
              ELSE IF pts = {} THEN (IF ~AllDigits(b) THEN "shape"
                                     ELSE IF Len(b) = 0 THEN "no_digit"
                                     ELSE "")
              ELSE LET p == CHOOSE i \in pts : TRUE IN
                   IF ~AllDigits(SubSeq(b, 1, p - 1)) \/ ~AllDigits(From(b, p + 1)) THEN "shape"
                   ELSE IF p = Len(b) THEN "point_without_fraction"
                   ELSE ""

(* ------------------------------------------------------------- calendar -- *)
MinYear == 1800
IsLeap(y) == (y % 4 = 0 /\ y % 100 # 0) \/ y % 400 = 0
DaysIn(y, m) == IF m \in {1, 3, 5, 7, 8, 10, 12} THEN 31
                ELSE IF m \in {4, 6, 9, 11} THEN 30
                ELSE IF IsLeap(y) THEN 29 ELSE 28
RealDate(y, m, d) == m \in 1..12 /\ d \in 1..DaysIn(y, m)
X12Date(y, m, d) == y >= MinYear /\ RealDate(y, m, d)
Century(yy) == IF yy < 50 THEN 2000 + yy ELSE 1900 + yy

WhyDate(y, m, d) == IF y < MinYear THEN "year"
                    ELSE IF m \notin 1..12 THEN "month"
                    ELSE IF d \notin 1..DaysIn(y, m) THEN "day"
                    ELSE ""

WhyD8(s) == IF Len(s) # 8 THEN "length"
            ELSE IF ~AllDigits(s) THEN "nondigit"
            ELSE WhyDate(NumVal(SubSeq(s, 1, 4)), NumVal(SubSeq(s, 5, 6)), NumVal(SubSeq(s, 7, 8)))

WhyD6(s) == IF Len(s) # 6 THEN "length"
            ELSE IF ~AllDigits(s) THEN "nondigit"
            ELSE WhyDate(Century(NumVal(SubSeq(s, 1, 2))), NumVal(SubSeq(s, 3, 4)), NumVal(SubSeq(s, 5, 6)))

(* ----------------------------------------------------------------- clock -- *)
WhyHHMM(s) == IF Len(s) # 4 THEN "length"
              ELSE IF ~AllDigits(s) THEN "nondigit"
              ELSE IF NumVal(SubSeq(s, 1, 2)) > 23 THEN "hour"
              ELSE IF NumVal(SubSeq(s, 3, 4)) > 59 THEN "minute"
              ELSE ""

WhyTM(s) == IF Len(s) < 4 THEN "too_short"
            ELSE IF Len(s) = 5 THEN "odd_length"
            ELSE IF Len(s) > 8 THEN "too_long"
            ELSE IF ~AllDigits(s) THEN "nondigit"
            ELSE IF WhyHHMM(SubSeq(s, 1, 4)) # "" THEN WhyHHMM(SubSeq(s, 1, 4))
            ELSE IF Len(s) >= 6 /\ NumVal(SubSeq(s, 5, 6)) > 59 THEN "second"
            ELSE ""      \* positions 7 and 8, when present, are decimal digits of the second: any digit

WhyDT(s) == IF Len(s) = 6 THEN WhyD6(s)
            ELSE IF Len(s) = 8 THEN WhyD8(s)
            ELSE IF Len(s) = 12 THEN
                 (IF WhyD8(SubSeq(s, 1, 8)) # "" THEN WhyD8(SubSeq(s, 1, 8))
                  ELSE IF WhyHHMM(SubSeq(s, 9, 12)) # "" THEN "time_" \o WhyHHMM(SubSeq(s, 9, 12))
                  ELSE "")
            ELSE "length"

(* ----------------------------------------------------------- date range -- *)
WhyRD8(s) == LET hy == Positions(s, "-") IN
             IF hy = {} THEN "no_hyphen"
             ELSE IF Cardinality(hy) > 1 THEN "many_hyphens"
             ELSE LET p == CHOOSE i \in hy : TRUE
                      a == SubSeq(s, 1, p - 1)
                      b == From(s, p + 1)
                  IN IF WhyD8(a) # "" THEN "first_" \o WhyD8(a)
                     ELSE IF WhyD8(b) # "" THEN "second_" \o WhyD8(b)
                     ELSE ""

(* ------------------------------------------------------- strings / ids -- *)
WhyChars(s, cs, icvn) == IF AllIn(s, CharSet(cs, icvn)) THEN "" ELSE "char_outside_set"

(* ------------------------------------------------------------ dispatcher -- *)
NTypes == {"N", "N0", "N1", "N2", "N3", "N4", "N5", "N6", "N7", "N8", "N9"}
ClaimedTypes == NTypes \cup {"R", "ID", "AN", "DT", "D6", "D8", "RD8", "TM"}
Charsets == {"B", "E"}
Versions == {"00401", "00501"}

(* The property fixes the verdict for the types it names.  It is silent about  *)
(* the empty value of ID / AN (element presence is not a data-type question)   *)
(* and about other types (B, unknown identifiers): there only "never raises"   *)
(* is claimed.                                                                 *)
Claimed(s, t) == t \in ClaimedTypes /\ ~(t \in {"ID", "AN"} /\ s = "")

Why(s, t, cs, icvn) ==
  CASE t \in NTypes -> WhyN(s)
    [] t = "R" -> WhyR(s)
    [] t \in {"ID", "AN"} -> WhyChars(s, cs, icvn)
    [] t = "D8" -> WhyD8(s)
    [] t = "D6" -> WhyD6(s)
    [] t = "DT" -> WhyDT(s)
    [] t = "RD8" -> WhyRD8(s)
    [] t = "TM" -> WhyTM(s)
    [] OTHER -> "unclaimed"
Accept(s, t, cs, icvn) == Why(s, t, cs, icvn) = ""

(* Compact verdict vector of one string over all claimed types and settings:   *)
(* one letter per accepting (type, setting).                                   *)
(*   N (N, N0..N9)  R  6 (D6)  8 (D8)  T (DT)  G (RD8)  M (TM)                 *)
(*   b (ID/AN basic)  e (ID/AN extended, not 5010)  f (ID/AN extended 5010)    *)
Flag(c, l) == IF c THEN l ELSE ""
Flags(s) == Flag(WhyN(s) = "", "N") \o Flag(WhyR(s) = "", "R") \o Flag(WhyD6(s) = "", "6")
            \o Flag(WhyD8(s) = "", "8") \o Flag(WhyDT(s) = "", "T") \o Flag(WhyRD8(s) = "", "G")
            \o Flag(WhyTM(s) = "", "M") \o Flag(AllIn(s, BasicChars), "b")
            \o Flag(AllIn(s, ExtChars), "e") \o Flag(AllIn(s, Ext5010Chars), "f")

(* decimal numeral of v with exactly n digits (leading zeros) *)
RECURSIVE Pad(_, _)
Pad(v, n) == IF n = 0 THEN "" ELSE Pad(v \div 10, n - 1) \o ToString(v % 10)
Two(v) == Pad(v, 2)

(* ---------------------------------------------- facts about the definition -- *)
(* checked by TLC as ASSUME-style sanity conditions from the generator spec    *)
DefSanity ==
  /\ Cardinality(BasicChars) = 26 + 10 + 17
  /\ Cardinality(ExtChars) = 53 + 26 + 14
  /\ Cardinality(Ext5010Chars) = 93 + 2
  /\ Len(Ascii) = 95 /\ AsciiCh(48) = "0" /\ AsciiCh(65) = "A" /\ AsciiCh(97) = "a" /\ AsciiCh(126) = "~"
  /\ \A c \in BasicChars : \E k \in 32..126 : AsciiCh(k) = c
  /\ \A c \in Ext5010Chars : \E k \in 32..126 : AsciiCh(k) = c
  /\ IsLeap(2000) /\ ~IsLeap(1900) /\ IsLeap(1904) /\ ~IsLeap(2023) /\ ~IsLeap(2100) /\ IsLeap(2400)
  /\ WhyD8("20000229") = "" /\ WhyD8("19000229") = "day" /\ WhyD8("17991231") = "year" /\ WhyD8("18000101") = ""
  /\ WhyD6("000229") = "" /\ WhyD6("490101") = "" /\ WhyD6("500101") = "" /\ WhyD6("990229") = "day"
  /\ WhyTM("2359") = "" /\ WhyTM("235959") = "" /\ WhyTM("23595999") = "" /\ WhyTM("2400") = "hour"
  /\ WhyTM("23599") = "odd_length" /\ WhyTM("235960") = "second" /\ WhyTM("123") = "too_short"
  /\ WhyN("-12") = "" /\ WhyN("-") = "no_digit" /\ WhyN("") = "no_digit" /\ WhyN("1-2") = "shape"
  /\ WhyR("-.5") = "" /\ WhyR("1.5") = "" /\ WhyR("5.") = "point_without_fraction" /\ WhyR("-") = "no_digit"
  /\ WhyR(".") = "point_without_fraction" /\ WhyR("1.2.3") = "shape" /\ WhyR("") = "no_digit"
  /\ WhyRD8("20240101-20240229") = "" /\ WhyRD8("20240101--20240229") = "many_hyphens"
  /\ WhyRD8("2024010120240229") = "no_hyphen" /\ WhyRD8("20240101-20230229") = "second_day"
  /\ WhyDT("202402292359") = "" /\ WhyDT("202402292400") = "time_hour" /\ WhyDT("2024022923") = "length"
=============================================================================
