------------------------------- MODULE Recount -------------------------------
(* Definition layer for C04 / C11 / C20: what an independent recount of a whole  *)
(* segment history says.  Nothing here keeps running counters: every quantity is *)
(* recomputed from the history by scanning it.                                   *)
(* A history is a sequence of segment records (see Envelope).                    *)
EXTENDS Naturals, Sequences, FiniteSets, TLC
LOCAL INSTANCE Envelope

IsEnv(s) == s.k \in {"ISA", "GS", "ST", "SE", "GE", "IEA"}
EnvOnly(h) == SelectSeq(h, IsEnv)

(* ---- proper nesting of headers and trailers: the envelope segments of the history form a prefix of
        (ISA (GS (ST SE)* GE)* IEA)*  ; returned: the stack of open levels after the history, or "bad" ---- *)
RECURSIVE NestFrom(_, _, _)
NestFrom(env, i, stack) ==
  IF i > Len(env) THEN [ok |-> TRUE, stack |-> stack]
  ELSE LET k == env[i].k  d == Len(stack) IN
    CASE k = "ISA" /\ d = 0 -> NestFrom(env, i + 1, <<i>>)
      [] k = "GS"  /\ d = 1 -> NestFrom(env, i + 1, Append(stack, i))
      [] k = "ST"  /\ d = 2 -> NestFrom(env, i + 1, Append(stack, i))
      [] k = "SE"  /\ d = 3 -> NestFrom(env, i + 1, SubSeq(stack, 1, 2))
      [] k = "GE"  /\ d = 2 -> NestFrom(env, i + 1, SubSeq(stack, 1, 1))
      [] k = "IEA" /\ d = 1 -> NestFrom(env, i + 1, <<>>)
      [] OTHER -> [ok |-> FALSE, stack |-> <<>>]
Nest(h) == NestFrom(EnvOnly(h), 1, <<>>)
(* where nesting first breaks: "<kind>@<number of open levels>", e.g. "ST@1" = an ST directly inside an ISA *)
RECURSIVE FaultFrom(_, _, _)
FaultFrom(env, i, d) ==
  IF i > Len(env) THEN "none"
  ELSE LET k == env[i].k IN
    CASE k = "ISA" /\ d = 0 -> FaultFrom(env, i + 1, 1)
      [] k = "GS"  /\ d = 1 -> FaultFrom(env, i + 1, 2)
      [] k = "ST"  /\ d = 2 -> FaultFrom(env, i + 1, 3)
      [] k = "SE"  /\ d = 3 -> FaultFrom(env, i + 1, 2)
      [] k = "GE"  /\ d = 2 -> FaultFrom(env, i + 1, 1)
      [] k = "IEA" /\ d = 1 -> FaultFrom(env, i + 1, 0)
      [] OTHER -> k \o "@" \o ToString(d)
NestFault(h) == FaultFrom(EnvOnly(h), 1, 0)
ProperlyNested(h) == Nest(h).ok

(* index (in h) of the last segment of kind k strictly before position i; 0 if none *)
LastBefore(h, i, k) == LET S == {j \in 1..(i - 1) : h[j].k = k} IN IF S = {} THEN 0 ELSE CHOOSE j \in S : \A x \in S : x <= j
CountBetween(h, a, b, K) == Cardinality({j \in (a + 1)..(b - 1) : h[j].k \in K})

(* depth-first path of HL numbers after a sequence of HL segments (numbers = true sequence numbers in the set) *)
KeepUpTo(path, v) == LET S == {j \in 1..Len(path) : path[j] = v} IN
                     IF S = {} THEN <<>> ELSE SubSeq(path, 1, CHOOSE j \in S : \A x \in S : x <= j)
RECURSIVE PathFrom(_, _, _)
PathFrom(hls, j, path) == IF j > Len(hls) THEN path
                          ELSE IF hls[j].p = "" THEN PathFrom(hls, j + 1, Append(path, j))
                          ELSE PathFrom(hls, j + 1, Append(KeepUpTo(path, IntOf(hls[j].p)), j))
PathAfter(hls) == PathFrom(hls, 1, <<>>)

(* ---- discrepancies of the LAST segment of a properly nested history h (classes as <<level, code>> sets) ---- *)
Discrepancies(h, checkLX) ==
  LET i == Len(h)  s == h[i]
      isa == LastBefore(h, i, "ISA")  gs == LastBefore(h, i, "GS")  st == LastBefore(h, i, "ST")
  IN
  CASE s.k = "ISA" -> IF \E j \in 1..(i - 1) : h[j].k = "ISA" /\ h[j].id = s.id THEN {<<"isa", "025">>} ELSE {}
    [] s.k = "GS"  -> IF \E j \in (isa + 1)..(i - 1) : h[j].k = "GS" /\ h[j].id = s.id THEN {<<"gs", "6">>} ELSE {}
    [] s.k = "ST"  -> IF \E j \in (gs + 1)..(i - 1) : h[j].k = "ST" /\ h[j].id = s.id THEN {<<"st", "23">>} ELSE {}
    [] s.k = "SE"  -> (IF h[st].id # s.id THEN {<<"st", "3">>} ELSE {})
                      \cup (IF IntOf(s.cnt) # (i - st + 1) THEN {<<"st", "4">>} ELSE {})
    [] s.k = "GE"  -> (IF h[gs].id # s.id THEN {<<"gs", "4">>} ELSE {})
                      \cup (IF IntOf(s.cnt) # CountBetween(h, gs, i, {"ST"}) THEN {<<"gs", "5">>} ELSE {})
    [] s.k = "IEA" -> (IF h[isa].id # s.id THEN {<<"isa", "001">>} ELSE {})
                      \cup (IF IntOf(s.cnt) # CountBetween(h, isa, i, {"GS"}) THEN {<<"isa", "021">>} ELSE {})
    [] s.k = "HL"  ->
         LET seqno == CountBetween(h, st, i + 1, {"HL"})            \* true sequence number of this HL in its set
             \* depth-first path before this HL: replay the HLs of the set (numbers = true sequence numbers);
             \* an HL with a parent keeps the path up to that parent; a blank parent makes no claim and closes nothing
             hls == SelectSeq(SubSeq(h, st + 1, i - 1), LAMBDA x : x.k = "HL")
             path == PathAfter(hls)
         IN (IF IntOf(s.n) # seqno THEN {<<"seg", "HL1">>} ELSE {})
            \cup (IF s.p # "" /\ ~InSeq(IntOf(s.p), path) THEN {<<"seg", "HL2">>} ELSE {})
    [] s.k = "LX" /\ checkLX ->
         LET clm == LastBefore(h, i, "CLM")
         IN IF clm <= st THEN {}                 \* no claim: service lines are numbered 1,2,.. after each CLM of the set
            ELSE IF s.n # ToString(CountBetween(h, clm, i + 1, {"LX"})) THEN {<<"seg", "LX">>} ELSE {}
    [] OTHER -> {}

(* classes about which the property makes no claim for the last segment of h: an LX that is not preceded by a CLM
   in its own set (service lines are numbered per claim; without a claim there is nothing to number) *)
NoClaim(h) == LET i == Len(h) IN
  IF h[i].k = "LX" /\ LastBefore(h, i, "CLM") <= LastBefore(h, i, "ST") THEN {<<"seg", "LX">>} ELSE {}

(* trailers missing at end of input: one per level still open *)
MissingAtEnd(h) == LET stk == Nest(h).stack IN
  { (CASE Len(stk) >= 3 /\ l = 3 -> <<"st", "2">> [] l = 2 -> <<"gs", "3">> [] OTHER -> <<"isa", "023">>) : l \in 1..Len(stk) }
=============================================================================
