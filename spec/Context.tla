------------------------------- MODULE Context --------------------------------
(* C09: the context reader partitions the document.                              *)
(* Definition layer.  The source is a sequence of located segments               *)
(*   [id, path (loop ids of the map node it matched), first (first segment of    *)
(*    its loop), segpos, line].                                                  *)
(* For a requested loop id L (or none):                                          *)
(*   Groups(src, L) - the yield sequence: a segment whose path does not contain  *)
(*       L is yielded alone; a maximal run of segments whose paths contain L,    *)
(*       cut in front of every first segment of loop L itself, is one tree.      *)
(*   Address(run, k) - where segment k of a tree sits: the chain of <<loop id,    *)
(*       instance number>> below the tree root, a fresh instance of a child loop *)
(*       beginning at each of its first segments.                                *)
EXTENDS Naturals, Sequences, FiniteSets, TLC

InTree(s, L) == L # "" /\ \E j \in 1..Len(s.path) : s.path[j] = L
StartsTree(s, L) == InTree(s, L) /\ s.path[Len(s.path)] = L /\ s.first
RECURSIVE GroupsFrom(_, _, _, _)
GroupsFrom(src, L, k, cur) ==      \* cur: indices of the tree under construction
  IF k > Len(src) THEN (IF cur = <<>> THEN <<>> ELSE <<[kind |-> "tree", idx |-> cur]>>)
  ELSE LET s == src[k] IN
    IF InTree(s, L) THEN
       IF StartsTree(s, L) THEN (IF cur = <<>> THEN <<>> ELSE <<[kind |-> "tree", idx |-> cur]>>) \o GroupsFrom(src, L, k + 1, <<k>>)
       ELSE GroupsFrom(src, L, k + 1, Append(cur, k))
    ELSE (IF cur = <<>> THEN <<>> ELSE <<[kind |-> "tree", idx |-> cur]>>) \o <<[kind |-> "seg", idx |-> <<k>>]>> \o GroupsFrom(src, L, k + 1, <<>>)
Groups(src, L) == GroupsFrom(src, L, 1, <<>>)

(* path of a segment below the tree root: the loop ids after the (last) occurrence of L *)
Below(s, L) == LET S == {j \in 1..Len(s.path) : s.path[j] = L}
                   r == CHOOSE j \in S : \A x \in S : x <= j
               IN SubSeq(s.path, r + 1, Len(s.path))
(* instance numbering: walking the run, a child loop chain c1/c2/.. ; an instance counter per (parent address, loop id);
   a new instance of the innermost loop starts at its first segment; entering a loop that is not open starts one too *)
RECURSIVE ExtendChain(_, _, _, _)
ExtendChain(chain, b, j, cnt) ==
  IF j > Len(b) THEN [chain |-> chain, cnt |-> cnt]
  ELSE LET key == <<chain, b[j]>>
           n == (IF key \in DOMAIN cnt THEN cnt[key] ELSE 0) + 1
           cnt2 == [x \in (DOMAIN cnt) \cup {key} |-> IF x = key THEN n ELSE cnt[x]]
       IN ExtendChain(Append(chain, <<b[j], n>>), b, j + 1, cnt2)
RECURSIVE AddrFrom(_, _, _, _, _)
AddrFrom(run, L, k, open, cnt) ==      \* open: current chain of <<id, n>>; cnt: function from <<parent chain, id>> to instances so far
  IF k > Len(run) THEN <<>>
  ELSE LET s == run[k]
           b == Below(s, L)
           \* keep the longest prefix of `open` that matches b; but the innermost loop restarts at a first segment
           common == LET n == IF Len(open) < Len(b) THEN Len(open) ELSE Len(b)
                         S == {c \in 0..n : \A j \in 1..c : open[j][1] = b[j]} IN CHOOSE c \in S : \A x \in S : x <= c
           keep == IF s.first /\ common = Len(b) /\ Len(b) > 0 THEN Len(b) - 1 ELSE common
           base == SubSeq(open, 1, keep)
           ext == ExtendChain(base, b, keep + 1, cnt)
       IN <<ext.chain>> \o AddrFrom(run, L, k + 1, ext.chain, ext.cnt)
Addresses(run, L) == AddrFrom(run, L, 1, <<>>, [x \in {} |-> 0])

(* ------------------------------------------------------------------ implementation-shaped *)
(* X12ContextReader._add_segment as coded: the position in the tree under construction is the current loop data     *)
(* node (chain of <<loop id, instance>> below the root, plus the map path of that loop); a segment moves it by the    *)
(* walker's pop / push lists when the loop path changed, by the explicit repeat case when it did not, and not at all   *)
(* for ISA and GS, which are never walked (empty lists).  Each source segment carries pops / pushes (loop ids).       *)
RECURSIVE ImplFrom(_, _, _, _, _, _)
ImplFrom(run, L, k, chain, lastpath, cnt) ==
  IF k > Len(run) THEN <<>>
  ELSE LET s == run[k] IN
    IF k = 1 THEN <<<<>>>> \o ImplFrom(run, L, 2, <<>>, s.path, cnt)            \* new tree on the parent loop of its first segment
    ELSE IF lastpath # s.path THEN
        LET np == IF Len(s.pops) < Len(chain) THEN Len(s.pops) ELSE Len(chain)     \* popping above the root leaves the root
            base == SubSeq(chain, 1, Len(chain) - np)
            ext == ExtendChain(base, s.pushes, 1, cnt)
        IN <<ext.chain>> \o ImplFrom(run, L, k + 1, ext.chain, s.path, ext.cnt)
    ELSE IF s.first /\ Len(chain) > 0 THEN                                       \* loop repeat
        LET base == SubSeq(chain, 1, Len(chain) - 1)
            ext == ExtendChain(base, <<chain[Len(chain)][1]>>, 1, cnt)
        IN <<ext.chain>> \o ImplFrom(run, L, k + 1, ext.chain, s.path, ext.cnt)
    ELSE <<chain>> \o ImplFrom(run, L, k + 1, chain, lastpath, cnt)
ImplAddresses(run, L) == ImplFrom(run, L, 1, <<>>, <<>>, [x \in {} |-> 0])

(* ------------------------------------------------------------------ implementation-shaped: the reader loop *)
(* X12ContextReader.iter_segments as coded: one pass over the source with two pieces of state - the tree under          *)
(* construction (None or the indices gathered so far) and whether any data node exists yet.  A segment inside the        *)
(* requested loop starts a tree (yielding the one in progress) when it is the first segment of the loop itself, is      *)
(* added to the tree otherwise - and the code raises EngineError when there is nothing to add it to; a segment outside   *)
(* the loop closes the tree in progress and is yielded alone; the end of the input yields the tree in progress.           *)
RECURSIVE ImplLoop(_, _, _, _, _)
ImplLoop(src, L, k, tree, havenode) ==          \* result: [ys |-> yields, raised |-> BOOLEAN]
  IF k > Len(src) THEN [ys |-> IF tree = <<>> THEN <<>> ELSE <<[kind |-> "tree", idx |-> tree]>>, raised |-> FALSE]
  ELSE LET s == src[k] IN
    IF InTree(s, L) THEN
       IF StartsTree(s, L)
       THEN LET r == ImplLoop(src, L, k + 1, <<k>>, TRUE)
            IN [ys |-> (IF tree = <<>> THEN <<>> ELSE <<[kind |-> "tree", idx |-> tree]>>) \o r.ys, raised |-> r.raised]
       ELSE IF ~havenode THEN [ys |-> <<>>, raised |-> TRUE]
       ELSE ImplLoop(src, L, k + 1, Append(tree, k), TRUE)          \* (tree = <<>> here: the segment is hung below a plain segment node and never yielded)
    ELSE LET r == ImplLoop(src, L, k + 1, <<>>, TRUE)
         IN [ys |-> (IF tree = <<>> THEN <<>> ELSE <<[kind |-> "tree", idx |-> tree]>>) \o <<[kind |-> "seg", idx |-> <<k>>]>> \o r.ys, raised |-> r.raised]
ImplGroups(src, L) == ImplLoop(src, L, 1, <<>>, FALSE)
=============================================================================
