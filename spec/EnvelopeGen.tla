----------------------------- MODULE EnvelopeGen -----------------------------
(* Generator + model-level refinement check for C04.  The environment appends    *)
(* any segment of the configured alphabet; declared counts and HL/LX numbers are *)
(* chosen relative to what the definition layer (Recount) says is right.         *)
(* st is the implementation-shaped reader state (Envelope), hist the history.    *)
(* Model-level invariants: the reader as transcribed reports exactly Recount's   *)
(* discrepancies on properly nested histories, never crashes, and reports at     *)
(* least one envelope error on any history that is not properly nested.          *)
(* Control numbers: the environment picks abstract ids (Ids) and a rendering      *)
(* (style, fixed per behaviour); the history holds the CONCRETE strings that are  *)
(* written into the document, so the definition compares what the reader reads:   *)
(*   "num"   header and trailer zero-padded to 9 digits                           *)
(*   "alnum" header and trailer 9 characters ending in a letter (not a number)    *)
(*   "unpad" header zero-padded, trailer without padding (same number, other text)*)
EXTENDS Naturals, Sequences, FiniteSets, TLC, Json, Envelope
CONSTANTS MaxLen,       \* history length bound
          Kinds,        \* subset of {"ISA","GS","ST","SE","GE","IEA","HL","CLM","LX","B"}
          Ids,          \* control numbers to choose from
          CntModes,     \* subset of {"right","wrong","nonnum"}
          CheckLX,      \* BOOLEAN: caller enabled the 837 LX check
          PrefixLen,    \* 1 or 3: every behaviour starts with ISA / ISA GS ST (abstract id "1")
          Styles,       \* subset of {"num","alnum","unpad"}: renderings of the control numbers
          EmitAll,      \* emit every maximal history
          NestedOnly    \* only append segments that keep headers and trailers properly nested
VARIABLES st, hist, errs, anyerr, style
vars == <<st, hist, errs, anyerr, style>>
R == INSTANCE Recount

(* ---- renderings of an abstract control number (a short digit string not ending in 0) ---- *)
RECURSIVE Pad9(_)
Pad9(s) == IF Len(s) >= 9 THEN s ELSE Pad9("0" \o s)
Letters == <<"A", "B", "C", "D", "E", "F", "G", "H", "I">>
Alnum(id) == SubSeq(Pad9(id), 1, 8) \o Letters[IntOf(SubSeq(id, Len(id), Len(id)))]
HdrId(sty, id) == IF sty = "alnum" THEN Alnum(id) ELSE Pad9(id)
TrlId(sty, id) == CASE sty = "alnum" -> Alnum(id) [] sty = "unpad" -> id [] OTHER -> Pad9(id)
Prefix(sty) == SubSeq(<<Seg("ISA", HdrId(sty, "1"), "", "", ""), Seg("GS", HdrId(sty, "1"), "", "", ""),
                        Seg("ST", HdrId(sty, "1"), "", "", "")>>, 1, PrefixLen)

RECURSIVE RunPrefix(_, _, _)
RunPrefix(s0, p, i) == IF i > Len(p) THEN s0 ELSE RunPrefix(Reader(s0, p[i], CheckLX).st, p, i + 1)

Right(h, k) ==   \* what the declared count / number must be for a segment of kind k appended to h
  LET i == Len(h) + 1 IN
  CASE k = "SE"  -> LET s == R!LastBefore(h, i, "ST") IN i - s + 1
    [] k = "GE"  -> R!CountBetween(h, R!LastBefore(h, i, "GS"), i, {"ST"})
    [] k = "IEA" -> R!CountBetween(h, R!LastBefore(h, i, "ISA"), i, {"GS"})
    [] k = "HL"  -> R!CountBetween(h, R!LastBefore(h, i, "ST"), i, {"HL"}) + 1
    [] k = "LX"  -> R!CountBetween(h, R!LastBefore(h, i, "CLM"), i, {"LX"}) + 1
    [] OTHER -> 0
CntStr(h, k, m) == CASE m = "right" -> ToString(Right(h, k)) [] m = "wrong" -> ToString(Right(h, k) + 1) [] OTHER -> "X"

Candidates(h, sty) ==
  UNION {
    IF k \in {"ISA", "GS", "ST"} THEN {Seg(k, HdrId(sty, id), "", "", "") : id \in Ids}
    ELSE IF k \in {"SE", "GE", "IEA"} THEN {Seg(k, TrlId(sty, id), CntStr(h, k, m), "", "") : id \in Ids, m \in CntModes}
    ELSE IF k = "HL" THEN {Seg("HL", "", "", CntStr(h, "HL", m), p) : m \in CntModes \ {"nonnum"}, p \in {"", "1", "2", "3"} \cup (IF "nonnum" \in CntModes THEN {"X"} ELSE {})}
    ELSE IF k = "LX" THEN (IF R!LastBefore(h, Len(h) + 1, "CLM") > R!LastBefore(h, Len(h) + 1, "ST")
                           THEN {Seg("LX", "", "", CntStr(h, "LX", m), "") : m \in CntModes \ {"nonnum"}} ELSE {})
    ELSE {Seg(k, "", "", "", "")}
    : k \in Kinds }

Init == /\ style \in Styles
        /\ hist = Prefix(style) /\ st = RunPrefix(EnvInit, Prefix(style), 1) /\ errs = <<>> /\ anyerr = FALSE
Step(s) == LET r == Reader(st, s, CheckLX) IN
           /\ hist' = Append(hist, s) /\ st' = r.st /\ errs' = r.errs
           /\ anyerr' = (anyerr \/ r.errs # <<>>) /\ UNCHANGED style
Next == /\ Len(hist) < MaxLen /\ ~st.crashed
        /\ \E s \in Candidates(hist, style) : (NestedOnly => R!ProperlyNested(Append(hist, s))) /\ Step(s)
Spec == Init /\ [][Next]_vars

ToSet(q) == {q[i] : i \in 1..Len(q)}
(* model-level refinement Impl [= Def *)
ExactOnNested == (Len(hist) > PrefixLen /\ ~st.crashed /\ R!ProperlyNested(hist)) => ToSet(errs) = R!Discrepancies(hist, CheckLX)
NoCrash == ~st.crashed
CleanupOnNested == (~st.crashed /\ R!ProperlyNested(hist)) => ToSet(Cleanup(st)) = R!MissingAtEnd(hist)
SomeErrorWhenNotNested == (~st.crashed /\ ~R!ProperlyNested(hist)) => (anyerr \/ Cleanup(st) # <<>>)
(* total variants: print the history instead of stopping *)
Diff == \/ st.crashed
        \/ (R!ProperlyNested(hist) /\ Len(hist) > PrefixLen /\ ToSet(errs) # R!Discrepancies(hist, CheckLX))
        \/ (R!ProperlyNested(hist) /\ ToSet(Cleanup(st)) # R!MissingAtEnd(hist))
        \/ (~R!ProperlyNested(hist) /\ ~anyerr /\ Cleanup(st) = <<>>)
DiffClass == IF st.crashed THEN "crash"
             ELSE IF R!ProperlyNested(hist) /\ Len(hist) > PrefixLen /\ ToSet(errs) # R!Discrepancies(hist, CheckLX) THEN "exact"
             ELSE IF R!ProperlyNested(hist) /\ ToSet(Cleanup(st)) # R!MissingAtEnd(hist) THEN "cleanup"
             ELSE "silent"
ModelDiff == Diff => PrintT(<<"MODELDIFF", ToJson([c |-> DiffClass, h |-> hist])>>)
Emit == (EmitAll /\ (Len(hist) = MaxLen \/ st.crashed)) => PrintT(<<"HIST", ToJson(hist)>>)
ImplView == <<st, Len(hist), anyerr, style>>
=============================================================================
