-------------------------------- MODULE Fault --------------------------------
(* C03: the catalogue of single faults, where each is applicable, what must be   *)
(* reported for it and where (definition layer), a generator that enumerates     *)
(* every applicable (document, segment, element, component, kind) plan over the  *)
(* real exported map, and the clauses by which a recorded run is judged.         *)
(* FM is the full export of the map (element definitions included).              *)
EXTENDS Naturals, Sequences, FiniteSets, TLC, Json, IOUtils
FM == JsonDeserialize(IOEnv.FULLMAP_FILE)
FN == FM.nodes

ElementKinds == {"TooLong", "TooShort", "BadCode", "BadClass", "BadDate", "BadTime", "MissingRequired", "NotUsedPresent",
                 "TooManySubElements"}
SegmentKinds == {"TooManyElements", "SyntaxBroken", "UnknownSeg", "OutOfPlaceSeg", "MissingRequiredSeg", "MissingRequiredLoop", "SegOverMax", "LoopOverMax"}

(* the standard acknowledgement code(s) that match each fault kind (AK403 for elements, AK304 for segments) *)
AllowedCodes(kind) ==
  CASE kind = "TooLong" -> {"5"} [] kind = "TooShort" -> {"4"} [] kind = "BadCode" -> {"7"} [] kind = "BadClass" -> {"6"}
    [] kind = "BadDate" -> {"8"} [] kind = "BadTime" -> {"9"} [] kind = "MissingRequired" -> {"1"} [] kind = "NotUsedPresent" -> {"10"}
    [] kind = "TooManyElements" -> {"3"} [] kind = "TooManySubElements" -> {"3"} [] kind = "SyntaxBroken" -> {"2", "10"}
    [] kind = "UnknownSeg" -> {"1"} [] kind = "OutOfPlaceSeg" -> {"1", "2", "7"} [] kind = "MissingRequiredSeg" -> {"3"} [] kind = "MissingRequiredLoop" -> {"3"} [] kind = "SegOverMax" -> {"5"} [] kind = "LoopOverMax" -> {"4"}
    [] OTHER -> {}
ErrLevel(kind) == IF kind \in {"UnknownSeg", "OutOfPlaceSeg", "MissingRequiredSeg", "MissingRequiredLoop", "SegOverMax", "LoopOverMax"} THEN "seg" ELSE "ele"

Numeric(t) == t = "R" \/ (Len(t) >= 1 /\ SubSeq(t, 1, 1) = "N")
HasCodes(e) == Len(e.codes) > 0 \/ e.ext # ""
(* applicability of an element-level kind to a simple element definition e that is present in the document
   (or absent, for NotUsedPresent); chosen so that the injected value breaks exactly ONE constraint *)
AppliesEle(kind, e, present) ==
  CASE kind = "TooLong"  -> present /\ e.de # "1251" /\ e.usage # "N" /\ ~HasCodes(e) /\ e.regex = "" /\ e.dtype \in {"AN", "ID", "R", "N0", "N1", "N2", "N"} /\ e.mx < 80
    [] kind = "TooShort" -> present /\ e.de # "1251" /\ e.usage # "N" /\ ~HasCodes(e) /\ e.regex = "" /\ e.dtype \in {"AN", "ID", "R", "N0", "N2"} /\ e.mn >= 2
    [] kind = "BadCode"  -> present /\ e.usage # "N" /\ HasCodes(e) /\ e.dtype \in {"ID", "AN"} /\ e.mn <= e.mx
    [] kind = "BadClass" -> present /\ e.usage # "N" /\ ~HasCodes(e) /\ Numeric(e.dtype)
    [] kind = "BadDate"  -> present /\ e.usage # "N" /\ ~HasCodes(e) /\ e.dtype = "DT" /\ e.mx >= 8
    [] kind = "BadTime"  -> present /\ e.usage # "N" /\ ~HasCodes(e) /\ e.dtype = "TM"
    [] kind = "MissingRequired" -> present /\ e.usage = "R"
    [] kind = "NotUsedPresent"  -> ~present /\ e.usage = "N"
    [] OTHER -> FALSE

(* is the element one the walker's qualifier tests look at?  Then the fault changes how the segment is matched *)
IsQualifier(n, ei, ci) ==
  \E q \in 1..Len(FN[n].quals) :
     LET k == FN[n].quals[q].k IN
        (k = "01" /\ ei = 1 /\ ci = 0) \/ (k = "02" /\ ei = 2 /\ ci = 0) \/ (k = "03" /\ ei = 3 /\ ci = 0) \/ (k = "01-1" /\ ei = 1 /\ ci = 1)
EnvelopeSeg(n) == FN[n].id \in {"ISA", "IEA", "GS", "GE", "ST", "SE"}

(* --------------------------------------------------------------- out of place *)
(* Which segment identifiers may FOLLOW segment node n when the map is read forward in order?  In any enclosing loop A *)
(* (the virtual root 0 included): a later child of A - or the child the document is in, which may repeat - that is a   *)
(* segment, or the entry segment of such a child that is a loop (its first segment; for a loop that starts with loops,  *)
(* the entry of any of its child loops).  An identifier of the map that is NOT in ForwardIds(n) cannot be the next       *)
(* segment after n under any reading of the map: a segment carrying it there is OUT OF PLACE (a sufficient condition,   *)
(* deliberately by identifier only - qualifier values would only shrink the set).                                       *)
KidSet(a) == IF a = 0 THEN {FM.rootkids[j] : j \in 1..Len(FM.rootkids)} ELSE {FN[a].kids[j] : j \in 1..Len(FN[a].kids)}
RECURSIVE SubIds(_)
SubIds(n) == IF FN[n].kind = "seg" THEN {FN[n].id} ELSE UNION {SubIds(k) : k \in KidSet(n)}
RECURSIVE EntryIds(_)
EntryIds(k) == IF FN[k].kind = "seg" THEN {FN[k].id}
               ELSE IF Len(FN[k].kids) = 0 THEN {}
               ELSE IF FN[FN[k].kids[1]].kind = "seg" /\ ~FN[k].wrapper THEN {FN[FN[k].kids[1]].id}
               ELSE UNION {EntryIds(c) : c \in KidSet(k)}
RECURSIVE FwdFrom(_)
FwdFrom(c) == LET a == FN[c].parent
                  here == UNION {EntryIds(k) : k \in {x \in KidSet(a) : FN[x].pos >= FN[c].pos}}
              IN IF a = 0 THEN here ELSE here \cup FwdFrom(a)
ForwardIds(n) == FwdFrom(n)
MapSegIds == UNION {SubIds(k) : k \in KidSet(0)}
Numbered == {"HL", "LX", "LS", "LE"}          \* identifiers the reader itself counts or brackets: moving one is more than one fault

(* ------------------------------------------------------------------ generator *)
(* Docs: [{segs: [{node, present: <<BOOLEAN>>, sub: <<<<BOOLEAN>>>>}]}] as the concretiser laid the conformant documents out *)
Docs == JsonDeserialize(IOEnv.FAULT_DOCS)
VARIABLES d, s
Init == d = 1 /\ s = 0
Next == IF d > Len(Docs) THEN UNCHANGED <<d, s>>
        ELSE IF s >= Len(Docs[d].segs) THEN d' = d + 1 /\ s' = 0
        ELSE s' = s + 1 /\ d' = d
Spec == Init /\ [][Next]_<<d, s>>
(* segment ss of document dd and the one after it lie between an ST and its SE *)
InSet(dd, ss) == /\ \E x \in 1..ss : /\ FN[Docs[dd].segs[x].node].id = "ST"
                                       /\ \A y \in (x + 1)..ss : FN[Docs[dd].segs[y].node].id \notin {"ST", "SE"}
                 /\ ss < Len(Docs[dd].segs)
PlansAt(dd, ss) ==
  LET sg == Docs[dd].segs[ss]
      n == sg.node
      eles == FN[n].eles
      \* elements the reader itself counts (hierarchical level numbers and parents, service line numbers): a fault there
      \* also breaks the numbering, i.e. it is not a single fault
      Counter(ei) == (FN[n].id = "HL" /\ ei \in {1, 2}) \/ (FN[n].id = "LX" /\ ei = 1)
  IN IF EnvelopeSeg(n) THEN {}
     ELSE
     UNION {{[seg |-> ss, ele |-> ei, sub |-> 0, kind |-> k, local |-> ~IsQualifier(n, ei, 0)] :
                    k \in {kk \in ElementKinds : AppliesEle(kk, eles[ei], sg.present[ei])}} : ei \in {x \in 1..Len(eles) : eles[x].k = "e" /\ ~Counter(x)}}
     \cup UNION {UNION {{[seg |-> ss, ele |-> ei, sub |-> ci, kind |-> k, local |-> ~IsQualifier(n, ei, ci)] :
                           k \in {kk \in ElementKinds : sg.present[ei] /\ eles[ei].usage # "N" /\ AppliesEle(kk, eles[ei].subs[ci], sg.sub[ei][ci])}}
                         : ci \in 1..Len(eles[ei].subs)} : ei \in {x \in 1..Len(eles) : eles[x].k = "c"}}
     \cup {[seg |-> ss, ele |-> ei, sub |-> 0, kind |-> "TooManySubElements", local |-> TRUE] :
              ei \in {x \in 1..Len(eles) : eles[x].k = "c" /\ sg.present[x] /\ eles[x].usage # "N"}}
     \cup {[seg |-> ss, ele |-> Len(eles) + 1, sub |-> 0, kind |-> "TooManyElements", local |-> TRUE]}
     \cup {[seg |-> ss, ele |-> 0, sub |-> j, kind |-> "SyntaxBroken", local |-> TRUE] : j \in 1..Len(FN[n].syntax)}
     \* an unknown segment inside a set is not matched at all and the walker stays where it was: a local fault (outside a set the
     \* interchange-level "segment outside a transaction set" error is reported as well)
     \cup {[seg |-> ss, ele |-> 0, sub |-> 0, kind |-> "UnknownSeg", local |-> InSet(dd, ss)]}
     \* a copy of the nearest earlier body segment of the same set whose identifier cannot occur from here on (sub carries its index)
     \cup (LET st == CHOOSE x \in 0..ss : (x = 0 \/ FN[Docs[dd].segs[x].node].id = "ST")
                                          /\ \A y \in (x + 1)..ss : FN[Docs[dd].segs[y].node].id # "ST"
               fwd == ForwardIds(n)
               cand == {x \in (st + 1)..(ss - 1) : LET sid == FN[Docs[dd].segs[x].node].id IN
                                                      sid \notin fwd /\ sid \notin Numbered /\ ~EnvelopeSeg(Docs[dd].segs[x].node)}
               inset == \A y \in (st + 1)..ss : FN[Docs[dd].segs[y].node].id # "SE"      \* between ST and SE: a fault after SE / GE lies in no set
           IN IF st = 0 \/ ~inset \/ cand = {} THEN {}
              ELSE {[seg |-> ss, ele |-> 0, sub |-> CHOOSE x \in cand : \A y \in cand : y <= x, kind |-> "OutOfPlaceSeg", local |-> TRUE]})
     \cup (IF FN[n].usage = "R" /\ FN[FN[n].parent].kids[1] # n
           THEN {[seg |-> ss, ele |-> 0, sub |-> 0, kind |-> "MissingRequiredSeg", local |-> TRUE]} ELSE {})
     \* a whole instance of a required loop removed (at its first segment; wrappers are no loops of the document)
     \cup (IF FN[FN[n].parent].kids[1] = n /\ FN[FN[n].parent].usage = "R" /\ ~FN[FN[n].parent].wrapper
           THEN {[seg |-> ss, ele |-> 0, sub |-> 0, kind |-> "MissingRequiredLoop", local |-> InSet(dd, ss)]} ELSE {})
     \cup (IF FN[n].rep > 0 /\ FN[n].rep <= 12 /\ FN[FN[n].parent].kids[1] # n
           THEN {[seg |-> ss, ele |-> 0, sub |-> 0, kind |-> "SegOverMax", local |-> InSet(dd, ss)]} ELSE {})
     \cup (IF FN[FN[n].parent].kids[1] = n /\ FN[FN[n].parent].rep > 0 /\ FN[FN[n].parent].rep <= 12 /\ ~FN[FN[n].parent].wrapper
           THEN {[seg |-> ss, ele |-> 0, sub |-> 0, kind |-> "LoopOverMax", local |-> InSet(dd, ss)]} ELSE {})
Emit == (d <= Len(Docs) /\ s >= 1 /\ s <= Len(Docs[d].segs)) =>
           PrintT(<<"PLANS", ToJson([doc |-> d, plans |-> PlansAt(d, s)])>>)
=============================================================================
