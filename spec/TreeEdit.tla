------------------------------ MODULE TreeEdit ------------------------------
(* C10: the tree editing API as a state machine over the forests of TreeDef.    *)
(* One action per API call (get_value, set_value, exists/count/first/select as  *)
(* one observation, add_segment, add_loop, add_node, delete_segment,            *)
(* delete_node, delete, copy); the serialisation (iterate_segments) is part of  *)
(* every emitted step.  The laws of the property are stated below as invariants *)
(* and action properties and are checked by TLC on every explored transition.   *)
(*   Mode "bfs": all histories of <= MaxHist mutating calls from the initial     *)
(*               forests, split into NParts runs by the first call (read-only    *)
(*               calls cannot change what follows; their results are validated   *)
(*               per reached forest by T_TreeEdit).                              *)
(*   Mode "sim": random histories (-simulate) of all calls, valid and invalid    *)
(*               paths included.                                                 *)
(* Every maximal history is emitted with the acceptable return values and the    *)
(* expected forest + serialisation after each call; lib/c10.py replays it on a   *)
(* real tree obtained from X12ContextReader.                                     *)
EXTENDS TreeDef
CONSTANTS Mode, MaxHist, MaxNodes, AllowCopy, Part, NParts, NSub
VARIABLES f, hist, last      \* forest, emitted history, the structured last call (for the laws)
vars == <<f, hist, last>>

AL == FRAG.alpha
MkP(r) == [ok |-> TRUE, ups |-> r.ups, loops |-> r.loops, seg |-> r.seg, qual |-> r.qual, ele |-> r.ele, sub |-> r.sub,
           hasele |-> r.ele > 0, hassub |-> r.sub > 0]
QP == {MkP(AL.qpaths[i]) : i \in DOMAIN AL.qpaths}
GP == {MkP(AL.gpaths[i]) : i \in DOMAIN AL.gpaths}
Vals == SeqToSet(AL.vals)
SegsAdd == {[id |-> AL.segs[i].id, eles |-> AL.segs[i].eles] : i \in DOMAIN AL.segs}

RECURSIVE UpsText(_)
UpsText(k) == IF k = 0 THEN "" ELSE "../" \o UpsText(k - 1)
Text(p) == UpsText(p.ups) \o PrintPath([rel |-> TRUE, loops |-> p.loops, seg |-> p.seg, qual |-> p.qual,
                                        ele |-> IF p.hasele THEN p.ele ELSE Absent, sub |-> IF p.hassub THEN p.sub ELSE Absent])
(* the printed text of every path of the alphabet reads back as the same path (binding to T_TreeEdit, which parses texts) *)
ASSUME \A p \in QP \cup GP : ParsePath(Text(p)) = p

Call(h, op, p, sd, v, a) == [h |-> h, op |-> op, p |-> p, sd |-> sd, v |-> v, a |-> a]
Loops == {n \in Live(f) : f[n].k = "loop"}
ChildData(h) == {SegData(f, f[h].ch[i]) : i \in {j \in 1..Len(f[h].ch) : f[f[h].ch[j]].k = "seg"}}
(* data that is NEARLY that of a child segment: one more (non-empty) element at the end, or the last element dropped - a segment is deleted
   only when its data is exactly the data given, a prefix or an extension of it is another segment *)
NearData(h) == {[id |-> d.id, eles |-> Append(d.eles, <<"ZZ">>)] : d \in ChildData(h)}
               \cup {[id |-> d.id, eles |-> SubSeq(d.eles, 1, Len(d.eles) - 1)] : d \in {x \in ChildData(h) : Len(x.eles) >= 2}}
CallsFor(h, op) ==
  CASE op = "query" -> {Call(h, op, p, NoSeg, "", 0) : p \in QP}
    [] op = "get" -> {Call(h, op, p, NoSeg, "", 0) : p \in GP}
    [] op = "set" -> {Call(h, op, p, NoSeg, v, 0) : p \in GP, v \in Vals}
    [] op = "delete_node" -> IF f[h].k = "loop" THEN {Call(h, op, p, NoSeg, "", 0) : p \in QP} ELSE {}
    [] op = "add_segment" -> IF f[h].k = "loop" THEN {Call(h, op, NoPath, sd, "", 0) : sd \in SegsAdd} ELSE {}
    [] op = "add_loop" -> IF f[h].k = "loop" THEN {Call(h, op, NoPath, sd, "", 0) : sd \in SegsAdd} ELSE {}
    [] op = "delete_segment" -> IF f[h].k = "loop" THEN {Call(h, op, NoPath, sd, "", 0) : sd \in SegsAdd \cup ChildData(h) \cup NearData(h)} ELSE {}
    [] op = "add_node" -> IF f[h].k = "loop" THEN {Call(h, op, NoPath, NoSeg, "", a) : a \in Roots(f) \ {1}} ELSE {}
    [] op = "delete" -> {Call(h, op, NoPath, NoSeg, "", 0)}
    [] op = "copy" -> IF AllowCopy THEN {Call(h, op, NoPath, NoSeg, "", 0)} ELSE {}
Usable(c) == LET k == Class(f, c) IN
  /\ k # "bad"
  /\ k = "defined" => LET O == Outs(f, c) IN
        /\ \A o1, o2 \in O : o1.f = o2.f            \* only calls whose effect on the tree the text fixes uniquely
    /\ c.op \in {"get", "set"} => Cardinality(O) <= 1     \* ... and whose target segment it fixes uniquely
        /\ \A o \in O : Len(o.f) <= MaxNodes

RECURSIVE AnySeq(_)
AnySeq(S) == IF S = {} THEN <<>> ELSE LET x == CHOOSE y \in S : TRUE IN <<x>> \o AnySeq(S \ {x})
Step(c, k, O, g) == LET chg == g # f IN
  [h |-> c.h, op |-> c.op, path |-> IF c.op \in {"query", "get", "set", "delete_node"} THEN Text(c.p) ELSE "",
   sd |-> c.sd, v |-> c.v, a |-> c.a,
   free |-> k = "free", rets |-> AnySeq({o.ret : o \in O}),
   chg |-> chg, f |-> IF chg THEN g ELSE <<>>, ser |-> IF chg THEN SerAll(g) ELSE <<>>]
(* (k, O, g are bound by quantifiers over singletons so that TLC computes them once) *)
Do(c) ==
  \E k \in {Class(f, c)} : \E O \in {IF k = "defined" THEN Outs(f, c) ELSE {}} :
    /\ k # "bad"
    /\ \A o1, o2 \in O : o1.f = o2.f            \* only calls whose effect on the tree the text fixes uniquely
    /\ c.op \in {"get", "set"} => Cardinality(O) <= 1     \* ... and whose target segment it fixes uniquely
    /\ \E g \in {IF k = "defined" THEN (CHOOSE o \in O : TRUE).f ELSE f} :
         /\ Len(g) <= MaxNodes
         /\ f' = g
         /\ hist' = Append(hist, Step(c, k, O, g))
         /\ last' = c

Init == /\ \E i \in DOMAIN FRAG.inits : f = FRAG.inits[i] /\ hist = <<[op |-> "init", init |-> i]>>
        /\ last = Call(0, "init", NoPath, NoSeg, "", 0)
(* the exhaustive exploration is split into NParts independent TLC runs by the first (and, NSub > 1, second) call of the history *)
OpNo(op) == CHOOSE i \in 1..8 : <<"set", "add_segment", "add_loop", "add_node", "delete_segment", "delete_node", "delete", "copy">>[i] = op
Key(c) == c.h * 7 + OpNo(c.op) * 3 + Len(Text(c.p)) * 5 + Len(c.v) + c.a + Len(c.sd.id) * 11 + Len(c.sd.eles)
InPart(c) == CASE Len(hist) = 1 -> Key(c) % (NParts \div NSub) = Part \div NSub
               [] Len(hist) = 2 -> Key(c) % NSub = Part % NSub
               [] OTHER -> TRUE
(* deleting at a path that can denote nothing changes nothing: one representative (the unknown id ZZZ) per handle is enough *)
Boring(c) == c.op = "delete_node" /\ NothingThere(f, c) /\ c.p.seg # "ZZZ"
BfsNext == /\ Len(hist) <= MaxHist
           /\ \E h \in Live(f) : \E op \in Mutators : \E c \in CallsFor(h, op) :
                InPart(c) /\ Class(f, c) = "defined" /\ ~Boring(c) /\ Do(c)
(* random walk (-simulate): every random choice is bound once by a quantifier over a singleton, so a state has one   *)
(* successor.  Paths mostly lead to a node that exists below the start node, sometimes come from the alphabet          *)
(* (valid types without data, unknown ids, misplaced qualifiers, too many "../").                                       *)
AllOps == Mutators \cup ReadOnly
Pick(S) == {RandomElement(S)}
OpsOf(h) == LET o == IF f[h].k = "seg" THEN {"query", "get", "set", "delete", "copy"} ELSE AllOps
            IN IF AllowCopy THEN o ELSE o \ {"copy"}
ES == {<<AL.es[i][1], AL.es[i][2]>> : i \in DOMAIN AL.es}
RECURSIVE Depth(_), Chain(_, _)
Depth(n) == IF f[n].par = 0 THEN 0 ELSE 1 + Depth(f[n].par)
Chain(s, n) == IF n = s THEN <<>> ELSE Chain(s, f[n].par) \o <<n>>          \* the nodes below s down to n
DataPath(u, s, n, useq, e, sb) ==
  LET T(x) == f[x].k = "loop"
      lp == SelectSeq(Chain(s, n), T)
      isseg == f[n].k = "seg"
  IN [ok |-> TRUE, ups |-> u, loops |-> [i \in 1..Len(lp) |-> IdOf(f, lp[i])],
      seg |-> IF isseg THEN IdOf(f, n) ELSE None,
      qual |-> IF isseg /\ useq THEN QualOf(f[n].eles, TypeOf(f, n)) ELSE None,
      ele |-> e, sub |-> sb, hasele |-> e > 0, hassub |-> sb > 0]
Fallback(h) == \E p \in Pick(QP) : Do(Call(h, "query", p, NoSeg, "", 0))      \* (a query is always in the alphabet)
Try(c) == IF Usable(c) THEN Do(c) ELSE Fallback(c.h)
SimPathCall(h, op) ==
  \E u \in Pick(0..(IF Depth(h) < 2 THEN Depth(h) ELSE 2)) : \E glob \in Pick(1..5) : \E es \in Pick(ES) :
  \E v \in Pick(Vals) : \E useq \in Pick(BOOLEAN) : \E own \in Pick(BOOLEAN) :
    LET val == op \in {"get", "set"}
        e == IF val THEN es[1] ELSE 0
        sb == IF val THEN es[2] ELSE 0
        w == IF op = "set" THEN v ELSE ""
        s == Up(f, h, u)
        D == IF f[s].k = "loop" THEN Subtree(f, s) \ {s} ELSE {}
        cand == IF val THEN {n \in D : f[n].k = "seg"} ELSE D
    IN IF f[h].k = "seg" /\ val /\ glob # 1
       THEN Try(Call(h, op, [NoPath EXCEPT !.seg = IF own THEN IdOf(f, h) ELSE None, !.ele = e, !.sub = sb,
                                           !.hasele = e > 0, !.hassub = sb > 0], NoSeg, w, 0))
       ELSE IF glob = 1 \/ cand = {}
       THEN \E p \in Pick(IF val THEN GP ELSE QP) : Try(Call(h, op, p, NoSeg, w, 0))
       ELSE \E n \in Pick(cand) : Try(Call(h, op, DataPath(u, s, n, useq, e, sb), NoSeg, w, 0))
SimCall(h, op) ==
  CASE op \in {"query", "get", "set", "delete_node"} -> SimPathCall(h, op)
    [] op \in {"add_segment", "add_loop", "delete_segment"} ->
         \E sd \in Pick(SegsAdd \cup ChildData(h)) : Try(Call(h, op, NoPath, sd, "", 0))
    [] op = "add_node" -> LET R == Roots(f) \ {1} IN
                          IF R = {} THEN Fallback(h) ELSE \E a \in Pick(R) : Try(Call(h, op, NoPath, NoSeg, "", a))
    [] OTHER -> Try(Call(h, op, NoPath, NoSeg, "", 0))
SimNext == /\ Len(hist) <= MaxHist
           /\ \E h \in Pick(Live(f)) : \E op \in Pick(OpsOf(h)) : SimCall(h, op)
Next == IF Mode = "bfs" THEN BfsNext ELSE SimNext
Spec == Init /\ [][Next]_vars

Emit == (Len(hist) = MaxHist + 1) => PrintT(<<"HIST", ToJson(hist)>>)

(* ------------------------------------------------------------------- laws *)
Last == hist'[Len(hist')]
Stepped == Len(hist') = Len(hist) + 1
TheRet == Last.rets[1]
Succeeded == ~Last.free /\ TheRet.x = ""
RECURSIVE RootOf(_, _)
RootOf(g, n) == IF g[n].par = 0 THEN n ELSE RootOf(g, g[n].par)
IsInsertion(long, short, block) ==
  \E k \in 0..Len(short) : long = SubSeq(short, 1, k) \o block \o SubSeq(short, k + 1, Len(short))
Max(a, b) == IF a > b THEN a ELSE b

(* every reachable forest is well formed and every loop's children follow the map order *)
Shape == WellFormed(f) /\ Sorted(f)

(* law 1: a value written at a path is read back at the same path, and nothing else changes *)
SetGet == [][ (Stepped /\ Last.op = "set" /\ Succeeded) =>
    LET c == last'  e == c.p.ele
        T == {t \in Live(f) : f'[t] # f[t]}
    IN /\ Outs(f', [c EXCEPT !.op = "get"]) = {[ret |-> Ret("", TRUE, 0, 0, <<c.v>>), f |-> f']}
       /\ Len(f') = Len(f) /\ Cardinality(T) <= 1
       /\ \A t \in T :
            LET old == f[t].eles  new == f'[t].eles IN
            /\ [f'[t] EXCEPT !.eles = old] = f[t]
            /\ Len(new) = Max(Len(old), e)
            /\ \A i \in 1..Len(new) : i # e => new[i] = (IF i <= Len(old) THEN old[i] ELSE Blank)
            /\ (c.p.hassub /\ e <= Len(old)) =>
                  \A j \in 1..Len(new[e]) : j # c.p.sub => new[e][j] = (IF j <= Len(old[e]) THEN old[e][j] ELSE "") ]_vars

(* law 2: exists <=> count > 0 <=> first # none <=> select # <<>>, for every loop node a query can start from     *)
(* (a handle only contributes the resolution of "../") and every path of the alphabet                              *)
QP0 == {p \in QP : p.ups = 0}
QueryAgree ==
  (Mode = "bfs" /\ Len(hist) > MaxHist) \/            \* (leaves of the exhaustive exploration: checked on the real trees only)
  \A n \in Live(f) : \A p \in QP0 :
    (f[n].k = "loop" /\ PathValid(f[n].mn, p)) =>
       LET sel == SelFrom(f, n, p.loops, p.seg, p.qual)
       IN /\ ExistsFrom(f, n, p.loops, p.seg, p.qual) <=> (sel # <<>>)
          /\ CountFrom(f, n, p.loops, p.seg, p.qual) = Len(sel)
          /\ AgreeOK(QRet(sel))
          /\ \A i \in 1..Len(sel) : IsLive(f, sel[i]) /\ sel[i] \in Subtree(f, n)

(* law 3: a delete removes exactly that node (with what it contains); later queries do not see it *)
DeleteExact == [][ (Stepped /\ Last.op \in {"delete", "delete_node", "delete_segment"} /\ ~Last.free) =>
    IF Last.op # "delete" /\ ~TheRet.b THEN f' = f
    ELSE \E t \in Live(f) :
           /\ Live(f') = Live(f) \ Subtree(f, t) /\ Len(f') = Len(f)
           /\ \A n \in Live(f') : n # f[t].par => f'[n] = f[n]
           /\ f[t].par # 0 => f'[f[t].par] = [f[f[t].par] EXCEPT !.ch = Remove(@, t)]
           /\ \A n \in Live(f') : \A p \in QP0 :
                f'[n].k = "loop" => t \notin SeqToSet(SelFrom(f', n, p.loops, p.seg, p.qual)) ]_vars

(* law 4: a new child goes after the siblings of the same or an earlier map position and before later ones *)
InsertOrder == [][ (Stepped /\ Last.op \in {"add_segment", "add_loop", "add_node"} /\ ~Last.free) =>
    IF TheRet.x # "" \/ (Last.op # "add_node" /\ TheRet.n = 0) THEN f' = f
    ELSE LET h == Last.h
             n == IF Last.op = "add_node" THEN Last.a ELSE TheRet.n
             ch == f'[h].ch
             k == IndexIn(ch, n)
         IN /\ n \in SeqToSet(ch) /\ Remove(ch, n) = f[h].ch
            /\ \A i \in 1..Len(ch) : (i < k => PosOf(f', ch[i]) <= PosOf(f', n)) /\ (i > k => PosOf(f', ch[i]) > PosOf(f', n))
            /\ f'[n].par = h
            /\ \A m \in Live(f) : (m # h /\ m # n) => f'[m] = f[m] ]_vars

(* law 5: a copy consists of fresh nodes only, looks like its original, and points nowhere outside itself *)
CopyFresh == [][ (Stepped /\ Last.op = "copy") =>
    LET r == TheRet.n
        new == Subtree(f', r)
    IN /\ SubSeq(f', 1, Len(f)) = f
       /\ new = (Len(f) + 1)..Len(f')
       /\ f'[r].par = 0
       /\ \A n \in new : SeqToSet(f'[n].ch) \subseteq new /\ (n # r => f'[n].par \in new)
       /\ Ser(f', r) = Ser(f, Last.h) ]_vars

(* law 6: the serialisation reflects exactly the edit *)
SerReflects == [][ Stepped =>
    LET c == last'  op == Last.op IN
    IF Last.free \/ op \in ReadOnly THEN f' = f
    ELSE IF f' = f THEN TRUE
    ELSE CASE op = "set" ->
              \A r \in Roots(f) : LET a == Ser(f, r)  b == Ser(f', r) IN
                  Len(a) = Len(b) /\ Cardinality({i \in 1..Len(a) : a[i] # b[i]}) <= 1
           [] op \in {"add_segment", "add_loop"} ->
              /\ Roots(f') = Roots(f)
              /\ \A r \in Roots(f) : IF r = RootOf(f, c.h)
                                     THEN \E s \in 1..Len(Ser(f', r)) : IsInsertion(Ser(f', r), Ser(f, r), <<Ser(f', r)[s]>>)
                                     ELSE Ser(f', r) = Ser(f, r)
           [] op = "add_node" ->
              /\ Roots(f') = Roots(f) \ {c.a}
              /\ \A r \in Roots(f') : IF r = RootOf(f, c.h) THEN IsInsertion(Ser(f', r), Ser(f, r), Ser(f, c.a))
                                      ELSE Ser(f', r) = Ser(f, r)
           [] op \in {"delete", "delete_node", "delete_segment"} ->
              \E t \in Live(f) \ Live(f') :
                 /\ Live(f) \ Live(f') = Subtree(f, t)
                 /\ \A r \in Roots(f') : IF r = RootOf(f, t) THEN IsInsertion(Ser(f, r), Ser(f', r), Ser(f, t))
                                         ELSE Ser(f', r) = Ser(f, r)
           [] op = "copy" ->
              /\ Roots(f') = Roots(f) \cup {TheRet.n}
              /\ \A r \in Roots(f) : Ser(f', r) = Ser(f, r)
           [] OTHER -> FALSE ]_vars
=============================================================================
