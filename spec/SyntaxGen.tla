------------------------------ MODULE SyntaxGen ------------------------------
(* C14, generator (spec -> code).  A small state machine first builds a syntax   *)
(* note (type, then 2..MaxPos distinct positions out of 1..MaxEle, in any        *)
(* order), then builds a data segment element by element (present / empty).      *)
(* Every state of phase "seg" is one case: note x segment of length Len(elems).  *)
(* TLC visits all of them; on each it checks the model-level laws below and      *)
(* emits the case with the verdict the DEFINITION expects.  The replayer feeds   *)
(* the note text to the real _split_syntax / segment_if and the segment to the   *)
(* real is_syntax_valid / segment_if.is_valid.                                   *)
EXTENDS SyntaxImpl, Json
CONSTANTS MaxEle, MaxPos, DoEmit
VARIABLES phase, typ, pos, elems
vars == <<phase, typ, pos, elems>>

Present(es) == {i \in DOMAIN es : es[i]}
Values(es) == [i \in DOMAIN es |-> IF es[i] THEN "A" ELSE ""]
Verdict(t, ps, es) == Violated(t, ps, Present(es), Len(es))

Init == phase = "type" /\ typ = "" /\ pos = <<>> /\ elems = <<>>
ChooseType == /\ phase = "type"
              /\ \E t \in Types : typ' = t
              /\ phase' = "pos" /\ UNCHANGED <<pos, elems>>
AddPos == /\ phase = "pos" /\ Len(pos) < MaxPos
          /\ \E p \in (1..MaxEle) \ Range(pos) : pos' = Append(pos, p)
          /\ UNCHANGED <<phase, typ, elems>>
StartSeg == /\ phase = "pos" /\ Len(pos) >= 2
            /\ phase' = "seg" /\ UNCHANGED <<typ, pos, elems>>
AddElem == /\ phase = "seg" /\ Len(elems) < MaxEle
           /\ \E b \in BOOLEAN : elems' = Append(elems, b)
           /\ UNCHANGED <<phase, typ, pos>>
Next == ChooseType \/ AddPos \/ StartSeg \/ AddElem
Spec == Init /\ [][Next]_vars

InSeg == phase = "seg"
(* ---- model-level laws (a failure here is a modelling error, never an alarm about pyx12) ---- *)
ImplEqDef == InSeg => (ImplViolated(typ, pos, Values(elems)) = Verdict(typ, pos, elems))
ImplErrShape == InSeg =>
   LET e == ImplErrors(typ, pos, Values(elems)) IN
   IF Verdict(typ, pos, elems)
   THEN Len(e) = 1 /\ e[1].code = ErrCode(typ) /\ ErrPosOK(pos, e[1].refdes)
   ELSE e = <<>>
SplitJoin == Len(pos) >= 2 =>
   /\ SplitNote(JoinNote(typ, pos)) = [ok |-> TRUE, type |-> typ, pos |-> pos]
   /\ ImplSplit(JoinNote(typ, pos)) = SplitNote(JoinNote(typ, pos))
(* relations between the five conditions that follow from the X12 wording *)
Relations == InSeg =>
   LET V(t) == Verdict(t, pos, elems) IN
   /\ V("L") => V("C")                      \* all others absent  =>  some other absent
   /\ V("R") => ~V("P") /\ ~V("E") /\ ~V("C") /\ ~V("L")
   /\ V("E") => ~V("R") /\ ~V("L")
   /\ (V("C") => V("P"))                    \* first present, another absent: some but not all
   /\ (Len(pos) = 2 => (V("C") = V("L")))
   /\ (Len(pos) = 2 => (V("P") = (~V("R") /\ ~V("E"))))
(* the order of the mentioned positions matters only for "the first" of C and L *)
RECURSIVE Reverse(_)
Reverse(s) == IF s = <<>> THEN <<>> ELSE Append(Reverse(Tail(s)), Head(s))
OrderIrrelevant == InSeg =>
   /\ \A t \in {"P", "R", "E"} : Verdict(t, pos, elems) = Verdict(t, Reverse(pos), elems)
   /\ \A t \in {"C", "L"} : Verdict(t, pos, elems) = Verdict(t, <<Head(pos)>> \o Reverse(Tail(pos)), elems)
(* only the mentioned elements matter *)
OnlyMentioned == InSeg =>
   Verdict(typ, pos, elems) = Verdict(typ, pos, [i \in DOMAIN elems |-> elems[i] /\ i \in Range(pos)])
(* an element beyond the segment's length is absent: appending an empty element changes nothing *)
TrailingEmpty == [][ (InSeg /\ phase' = "seg" /\ elems' = Append(elems, FALSE))
                      => Verdict(typ, pos, elems') = Verdict(typ, pos, elems) ]_vars
(* presence of a further mentioned element can only cure R, C-others..., stated per type *)
MonotoneR == [][ (InSeg /\ phase' = "seg" /\ typ = "R" /\ ~Verdict(typ, pos, elems)) => ~Verdict(typ, pos, elems') ]_vars
MonotoneE == [][ (InSeg /\ phase' = "seg" /\ typ = "E" /\ Verdict(typ, pos, elems)) => Verdict(typ, pos, elems') ]_vars

Bits(es) == [i \in DOMAIN es |-> IF es[i] THEN 1 ELSE 0]
Emit == (DoEmit /\ InSeg) =>
   PrintT(<<"CASE", ToJson([n |-> JoinNote(typ, pos), t |-> typ, p |-> pos, e |-> Bits(elems),
                            v |-> Verdict(typ, pos, elems), c |-> ErrCode(typ)])>>)
=============================================================================
