------------------------------ MODULE DriverGen ------------------------------
(* Every envelope-shaped history within bounds over the real map index, stepped  *)
(* through the dispatch loop (Driver!DStep) and judged by the definition          *)
(* (Driver!WantMaps / WantRaise / WantLx) as hard invariants; with EmitAll every  *)
(* history is printed for replay into x12n_document and X12ContextReader.         *)
EXTENDS Driver
CONSTANTS MaxLen, EmitAll
Versions == {"00401", "00501"}
Tspcs == {"11", "13", "99", ""}
(* group keys: every (GS01, GS08) of the index that belongs to a BHT02-dependent guide, one 837, one 835, one 270, one 5010 guide, and two that are not indexed *)
Keys == {<<"HI", "004010X094A1">>, <<"HI", "004010X094">>, <<"HC", "004010X098A1">>, <<"HP", "004010X091A1">>, <<"HS", "004010X092A1">>,
         <<"HC", "005010X222A1">>, <<"HC", "005010X223A2">>, <<"HP", "005010X221A1">>, <<"HC", "004010X999">>, <<"ZZ", "004010X098A1">>}
VARIABLES hist, lvl, afterST, s
vars == <<hist, lvl, afterST, s>>
Seg(k, a, b) == [k |-> k, a |-> a, b |-> b]
Init == hist = <<>> /\ lvl = 0 /\ afterST = FALSE /\ s = DInit("00401")
Push(seg, l, a) ==
  /\ hist' = Append(hist, seg) /\ lvl' = l /\ afterST' = a
  /\ s' = IF hist = <<>> THEN DStep(DInit(seg.a), seg) ELSE DStep(s, seg)
Next ==
  /\ Len(hist) < MaxLen /\ ~s.raised
  /\ \/ lvl = 0 /\ \E v \in Versions : Push(Seg("ISA", v, ""), 1, FALSE)
     \/ lvl = 1 /\ \/ \E key \in Keys : Push(Seg("GS", key[1], key[2]), 2, FALSE)
                   \/ Push(Seg("IEA", "", ""), 0, FALSE)
     \/ lvl = 2 /\ \/ Push(Seg("ST", "", ""), 3, TRUE)
                   \/ Push(Seg("GE", "", ""), 1, FALSE)
     \/ lvl = 3 /\ \/ afterST /\ \E t \in Tspcs : Push(Seg("BHT", t, ""), 3, FALSE)
                   \/ Push(Seg("B", "", ""), 3, FALSE)
                   \/ Push(Seg("SE", "", ""), 2, FALSE)
Spec == Init /\ [][Next]_vars
N == Len(hist)
InGroup == lvl >= 2 /\ N > 0 /\ hist[N].k # "GE"
FirstWantRaise == LET S == {i \in 1..N : Claimed(hist, i) /\ WantRaise(hist, i)} IN IF S = {} THEN 0 ELSE Min(S)
(* ---- theorems ---- *)
MapAllowed == (N > 0 /\ ~s.raised /\ Claimed(hist, N)) => s.node_map \in WantMaps(hist, N)
RaiseExact == N > 0 => (s.raised <=> FirstWantRaise # 0) /\ (s.raised => FirstWantRaise = N)
LxExact == (N > 0 /\ ~s.raised /\ InGroup) => s.lx = WantLx(hist, N)
RunAgrees == N > 0 => Run(DInit(hist[1].a), hist, 1) = s
Emit == (EmitAll /\ N > 0) => PrintT(<<"HIST", ToJson(hist)>>)
=============================================================================
