------------------------------ MODULE Envelope ------------------------------
(* Implementation-shaped model of pyx12.x12file.X12Base._parse_segment +       *)
(* X12Reader._parse_segment + cleanup()/pop_errors(), one action per segment     *)
(* kind, exactly in the order the code performs its checks and updates.          *)
(* A segment is a record [k, id, cnt, n, p] of strings:                          *)
(*   k   kind: ISA GS ST SE GE IEA HL CLM LX B(ody)                              *)
(*   id  control number (ISA13 / GS06 / ST02 / SE02 / GE02 / IEA02)              *)
(*   cnt declared count (SE01 / GE01 / IEA01)                                    *)
(*   n,p HL01 / HL02, or LX01 in n                                               *)
(* errs is what pop_errors() returns after the segment: a sequence of            *)
(* <<level, code>>.  crashed models an uncaught Python exception.                *)
EXTENDS Naturals, Sequences, FiniteSets, TLC

NaN == 1000000
Digits == {"0","1","2","3","4","5","6","7","8","9"}
DigitVal(c) == CHOOSE d \in 0..9 : ToString(d) = c
RECURSIVE NumVal(_)
NumVal(s) == IF Len(s) = 0 THEN 0 ELSE NumVal(SubSeq(s, 1, Len(s) - 1)) * 10 + DigitVal(SubSeq(s, Len(s), Len(s)))
IntOf(s) == IF Len(s) > 0 /\ \A i \in 1..Len(s) : SubSeq(s, i, i) \in Digits THEN NumVal(s) ELSE NaN

Seg(k, id, cnt, n, p) == [k |-> k, id |-> id, cnt |-> cnt, n |-> n, p |-> p]
E(l, c) == <<l, c>>
Drop(s) == SubSeq(s, 1, Len(s) - 1)
Top(s) == s[Len(s)]
InSeq(x, s) == \E i \in 1..Len(s) : s[i] = x

(* reader state *)
EnvInit == [loops |-> <<>>, gs_count |-> 0, st_count |-> 0, seg_count |-> 0, hl_count |-> 0, hl_stack |-> <<>>,
            lx_count |-> 0, isa_ids |-> {}, gs_ids |-> {}, st_ids |-> {}, crashed |-> FALSE]

(* ---- X12Base._parse_segment: returns [st, errs] ---- *)
PopTo(stack, parent) ==      \* while stack and parent != stack[-1]: del stack[-1]
  LET idx == {i \in 1..Len(stack) : stack[i] = parent} IN
  IF idx = {} THEN <<>> ELSE SubSeq(stack, 1, CHOOSE i \in idx : \A j \in idx : j <= i)

Base(st, s, checkLX) ==
  CASE s.k = "ISA" ->
         [st |-> [st EXCEPT !.loops = Append(@, <<"ISA", s.id>>), !.isa_ids = @ \cup {s.id},
                            !.gs_count = 0, !.gs_ids = {}],
          errs |-> IF s.id \in st.isa_ids THEN <<E("isa", "025")>> ELSE <<>>]
    [] s.k = "GS" ->
         [st |-> [st EXCEPT !.gs_count = @ + 1, !.gs_ids = @ \cup {s.id}, !.loops = Append(@, <<"GS", s.id>>),
                            !.st_count = 0, !.st_ids = {}],
          errs |-> IF s.id \in st.gs_ids THEN <<E("gs", "6")>> ELSE <<>>]
    [] s.k = "ST" ->
         [st |-> [st EXCEPT !.hl_stack = <<>>, !.hl_count = 0, !.st_count = @ + 1, !.st_ids = @ \cup {s.id},
                            !.loops = Append(@, <<"ST", s.id>>), !.seg_count = 1],
          errs |-> IF s.id \in st.st_ids THEN <<E("st", "23")>> ELSE <<>>]
    [] s.k = "HL" ->
         LET hc == st.hl_count + 1
             e1 == IF hc # IntOf(s.n) THEN <<E("seg", "HL1")>> ELSE <<>>
         IN IF s.p # "" THEN
              LET par == IntOf(s.p)
                  bad == ~InSeq(par, st.hl_stack)
              IN [st |-> [st EXCEPT !.hl_count = hc, !.hl_stack = Append(PopTo(@, par), hc), !.seg_count = @ + 1],
                  errs |-> e1 \o (IF bad THEN <<E("seg", "HL2")>> ELSE <<>>)]
            ELSE [st |-> [st EXCEPT !.hl_count = hc, !.hl_stack = Append(@, hc), !.seg_count = @ + 1], errs |-> e1]
    [] s.k = "CLM" /\ checkLX -> [st |-> [st EXCEPT !.lx_count = 0, !.seg_count = @ + 1], errs |-> <<>>]
    [] s.k = "LX" /\ checkLX ->
         [st |-> [st EXCEPT !.lx_count = @ + 1, !.seg_count = @ + 1],
          errs |-> IF s.n # ToString(st.lx_count + 1) THEN <<E("seg", "LX")>> ELSE <<>>]
    [] s.k \in {"SE", "GE", "IEA"} -> [st |-> st, errs |-> <<>>]
    [] OTHER -> [st |-> [st EXCEPT !.seg_count = @ + 1], errs |-> <<>>]

(* ---- X12Reader._parse_segment (trailers) on top of Base ---- *)
Crash(st, errs) == [st |-> [st EXCEPT !.crashed = TRUE], errs |-> errs]
Reader(st0, s, checkLX) ==
  LET b == Base(st0, s, checkLX)  st == b.st IN
  IF st.crashed THEN b
  ELSE IF s.k \in {"ISA", "GS", "ST"} THEN      \* the header was just pushed: check the loop that encloses it
    LET parent == IF Len(st.loops) > 1 THEN st.loops[Len(st.loops) - 1][1] ELSE "none"
        expected == CASE s.k = "ISA" -> "none" [] s.k = "GS" -> "ISA" [] OTHER -> "GS"
    IN [st |-> st, errs |-> b.errs \o (IF parent # expected THEN <<E("isa", "024")>> ELSE <<>>)]
  ELSE IF s.k = "IEA" THEN
    LET e1 == IF st.loops # <<>> /\ Top(st.loops)[1] # "ISA" THEN <<E("isa", "024")>> ELSE <<>>
        l1 == IF st.loops # <<>> /\ Top(st.loops)[1] # "ISA" THEN Drop(st.loops) ELSE st.loops
    IN IF l1 = <<>> THEN [st |-> [st EXCEPT !.loops = <<>>], errs |-> b.errs \o e1 \o <<E("isa", "024")>>] ELSE
       LET e2 == IF Top(l1)[2] # s.id THEN <<E("isa", "001")>> ELSE <<>>
           e3 == IF IntOf(s.cnt) # st.gs_count THEN <<E("isa", "021")>> ELSE <<>>
       IN [st |-> [st EXCEPT !.loops = Drop(l1)], errs |-> b.errs \o e1 \o e2 \o e3]
  ELSE IF s.k = "GE" THEN
    LET e1 == IF st.loops # <<>> /\ Top(st.loops)[1] # "GS" THEN <<E("gs", "3")>> ELSE <<>>
        l1 == IF st.loops # <<>> /\ Top(st.loops)[1] # "GS" THEN Drop(st.loops) ELSE st.loops
    IN IF l1 = <<>> THEN [st |-> [st EXCEPT !.loops = <<>>], errs |-> b.errs \o e1 \o <<E("gs", "3")>>] ELSE
       LET e2 == IF Top(l1)[2] # s.id THEN <<E("gs", "4")>> ELSE <<>>
           e3 == IF IntOf(s.cnt) # st.st_count THEN <<E("gs", "5")>> ELSE <<>>
       IN [st |-> [st EXCEPT !.loops = Drop(l1)], errs |-> b.errs \o e1 \o e2 \o e3]
  ELSE IF s.k = "SE" THEN
    IF st.loops = <<>> THEN [st |-> st, errs |-> b.errs \o <<E("st", "3")>>] ELSE
    LET e1 == IF Top(st.loops)[1] # "ST" \/ Top(st.loops)[2] # s.id THEN <<E("st", "3")>> ELSE <<>>
        e2 == IF IntOf(s.cnt) # st.seg_count + 1 THEN <<E("st", "4")>> ELSE <<>>
    IN [st |-> [st EXCEPT !.loops = Drop(st.loops)], errs |-> b.errs \o e1 \o e2]
  ELSE b

(* cleanup(): one "trailer missing" error per loop still open, outermost first *)
Cleanup(st) == [i \in 1..Len(st.loops) |->
                  CASE st.loops[i][1] = "ST" -> E("st", "2")
                    [] st.loops[i][1] = "GS" -> E("gs", "3")
                    [] OTHER -> E("isa", "023")]
=============================================================================
