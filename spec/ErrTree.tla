------------------------------ MODULE ErrTree ------------------------------
(* Implementation-shaped model of pyx12.error_handler.err_handler: the error     *)
(* tree exactly as the code builds it.                                           *)
(*                                                                               *)
(* The tree is a sequence of typed nodes (isa / gs / st / seg / ele) with parent  *)
(* links; `slot` says in which list of the parent the node hangs (children or     *)
(* elements).  The handler keeps cursors: cur_isa_node, cur_gs_node, cur_st_node  *)
(* (isa, gs, st: node index, 0 = None), cur_seg_node (segk/segi, or the pending   *)
(* segment node pseg that is not yet in the tree: seg_node_added = FALSE) and     *)
(* cur_ele_node (pele / elei / ele_added).  One operator per mutator; Do(t, c)    *)
(* dispatches a logged call record c (see lib/ackcommon.py: call()).              *)
(*                                                                               *)
(* Facts of the code preserved here:                                             *)
(*  - a segment node joins the tree only at its first error, under the set opened  *)
(*    last (also when that set is already closed, or belongs to an earlier group);  *)
(*  - a segment-level error that cannot be held by a segment node (cursor on an     *)
(*    ISA/GS/ST node, no set yet), or whose set is already closed, is (also) kept    *)
(*    on the innermost loop still open with the generic code 5 (set) / 1 (group) /   *)
(*    024 (interchange);                                                            *)
(*  - gs_error without a group goes to the interchange (024), st_error without a   *)
(*    set to the group (1);                                                        *)
(*  - element errors raised while the cursor is an ISA/GS/ST node are stored in    *)
(*    that node's `elements`; they count for the set / group, and one arriving      *)
(*    after close_st / close_gs turns the frozen acknowledgement code to R;         *)
(*  - ele_error attaches the *last add_ele'd* element node unless the caller     *)
(*    names another position by reference designator (then a node without a       *)
(*    data element number is made for that position);                             *)
(*  - ack codes and group totals are frozen by close_*; a GE01 that is no number    *)
(*    counts as 0.                                                                 *)
EXTENDS Naturals, Sequences, FiniteSets, TLC
LOCAL Env == INSTANCE Envelope

Node(t, par, slot) == [t |-> t, par |-> par, slot |-> slot, errs |-> <<>>, marks |-> <<>>, closed |-> FALSE, ack |-> "",
                       orig |-> 0, recv |-> 0, id |-> "", kind |-> "", x |-> "", pos |-> 0, sub |-> 0, info |-> <<>>]

TInit == [nodes |-> <<>>, isa |-> 0, gs |-> 0, st |-> 0,
          segk |-> "none", segi |-> 0, seg_added |-> FALSE, pseg |-> Node("seg", 0, "children"),
          ele_set |-> FALSE, elei |-> 0, ele_added |-> FALSE, pele |-> Node("ele", 0, "elements"),
          segseq |-> 0, epar |-> <<"none", 0>>,      \* identity of the current segment object / of the parent the element cursor was made for
          crashed |-> FALSE, dropped |-> 0]

Crash(t) == [t EXCEPT !.crashed = TRUE]
Idx(t, P(_)) == SelectSeq([i \in 1..Len(t.nodes) |-> i], P)
Kids(t, i, kind) == Idx(t, LAMBDA j : t.nodes[j].par = i /\ t.nodes[j].t = kind /\ t.nodes[j].slot = "children")
Eles(t, i) == Idx(t, LAMBDA j : t.nodes[j].par = i /\ t.nodes[j].t = "ele" /\ t.nodes[j].slot = "elements")
RECURSIVE SumSeq(_)
SumSeq(q) == IF q = <<>> THEN 0 ELSE Head(q) + SumSeq(Tail(q))

(* ---- counting, as coded ---- *)
EleCount(t, i) == Len(t.nodes[i].errs)
SegChildErr(t, i) == \E j \in 1..Len(t.nodes) : t.nodes[j].par = i /\ t.nodes[j].t = "ele" /\ t.nodes[j].errs # <<>>
SegErrCount(t, i) == Len(t.nodes[i].errs) + (IF SegChildErr(t, i) THEN 1 ELSE 0)
StChildErr(t, i) == \E j \in 1..Len(t.nodes) : t.nodes[j].par = i /\ t.nodes[j].t = "seg" /\ SegErrCount(t, j) > 0
StEleErrs(t, i) == LET es == Eles(t, i) IN SumSeq([k \in 1..Len(es) |-> EleCount(t, es[k])])
StErrCount(t, i) == Len(t.nodes[i].errs) + (IF StChildErr(t, i) THEN 1 ELSE 0) + StEleErrs(t, i)
GsErrCount(t, i) == LET es == Eles(t, i)  ss == Kids(t, i, "st") IN
                    SumSeq([k \in 1..Len(es) |-> EleCount(t, es[k])]) + SumSeq([k \in 1..Len(ss) |-> StErrCount(t, ss[k])]) + Len(t.nodes[i].errs)
IsaErrCount(t, i) == LET es == Eles(t, i)  gg == Kids(t, i, "gs") IN
                     SumSeq([k \in 1..Len(es) |-> EleCount(t, es[k])]) + SumSeq([k \in 1..Len(gg) |-> GsErrCount(t, gg[k])]) + Len(t.nodes[i].errs)
ErrCount(t) == LET ii == Kids(t, 0, "isa") IN SumSeq([k \in 1..Len(ii) |-> IsaErrCount(t, ii[k])])

(* ---- mutators ---- *)
SetCursor(t, k, i) == [t EXCEPT !.segk = k, !.segi = i, !.seg_added = TRUE]
AddIsaLoop(t, c) == LET n == [Node("isa", 0, "children") EXCEPT !.id = c.id, !.x = c.x, !.info = c.info]
                        t1 == [t EXCEPT !.nodes = Append(@, n), !.isa = Len(t.nodes) + 1, !.st = 0] IN SetCursor(t1, "isa", t1.isa)   \* a new interchange has no current set (the group seen last is kept for the visitors)
AddGsLoop(t, c) == IF t.isa = 0 THEN Crash(t) ELSE
                   LET n == [Node("gs", t.isa, "children") EXCEPT !.id = c.id, !.kind = c.kind, !.x = c.x, !.info = c.info]
                       t1 == [t EXCEPT !.nodes = Append(@, n), !.gs = Len(t.nodes) + 1, !.st = 0] IN SetCursor(t1, "gs", t1.gs)            \* a new group has no current set
AddStLoop(t, c) == IF t.gs = 0 THEN Crash(t) ELSE
                   LET n == [Node("st", t.gs, "children") EXCEPT !.id = c.id, !.kind = c.kind, !.x = c.x, !.ack = "R"]
                       t1 == [t EXCEPT !.nodes = Append(@, n), !.st = Len(t.nodes) + 1] IN SetCursor(t1, "st", t1.st)
AddSeg(t, c) == [t EXCEPT !.pseg = [Node("seg", t.st, "children") EXCEPT !.id = c.id, !.pos = c.pos, !.x = c.x],
                          !.segk = "seg", !.segi = 0, !.seg_added = FALSE, !.segseq = @ + 1]
(* the node an element error node is created for: the ISA/GS/ST node the cursor stands on, else the current segment object *)
EleParent(t) == CASE t.segk = "isa" -> <<"isa", t.isa>> [] t.segk = "gs" -> <<"gs", t.gs>> [] t.segk = "st" -> <<"st", t.st>> [] OTHER -> <<"seg", t.segseq>>
AddEle(t, c) == IF t.segk = "none" THEN Crash(t) ELSE
                [t EXCEPT !.pele = [Node("ele", 0, "elements") EXCEPT !.pos = c.pos, !.sub = c.sub, !.id = c.ref],
                          !.ele_set = TRUE, !.ele_added = FALSE, !.elei = 0, !.epar = EleParent(t)]
(* _add_cur_seg: nothing happens when there is no current set to hold the segment node *)
CanAddCurSeg(t) == TRUE
AddCurSeg(t) == IF t.seg_added \/ t.st = 0 THEN t
                ELSE [t EXCEPT !.nodes = Append(@, [t.pseg EXCEPT !.par = t.st]), !.segi = Len(t.nodes) + 1, !.seg_added = TRUE]
AddErr(t, i, code, val, mark) == [t EXCEPT !.nodes[i].errs = Append(@, <<code, val>>), !.nodes[i].marks = Append(@, mark)]
IsaError(t, c) == IF t.isa = 0 THEN Crash(t) ELSE [t EXCEPT !.nodes[t.isa].errs = Append(@, <<c.code, "">>)]
GsError(t, c) == IF t.gs = 0 THEN IsaError(t, [c EXCEPT !.code = "024"])                 \* no group yet: reported at the interchange
                 ELSE [t EXCEPT !.nodes[t.gs].errs = Append(@, <<c.code, "">>)]
StError(t, c) == IF t.st = 0 THEN GsError(t, [c EXCEPT !.code = "1"])                    \* no set yet: reported at the group
                 ELSE [t EXCEPT !.nodes[t.st].errs = Append(@, <<c.code, "">>)]
(* seg_error: kept with its segment under the set opened last whenever there is one (held); when it is not held, or that set is already
   closed, the innermost loop still open carries the level's generic code as well (so such an error can be in the tree twice) *)
Held(t) == t.segk = "seg" /\ (t.seg_added \/ t.st # 0)
OpenLoop(t) == IF t.st # 0 /\ ~t.nodes[t.st].closed THEN t.st
               ELSE IF t.gs # 0 /\ ~t.nodes[t.gs].closed THEN t.gs
               ELSE t.isa                                                                \* 0: nothing to attach to (only logged)
LoopCode(kind) == CASE kind = "st" -> "5" [] kind = "gs" -> "1" [] OTHER -> "024"
SegError(t, c) ==
  LET held == Held(t)
      t1 == IF held THEN LET u == AddCurSeg(t) IN [u EXCEPT !.nodes[u.segi].errs = Append(@, <<c.code, c.val>>)] ELSE t
      also == ~held \/ (t1.st # 0 /\ t1.nodes[t1.st].closed)
      i == OpenLoop(t1)
  IN IF ~also THEN t1
     ELSE IF i = 0 THEN (IF held THEN t1 ELSE [t1 EXCEPT !.dropped = @ + 1])
     ELSE [t1 EXCEPT !.nodes[i].errs = Append(@, <<LoopCode(t1.nodes[i].t), "">>)]
(* an error located by its reference designator (c.rpos > 0) gets a node of its own when the element cursor stands elsewhere *)
Relocate(t, c) ==
  IF c.rpos > 0 /\ t.segk # "none" /\ (~t.ele_set \/ t.epar # EleParent(t) \/ <<t.pele.pos, t.pele.sub>> # <<c.rpos, c.rsub>>)
  THEN [t EXCEPT !.pele = [Node("ele", 0, "elements") EXCEPT !.pos = c.rpos, !.sub = c.rsub], !.ele_set = TRUE, !.ele_added = FALSE, !.elei = 0,
                 !.epar = EleParent(t)]
  ELSE t
EleError(t0, c) ==
  LET t == Relocate(t0, c) IN
  IF ~CanAddCurSeg(t) \/ ~t.ele_set \/ t.segk = "none" THEN Crash(t)          \* not inside a try
  ELSE LET t1 == AddCurSeg(t)
           t2 == IF t1.ele_added THEN t1
                 ELSE [t1 EXCEPT !.nodes = Append(@, [t1.pele EXCEPT !.par = t1.segi]), !.elei = Len(t1.nodes) + 1, !.ele_added = TRUE]
           t3 == AddErr(t2, t2.elei, c.code, c.val, c.y)
       IN IF t3.segk \in {"st", "gs"} /\ t3.nodes[t3.segi].closed THEN [t3 EXCEPT !.nodes[t3.segi].ack = "R"] ELSE t3     \* SE / GE element error after close
GsAckCode(t, i) == IF \/ \E j \in 1..Len(t.nodes) : t.nodes[j].par = i /\ t.nodes[j].t = "st" /\ StErrCount(t, j) > 0
                      \/ t.nodes[i].errs # <<>>
                      \/ \E j \in 1..Len(t.nodes) : t.nodes[j].par = i /\ t.nodes[j].t = "ele" /\ t.nodes[j].errs # <<>>
                   THEN "R" ELSE "A"
CloseIsaLoop(t, c) == IF t.isa = 0 THEN Crash(t) ELSE SetCursor([t EXCEPT !.nodes[t.isa].closed = TRUE], "isa", t.isa)
Declared(cnt) == IF Env!IntOf(cnt) = Env!NaN THEN 0 ELSE Env!IntOf(cnt)                  \* int(GE01), 0 when it is no number
CloseGsLoop(t, c) == IF t.gs = 0 THEN Crash(t) ELSE
                     SetCursor([t EXCEPT !.nodes[t.gs].closed = TRUE, !.nodes[t.gs].ack = GsAckCode(t, t.gs),
                                         !.nodes[t.gs].orig = Declared(c.cnt), !.nodes[t.gs].recv = c.recv], "gs", t.gs)
CloseStLoop(t, c) == IF t.st = 0 THEN Crash(t) ELSE
                     SetCursor([t EXCEPT !.nodes[t.st].closed = TRUE, !.nodes[t.st].ack = IF StErrCount(t, t.st) > 0 THEN "R" ELSE "A"], "st", t.st)

Do(t, c) ==
  IF t.crashed THEN t ELSE
  CASE c.op = "add_isa" -> AddIsaLoop(t, c)
    [] c.op = "add_gs" -> AddGsLoop(t, c)
    [] c.op = "add_st" -> AddStLoop(t, c)
    [] c.op = "add_seg" -> AddSeg(t, c)
    [] c.op = "add_ele" -> AddEle(t, c)
    [] c.op = "isa_error" -> IsaError(t, c)
    [] c.op = "gs_error" -> GsError(t, c)
    [] c.op = "st_error" -> StError(t, c)
    [] c.op = "seg_error" -> SegError(t, c)
    [] c.op = "ele_error" -> EleError(t, c)
    [] c.op = "close_isa" -> CloseIsaLoop(t, c)
    [] c.op = "close_gs" -> CloseGsLoop(t, c)
    [] c.op = "close_st" -> CloseStLoop(t, c)
    [] OTHER -> t
RECURSIVE Replay(_, _, _)
Replay(t, calls, i) == IF i > Len(calls) THEN t ELSE Replay(Do(t, calls[i]), calls, i + 1)

(* ---- nested projection (the shape lib/ackcommon.py: project_tree() produces from the real objects) ---- *)
PEle(t, i) == [pos |-> t.nodes[i].pos, sub |-> t.nodes[i].sub, ref |-> t.nodes[i].id, errs |-> t.nodes[i].errs, marks |-> t.nodes[i].marks]
PEles(t, i) == LET es == Eles(t, i) IN [k \in 1..Len(es) |-> PEle(t, es[k])]
PSeg(t, i) == [id |-> t.nodes[i].id, pos |-> t.nodes[i].pos, ls |-> t.nodes[i].x, errs |-> t.nodes[i].errs, eles |-> PEles(t, i)]
PSt(t, i) == LET ss == Kids(t, i, "seg") IN
             [tsid |-> t.nodes[i].kind, id |-> t.nodes[i].id, vriic |-> t.nodes[i].x, ack |-> t.nodes[i].ack, closed |-> t.nodes[i].closed,
              errs |-> t.nodes[i].errs, eles |-> PEles(t, i), segs |-> [k \in 1..Len(ss) |-> PSeg(t, ss[k])]]
PGs(t, i) == LET ss == Kids(t, i, "st") IN
             [fic |-> t.nodes[i].kind, id |-> t.nodes[i].id, vriic |-> t.nodes[i].x, ack |-> t.nodes[i].ack, orig |-> t.nodes[i].orig,
              recv |-> t.nodes[i].recv, closed |-> t.nodes[i].closed, errs |-> t.nodes[i].errs, eles |-> PEles(t, i),
              sets |-> [k \in 1..Len(ss) |-> PSt(t, ss[k])]]
PIsa(t, i) == LET gg == Kids(t, i, "gs") IN
              [id |-> t.nodes[i].id, ta1 |-> t.nodes[i].x, closed |-> t.nodes[i].closed, errs |-> t.nodes[i].errs, eles |-> PEles(t, i),
               groups |-> [k \in 1..Len(gg) |-> PGs(t, gg[k])]]
Nested(t) == LET ii == Kids(t, 0, "isa") IN [k \in 1..Len(ii) |-> PIsa(t, ii[k])]
=============================================================================
