----------------------------- MODULE T_Envelope ------------------------------
(* Trace validation for C04: executions of the real pyx12.x12file.X12Reader.    *)
(* File: [lx (BOOLEAN per trace is in the trace), traces]; a trace is            *)
(*   [id, lx, events, cleanup], an event [seg, errs, st, exc]:                   *)
(*   seg  the segment as the real reader parsed it: kind and, as the text of the *)
(*        document, control number / declared count / HL01,HL02 / LX01,          *)
(*   errs <<level, code>> pairs popped with pop_errors() after the segment,      *)
(*   st   the reader's counters and loop stack after the segment,                *)
(*   exc  "" or the name of the exception that escaped iteration.                *)
(* Two layers are evaluated on every event:                                      *)
(*   definition (Recount)  -> a mismatch is a VIOLATION of the property          *)
(*   implementation-shaped (Envelope!Reader) -> a mismatch is specification drift *)
EXTENDS Naturals, Sequences, FiniteSets, TLC, Json, IOUtils, Envelope
R == INSTANCE Recount
VARIABLES ti, k, st, h, seen, rej, drift
vars == <<ti, k, st, h, seen, rej, drift>>
Traces == JsonDeserialize(IOEnv.TRACE_FILE)

EnvClasses == {<<"isa","025">>, <<"isa","001">>, <<"isa","021">>, <<"isa","023">>, <<"isa","024">>,
               <<"gs","6">>, <<"gs","4">>, <<"gs","5">>, <<"gs","3">>,
               <<"st","23">>, <<"st","3">>, <<"st","4">>, <<"st","2">>,
               <<"seg","HL1">>, <<"seg","HL2">>, <<"seg","LX">>}
EnvSet(q) == {q[i] : i \in 1..Len(q)} \cap EnvClasses
StOf(r) == [loops |-> r.loops, gs_count |-> r.gs_count, st_count |-> r.st_count, seg_count |-> r.seg_count,
            hl_count |-> r.hl_count, hl_stack |-> r.hl_stack, lx_count |-> r.lx_count]
Proj(s) == [loops |-> s.loops, gs_count |-> s.gs_count, st_count |-> s.st_count, seg_count |-> s.seg_count,
            hl_count |-> s.hl_count, hl_stack |-> s.hl_stack, lx_count |-> s.lx_count]
(* resynchronise the model state with the logged one (id sets are rebuilt from the history) *)
Resync(s, r, hh) == [s EXCEPT !.loops = r.loops, !.gs_count = r.gs_count, !.st_count = r.st_count, !.seg_count = r.seg_count,
                              !.hl_count = r.hl_count, !.hl_stack = r.hl_stack, !.lx_count = r.lx_count]

DefClause(tr, ev, hh) ==
  IF ev.exc # "" THEN "crash"
  ELSE IF R!ProperlyNested(hh) /\ (EnvSet(ev.errs) \ R!NoClaim(hh)) # (R!Discrepancies(hh, tr.lx) \ R!NoClaim(hh)) THEN "exact"
  ELSE ""
EndClause(tr, hh, sn) ==
  IF R!ProperlyNested(hh) THEN (IF EnvSet(tr.cleanup) # R!MissingAtEnd(hh) THEN "missing_at_end" ELSE "")
  ELSE IF sn \cup EnvSet(tr.cleanup) = {} THEN "silent_unnested" ELSE ""

Init == ti = 1 /\ k = 1 /\ st = EnvInit /\ h = <<>> /\ seen = {} /\ rej = {} /\ drift = {}
NextTrace == ti' = ti + 1 /\ k' = 1 /\ st' = EnvInit /\ h' = <<>> /\ seen' = {}
Step ==
  /\ ti <= Len(Traces)
  /\ LET tr == Traces[ti] IN
     IF k > Len(tr.events) THEN
        LET c == EndClause(tr, h, seen) IN
        /\ rej' = IF c = "" THEN rej ELSE rej \cup {<<tr.id, k, c, R!NestFault(h)>>}
        /\ NextTrace /\ UNCHANGED drift
     ELSE
        LET ev == tr.events[k]
            hh == Append(h, ev.seg)
            c == DefClause(tr, ev, hh)
            m == Reader(st, ev.seg, tr.lx)
            same == IF ev.exc # "" THEN m.st.crashed
                    ELSE ~m.st.crashed /\ Proj(m.st) = StOf(ev.st) /\ m.errs = ev.errs
            what == IF ev.exc # "" THEN "model_no_crash" ELSE IF m.st.crashed THEN "model_crash"
                    ELSE IF Proj(m.st) # StOf(ev.st) THEN "state" ELSE "errs"
        IN /\ drift' = IF same \/ Cardinality(drift) >= 20 THEN drift ELSE drift \cup {<<tr.id, k, what>>}
           /\ IF c # "" THEN /\ rej' = rej \cup {<<tr.id, k, c, R!NestFault(hh)>>}
                             /\ NextTrace                       \* give up on this trace, continue with the next
              ELSE /\ rej' = rej /\ ti' = ti /\ k' = k + 1 /\ h' = hh
                   /\ seen' = seen \cup EnvSet(ev.errs)
                   /\ st' = IF ev.exc # "" THEN m.st ELSE Resync(m.st, ev.st, hh)
Spec == Init /\ [][Step]_vars
Report == (ti > Len(Traces)) => PrintT(<<"REJECTS", ToJson([rej |-> rej, drift |-> drift])>>)
=============================================================================
