------------------------------ MODULE T_Syntax ------------------------------
(* Trace validation for C14 (code -> spec).  The trace file holds               *)
(*   segs : one record per segment node of a shipped map that carries syntax    *)
(*          notes:  [map, path, idx, n (element count of the node), mode,       *)
(*                   notes : <<[text, stype, spos]>>, cases : <<case>>]         *)
(*          text = the note as written in the map XML; stype/spos = what the     *)
(*          real segment_if._split_syntax made of it while the map was loaded.   *)
(*   case : [len (number of elements of the data segment), pr (positions that    *)
(*           carry a non-empty value), fill,                                     *)
(*           syn : <<"ok"|"viol"|"exc">>  is_syntax_valid per note,              *)
(*           and when mode = "full" and chk (the node can validate the segment   *)
(*           at all, i.e. the call with the notes switched off did not raise):   *)
(*           valid : "true"|"false"|"exc"  result of segment_if.is_valid,        *)
(*           base  : BOOLEAN  result of the same call with the notes switched    *)
(*                   off (what the other validations alone say),                 *)
(*           errs  : <<[c, p]>> element errors that the notes added (code,       *)
(*                   position) ]                                                 *)
(* One TLC state per segment record; every case of the record is judged against  *)
(* the definition (Syntax.tla).  Verdicts are total: a mismatch is collected     *)
(* with its failing clause (at most 5 examples per clause and note type) and     *)
(* validation goes on; the report is printed once at the end.                    *)
EXTENDS Syntax, Json, IOUtils
VARIABLES i, rej, nrej, ncase, nnote

T == JsonDeserialize(IOEnv.TRACE_FILE)
Segs == T.segs
vars == <<i, rej, nrej, ncase, nnote>>

Defs(r) == Concrete([j \in 1..Len(r.notes) |-> SplitNote(r.notes[j].text)])
MinOf(S) == CHOOSE x \in S : \A y \in S : x <= y
CountSeq(s, P(_)) == Cardinality({x \in DOMAIN s : P(s[x])})

(* the note text as parsed by the code against the definition of the text form *)
SplitRej(r, D) ==
  {<<0, j, "split", D[j].type>> : j \in {x \in 1..Len(r.notes) :
        D[x].ok /\ (D[x].type # r.notes[x].stype \/ D[x].pos # r.notes[x].spos)}}

(* is_syntax_valid per note *)
SynRej(r, D, k) ==
  LET c == r.cases[k] IN
  {<<k, j, cl, D[j].type>> : <<j, cl>> \in
     {<<j, cl>> \in (1..Len(r.notes)) \X {"exception", "missed", "false_alarm"} :
        /\ D[j].ok
        /\ LET v == Violated(D[j].type, D[j].pos, Range(c.pr), c.len) IN
           \/ cl = "exception" /\ c.syn[j] = "exc"
           \/ cl = "missed" /\ v /\ c.syn[j] = "ok"
           \/ cl = "false_alarm" /\ ~v /\ c.syn[j] = "viol"}}

(* the element errors and the verdict of segment_if.is_valid *)
ValidClause(r, D, c) ==
  LET N    == Len(r.notes)
      viol == {j \in 1..N : Violated(D[j].type, D[j].pos, Range(c.pr), c.len)}
      errs == c.errs
      HasCode(code) == CountSeq(errs, LAMBDA e : e.c = code)
      Matches(e, j) == e.c = ErrCode(D[j].type) /\ ErrPosOK(D[j].pos, e.p)
  IN IF c.valid = "exc" THEN "valid_exception"
     ELSE IF Len(errs) < Cardinality(viol) THEN "missing_error"
     ELSE IF Len(errs) > Cardinality(viol) THEN "spurious_error"
     ELSE IF \E code \in {"2", "10"} : HasCode(code) # Cardinality({j \in viol : ErrCode(D[j].type) = code})
          THEN "err_code"
     ELSE IF \/ \E x \in DOMAIN errs : ~\E j \in viol : Matches(errs[x], j)
             \/ \E j \in viol : ~\E x \in DOMAIN errs : Matches(errs[x], j)
          THEN "err_pos"
     ELSE IF viol # {} /\ c.valid = "true" THEN "valid_flag"
     ELSE IF viol = {} /\ c.valid # (IF c.base THEN "true" ELSE "false") THEN "valid_flag_satisfied"
     ELSE ""
ValidRej(r, D, k) ==
  LET c == r.cases[k] IN
  IF r.mode # "full" \/ ~c.chk \/ ~(\A j \in 1..Len(r.notes) : D[j].ok) THEN {}
  ELSE LET cl == ValidClause(r, D, c)
           viol == {j \in 1..Len(r.notes) : Violated(D[j].type, D[j].pos, Range(c.pr), c.len)}
           j == IF viol = {} THEN 1 ELSE MinOf(viol)
       IN IF cl = "" THEN {} ELSE {<<k, j, cl, D[j].type>>}

RecRej(r) ==
  LET D == Defs(r) IN
  SplitRej(r, D) \cup UNION {SynRej(r, D, k) \cup ValidRej(r, D, k) : k \in 1..Len(r.cases)}

(* keep at most 5 examples per (clause, type): one per record and class *)
Class(e) == <<e[4], e[5]>>
PickOf(S, cl) == CHOOSE e \in S : /\ Class(e) = cl
                                  /\ \A f \in S : Class(f) = cl =>
                                        (f[2] > e[2] \/ (f[2] = e[2] /\ f[3] >= e[3]))
Keep(old, new) ==
  old \cup {PickOf(new, cl) : cl \in {c \in {Class(e) : e \in new} :
                                         Cardinality({e \in old : Class(e) = c}) < 5}}

Init == i = 1 /\ rej = {} /\ nrej = 0 /\ ncase = 0 /\ nnote = 0
Step == /\ i <= Len(Segs)
        /\ LET r == Segs[i]
               new == {<<i, e[1], e[2], e[3], e[4]>> : e \in RecRej(r)}
           IN /\ rej' = Keep(rej, new)
              /\ nrej' = nrej + Cardinality(new)
              /\ ncase' = ncase + Len(r.cases)
              /\ nnote' = nnote + Len(r.cases) * Cardinality({j \in 1..Len(r.notes) : SplitNote(r.notes[j].text).ok})
        /\ i' = i + 1
Done == i > Len(Segs)
Next == Step
Spec == Init /\ [][Next]_vars
Report == Done => PrintT(<<"REJECTS", ToJson([n |-> nrej, cases |-> ncase, judged |-> nnote, rej |-> rej])>>)
=============================================================================
