------------------------------ MODULE T_Syntax ------------------------------
(* Trace validation for C14 (code -> spec).  The trace file holds               *)
(*   segs : one record per segment node of a shipped map for which the map XML  *)
(*          writes syntax notes or whose loaded node enforces any:              *)
(*            [mode, xnotes : <<text>>, enf : <<[stype, spos]>>, cols : <<Nat>>,*)
(*             cases : <<case>>]                                                *)
(*          xnotes = the notes as WRITTEN in the map XML (read from the file     *)
(*          independently of pyx12's loader, surrounding white space removed):   *)
(*          these are the notes the segment is judged by.                        *)
(*          enf = what the loaded segment node really enforces (node.syntax as   *)
(*          built by the real loader / segment_if._split_syntax).                *)
(*          cols = the entries of enf whose is_syntax_valid verdict is logged    *)
(*          in the cases (all of them in mode "full").                           *)
(*   case : [len (number of elements of the data segment), pr (positions that    *)
(*           carry a non-empty value), fill,                                     *)
(*           syn : <<"ok"|"viol"|"exc">>  is_syntax_valid per entry of cols,     *)
(*           and when mode = "full" and chk (the node can validate the segment   *)
(*           at all, i.e. the call with the notes switched off did not raise):   *)
(*           valid : "true"|"false"|"exc"  result of segment_if.is_valid,        *)
(*           base  : BOOLEAN  result of the same call with the notes switched    *)
(*                   off (what the other validations alone say),                 *)
(*           errs  : <<[c, p]>> element errors that the notes added (code,       *)
(*                   position) ]                                                 *)
(* One TLC state per segment record.  Per record: every well-formed note of the  *)
(* XML must be enforced by the loaded node with the type and positions the       *)
(* definition reads from its text (else "note_not_loaded"), and the node must    *)
(* enforce nothing else (else "split"); every case of the record is judged       *)
(* against the definition (Syntax.tla) applied to the notes of the XML.          *)
(* Verdicts are total: a mismatch is collected with its failing clause (at most  *)
(* 5 examples per clause and note type) and validation goes on; the report is    *)
(* printed once at the end.  In a reject <<i, k, j, clause, type>> j is the      *)
(* index of the XML note, or Len(xnotes) + index into enf for clause "split".    *)
EXTENDS Syntax, Json, IOUtils
VARIABLES i, rej, nrej, ncase, nnote

T == JsonDeserialize(IOEnv.TRACE_FILE)
Segs == T.segs
vars == <<i, rej, nrej, ncase, nnote>>

Defs(r) == Concrete([j \in 1..Len(r.xnotes) |-> SplitNote(r.xnotes[j])])
MinOf(S) == CHOOSE x \in S : \A y \in S : x <= y
CountSeq(s, P(_)) == Cardinality({x \in DOMAIN s : P(s[x])})

(* the XML notes (by definition of the text form) an enforced entry stands for *)
Same(d, e) == d.ok /\ d.type = e.stype /\ d.pos = e.spos
NotesOf(D, e) == {j \in 1..Len(D) : Same(D[j], e)}
EnfOf(r, d) == {y \in 1..Len(r.enf) : Same(d, r.enf[y])}

(* every well-formed note written in the XML is enforced by the loaded node (as often as it is written) *)
LoadRej(r, D) ==
  {<<0, j, "note_not_loaded", D[j].type>> : j \in {x \in 1..Len(D) :
        D[x].ok /\ Cardinality(EnfOf(r, D[x])) < Cardinality({z \in 1..Len(D) : D[z] = D[x]})}}
(* the loaded node enforces nothing but the notes of the XML, split as the definition of the text form says *)
SplitRej(r, D) ==
  {<<0, Len(D) + y, "split", r.enf[y].stype>> : y \in {x \in 1..Len(r.enf) :
        Cardinality(NotesOf(D, r.enf[x])) < Cardinality({z \in 1..Len(r.enf) : r.enf[z] = r.enf[x]})}}

(* is_syntax_valid per logged enforced entry, judged as the XML note it stands for *)
SynRej(r, D, k) ==
  LET c == r.cases[k] IN
  {<<k, MinOf(NotesOf(D, r.enf[r.cols[e[1]]])), e[2], r.enf[r.cols[e[1]]].stype>> : e \in
     {<<x, cl>> \in (1..Len(r.cols)) \X {"exception", "missed", "false_alarm"} :
        /\ NotesOf(D, r.enf[r.cols[x]]) # {}
        /\ LET d == D[MinOf(NotesOf(D, r.enf[r.cols[x]]))]
               v == Violated(d.type, d.pos, Range(c.pr), c.len) IN
           \/ cl = "exception" /\ c.syn[x] = "exc"
           \/ cl = "missed" /\ v /\ c.syn[x] = "ok"
           \/ cl = "false_alarm" /\ ~v /\ c.syn[x] = "viol"}}

(* the element errors and the verdict of segment_if.is_valid *)
ValidClause(r, D, c) ==
  LET N    == Len(D)
      viol == {j \in 1..N : Violated(D[j].type, D[j].pos, Range(c.pr), c.len)}
      errs == c.errs
      HasCode(code) == CountSeq(errs, LAMBDA e : e.c = code)
      Matches(e, j) == e.c = ErrCode(D[j].type) /\ ErrPosOK(D[j].pos, e.p)
  IN IF c.valid = "exc" THEN "valid_exception"
     ELSE IF Len(errs) < Cardinality(viol) THEN "missing_error"
     ELSE IF Len(errs) > Cardinality(viol) THEN "spurious_error"
     ELSE IF \E code \in {"2", "10"} : HasCode(code) # Cardinality({j \in viol : ErrCode(D[j].type) = code})
          THEN "err_code"
     ELSE IF \/ \E x \in DOMAIN errs : ~\E j \in viol : Matches(errs[x], j)
             \/ \E j \in viol : ~\E x \in DOMAIN errs : Matches(errs[x], j)
          THEN "err_pos"
     ELSE IF viol # {} /\ c.valid = "true" THEN "valid_flag"
     ELSE IF viol = {} /\ c.valid # (IF c.base THEN "true" ELSE "false") THEN "valid_flag_satisfied"
     ELSE ""
ValidRej(r, D, k) ==
  LET c == r.cases[k] IN
  IF r.mode # "full" \/ ~c.chk \/ ~(\A j \in 1..Len(D) : D[j].ok) THEN {}
  ELSE LET cl == ValidClause(r, D, c)
           viol == {j \in 1..Len(D) : Violated(D[j].type, D[j].pos, Range(c.pr), c.len)}
           j == IF viol = {} THEN 1 ELSE MinOf(viol)
       IN IF cl = "" THEN {} ELSE {<<k, j, cl, IF D = <<>> THEN "" ELSE D[j].type>>}

RecRej(r) ==
  LET D == Defs(r) IN
  LoadRej(r, D) \cup SplitRej(r, D) \cup UNION {SynRej(r, D, k) \cup ValidRej(r, D, k) : k \in 1..Len(r.cases)}

(* keep at most 5 examples per (clause, type): one per record and class *)
Class(e) == <<e[4], e[5]>>
PickOf(S, cl) == CHOOSE e \in S : /\ Class(e) = cl
                                  /\ \A f \in S : Class(f) = cl =>
                                        (f[2] > e[2] \/ (f[2] = e[2] /\ f[3] >= e[3]))
Keep(old, new) ==
  old \cup {PickOf(new, cl) : cl \in {c \in {Class(e) : e \in new} :
                                         Cardinality({e \in old : Class(e) = c}) < 5}}

Init == i = 1 /\ rej = {} /\ nrej = 0 /\ ncase = 0 /\ nnote = 0
Step == /\ i <= Len(Segs)
        /\ LET r == Segs[i]
               new == {<<i, e[1], e[2], e[3], e[4]>> : e \in RecRej(r)}
           IN /\ rej' = Keep(rej, new)
              /\ nrej' = nrej + Cardinality(new)
              /\ ncase' = ncase + Len(r.cases)
              /\ nnote' = nnote + Len(r.cases) * Len(r.cols) + Len(r.xnotes) + Len(r.enf)
        /\ i' = i + 1
Done == i > Len(Segs)
Next == Step
Spec == Init /\ [][Next]_vars
Report == Done => PrintT(<<"REJECTS", ToJson([n |-> nrej, cases |-> ncase, judged |-> nnote, rej |-> rej])>>)
=============================================================================
