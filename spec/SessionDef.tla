----------------------------- MODULE SessionDef -----------------------------
(* Definition layer for C18 ("results are a function of the document and the   *)
(* parameters alone").                                                          *)
(*                                                                              *)
(* A process makes a sequence of library calls.  A call is a record             *)
(*     [doc, kind, reuse]                                                       *)
(*   kind  = "validate" : x12n_document with all sinks (997/999, HTML, XML)     *)
(*           "context"  : X12ContextReader.iter_segments (flat pass + tree pass)*)
(*           "convert"  : xmlx12_simple.convert of the document's XML form      *)
(*           "loops"    : X12ContextReader.iter_segments(loop id), for the loop *)
(*                        ids of the document; of every yielded tree / segment  *)
(*                        the full iterate_loop_segments() event stream         *)
(*                        (loop_start, loop_end, seg) and the text of every     *)
(*                        segment are observed                                  *)
(*           "loopcopy" : the same iteration, every yielded node is duplicated  *)
(*                        with its public copy() first (ordinary editing use);  *)
(*                        the event streams of the copy and of the original are *)
(*                        observed                                              *)
(*         the two loop kinds are offered for the documents LoopDocs (an 837    *)
(*         and an 835) and always take a new parameter object (reuse = "none"); *)
(*         the maps they load become long-lived objects of the session          *)
(*   reuse = "none"     : a new parameter object, the library loads its maps    *)
(*           "params"   : the long-lived parameter object of the session        *)
(*           "maps"     : long-lived parameter object AND long-lived map objects*)
(* An observation is the record of everything the property speaks about:        *)
(*     [verdict, errors, xml, html, ack, out]                                   *)
(* (texts are represented by digests of the text after masking exactly the      *)
(* differences the property allows: date/time and generated control numbers of  *)
(* the acknowledgement envelope, the HTML "Analysis Date" line; `out` is the    *)
(* listing of the nodes a context iteration yields / the X12 text a conversion  *)
(* writes).                                                                     *)
(*                                                                              *)
(* THE PROPERTY:  for every call of every history                               *)
(*        Obs(call) = Fresh(call.doc, call.kind)                                *)
(* where Fresh(d, k) is what a fresh interpreter observes when (d, k) is its    *)
(* only call - a function of (d, k) ALONE, hence also independent of the string *)
(* hash seed of the interpreter -, and the watched global cells (mutable        *)
(* default arguments, module-level and class-level objects of pyx12, logging    *)
(* configuration) are the same after the call as before:  globals' = globals.   *)
EXTENDS Naturals, Sequences, FiniteSets, TLC

Kinds == {"validate", "context", "convert", "loops", "loopcopy"}
LoopKinds == {"loops", "loopcopy"}
LoopDocs == {"p837", "r835"}
ReuseModes == {"none", "params", "maps"}
Fields == <<"verdict", "errors", "xml", "html", "ack", "out">>

UsesParams(k) == k # "convert"
(* there is something to reuse only after an earlier call that took parameters *)
CanReuse(l, k) == UsesParams(k) /\ k \notin LoopKinds /\ \E i \in 1..Len(l) : UsesParams(l[i].kind)
LegalCall(l, c) == /\ c.kind \in Kinds
                   /\ c.reuse \in ReuseModes
                   /\ (c.reuse # "none" => CanReuse(l, c.kind))
                   /\ (c.kind \in LoopKinds => c.doc \in LoopDocs)

(* pruning of long histories: symmetric variants are dropped, every ordered pair *)
(* of calls and the repetition patterns a-a-x, a-b-a, a-b-b are kept            *)
DocsOf(l) == {l[i].doc : i \in 1..Len(l)}
ChoicePos(l) == {i \in 1..Len(l) : CanReuse(SubSeq(l, 1, i - 1), l[i].kind)}
UniformReuse(l) == Cardinality({l[i].reuse : i \in ChoicePos(l)}) <= 1
Kept(l, prune) == (prune /\ Len(l) >= 3) => (Cardinality(DocsOf(l)) <= 2 /\ UniformReuse(l))

(* seeded sample of long histories: an arithmetic hash of the call sequence,     *)
(* defined here so that the sample is part of the specification TLC enumerates  *)
KindSeq == <<"validate", "context", "convert", "loops", "loopcopy">>
ReuseSeq == <<"none", "params", "maps">>
IndexIn(seq, x) == CHOOSE n \in 1..Len(seq) : seq[n] = x
CallCode(docSeq, c) == IndexIn(docSeq, c.doc) * 15 + IndexIn(KindSeq, c.kind) * 3 + IndexIn(ReuseSeq, c.reuse)
RECURSIVE HashOf(_, _, _)
HashOf(docSeq, l, salt) ==
    IF Len(l) = 0 THEN salt % 1000003
    ELSE (HashOf(docSeq, SubSeq(l, 1, Len(l) - 1), salt) * 131 + CallCode(docSeq, l[Len(l)]) * 7919 + 17) % 1000003
Sampled(docSeq, l, mod, salt) == mod <= 1 \/ (HashOf(docSeq, l, salt) % mod = 0)

(* the clauses of the property that an observed call violates, given the        *)
(* observation of the fresh process and the globals cell before the call.       *)
(* A call that did not return within its CPU / memory budget has no result: its *)
(* recorded verdict is NoTermination and that is the one clause reported (the   *)
(* process executes no further call after it).                                  *)
NoTermination == "no_termination"
ObsMismatch(obs, fresh) == {Fields[j] : j \in {n \in 1..Len(Fields) : obs[Fields[n]] # fresh[Fields[n]]}}
CallMismatch(obs, fresh, gBefore, gAfter) ==
    IF obs.verdict = NoTermination THEN {NoTermination}
    ELSE ObsMismatch(obs, fresh) \cup (IF gAfter # gBefore THEN {"globals"} ELSE {})
=============================================================================
