------------------------------- MODULE AckGen -------------------------------
(* Generator + model-level checks for C05 / C06.                                 *)
(* The environment is shaped like pyx12.x12n_document.x12n_document: it feeds one *)
(* abstract input segment at a time; the segment goes through the reader model    *)
(* (Envelope!Reader: envelope errors, counters) and is translated into the calls  *)
(* x12n_document / the walker / the map make on the error handler, which are      *)
(* applied to the error tree (ErrTree!Do).  Faulty body segments, faulty envelope *)
(* segments (leading blank, trailing separator, element error), echoed values     *)
(* over the classes plain / TERM / ELE / SUB / REP, duplicate control numbers,     *)
(* wrong trailer ids and counts, omitted trailers and truncation are all choices  *)
(* of the environment within the bounds given by the constants.                   *)
(* When the input ends, the model acknowledgement Ack997 / Ack999 of the tree is   *)
(* judged by the definition layer (AckDef) against what was received (h) and       *)
(* what was reported (rep).  Every finding must belong to a catalogued deviation   *)
(* of the code (Explained5 / Explained6); the findings themselves are printed      *)
(* (MODELDIFF), not asserted.  Scenarios are printed for replay on the real code.  *)
EXTENDS AckVisit, AckDef, Json
A7 == INSTANCE Ack997
A9 == INSTANCE Ack999
LOCAL R == INSTANCE Recount
LOCAL Ev == INSTANCE Envelope
CONSTANTS Ver,          \* "4010" (997) or "5010" (999)
          MaxIsa, MaxGs, MaxSt, MaxBody,
          EnvVars,      \* variants of envelope segments: subset of {"ok","blank","trail","eleerr"}
          BodyVars,     \* variants of body segments (see BodyCalls)
          Vals,         \* echoed values, e.g. {"v", "a~b", "a*b", "a:b", "a^b"}
          IdModes,      \* {"fresh","dup"} for headers
          TrModes,      \* trailer modes, two letters: id right/wrong, count right/wrong: subset of {"rr","wr","rw","ww"}
          Sloppy,       \* BOOLEAN: trailers may be omitted in the middle of the input
          Truncate,     \* BOOLEAN: the input may end anywhere
          Strays,       \* BOOLEAN: unknown segments outside a set
          Ta1           \* BOOLEAN: ISA14 = 1 may be requested
VARIABLES evs, h, rd, t, rep, valid, done, nb, res, lastele
vars == <<evs, h, rd, t, rep, valid, done, nb, res, lastele>>

C0(op, si) == [op |-> op, si |-> si, code |-> "", val |-> "", id |-> "", kind |-> "", x |-> "", y |-> <<>>, pos |-> 0, sub |-> 0, ref |-> "",
               cnt |-> "", recv |-> 0, rpos |-> 0, rsub |-> 0, apos |-> 0, info |-> <<>>]
HRec(k, id, cnt, sid, a, b, c, d, e) == [k |-> k, id |-> id, cnt |-> cnt, n |-> "", p |-> "", sid |-> sid, a |-> a, b |-> b, c |-> c, d |-> d, e |-> e]
Depth == Len(rd.loops)
(* the innermost loop open in the reader: 0 none, 1 ISA, 2 GS, 3 ST (loops that lost their trailer stay on the reader's stack below it) *)
Level == IF rd.loops = <<>> THEN 0 ELSE CASE rd.loops[Len(rd.loops)][1] = "ISA" -> 1 [] rd.loops[Len(rd.loops)][1] = "GS" -> 2 [] OTHER -> 3
NEle(k) == CASE k = "ISA" -> 16 [] k = "GS" -> 8 [] k = "ST" -> (IF Ver = "5010" THEN 3 ELSE 2) [] k = "B" -> 3 [] OTHER -> 2
Mark(k) == IF k = "B" THEN <<>> ELSE <<k>>
ErrCalls(errs, si) == [i \in 1..Len(errs) |-> [C0(errs[i][1] \o "_error", si) EXCEPT !.code = errs[i][2]]]
AddEleC(si, pos) == [C0("add_ele", si) EXCEPT !.pos = pos, !.ref = "66"]
EleErrC(si, code, val, rpos, k) == [C0("ele_error", si) EXCEPT !.code = code, !.val = val, !.rpos = rpos, !.y = Mark(k)]
SegErrC(si, code) == [C0("seg_error", si) EXCEPT !.code = code]
AddSegC(si, id, pos) == [C0("add_seg", si) EXCEPT !.id = id, !.pos = pos]
(* reader errors raised before _parse_segment (X12Reader.__iter__) *)
PreErrs(var, si) == (IF var = "blank" THEN <<SegErrC(si, "1")>> ELSE <<>>) \o (IF var = "trail" THEN <<SegErrC(si, "SEG1")>> ELSE <<>>)
(* node.is_valid(seg, errh) for an envelope segment *)
ValidCalls(k, var, val, si) ==
  CASE var = "trail" -> <<EleErrC(si, "3", "", NEle(k) + 1, k), AddEleC(si, NEle(k))>>             \* too many elements: raised before any add_ele
    [] var = "eleerr" -> <<AddEleC(si, 2), EleErrC(si, "5", val, 2, k), AddEleC(si, NEle(k))>>
    [] OTHER -> <<AddEleC(si, NEle(k))>>
(* a body segment inside or outside a set *)
BodyCalls(var, val, si, pos) ==
  CASE var = "clean"    -> <<AddSegC(si, "REF", pos), AddEleC(si, 3)>>
    [] var = "unknown"  -> <<AddSegC(si, "ZZZ", pos), SegErrC(si, "1")>>
    [] var = "missing"  -> <<AddSegC(si, "MIS", pos), SegErrC(si, "3"), AddSegC(si, "REF", pos), AddEleC(si, 3)>>
    [] var = "overmax"  -> <<AddSegC(si, "REF", pos), SegErrC(si, "5"), AddSegC(si, "REF", pos), AddEleC(si, 3)>>
    [] var = "trail"    -> <<AddSegC(si, "REF", pos), SegErrC(si, "SEG1"), AddEleC(si, 3)>>
    [] var = "blank"    -> <<AddSegC(si, "REF", pos), SegErrC(si, "1"), AddEleC(si, 3)>>
    [] var = "nonstd"   -> <<AddSegC(si, "REF", pos), SegErrC(si, "HL1"), AddEleC(si, 3)>>
    [] var = "two"      -> <<AddSegC(si, "REF", pos), SegErrC(si, "5"), AddSegC(si, "REF", pos), SegErrC(si, "SEG1"), AddEleC(si, 3)>>
    [] var = "ele"      -> <<AddSegC(si, "REF", pos), AddEleC(si, 2), EleErrC(si, "5", val, 2, "B"), AddEleC(si, 3)>>
    [] var = "ele2"     -> <<AddSegC(si, "REF", pos), AddEleC(si, 1), EleErrC(si, "1", "", 1, "B"), AddEleC(si, 2), EleErrC(si, "7", val, 2, "B"), AddEleC(si, 3)>>
    [] var = "elenonstd" -> <<AddSegC(si, "REF", pos), AddEleC(si, 2), EleErrC(si, "X9", val, 2, "B"), AddEleC(si, 3)>>
    [] var = "toomany"  -> <<AddSegC(si, "REF", pos), EleErrC(si, "3", val, 4, "B"), AddEleC(si, 3)>>
    [] OTHER -> <<>>
BodySid(var) == IF var = "unknown" THEN "ZZZ" ELSE "REF"
(* the walker reports a skipped SE when something other than SE ends an open set *)
SkippedSE(s, si) == IF Level = 3 /\ s.k \in {"ST", "GE", "GS", "IEA", "ISA"}
                    THEN <<AddSegC(si, "SE", rd.seg_count), SegErrC(si, "3")>> ELSE <<>>
CallsFor(ev, s, r, si) ==
  LET errs == PreErrs(ev.var, si) \o ErrCalls(r.errs, si)
      vc == ValidCalls(s.k, ev.var, ev.val, si)
  IN CASE s.k = "ISA" -> <<[C0("add_isa", si) EXCEPT !.id = s.id, !.x = s.e, !.info = <<s.a, s.b, s.c, s.d, "U", IF Ver = "5010" THEN "00501" ELSE "00401", "P">>]>> \o errs \o vc
       [] s.k = "GS"  -> SkippedSE(s, si) \o <<[C0("add_gs", si) EXCEPT !.id = s.id, !.kind = s.a, !.x = s.d, !.info = <<s.b, s.c, s.id, "X">>]>> \o errs \o vc
       [] s.k = "ST"  -> SkippedSE(s, si) \o <<[C0("add_st", si) EXCEPT !.id = s.id, !.kind = s.a, !.x = s.d]>> \o errs \o vc
       [] s.k = "SE"  -> errs \o <<C0("close_st", si)>> \o vc
       [] s.k = "GE"  -> SkippedSE(s, si) \o errs \o <<[C0("close_gs", si) EXCEPT !.cnt = s.cnt, !.recv = r.st.st_count]>> \o vc
       [] s.k = "IEA" -> SkippedSE(s, si) \o errs \o <<C0("close_isa", si)>> \o vc
       [] OTHER -> IF ev.var = "unknown" THEN BodyCalls(ev.var, ev.val, si, r.st.seg_count)
                   ELSE LET bc == BodyCalls(ev.var, ev.val, si, r.st.seg_count) IN bc

(* ---- what the environment may feed next ---- *)
Count(k) == Cardinality({i \in 1..Len(h) : h[i].k = k})
LastOf(k) == LET S == {i \in 1..Len(h) : h[i].k = k} IN IF S = {} THEN 0 ELSE Max(S)
CountSince(k, from) == Cardinality({i \in (from + 1)..Len(h) : h[i].k = k})
FreshId(k) == CASE k = "ISA" -> ToString(Count("ISA") + 1) [] k = "GS" -> ToString(CountSince("GS", LastOf("ISA")) + 1)
                [] OTHER -> ToString(CountSince("ST", LastOf("GS")) + 1)
PrevId(k) == LET i == LastOf(k) IN IF i = 0 THEN "" ELSE h[i].id
HeaderIds(k) == {FreshId(k)} \cup (IF "dup" \in IdModes /\ PrevId(k) # "" THEN {PrevId(k)} ELSE {})
OpenId(k) == LET S == {i \in 1..Len(rd.loops) : rd.loops[i][1] = k} IN IF S = {} THEN "" ELSE rd.loops[Max(S)][2]
RightCnt(k) == LET i == Len(h) + 1 IN
  CASE k = "SE"  -> i - LastOf("ST") + 1
    [] k = "GE"  -> CountSince("ST", LastOf("GS"))
    [] OTHER     -> CountSince("GS", LastOf("ISA"))
Header(k, id) == CASE k = "ISA" -> HRec("ISA", id, "", "ISA", "ZZ", "SND", "ZZ", "RCV", "0")
                   [] k = "GS" -> HRec("GS", id, "", "GS", "HC", "SND", "RCV", IF Ver = "5010" THEN "005010X222" ELSE "004010X098A1", "")
                   [] OTHER -> HRec("ST", id, "", "ST", "837", "", "", IF Ver = "5010" THEN "005010X222" ELSE "#NONE", "")
Trailer(k, tm) == HRec(k, IF SubSeq(tm, 1, 1) = "r" THEN OpenId(CASE k = "SE" -> "ST" [] k = "GE" -> "GS" [] OTHER -> "ISA") ELSE "9",
                       ToString(IF SubSeq(tm, 2, 2) = "r" THEN RightCnt(k) ELSE RightCnt(k) + 1), k, "", "", "", "", "")
EnvVal == IF "v" \in Vals THEN "v" ELSE CHOOSE v \in Vals : TRUE
Ev2(k, var, val) == [k |-> k, var |-> var, val |-> val]
Candidates ==
  LET d == Level
      okIsa == Count("ISA") < MaxIsa /\ (d = 0 \/ Sloppy)
      okGs == d >= 1 /\ CountSince("GS", LastOf("ISA")) < MaxGs /\ (d = 1 \/ Sloppy)
      okSt == d >= 2 /\ CountSince("ST", LastOf("GS")) < MaxSt /\ (d = 2 \/ Sloppy)
  IN (IF okIsa THEN {<<Ev2("ISA", "ok", ""), Header("ISA", id)>> : id \in HeaderIds("ISA")}
                    \cup (IF Ta1 THEN {<<Ev2("ISA", "ta1", ""), [Header("ISA", FreshId("ISA")) EXCEPT !.e = "1"]>>} ELSE {}) ELSE {})
     \cup (IF okGs THEN {<<Ev2("GS", var, EnvVal), Header("GS", id)>> : id \in HeaderIds("GS"), var \in EnvVars} ELSE {})
     \cup (IF okSt THEN {<<Ev2("ST", var, EnvVal), Header("ST", id)>> : id \in HeaderIds("ST"), var \in EnvVars} ELSE {})
     \cup (IF d = 3 THEN {<<Ev2("SE", var, EnvVal), Trailer("SE", tm)>> : tm \in TrModes, var \in EnvVars} ELSE {})
     \cup (IF d = 2 \/ (d = 3 /\ Sloppy) THEN {<<Ev2("GE", var, EnvVal), Trailer("GE", tm)>> : tm \in TrModes, var \in EnvVars} ELSE {})
     \cup (IF d = 1 \/ (d > 1 /\ Sloppy) THEN {<<Ev2("IEA", var, EnvVal), Trailer("IEA", tm)>> : tm \in TrModes, var \in EnvVars \ {"eleerr"}} ELSE {})
     \cup (IF d = 3 /\ nb < MaxBody THEN {<<Ev2("B", var, IF var \in {"ele", "ele2", "elenonstd", "toomany"} THEN v ELSE ""), HRec("B", "", "", BodySid(var), "", "", "", "", "")>> :
                                          var \in BodyVars, v \in Vals} ELSE {})
     \cup (IF Strays /\ d \in {1, 2} /\ Cardinality({i \in 1..Len(h) : h[i].sid = "YYY"}) < 1
           THEN {<<Ev2("B", "unknown", ""), HRec("B", "", "", "YYY", "", "", "", "", "")>>} ELSE {})

NoRes == [judged |-> FALSE]
Init == evs = <<>> /\ h = <<>> /\ rd = Ev!EnvInit /\ t = TInit /\ rep = <<>> /\ valid = TRUE /\ done = FALSE /\ nb = 0 /\ res = NoRes /\ lastele = 0
(* every ele_error is stamped with the position the last add_ele announced (the handler's element cursor) *)
LastEleBefore(cs, i, dflt) == LET S == {j \in 1..(i - 1) : cs[j].op = "add_ele"} IN IF S = {} THEN dflt ELSE cs[Max(S)].pos
Stamp(cs, dflt) == [i \in 1..Len(cs) |-> IF cs[i].op = "ele_error" THEN [cs[i] EXCEPT !.apos = LastEleBefore(cs, i, dflt)] ELSE cs[i]]
Feed(ev, s) ==
  LET si == Len(h) + 1
      r == Ev!Reader(rd, s, FALSE)
      cs == Stamp(CallsFor(ev, s, r, si), lastele)
  IN /\ evs' = Append(evs, [k |-> ev.k, var |-> ev.var, val |-> ev.val, id |-> s.id, cnt |-> s.cnt,
                            right |-> IF s.k \in {"SE", "GE", "IEA"} THEN ToString(RightCnt(s.k)) ELSE "", ta1 |-> s.e])
     /\ h' = Append(h, s) /\ rd' = r.st /\ t' = Replay(t, cs, 1) /\ rep' = rep \o Reported(cs)
     /\ valid' = (valid /\ \A i \in 1..Len(cs) : cs[i].op # "ele_error" \/ ev.var = "unknown")
     /\ nb' = IF s.k = "ST" THEN 0 ELSE IF s.k = "B" THEN nb + 1 ELSE nb
     /\ done' = FALSE /\ res' = NoRes /\ lastele' = LastEleBefore(cs, Len(cs) + 1, lastele)
(* ---- the acknowledgement of the final tree and its judgement ---- *)
VisitOf(tt) == IF Ver = "5010" THEN [out |-> A9!Ack999(tt), crashed |-> A9!Visit999(tt).crashed] ELSE [out |-> A7!Visit997(tt).out, crashed |-> A7!Visit997(tt).crashed]
RECURSIVE ReadAll(_, _, _, _)
ReadAll(q, i, rs, acc) == IF i > Len(q) THEN acc \o Ev!Cleanup(rs) ELSE LET r == Ev!Reader(rs, q[i], FALSE) IN ReadAll(q, i + 1, r.st, acc \o r.errs)
RereadModel(seen) == ReadAll(EnvOf(seen), 1, Ev!EnvInit, <<>>)
RevalMap(seen) == LET g == FirstLine(seen, 1, Len(seen), {"GS"}) IN
            IF g = 0 THEN "" ELSE IF El(seen[g], 8) = "004010" THEN "997" ELSE IF El(seen[g], 8) \in {"005010X231", "005010X231A1"} THEN "999" ELSE ""
RevalModel(seen) == LET m == RevalMap(seen) IN [ran |-> TRUE, map |-> m, verdict |-> m # "", exc |-> IF m = "" THEN "EngineError" ELSE "", errs |-> <<>>]
(* everything that is judged about one finished input, computed once when the input ends *)
Judgement(tt, rr) ==
  LET v == VisitOf(tt)
      seen == Reparse(v.out)                      \* the acknowledgement as any reader sees it
      verdict == valid /\ ErrCount(tt) = 0
  IN [judged |-> TRUE, hasgroup |-> tt.gs # 0, crashed |-> tt.crashed, verdict |-> verdict, errcount |-> ErrCount(tt), nack |-> Len(seen),
      f5 |-> IF tt.gs = 0 \/ tt.crashed THEN {} ELSE C05Fails(h, rr, seen, verdict, Ver, TruncatedInBlocks(seen)),
      f6 |-> IF tt.gs = 0 \/ tt.crashed THEN {} ELSE C06Fails(seen, Ver, RereadModel(seen), RevalModel(seen), h, rr),
      plain |-> \A i \in 1..Len(rr) : ValClass(rr[i].val) = "plain",
      preserved |-> TextPreserved(v.out)]

Eof == LET cs == ErrCalls(Ev!Cleanup(rd), Len(h) + 1) IN
       /\ done' = TRUE /\ t' = Replay(t, cs, 1) /\ rep' = rep \o cs /\ UNCHANGED <<evs, h, rd, valid, nb, lastele>>
       /\ res' = Judgement(Replay(t, cs, 1), rep \o cs)
Next == /\ ~done /\ ~t.crashed
        /\ \/ \E c \in Candidates : Feed(c[1], c[2])
           \/ (Len(h) > 0 /\ (Truncate \/ Depth = 0)) /\ Eof
Spec == Init /\ [][Next]_vars

(* catalogue of the deviations of the code that the models still mirror (each is reported on real executions by lib/c05.py, lib/c06.py);
   AllExplained is a hard invariant: any other disagreement between the models and the definition is a modelling error *)
Explained5(f) ==      \* a group that lost its GE reports AK903 = 0 (st_count_recv is only set by err_gs.close; pinned by the fixture 837miss)
  \/ f.c = "group_totals" /\ f.d1 = "received" /\ f.d2 = "false" /\ f.d3 = "zero"
  \* (the stale-set deviation - cur_st_node surviving add_gs_loop - was repaired by 2d11172 and is no longer explained)
Explained6(f) == FALSE
Judged == done /\ res.judged /\ res.hasgroup /\ ~res.crashed
Bad5 == {f \in res.f5 : ~Explained5(f)}
Bad6 == {f \in res.f6 : ~Explained6(f)}
Unexplained == (Judged /\ Bad5 \cup Bad6 # {}) =>
               PrintT(<<"UNEXPLAINED", ToJson([f5 |-> {<<f.c, f.d1, f.d2, f.d3>> : f \in Bad5}, f6 |-> {<<f.c, f.d1, f.d2, f.d3>> : f \in Bad6}, evs |-> evs])>>)
AllExplained == Judged => Bad5 \cup Bad6 = {}
(* with nothing but plain values the written text reads back as exactly the segments written *)
PlainPreserved == (Judged /\ res.plain) => res.preserved
(* what the code gets right whatever happens: a true verdict means an empty tree *)
VerdictSound == (Judged /\ res.verdict) => res.errcount = 0
ModelDiff == (Judged /\ res.f5 \cup res.f6 # {}) =>
             PrintT(<<"MODELDIFF", ToJson([f5 |-> {<<f.c, f.d1, f.d2, f.d3>> : f \in res.f5}, f6 |-> {<<f.c, f.d1, f.d2, f.d3>> : f \in res.f6}])>>)
Emit == Judged =>
        PrintT(<<"SCN", ToJson([evs |-> evs, eof |-> Depth, verdict |-> res.verdict, reps |-> [i \in 1..Len(rep) |-> <<rep[i].op, rep[i].code>>],
                               nack |-> res.nack, f5 |-> {f.c : f \in res.f5}, f6 |-> {f.c : f \in res.f6}])>>)
=============================================================================
