------------------------------- MODULE Driver --------------------------------
(* Which implementation-guide map is in force for each segment of a file.        *)
(* Not one of the listed properties on its own: it is the part of                 *)
(* pyx12.x12n_document.x12n_document and X12ContextReader.iter_segments that      *)
(* C02 (conformant documents are accepted) and C09 (context trees) silently rely  *)
(* on - the dispatch on ISA / GS / BHT that selects, loads and switches maps.     *)
(*                                                                                *)
(* DEFINITION layer (WantMaps, WantRaise, WantLx): from the history alone, the    *)
(* set of map files that are right for position i.                                *)
(* IMPLEMENTATION-shaped layer (DInit, DStep): the variables of the dispatch loop *)
(* (icvn, fic, vriic, map_file, cur_map, check_837_lx) and its three branches,    *)
(* transcribed statement by statement.                                            *)
(* Theorem checked by TLC over every history within bounds (module DriverGen):    *)
(* the map the loop has loaded is always one the definition allows, it raises     *)
(* "Map not found" exactly where the definition has no map, and the 837 service   *)
(* line check is on exactly while an 837 map is in force.                         *)
EXTENDS Naturals, Sequences, FiniteSets, TLC, Json, IOUtils

Index == JsonDeserialize(IOEnv.INDEX_FILE)     \* maps.xml as exported independently: sequence of [icvn, vriic, fic, tspc, file, tid]; tspc "" = attribute absent
NoT  == "-"                                     \* "no BHT02 given": lookup by (icvn, vriic, fic) alone
None == ""                                      \* no map
X094 == {"004010X094", "004010X094A1"}          \* the guides whose map depends on BHT02 (278 request / response)
Min(S) == CHOOSE x \in S : \A y \in S : x <= y
Max(S) == CHOOSE x \in S : \A y \in S : y <= x
Control(v) == IF v = "00501" THEN "x12.control.00501.xml" ELSE "x12.control.00401.xml"
Is837(f) == \E i \in 1..Len(Index) : Index[i].file = f /\ Index[i].tid = "837"      \* the transaction id the map file declares (837Q3 is not "837")

(* map_index.get_filename: the first entry of the index that matches *)
Lookup(v, r, f, t) ==
  LET S == {i \in 1..Len(Index) : Index[i].icvn = v /\ Index[i].vriic = r /\ Index[i].fic = f /\ (t = NoT \/ Index[i].tspc = t)}
  IN IF S = {} THEN None ELSE Index[Min(S)].file
(* every map filed under the key, whatever its BHT02 *)
AllOfKey(v, r, f) == {Index[i].file : i \in {j \in 1..Len(Index) : Index[j].icvn = v /\ Index[j].vriic = r /\ Index[j].fic = f}}

(* A history is a sequence of abstract segments [k, a, b]:                        *)
(*   ISA a = ISA12 | GS a = GS01, b = GS08 | ST | BHT a = BHT02 | B | SE | GE | IEA *)
LastOf(h, i, K, lo) == LET S == {j \in 1..i : j > lo /\ h[j].k \in K} IN IF S = {} THEN 0 ELSE Max(S)

(* ---- definition ---- *)
WantMaps(h, i) ==
  LET isa == LastOf(h, i, {"ISA"}, 0)
      gs  == LastOf(h, i, {"GS"}, isa)
  IN IF isa = 0 \/ gs = 0 \/ h[i].k = "ISA" THEN {Control(h[1].a)}               \* outside any group: the control map of the file's first ISA
     ELSE LET v == h[isa].a  f == h[gs].a  r == h[gs].b
              st  == LastOf(h, i, {"ST"}, gs)
              bht == LastOf(h, i, {"BHT"}, IF st = 0 THEN gs ELSE st)             \* the BHT of the set the segment is in
          IN IF r \in X094 /\ bht # 0 THEN {Lookup(v, r, f, h[bht].a)}
             ELSE IF r \in X094 THEN IF AllOfKey(v, r, f) = {} THEN {None} ELSE AllOfKey(v, r, f)   \* before the set's BHT any map of the guide will do (they share GS and ST)
             ELSE {Lookup(v, r, f, NoT)}
WantRaise(h, i) == WantMaps(h, i) = {None}
WantLx(h, i) == \E m \in WantMaps(h, i) : Is837(m)
(* trailers of group and interchange may be matched in either map: no claim *)
Claimed(h, i) == h[i].k \notin {"GE", "IEA"}

(* ---- the dispatch loop of x12n_document / iter_segments ---- *)
DInit(v0) == [icvn |-> None, fic |-> None, vriic |-> None, map_file |-> Control(v0), cur_map |-> None, lx |-> FALSE, raised |-> FALSE,
              node_map |-> Control(v0), control |-> Control(v0)]
Load(s, new) == IF new = None THEN [s EXCEPT !.map_file = new, !.raised = TRUE]
                ELSE [s EXCEPT !.map_file = new, !.cur_map = new, !.lx = Is837(new)]
DStep(s, seg) ==
  IF s.raised THEN s
  ELSE CASE seg.k = "ISA" -> [s EXCEPT !.icvn = seg.a, !.node_map = s.control]
         [] seg.k = "GS" ->
              LET s1 == [s EXCEPT !.fic = seg.a, !.vriic = seg.b]
                  new == Lookup(s1.icvn, s1.vriic, s1.fic, NoT)
                  s2 == IF s1.map_file # new THEN Load(s1, new) ELSE s1
              IN IF s2.raised THEN s2
                 ELSE IF s2.cur_map = None THEN [s2 EXCEPT !.raised = TRUE]       \* the index answered with the control map itself
                 ELSE [s2 EXCEPT !.node_map = s2.cur_map]
         [] seg.k = "BHT" /\ s.vriic \in X094 /\ s.cur_map # None ->
              LET new == Lookup(s.icvn, s.vriic, s.fic, seg.a)
                  s2 == IF s.map_file # new THEN Load(s, new) ELSE s
              IN IF s2.raised THEN s2 ELSE [s2 EXCEPT !.node_map = s2.cur_map]
         [] OTHER -> s                                                            \* the walker stays inside the map of the node it starts from
RECURSIVE Run(_, _, _)
Run(s, h, i) == IF i > Len(h) THEN s ELSE Run(DStep(s, h[i]), h, i + 1)
=============================================================================
