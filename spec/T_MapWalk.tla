----------------------------- MODULE T_MapWalk ------------------------------
(* Trace validation of the real walker: every call of walk_tree.walk recorded    *)
(* while pyx12 validates a document (start node, segment id and qualifier        *)
(* values, counter before; result node, popped and pushed loops, error codes in  *)
(* order, counter after) must be exactly what the transcription computes.        *)
(* Total verdicts: a mismatching event is recorded with its clause and the       *)
(* validation goes on with the implementation's logged counter.                  *)
EXTENDS MapWalk
Trace == JsonDeserialize(IOEnv.TRACE_FILE)
VARIABLES i, rejects
vars == <<i, rejects>>
Paths(seq) == [j \in 1..Len(seq) |-> PathOf(seq[j])]
Known(p) == \E n \in 1..Len(N) : N[n].path = p
Init == i = 1 /\ rejects = <<>>
Step ==
  /\ i <= Len(Trace)
  /\ LET e == Trace[i] IN
     IF ~Known(e.start) THEN rejects' = Append(rejects, <<e.tid, e.k, "unknown_start", e.start, <<>>>>)
     ELSE
     LET start == NodeByPath(e.start)
         w == Walk(start, e, e.cbefore)
         expRes == IF w.res = 0 THEN "" ELSE PathOf(w.res)
         clause == IF expRes # e.res THEN "res"
                   ELSE IF Paths(w.pops) # e.pops THEN "pops"
                   ELSE IF Paths(w.pushes) # e.pushes THEN "pushes"
                   ELSE IF w.st.errs # e.errs THEN "errs"
                   ELSE IF w.st.cnt # e.counter THEN "counter"
                   ELSE "ok"
     IN rejects' = IF clause = "ok" \/ Len(rejects) >= 40 THEN rejects ELSE Append(rejects, <<e.tid, e.k, clause, expRes, w.st.errs>>)
  /\ i' = i + 1
Spec == Init /\ [][Step]_vars
Report == (i = Len(Trace) + 1) => PrintT(<<"REJECTS", ToJson([n |-> Len(rejects), rej |-> rejects])>>)
=============================================================================
