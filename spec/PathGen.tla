------------------------------ MODULE PathGen ------------------------------
(* C17, path half.  Every state is one candidate path record built from the     *)
(* documented grammar; TLC visits the whole bounded space.  Model-level          *)
(* theorem (invariant RoundTrip): for a well-formed record Parse(PrintPath(p)) = p   *)
(* and PrintPath(Parse(PrintPath(p))) = PrintPath(p); for an ill-formed one (qualifier or    *)
(* element index after loop ids without a segment id) Parse(PrintPath(p)) is the     *)
(* path error.  Every state is also emitted (Emit) so that the replayer can     *)
(* feed PrintPath(p) to the real X12Path and compare fields, format() and equality. *)
EXTENDS PathDef, Json
CONSTANTS MaxLoops, FullEmit
VARIABLE p

LoopIds == {"2000A", "ISA_LOOP", "2300", "HEADER", "1000A", "Z"}   \* never readable as a refdes
AmbigIds == {"GS", "A1", "20"}                                     \* readable as a refdes: non-final use only
SegIds == {None, "TST", "N1", "REF"}
Quals == {None, "EA", "1C"}
Eles == {Absent, 1, 2, 10, 99}
Subs == {Absent, 1, 2, 12}


Canonical(q) == /\ (q.sub # Absent => q.ele # Absent)
                /\ (q.seg = None /\ q.qual = None /\ q.ele = Absent /\ Len(q.loops) > 0
                      => q.loops[Len(q.loops)] \in LoopIds)
Expected(q) ==  IF q.seg = None /\ q.qual # None THEN PathError
                ELSE IF q.seg = None /\ q.ele # Absent /\ Len(q.loops) > 0 THEN PathError
                ELSE [ok |-> TRUE, rel |-> q.rel, loops |-> q.loops, seg |-> q.seg, qual |-> q.qual,
                      ele |-> q.ele, sub |-> q.sub, hasele |-> q.ele # Absent, hassub |-> q.sub # Absent]
(* text of an ill-formed record: the qualifier cannot go through RefDes (which needs a segment id) *)
Text(q) == IF q.seg = None /\ q.qual # None
           THEN LET head == (IF q.rel THEN "" ELSE "/") \o Join(q.loops, "/")
                IN head \o (IF Len(q.loops) > 0 THEN "/" ELSE "") \o "[" \o q.qual \o "]"
                        \o (IF q.ele # Absent THEN Two(q.ele) ELSE "")
           ELSE IF q.seg = None /\ q.ele # Absent /\ Len(q.loops) > 0
           THEN (IF q.rel THEN "" ELSE "/") \o Join(q.loops, "/") \o "/" \o RefDes(q)
           ELSE PrintPath(q)

Init == p \in [rel : BOOLEAN, loops : {<<>>}, seg : SegIds, qual : Quals, ele : Eles, sub : Subs]
Next == /\ Len(p.loops) < MaxLoops
        /\ \E l \in LoopIds \cup AmbigIds : p' = [p EXCEPT !.loops = Append(@, l)]
Spec == Init /\ [][Next]_p

RoundTrip == Canonical(p) =>
             LET e == Expected(p)  r == Parse(Text(p)) IN
             /\ r = e
             /\ (e.ok => PrintPath(r) = Text(p))
Emit == (FullEmit /\ Canonical(p)) => PrintT(<<"PATH", ToJson([text |-> Text(p), exp |-> Expected(p)])>>)
=============================================================================
