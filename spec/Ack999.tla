------------------------------- MODULE Ack999 -------------------------------
(* Implementation-shaped model of pyx12.error_999.error_999_visitor: the same    *)
(* traversal, but every segment goes through X12Writer.Write (module Writer):     *)
(* the visitor writes SE*0, GE**id and a bare IEA and the writer generates the    *)
(* trailers from its own loop stack and counters.  `writes` is what the visitor   *)
(* hands to the writer, Ack999 the resulting stream.                              *)
EXTENDS AckVisit
LOCAL Wr == INSTANCE Writer
LOCAL Ev == INSTANCE Envelope

V0 == [writes |-> <<>>, stn |-> 0, crashed |-> FALSE]
W(v, seg) == IF v.crashed THEN v ELSE [v EXCEPT !.writes = Append(@, seg)]
VRIIC == "005010X231"
RootPre(v, t) ==
  IF t.isa = 0 THEN [v EXCEPT !.crashed = TRUE] ELSE
  LET i == t.nodes[t.isa].info
      v1 == W(v, SegOf("ISA", <<"00", "          ", "00", "          ", i[3], i[4], i[1], i[2], DATE, TIME, REP, i[6], ICN, "0", i[7], ":">>))
  IN IF t.gs = 0 THEN [v1 EXCEPT !.crashed = TRUE] ELSE
     LET g == t.nodes[t.gs].info
     IN W(v1, SegOf("GS", <<"FA", RStrip(g[2]), RStrip(g[1]), DATE, TIME, GCN, g[4], VRIIC>>))
GsPre(v, gs) == IF gs.vriic = "#NONE" THEN [W([v EXCEPT !.stn = @ + 1], SegOf("ST", <<"999", Pad4(v.stn + 1), VRIIC>>)) EXCEPT !.crashed = TRUE]
                ELSE W(W([v EXCEPT !.stn = @ + 1], SegOf("ST", <<"999", Pad4(v.stn + 1), VRIIC>>)), SegOf("AK1", <<gs.fic, gs.id, gs.vriic>>))
StPre(v, st) == IF st.vriic = "#NONE" THEN W(v, SegOf("AK2", <<st.tsid, Strip(st.id)>>))        \* AK203 only when ST03 was received
                ELSE W(v, SegOf("AK2", <<st.tsid, Strip(st.id), st.vriic>>))
RECURSIVE WAll(_, _, _)
WAll(v, lines, i) == IF i > Len(lines) THEN v ELSE WAll(W(v, lines[i]), lines, i + 1)
SegLines(sg) == LET cs == SegLineCodes(sg, Valid3_999) IN
                [k \in 1..Len(cs) |-> SegOf("IK3", <<sg.id, ToString(sg.pos), sg.ls, cs[k]>>)]
EleLines(el) == LET ok == SelectSeq(el.errs, LAMBDA er : er[1] \in Valid4_999) IN
                [k \in 1..Len(ok) |-> [id |-> "IK4", e |-> <<PosEl(el), S1(el.ref), S1(ok[k][1])>> \o (IF ok[k][2] # "" THEN <<Echo(ok[k][2], {TERM, ELE, SUB, REP})>> ELSE <<>>)]]
VisitSeg(v, sg) == WAll(WAll(v, SegLines(sg), 1), Flatten([k \in 1..Len(sg.eles) |-> EleLines(sg.eles[k])]), 1)
StPost(v, st) == W(v, SegOf("IK5", <<st.ack>> \o Take(StCodes(st), 5)))
RECURSIVE VisitSegs(_, _, _)
VisitSegs(v, segs, i) == IF i > Len(segs) \/ v.crashed THEN v ELSE VisitSegs(VisitSeg(v, segs[i]), segs, i + 1)
VisitSt(v, st) == LET v1 == StPre(v, st) IN IF v1.crashed THEN v1 ELSE StPost(VisitSegs(v1, st.segs, 1), st)
RECURSIVE VisitSets(_, _, _)
VisitSets(v, sets, i) == IF i > Len(sets) \/ v.crashed THEN v ELSE VisitSets(VisitSt(v, sets[i]), sets, i + 1)
GsPost(v, gs) == W(W(v, SegOf("AK9", <<GsAck(gs), ToString(gs.orig), ToString(gs.recv), ToString(CountOk(gs))>> \o Take(GsCodes(gs), 5))),
                   SegOf("SE", <<"0", Pad4(v.stn)>>))
VisitGs(v, gs) == LET v0 == GsPre(v, gs) IN IF v0.crashed THEN v0 ELSE
                  LET v1 == VisitSets(v0, gs.sets, 1) IN IF v1.crashed THEN v1 ELSE GsPost(v1, gs)
RECURSIVE VisitGroups(_, _, _)
VisitGroups(v, gg, i) == IF i > Len(gg) \/ v.crashed THEN v ELSE VisitGroups(VisitGs(v, gg[i]), gg, i + 1)
RECURSIVE VisitIsas(_, _, _)
VisitIsas(v, ii, i) == IF i > Len(ii) \/ v.crashed THEN v ELSE VisitIsas(VisitGroups(v, ii[i].groups, 1), ii, i + 1)
RootPost(v, t) == IF v.crashed THEN v ELSE
                  LET v1 == W(v, SegOf("GE", <<"", GCN>>))
                      v2 == IF t.nodes[t.isa].x = "1" THEN W(v1, SegOf("TA1", <<t.nodes[t.isa].id, DATE, TIME, "#ACK", "#NOTE">>)) ELSE v1
                  IN W(v2, SegOf("IEA", <<>>))
Visit999(t) == RootPost(VisitIsas(RootPre(V0, t), Nested(t), 1), t)

(* the writer: envelope records go through Writer!WWrite, the content of non-trailers is carried along in order *)
RECURSIVE Through(_, _, _, _)
Through(writes, i, ws, out) ==       \* ws: writer state, out: <<envelope stream, content stream>>
  IF i > Len(writes) THEN out
  ELSE LET r == Wr!WWrite(ws, out[1], ToEnv(writes[i]))
           new == SubSeq(r.out, Len(out[1]) + 1, Len(r.out))
           cont == [k \in 1..Len(new) |-> IF new[k].k \in {"SE", "GE", "IEA"} THEN SegOf(new[k].k, <<new[k].cnt, new[k].id>>) ELSE writes[i]]
       IN Through(writes, i + 1, r.st, <<r.out, out[2] \o cont>>)
Ack999(t) == Through(Visit999(t).writes, 1, Ev!EnvInit, <<<<>>, <<>>>>)[2]
=============================================================================
