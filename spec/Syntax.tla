------------------------------- MODULE Syntax -------------------------------
(* C14, definition layer.  X12 relational conditions ("syntax notes") of a      *)
(* segment, written from the wording of the standard / the property text and    *)
(* NOT from pyx12's counting loops (those are transcribed in SyntaxImpl).        *)
(*                                                                              *)
(*   note text  : one letter out of P R E C L followed by two or more two-digit *)
(*                element positions, e.g. "P0304", "R020304", "C0102"; in a map  *)
(*                it is the text of a <syntax> element of the segment, white     *)
(*                space around it not counted; every note so written binds the   *)
(*                segment (T_Syntax: a note of the XML that the loaded segment   *)
(*                node does not enforce is rejected as note_not_loaded)          *)
(*   presence   : an element is present iff it carries a non-empty value; an    *)
(*                element at a position beyond the segment's length is absent   *)
(*   P paired            violated iff some but not all mentioned are present    *)
(*   R required          violated iff none is present                           *)
(*   E exclusion         violated iff more than one is present                  *)
(*   C conditional       violated iff the first is present and any other absent *)
(*   L list conditional  violated iff the first is present and all others absent*)
(*   error code : "10" (exclusion condition violated) for E,                    *)
(*                "2"  (conditional required element missing) otherwise         *)
EXTENDS Naturals, Sequences, FiniteSets, TLC

Types == {"P", "R", "E", "C", "L"}
Range(s) == {s[i] : i \in DOMAIN s}

(* `present` is the set of positions that carry a non-empty value *)
IsPresent(p, present, segLen) == p <= segLen /\ p \in present

Violated(type, positions, present, segLen) ==
  LET S      == Range(positions)
      here   == {p \in S : IsPresent(p, present, segLen)}
      first  == positions[1]
      others == {positions[i] : i \in 2..Len(positions)}
  IN CASE type = "P" -> here # {} /\ here # S
       [] type = "R" -> here = {}
       [] type = "E" -> Cardinality(here) > 1
       [] type = "C" -> first \in here /\ (\E q \in others : q \notin here)
       [] type = "L" -> first \in here /\ (\A q \in others : q \notin here)

ErrCode(type) == IF type = "E" THEN "10" ELSE "2"
(* the element-level error of a violated note is reported on one of the elements the note mentions *)
ErrPosOK(positions, p) == p \in Range(positions)

(* ------------------------------------------------------------------ note text *)
Ch(s, i) == SubSeq(s, i, i)
DigitVal(c) == CASE c = "0" -> 0 [] c = "1" -> 1 [] c = "2" -> 2 [] c = "3" -> 3 [] c = "4" -> 4
                 [] c = "5" -> 5 [] c = "6" -> 6 [] c = "7" -> 7 [] c = "8" -> 8 [] c = "9" -> 9
                 [] OTHER -> 0 - 1
(* the same sequence as an explicit tuple (TLC would otherwise re-evaluate the function expression on every access) *)
RECURSIVE ConcreteFrom(_, _)
ConcreteFrom(f, i) == IF i > Len(f) THEN <<>> ELSE <<f[i]>> \o ConcreteFrom(f, i + 1)
Concrete(f) == ConcreteFrom(f, 1)
NoNote == [ok |-> FALSE, type |-> "", pos |-> <<>>]
(* a well-formed note: letter, then >= 2 two-digit positions >= 1; anything else is not a note (ok = FALSE) *)
SplitNote(s) ==
  LET n == Len(s)
      k == (n - 1) \div 2
      num(i) == 10 * DigitVal(Ch(s, 2 * i)) + DigitVal(Ch(s, 2 * i + 1))
  IN IF /\ n >= 5
        /\ (n - 1) % 2 = 0
        /\ Ch(s, 1) \in Types
        /\ \A j \in 2..n : DigitVal(Ch(s, j)) >= 0
        /\ \A i \in 1..k : num(i) >= 1
     THEN [ok |-> TRUE, type |-> Ch(s, 1), pos |-> Concrete([i \in 1..k |-> num(i)])]
     ELSE NoNote

Two(n) == IF n < 10 THEN "0" \o ToString(n) ELSE ToString(n)
RECURSIVE JoinPos(_)
JoinPos(pos) == IF pos = <<>> THEN "" ELSE Two(Head(pos)) \o JoinPos(Tail(pos))
JoinNote(type, pos) == type \o JoinPos(pos)
=============================================================================
