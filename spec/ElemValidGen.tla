---------------------------- MODULE ElemValidGen ----------------------------
(* C15, generator (spec -> code).  Two steps build one case:                      *)
(*   start -> a definition class is chosen                                        *)
(*     element  : usage x (data type, min, max) x code list kind (none, inline,   *)
(*                external, both) x pattern (none, always matching, never         *)
(*                matching) x version (ISA12) - the version only for text types   *)
(*     composite: usage x usages of its two components (an ID 2..3 with an inline *)
(*                list, an AN 1..3)                                               *)
(*   def   -> a value of the catalogue of that class and a setting (character set,*)
(*            exclusion of the external set, type list selected by a qualifier)   *)
(* Every state of phase "case" is one case; TLC visits all of them, checks the    *)
(* model-level laws and emits the case with the broken constraints, the implied   *)
(* codes and the list of admissible reports the definition (ElemValid) states.    *)
(* The replayer builds the definitions as a real pyx12 map (map, dataele.xml and  *)
(* codes.xml written to scratch, loaded by load_map_file) and calls is_valid of    *)
(* the real nodes.                                                                *)
EXTENDS ElemValidImpl, Json
CONSTANTS DoEmit
VARIABLES ph, d, v, st
vars == <<ph, d, v, st>>

Usages == {"R", "S", "N"}
Shapes == {<<"ID", 3, 3>>, <<"ID", 2, 4>>, <<"AN", 3, 3>>, <<"AN", 2, 4>>, <<"AN", 1, 35>>,
           <<"N0", 3, 3>>, <<"N0", 2, 4>>, <<"N2", 2, 4>>, <<"R", 3, 3>>, <<"R", 2, 4>>,
           <<"DT", 8, 8>>, <<"DT", 6, 8>>, <<"D8", 8, 8>>, <<"D6", 6, 6>>, <<"RD8", 17, 17>>,
           <<"TM", 4, 4>>, <<"TM", 4, 8>>}
CodeKinds == {"none", "inline", "ext", "both"}
RxKinds == {"none", "always", "never"}

(* three values of each type that fit every length shape of the type: the inline code, the member *)
(* of the external set, and a value in neither                                                    *)
Trio(t) == CASE t \in {"ID", "AN"} -> <<"ABC", "DEF", "GHI">>
             [] NumericType(t) -> <<"123", "456", "789">>
             [] t \in {"DT", "D8"} -> <<"20240229", "20240301", "20240302">>
             [] t = "D6" -> <<"240229", "240301", "240302">>
             [] t = "RD8" -> <<"20240101-20240229", "20240101-20240301", "20240101-20240302">>
             [] t = "TM" -> <<"1230", "1231", "1232">>

RECURSIVE Rep(_, _)
Rep(c, n) == IF n <= 0 THEN "" ELSE Rep(c, n - 1) \o c
Unit(t) == IF t \in {"ID", "AN"} THEN "A" ELSE "1"

ElemDef(u, sh, ck, rk, icvn) ==
  [usage |-> u, dtype |-> sh[1], min |-> sh[2], max |-> sh[3],
   codes |-> IF ck \in {"inline", "both"} THEN <<Trio(sh[1])[1]>> ELSE <<>>,
   hasExt |-> ck \in {"ext", "both"}, hasRx |-> rk # "none", inComp |-> FALSE, seq |-> 1, pusage |-> "", icvn |-> icvn,
   ck |-> ck, rk |-> rk]

Qualified(sh) == sh = <<"AN", 1, 35>>
ElemDefs == {ElemDef(u, sh, ck, rk, icvn) : u \in Usages, sh \in Shapes, ck \in CodeKinds, rk \in RxKinds, icvn \in {"00401", "00501"}}
GoodDefs == {x \in ElemDefs : /\ (x.icvn = "00501" => TextType(x.dtype))
                              /\ (Qualified(<<x.dtype, x.min, x.max>>) => x.ck = "none" /\ x.rk = "none" /\ x.icvn = "00401")}

(* ------------------------------------------------------------- value catalogue -- *)
LengthForms(t, mn, mx) == {Rep(Unit(t), n) : n \in {mn - 1, mn, mx, mx + 1}}
BlankForms(t, mn, mx) == {Rep(Unit(t), mn) \o " ", Rep(Unit(t), mn - 1) \o " ", Rep(Unit(t), mx) \o " ", " " \o Rep(Unit(t), mn - 1),
                          Trio(t)[1] \o " ", " ", Rep(" ", mn)}
CtrlForms(t, mn, mx) == {Rep(Unit(t), mn - 1) \o "\n", "\t" \o Rep(Unit(t), mx), Rep(Unit(t), mn) \o "\r"}
CharForms(t, mn, mx) == {Rep("a", mn), Rep(Unit(t), mn - 1) \o "^", Rep(Unit(t), mn - 1) \o "~", Rep(Unit(t), mn - 1) \o "#",
                         Rep(Unit(t), mn - 1) \o "\"", Rep(Unit(t), mn - 1) \o "*"}
NumForms(t, mn, mx) == {"-" \o Rep("1", mx), "-" \o Rep("1", mx + 1), "-" \o Rep("1", mn - 1), "1." \o Rep("5", mx - 1), "1." \o Rep("5", mx),
                        "-1." \o Rep("5", mx - 1), "." \o Rep("5", mn), "-." \o Rep("5", mx), "1.", "-", ".", "1-1", "1A1", "1.2.3", "+12", "1e2", "--12"}
DateForms == {"20240230", "20230229", "17991231", "18000101", "2024022A", "2024022", "240229", "241301", "202402291230", "202402292400",
              "20240101-20240229", "20240101-20230229", "2024010120240229", "20240101--2024022"}
(* ranges whose halves have every length a date notation can have (6, 8, 12) or are empty: only 8-8 is a range *)
RangeHalf(n) == CASE n = 6 -> <<"240101", "240229">> [] n = 8 -> <<"20240101", "20240229">>
                  [] n = 12 -> <<"202401011230", "202402291230">> [] OTHER -> <<"", "">>
RangeForms == {RangeHalf(a)[1] \o "-" \o RangeHalf(b)[2] : a \in {0, 6, 8, 12}, b \in {0, 6, 8, 12}}
TimeForms == {"2359", "2400", "1260", "123059", "123060", "12305", "1230599", "12305999", "123059999", "12A0"}

Catalogue(x) ==
  LET t == x.dtype  mn == x.min  mx == x.max IN
  {""} \cup {Trio(t)[1], Trio(t)[2], Trio(t)[3]}
  \cup LengthForms(t, mn, mx) \cup BlankForms(t, mn, mx) \cup CtrlForms(t, mn, mx) \cup CharForms(t, mn, mx)
  \cup (IF NumericType(t) THEN NumForms(t, mn, mx) ELSE {})
  \cup (IF t \in DateTypes \/ Qualified(<<t, mn, mx>>) THEN DateForms ELSE {})
  \cup (IF t = "TM" \/ Qualified(<<t, mn, mx>>) THEN TimeForms ELSE {})
  \cup (IF Qualified(<<t, mn, mx>>) THEN RangeForms ELSE {})

TypeLists(x) == IF Qualified(<<x.dtype, x.min, x.max>>) THEN {<<>>, <<"D8">>, <<"RD8">>, <<"TM">>, <<"DT">>, <<"D6">>, <<"D8", "RD8">>, <<"D8", "TM">>}
                ELSE {<<>>}
Settings(x) == {[cs |-> c, excl |-> e, tl |-> tl] : c \in {"B", "E"}, e \in (IF x.hasExt THEN BOOLEAN ELSE {FALSE}), tl \in TypeLists(x)}

(* code point of a 1-character string of the generator's alphabet *)
CpOf(c) == IF c = "\n" THEN 10 ELSE IF c = "\t" THEN 9 ELSE IF c = "\r" THEN 13 ELSE CHOOSE k \in 32..126 : AsciiCh(k) = c
Cps(s) == [k \in 1..Len(s) |-> CpOf(Ch(s, k))]
ElemValue(x, s) == [absent |-> FALSE, isComp |-> FALSE, s |-> s, cp |-> Cps(s), ext |-> s = Trio(x.dtype)[2], rx |-> x.rk = "always"]

(* ------------------------------------------------------------------ composites -- *)
Kid1(u, pu) == [usage |-> u, dtype |-> "ID", min |-> 2, max |-> 3, codes |-> <<"AB">>, hasExt |-> FALSE, hasRx |-> FALSE,
                inComp |-> TRUE, seq |-> 1, pusage |-> pu, icvn |-> "00401"]
Kid2(u, pu) == [usage |-> u, dtype |-> "AN", min |-> 1, max |-> 3, codes |-> <<>>, hasExt |-> FALSE, hasRx |-> FALSE,
                inComp |-> TRUE, seq |-> 2, pusage |-> pu, icvn |-> "00401"]
CompDefs == {[usage |-> u, kids |-> <<Kid1(a, u), Kid2(b, u)>>] : u \in Usages, a \in Usages, b \in Usages}
CompTexts(k) == IF k = 1 THEN {"", "AB", "QQ", "ABCD"} ELSE IF k = 2 THEN {"", "A", "AAAA", "A "} ELSE {"", "X"}
CompLists == {<<a>> : a \in CompTexts(1)} \cup {<<a, b>> : a \in CompTexts(1), b \in CompTexts(2)}
             \cup {<<a, b, c>> : a \in CompTexts(1), b \in CompTexts(2), c \in CompTexts(3)}
PlainValue(s) == [absent |-> FALSE, isComp |-> FALSE, s |-> s, cp |-> Cps(s), ext |-> FALSE, rx |-> FALSE]
CompValues == {[absent |-> TRUE, comps |-> <<>>]} \cup {[absent |-> FALSE, comps |-> [k \in 1..Len(l) |-> PlainValue(l[k])]] : l \in CompLists}

(* ---------------------------------------------------------------- state machine -- *)
None == [none |-> TRUE]
Init == ph = "start" /\ d = None /\ v = None /\ st = None
ChooseElem == ph = "start" /\ \E x \in GoodDefs : d' = x /\ ph' = "edef" /\ UNCHANGED <<v, st>>
ChooseComp == ph = "start" /\ \E x \in CompDefs : d' = x /\ ph' = "cdef" /\ UNCHANGED <<v, st>>
ElemCase == /\ ph = "edef"
            /\ \E s \in Catalogue(d), S \in Settings(d) : v' = ElemValue(d, s) /\ st' = S
            /\ ph' = "ecase" /\ UNCHANGED d
AbsentCase == /\ ph = "edef"
              /\ \E S \in {x \in Settings(d) : x.tl = <<>>}, c \in BOOLEAN :
                    v' = [AbsentValue EXCEPT !.absent = ~c, !.isComp = c, !.s = IF c THEN "A:B" ELSE ""] /\ st' = S
              /\ ph' = "ecase" /\ UNCHANGED d
CompCase == /\ ph = "cdef"
            /\ \E x \in CompValues, c \in {"B", "E"} : v' = x /\ st' = [cs |-> c, excl |-> <<FALSE, FALSE>>]
            /\ ph' = "ccase" /\ UNCHANGED d
Next == ChooseElem \/ ChooseComp \/ ElemCase \/ AbsentCase \/ CompCase
Spec == Init /\ [][Next]_vars

IsE == ph = "ecase"
IsC == ph = "ccase"
B == IF IsE THEN Broken(d, v, st) ELSE IF IsC THEN {<<b[1] \o "@" \o ToString(b[3]), b[2]>> : b \in CompBroken(d, v, st)} ELSE {}

(* ---- model-level laws (a failure here is a modelling error, never an alarm about pyx12) ---- *)
Sanity == ph = "start" => DefSanity /\ DefSanityEV
(* the transcribed algorithm of pyx12 is admissible for the definition ... *)
ImplAdmissibleElem == IsE => Clause(Broken(d, v, st), ImplElem(d, v, st)) = ""
(* ... for composites too *)
ImplAdmissibleComp == IsC => Clause(CompBroken(d, v, st), ImplComp(d, v, st)) = ""
(* one broken constraint: the algorithm reports exactly its code *)
ImplExactOnSingle == IsE /\ Cardinality(Broken(d, v, st)) = 1 => SeqSet(ImplElem(d, v, st).codes) = Implied(Broken(d, v, st))
(* the algorithm reports EVERY implied code, except what a composite value or a control character masks (ElemValid!Complete) *)
ImplComplete == IsE => Complete(Broken(d, v, st), SeqSet(ImplElem(d, v, st).codes))
(* laws of the definition itself *)
DefLaws == IsE =>
   LET Bk == Broken(d, v, st) IN
   /\ (Empty(v) => Bk \subseteq {<<"missing", "1">>})
   /\ (d.usage = "N" /\ ~Empty(v) => <<"not_used", "10">> \in Bk)
   /\ ~(<<"too_short", "4">> \in Bk /\ <<"too_long", "5">> \in Bk)
   /\ (<<"control_char", "6">> \in Bk /\ d.dtype \in ClaimedTypes => \E b \in Bk : b[1] = "type")
   /\ (st.excl => <<"code", "7">> \notin Bk)
   /\ (Bk = {} /\ ~Empty(v) => d.usage # "N" /\ CountedLen(d.dtype, v.cp) \in d.min..d.max)

(* every non-empty subset of the implied codes, with result false; nothing and true when nothing is broken *)
Reports == IF B = {} THEN {[res |-> "true", codes |-> {}]}
           ELSE {[res |-> "false", codes |-> c] : c \in (SUBSET {b[2] : b \in B}) \ {{}}}
(* the definition classes themselves: the replayer writes them as a pyx12 map *)
EmitDef == (DoEmit /\ ph = "edef") =>
   PrintT(<<"DEF", ToJson([u |-> d.usage, t |-> d.dtype, mn |-> d.min, mx |-> d.max, ck |-> d.ck, rk |-> d.rk, iv |-> d.icvn,
                           codes |-> d.codes, member |-> Trio(d.dtype)[2]])>>)
EmitCompDef == (DoEmit /\ ph = "cdef") =>
   PrintT(<<"CDEF", ToJson([u |-> d.usage,
                            kids |-> [j \in 1..Len(d.kids) |-> [u |-> d.kids[j].usage, t |-> d.kids[j].dtype, mn |-> d.kids[j].min,
                                                                mx |-> d.kids[j].max, codes |-> d.kids[j].codes]]])>>)
Ab == IF v.absent THEN 1 ELSE IF IsE /\ v.isComp THEN 2 ELSE 0
Emit == (DoEmit /\ (IsE \/ IsC)) =>
   PrintT(<<"CASE", ToJson(
      IF IsE THEN [k |-> "e", u |-> d.usage, t |-> d.dtype, mn |-> d.min, mx |-> d.max, ck |-> d.ck, rk |-> d.rk, iv |-> d.icvn,
                   s |-> v.s, ab |-> Ab, ext |-> v.ext, rx |-> v.rx, cs |-> st.cs, ex |-> st.excl, tl |-> st.tl,
                   br |-> {b[1] : b \in B}, ok |-> {r.codes : r \in Reports}]
      ELSE [k |-> "c", u |-> d.usage, ku |-> <<d.kids[1].usage, d.kids[2].usage>>, ab |-> Ab,
            l |-> [j \in 1..Len(v.comps) |-> v.comps[j].s], cs |-> st.cs,
            br |-> {b[1] : b \in B}, ok |-> {r.codes : r \in Reports}])>>)
=============================================================================
