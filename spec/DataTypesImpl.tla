---------------------------- MODULE DataTypesImpl ----------------------------
(* C13, implementation-shaped layer: a transcription of the algorithm of         *)
(* pyx12/validation.py at the pinned commit (greedy regex prefix + "matched the  *)
(* whole value", "search for a character outside the class", length ladder,      *)
(* lexicographic comparison of slices with '23' / '59', tuple unpacking of       *)
(* split('-'), dispatcher order).  It is NOT the oracle.  TLC compares it with    *)
(* the definition (DataTypes) over the whole state space of DataTypesGen:         *)
(*                                                                                *)
(*   ImplVsDef : the algorithm and the definition give the same verdict on every  *)
(*               generated value and type, and the algorithm does not raise,      *)
(*               EXCEPT on three precisely characterised classes                  *)
(*                 R   : "" and "-"              (accepted, definition: no digit) *)
(*                 TM  : fewer than 4 digits     (accepted when the slices compare*)
(*                                                not greater than '23' / '59')   *)
(*                 RD8 : two or more hyphens     (ValueError from the unpacking)  *)
(*                                                                                *)
(* This is a model-level theorem about the transcribed algorithm: it explains     *)
(* which deviations of the real code are expected at the pinned commit and shows  *)
(* that there is no fourth class inside the bounds.  The binding to the real code *)
(* is done by replay / trace validation against the definition, not against this  *)
(* module.                                                                        *)
EXTENDS DataTypesGen

(* ---- Python slices and string order on digit strings ---- *)
Slice(x, a, b) == SubSeq(x, a + 1, IF b > Len(x) THEN Len(x) ELSE b)      \* x[a:b]
RECURSIVE LexGt(_, _)
(* x > y in Python's string order, for strings of digits *)
LexGt(x, y) == IF Len(x) = 0 THEN FALSE
               ELSE IF Len(y) = 0 THEN TRUE
               ELSE IF Ch(x, 1) = Ch(y, 1) THEN LexGt(From(x, 2), From(y, 2))
               ELSE DigitVal(Ch(x, 1)) > DigitVal(Ch(y, 1))

(* ---- greedy regular-expression prefixes ---- *)
RECURSIVE DigitRun(_, _)
DigitRun(x, from) == IF from <= Len(x) /\ Ch(x, from) \in Digit THEN 1 + DigitRun(x, from + 1) ELSE 0
Sign(x) == IF Len(x) >= 1 /\ Ch(x, 1) = "-" THEN 1 ELSE 0
(* rec_N = ^-?[0-9]+ : matches a prefix iff at least one digit follows the optional minus *)
HasMatchN(x) == DigitRun(x, Sign(x) + 1) > 0
MatchN(x) == Sign(x) + DigitRun(x, Sign(x) + 1)
(* rec_R = ^-?[0-9]*(\.[0-9]+)? : always matches, possibly the empty prefix *)
MatchR(x) == LET k == Sign(x)
                 d == DigitRun(x, k + 1)
                 p == k + d + 1
                 f == IF p <= Len(x) /\ Ch(x, p) = "." THEN DigitRun(x, p + 1) ELSE 0
             IN k + d + (IF f > 0 THEN 1 + f ELSE 0)
ImplN(x) == HasMatchN(x) /\ MatchN(x) = Len(x)
ImplR(x) == MatchR(x) = Len(x)
HasOutside(x, S) == \E j \in 1..Len(x) : Ch(x, j) \notin S
ImplChars(x, cs, icvn) == ~HasOutside(x, IF cs = "E" THEN (IF icvn = "00501" THEN Ext5010Chars ELSE ExtChars) ELSE BasicChars)

(* ---- is_valid_time ---- *)
ImplTime(x) ==
  IF HasOutside(x, Digit) THEN FALSE
  ELSE IF LexGt(Slice(x, 0, 2), "23") \/ LexGt(Slice(x, 2, 4), "59") THEN FALSE
  ELSE IF Len(x) > 4 THEN
       (IF Len(x) < 6 THEN FALSE
        ELSE IF LexGt(Slice(x, 4, 6), "59") THEN FALSE
        ELSE IF Len(x) > 8 THEN FALSE
        ELSE TRUE)
  ELSE TRUE

(* ---- is_valid_date ---- *)
ImplLeap(y) == (y % 4 = 0) /\ ~((y % 100 = 0) /\ (y % 400 # 0))
ImplDate(t, x) ==
  IF t = "D8" /\ Len(x) # 8 THEN FALSE
  ELSE IF t = "D6" /\ Len(x) # 6 THEN FALSE
  ELSE IF HasOutside(x, Digit) THEN FALSE
  ELSE IF Len(x) \notin {6, 8, 12} THEN FALSE
  ELSE LET v == IF Len(x) = 6 THEN (IF NumVal(Slice(x, 0, 2)) < 50 THEN "20" \o x ELSE "19" \o x) ELSE x
           year == NumVal(Slice(v, 0, 4))
           month == NumVal(Slice(v, 4, 6))
           day == NumVal(Slice(v, 6, 8))
       IN IF year < 1800 THEN FALSE
          ELSE IF month < 1 \/ month > 12 THEN FALSE
          ELSE IF month \in {1, 3, 5, 7, 8, 10, 12} /\ (day < 1 \/ day > 31) THEN FALSE
          ELSE IF month \in {4, 6, 9, 11} /\ (day < 1 \/ day > 30) THEN FALSE
          ELSE IF month = 2 /\ ImplLeap(year) /\ (day < 1 \/ day > 29) THEN FALSE
          ELSE IF month = 2 /\ ~ImplLeap(year) /\ (day < 1 \/ day > 28) THEN FALSE
          ELSE IF Len(v) = 12 /\ ~ImplTime(Slice(v, 8, 12)) THEN FALSE
          ELSE TRUE

(* ---- dispatcher: "T" accepted, "F" rejected, "X" raised ---- *)
Impl(x, t, cs, icvn) ==
  LET b(c) == IF c THEN "T" ELSE "F" IN
  IF Len(t) >= 1 /\ Ch(t, 1) = "N" THEN b(ImplN(x))
  ELSE IF t = "R" THEN b(ImplR(x))
  ELSE IF t \in {"ID", "AN"} THEN b(ImplChars(x, cs, icvn))
  ELSE IF t = "RD8" THEN
       (IF Positions(x, "-") = {} THEN "F"
        ELSE IF Cardinality(Positions(x, "-")) # 1 THEN "X"      \* (start, end) = val.split('-')
        ELSE LET p == CHOOSE j \in Positions(x, "-") : TRUE IN
             b(ImplDate("D8", SubSeq(x, 1, p - 1)) /\ ImplDate("D8", From(x, p + 1))))
  ELSE IF t \in {"DT", "D8", "D6"} THEN b(ImplDate(t, x))
  ELSE IF t = "TM" THEN b(ImplTime(x))
  ELSE IF t = "B" THEN "T"
  ELSE "F"

Def(x, t, cs, icvn) == IF Accept(x, t, cs, icvn) THEN "T" ELSE "F"

(* the three classes on which the transcribed algorithm is known to leave the definition, *)
(* each with the exact behaviour of the algorithm inside the class                          *)
Deviation(x, t, cs, icvn) ==
  \/ t = "R" /\ x \in {"", "-"} /\ Impl(x, t, cs, icvn) = "T"
  \/ t = "TM" /\ Len(x) < 4 /\ AllDigits(x) /\ Impl(x, t, cs, icvn) = "T"
       /\ ~LexGt(Slice(x, 0, 2), "23") /\ ~LexGt(Slice(x, 2, 4), "59")
  \/ t = "RD8" /\ Cardinality(Positions(x, "-")) >= 2 /\ Impl(x, t, cs, icvn) = "X"

TypesChecked == {"N", "N2", "R", "ID", "AN", "DT", "D6", "D8", "RD8", "TM"}
SettingsFor(t) == IF t \in {"ID", "AN"} THEN Charsets \X Versions ELSE {<<"B", "00401">>}   \* other types ignore the setting
ImplVsDef ==
  \A t \in TypesChecked : \A cv \in SettingsFor(t) :
     (Claimed(s, t) /\ Impl(s, t, cv[1], cv[2]) # Def(s, t, cv[1], cv[2])) => Deviation(s, t, cv[1], cv[2])
(* and the classes are not empty words: each of them is really entered *)
DeviationsReached ==
  /\ Deviation("", "R", "B", "00401") /\ Deviation("-", "R", "B", "00401")
  /\ Deviation("", "TM", "B", "00401") /\ Deviation("123", "TM", "B", "00401") /\ ~Deviation("126", "TM", "B", "00401")
  /\ Deviation("2024-01-01", "RD8", "B", "00401")
ImplSanity == (ph = "free" /\ s = "") => DeviationsReached
=============================================================================
