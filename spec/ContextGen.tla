------------------------------ MODULE ContextGen ------------------------------
(* C09 at model level: an environment writes every located-segment sequence a walk of a small loop tree can produce   *)
(* (the shapes the property quantifies over: loops that repeat back to back, loops that end their parent or the file,  *)
(* loops nested in repeating parents, body segments after a child loop) together with the pop / push lists the walker  *)
(* hands over; TLC checks, for every requested loop id and none, that the reader loop as coded (ImplGroups) yields      *)
(* exactly Groups and that the _add_segment transcription (ImplAddresses) places every segment at its Address.         *)
(*                                                                                                                      *)
(* Loop tree:  P > { L > { A > { C }, B }, Q }      every loop begins with a segment of its own ("first").             *)
EXTENDS Context
CONSTANT MaxLen
Kids(p) == CASE p = <<>> -> {"P"} [] p = <<"P">> -> {"L", "Q"} [] p = <<"P", "L">> -> {"A", "B"} [] p = <<"P", "L", "A">> -> {"C"} [] OTHER -> {}
LoopIds == {"P", "L", "Q", "A", "B", "C"}
VARIABLES src, cur        \* cur: loop path of the last segment
Rev(q) == [j \in 1..Len(q) |-> q[Len(q) + 1 - j]]
(* what may come next from path cur: a body segment of any enclosing open loop (popping the deeper ones), the first      *)
(* segment of a child loop of any enclosing open loop, or the first segment of the innermost loop again (repeat)         *)
Steps(c) ==
  {[path |-> SubSeq(c, 1, d), first |-> FALSE, pops |-> Rev(SubSeq(c, d + 1, Len(c))), pushes |-> <<>>] : d \in 1..Len(c)}
  \cup UNION {{[path |-> Append(SubSeq(c, 1, d), x), first |-> TRUE,
                \* the walker reports a repeat of the innermost loop as leaving and entering it
                pops |-> Rev(SubSeq(c, d + 1, Len(c))), pushes |-> <<x>>] : x \in Kids(SubSeq(c, 1, d))} : d \in 0..Len(c)}
Init == src = <<>> /\ cur = <<>>
Next == /\ Len(src) < MaxLen
        /\ \E st \in Steps(cur) : src' = Append(src, st) /\ cur' = st.path
Spec == Init /\ [][Next]_<<src, cur>>

Requested == LoopIds \cup {""}
LoopAsCoded == \A L \in Requested : LET r == ImplGroups(src, L) IN ~r.raised /\ r.ys = Groups(src, L)
Placement == \A L \in LoopIds :
   LET g == Groups(src, L) IN
   \A k \in 1..Len(g) : g[k].kind = "tree" =>
        LET run == [j \in 1..Len(g[k].idx) |-> src[g[k].idx[j]]] IN ImplAddresses(run, L) = Addresses(run, L)
(* the definition itself: yields partition the source in order; a tree holds one instance of the requested loop *)
Partition == \A L \in Requested :
   LET g == Groups(src, L)
       F[k \in 0..Len(g)] == IF k = 0 THEN <<>> ELSE F[k - 1] \o g[k].idx
   IN /\ F[Len(g)] = [j \in 1..Len(src) |-> j]
      /\ \A k \in 1..Len(g) : g[k].kind = "tree" =>
            /\ StartsTree(src[g[k].idx[1]], L)
            /\ \A j \in 2..Len(g[k].idx) : InTree(src[g[k].idx[j]], L) /\ ~StartsTree(src[g[k].idx[j]], L)
=============================================================================
