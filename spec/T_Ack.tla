-------------------------------- MODULE T_Ack --------------------------------
(* Trace validation for C05 / C06: one record per execution of the real          *)
(* pyx12.x12n_document.x12n_document (see lib/ackcommon.py: run_doc()).           *)
(*   hist     what was received (independent pass of the real X12Reader)          *)
(*   calls    every call made on the error handler, stamped with the input        *)
(*            segment being processed                                             *)
(*   tree     the error tree as walked before the visitor ran (nested projection) *)
(*   verdict, valid, errcount                                                     *)
(*   ack      the 997/999 parsed with its own delimiters; written: was any text   *)
(*   reread   errors of the real X12Reader on the acknowledgement                 *)
(*   reval    x12n_document on the acknowledgement: map selected, verdict, errors *)
(* Two layers per record:                                                         *)
(*   definition (AckDef: C05Fails / C06Fails)  -> a failing clause is a VIOLATION *)
(*   implementation-shaped (ErrTree replay of the calls, Ack997 / Ack999 on the   *)
(*   replayed tree)                            -> a mismatch is specification drift *)
EXTENDS AckVisit, AckDef, Json, IOUtils
A7 == INSTANCE Ack997
A9 == INSTANCE Ack999
VARIABLES ti, rej, drift, stats
vars == <<ti, rej, drift, stats>>
Traces == JsonDeserialize(IOEnv.TRACE_FILE)
Prop == IOEnv.PROP            \* "C05" or "C06": which clauses are evaluated

(* volatile values (clock, random group control number) are masked on both sides *)
MaskEl(seg, S) == [seg EXCEPT !.e = [i \in 1..Len(seg.e) |-> IF i \in S THEN <<"#">> ELSE seg.e[i]]]
Mask(seg, ver) == CASE seg.id = "ISA" -> MaskEl(seg, {9, 10, 13})
                    [] seg.id = "GS" -> MaskEl(seg, IF ver = "5010" THEN {4, 5, 6} ELSE {4, 5})
                    [] seg.id = "IEA" -> MaskEl(seg, {2})
                    [] seg.id = "GE" -> MaskEl(seg, IF ver = "5010" THEN {2} ELSE {})
                    [] seg.id = "TA1" -> [seg EXCEPT !.e = SubSeq(seg.e, 1, 1)]
                    [] OTHER -> seg
MaskCode(seg) == IF seg.id \in {"AK3", "IK3"} THEN MaskEl(seg, {4})
                 ELSE IF seg.id \in {"AK5", "IK5", "AK9"} THEN [seg EXCEPT !.e = SubSeq(seg.e, 1, IF seg.id = "AK9" THEN 4 ELSE 1)] ELSE seg
Canon(ack, ver) == [i \in 1..Len(ack) |-> Mask(NormSeg(ack[i]), ver)]
SameAck(a, b, ver) == LET ca == Canon(a, ver)  cb == Canon(b, ver) IN
                      /\ Len(ca) = Len(cb)
                      /\ [i \in 1..Len(ca) |-> MaskCode(ca[i])] = [i \in 1..Len(cb) |-> MaskCode(cb[i])]
                      /\ {ca[i] : i \in 1..Len(ca)} \ {x \in {ca[i] : i \in 1..Len(ca)} : x.id \in {"AK5", "IK5", "AK9"}}
                         = {cb[i] : i \in 1..Len(cb)} \ {x \in {cb[i] : i \in 1..Len(cb)} : x.id \in {"AK5", "IK5", "AK9"}}
ModelAck(t, ver) == IF ver = "5010" THEN A9!Ack999(t) ELSE A7!Ack997(t)

Judge(r) ==
  LET rep == Reported(r.calls)
      completed == r.exc = ""
      ack == IF r.written THEN r.ack ELSE <<>>
  IN IF ~completed THEN {}
     ELSE IF Prop = "C05" THEN C05Fails(r.hist, rep, ack, r.verdict, r.ver, TruncatedInBlocks(ack))
     ELSE C06Fails(ack, r.ver, r.reread, r.reval, r.hist, rep)
Drift(r) ==
  LET t == Replay(TInit, r.calls, 1) IN
  IF r.exc # "" THEN (IF t.crashed THEN {} ELSE {"model_no_crash"})
  ELSE IF t.crashed THEN {"model_crash"}
  ELSE (IF Nested(t) # r.tree THEN {"tree"} ELSE {})
       \cup (IF ErrCount(t) # r.errcount THEN {"errcount"} ELSE {})
       \cup (IF r.verdict # (r.valid /\ ErrCount(t) = 0) THEN {"verdict"} ELSE {})
       \cup (IF r.written /\ r.ver \in {"4010", "5010"} /\ ~SameAck(Reparse(ModelAck(t, r.ver)), r.ack, r.ver) THEN {"ack"} ELSE {})

Init == ti = 1 /\ rej = {} /\ drift = {} /\ stats = [judged |-> 0, skipped |-> 0, acks |-> 0]
Step == /\ ti <= Len(Traces)
        /\ LET r == Traces[ti]
               j == Judge(r)
               d == Drift(r)
           IN /\ rej' = rej \cup {<<r.id, f.c, f.d1, f.d2, f.d3>> : f \in j}
              /\ drift' = IF Cardinality(drift) >= 40 THEN drift ELSE drift \cup {<<r.id, x>> : x \in d}
              /\ stats' = [judged |-> stats.judged + (IF r.exc = "" THEN 1 ELSE 0), skipped |-> stats.skipped + (IF r.exc = "" THEN 0 ELSE 1),
                           acks |-> stats.acks + (IF r.written THEN 1 ELSE 0)]
              /\ ti' = ti + 1
Spec == Init /\ [][Step]_vars
Report == (ti > Len(Traces)) => PrintT(<<"REJECTS", ToJson([rej |-> rej, drift |-> drift, stats |-> stats])>>)
=============================================================================
