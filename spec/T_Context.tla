------------------------------ MODULE T_Context ------------------------------
(* Trace validation for C09: one record per (document, requested loop id):       *)
(*  [id, loop, src: <<[id, path, first, segpos, line]>> (the located source        *)
(*   segments: node matched per segment from an independent validation run),       *)
(*   yields: <<[kind ("seg" | "tree"), root (loop id of a tree), segs:             *)
(*   <<[id, text, segpos, line, addr (chain of <<loop id, instance>> below the     *)
(*   root, read off the yielded tree)]>>]>>, exc]                                   *)
EXTENDS Context, Json, IOUtils
Recs == JsonDeserialize(IOEnv.TRACE_FILE)
VARIABLES i, rej
Flat(ys) == LET F[k \in 0..Len(ys)] == IF k = 0 THEN <<>> ELSE F[k - 1] \o ys[k].segs IN F[Len(ys)]
Clause(r) ==
  LET g == Groups(r.src, r.loop)
      fl == Flat(r.yields)
  IN IF r.exc # "" THEN "exception"
     ELSE IF Len(fl) # Len(r.src) THEN (IF Len(fl) < Len(r.src) THEN "segments_lost" ELSE "segments_duplicated")
     ELSE IF \E k \in 1..Len(fl) : fl[k].id # r.src[k].id \/ fl[k].text # r.src[k].text THEN "order_or_content"
     ELSE IF \E k \in 1..Len(fl) : fl[k].segpos # r.src[k].segpos \/ fl[k].line # r.src[k].line THEN "position_or_line"
     ELSE IF Len(r.yields) # Len(g) \/ \E k \in 1..Len(g) : r.yields[k].kind # g[k].kind \/ Len(r.yields[k].segs) # Len(g[k].idx) THEN "grouping"
     ELSE IF \E k \in 1..Len(g) : g[k].kind = "tree" /\ r.yields[k].root # r.loop THEN "tree_root"
     ELSE IF \E k \in 1..Len(g) : g[k].kind = "tree" /\
               LET run == [j \in 1..Len(g[k].idx) |-> r.src[g[k].idx[j]]]
                   ad == Addresses(run, r.loop)
               IN \E j \in 1..Len(run) : r.yields[k].segs[j].addr # ad[j] THEN "tree_shape"
     ELSE ""
(* implementation-shaped layer: the addresses the transcription of _add_segment computes from the walker's pop/push lists
   must be the observed ones; a difference is specification drift (reported, not a violation) *)
Drift(r) ==
  LET g == Groups(r.src, r.loop)
      ig == ImplGroups([k \in 1..Len(r.src) |-> [path |-> r.src[k].path, first |-> r.src[k].first]], r.loop) IN
  \* the reader loop as transcribed (ImplGroups) must yield what was observed: same kinds, same sizes, raise iff the code raised
  \/ (r.exc = "") # (~ig.raised)
  \/ (r.exc = "" /\ (Len(r.yields) # Len(ig.ys) \/ \E k \in 1..Len(ig.ys) : r.yields[k].kind # ig.ys[k].kind \/ Len(r.yields[k].segs) # Len(ig.ys[k].idx)))
  \/ (r.exc = "" /\ Len(r.yields) = Len(g) /\
      \E k \in 1..Len(g) : g[k].kind = "tree" /\ r.yields[k].kind = "tree" /\ Len(r.yields[k].segs) = Len(g[k].idx) /\
         LET run == [j \in 1..Len(g[k].idx) |-> r.src[g[k].idx[j]]]
             ad == ImplAddresses(run, r.loop)
         IN \E j \in 1..Len(run) : r.yields[k].segs[j].addr # ad[j])
Init == i = 1 /\ rej = {}
Step == /\ i <= Len(Recs)
        /\ LET c == Clause(Recs[i])
               withdrift == IF Drift(Recs[i]) THEN {<<Recs[i].id, "drift">>} ELSE {}
           IN rej' = (IF c = "" THEN rej ELSE rej \cup {<<Recs[i].id, c>>}) \cup withdrift
        /\ i' = i + 1
Spec == Init /\ [][Step]_<<i, rej>>
Report == (i > Len(Recs)) => PrintT(<<"REJECTS", ToJson([rej |-> rej])>>)
=============================================================================
