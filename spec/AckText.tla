------------------------------ MODULE AckText -------------------------------
(* Text level of an acknowledgement.  A segment is [id, e] with e a sequence of  *)
(* elements, an element a sequence of component strings (the shape produced by   *)
(* lib/ackcommon.py: parse_ack()).  Rendering follows pyx12.segment.Segment.      *)
(* format() with the acknowledgement's fixed delimiters ~ * : ; Reparse is what   *)
(* any reader makes of the rendered text: pieces between terminators, elements   *)
(* between separators.  Values are TLA+ strings; delimiters are found character  *)
(* by character.                                                                 *)
EXTENDS Naturals, Sequences, FiniteSets, TLC
LOCAL Env == INSTANCE Envelope

TERM == "~"   ELE == "*"   SUB == ":"   REP == "^"
RECURSIVE SplitFrom(_, _, _, _, _)
SplitFrom(s, c, i, cur, acc) == IF i > Len(s) THEN Append(acc, cur)
                                ELSE LET ch == SubSeq(s, i, i) IN
                                     IF ch = c THEN SplitFrom(s, c, i + 1, "", Append(acc, cur)) ELSE SplitFrom(s, c, i + 1, cur \o ch, acc)
SplitStr(s, c) == SplitFrom(s, c, 1, "", <<>>)
RECURSIVE JoinStr(_, _)
JoinStr(q, c) == IF q = <<>> THEN "" ELSE IF Len(q) = 1 THEN q[1] ELSE q[1] \o c \o JoinStr(Tail(q), c)
HasChar(s, c) == \E i \in 1..Len(s) : SubSeq(s, i, i) = c
RECURSIVE RStrip(_)
RStrip(s) == IF Len(s) > 0 /\ SubSeq(s, Len(s), Len(s)) = " " THEN RStrip(SubSeq(s, 1, Len(s) - 1)) ELSE s
RECURSIVE LStrip(_)
LStrip(s) == IF Len(s) > 0 /\ SubSeq(s, 1, 1) = " " THEN LStrip(SubSeq(s, 2, Len(s))) ELSE s
Strip(s) == LStrip(RStrip(s))
Pad4(n) == IF n < 10 THEN "000" \o ToString(n) ELSE IF n < 100 THEN "00" \o ToString(n) ELSE IF n < 1000 THEN "0" \o ToString(n) ELSE ToString(n)

(* accessors that never fail *)
El(seg, i) == IF i <= Len(seg.e) /\ Len(seg.e[i]) >= 1 THEN seg.e[i][1] ELSE ""
Comp(seg, i, j) == IF i <= Len(seg.e) /\ j <= Len(seg.e[i]) THEN seg.e[i][j] ELSE ""
S1(v) == << v >>                                   \* a simple element
SegOf(id, vals) == [id |-> id, e |-> [i \in 1..Len(vals) |-> S1(vals[i])]]

(* Segment.format(): trailing empty components / elements are not written *)
EmptyEl(el) == \A j \in 1..Len(el) : el[j] = ""
RECURSIVE TrimComps(_)
TrimComps(el) == IF el # <<>> /\ el[Len(el)] = "" THEN TrimComps(SubSeq(el, 1, Len(el) - 1)) ELSE el
RECURSIVE TrimEls(_)
TrimEls(e) == IF e # <<>> /\ EmptyEl(e[Len(e)]) THEN TrimEls(SubSeq(e, 1, Len(e) - 1)) ELSE e
NormEl(el) == LET c == TrimComps(el) IN IF c = <<>> THEN <<"">> ELSE c
NormSeg(seg) == [id |-> seg.id, e |-> LET q == TrimEls(seg.e) IN [i \in 1..Len(q) |-> NormEl(q[i])]]
RenderSeg(seg) == LET n == NormSeg(seg) IN
                  IF n.id = "ISA" THEN "ISA" \o ELE \o JoinStr([i \in 1..Len(n.e) |-> n.e[i][1]], ELE) \o TERM
                  ELSE n.id \o ELE \o JoinStr([i \in 1..Len(n.e) |-> JoinStr(n.e[i], SUB)], ELE) \o TERM
ParsePiece(p) == LET es == SplitStr(p, ELE) IN
                 [id |-> es[1], e |-> [i \in 1..(Len(es) - 1) |-> IF es[1] = "ISA" THEN <<es[i + 1]>> ELSE SplitStr(es[i + 1], SUB)]]
PiecesOf(text) == LET ps == SplitStr(text, TERM) IN SelectSeq(SubSeq(ps, 1, Len(ps) - 1), LAMBDA p : p # "")
RECURSIVE ReparseFrom(_, _)
ReparseFrom(ack, i) == IF i > Len(ack) THEN <<>>
                       ELSE LET ps == PiecesOf(RenderSeg(ack[i])) IN [k \in 1..Len(ps) |-> NormSeg(ParsePiece(ps[k]))] \o ReparseFrom(ack, i + 1)
Reparse(ack) == ReparseFrom(ack, 1)
NormAck(ack) == [i \in 1..Len(ack) |-> NormSeg(ack[i])]
(* the echo clause at text level: reading the rendered text gives back exactly the segments, elements and components written *)
TextPreserved(ack) == Reparse(ack) = NormAck(ack)

(* envelope view of an acknowledgement (records of module Envelope) *)
ToEnv(seg) == CASE seg.id = "ISA" -> Env!Seg("ISA", El(seg, 13), "", "", "")
                [] seg.id = "GS" -> Env!Seg("GS", El(seg, 6), "", "", "")
                [] seg.id = "ST" -> Env!Seg("ST", El(seg, 2), "", "", "")
                [] seg.id \in {"SE", "GE", "IEA"} -> Env!Seg(seg.id, El(seg, 2), El(seg, 1), "", "")
                [] OTHER -> Env!Seg("B", "", "", "", "")
EnvOf(ack) == [i \in 1..Len(ack) |-> ToEnv(ack[i])]
=============================================================================
