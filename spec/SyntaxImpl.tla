----------------------------- MODULE SyntaxImpl -----------------------------
(* C14, implementation-shaped layer: a transcription of the counting loops of   *)
(* pyx12.syntax.is_syntax_valid, of segment_if._split_syntax and of the syntax   *)
(* loop at the end of segment_if.is_valid.  A data segment is a sequence of      *)
(* element values ("" = empty); Segment.get_value beyond the end is None.        *)
(* SyntaxGen checks  ImplViolated = Violated (definition)  on every state.       *)
EXTENDS Syntax

None == "<None>"
GetValue(seg, s) == IF s >= 1 /\ s <= Len(seg) THEN seg[s] ELSE None
(* the guard  `len(seg_data) >= s and _val != ''`  *)
Counts(seg, s) == Len(seg) >= s /\ GetValue(seg, s) # ""
RECURSIVE CountLoop(_, _)
CountLoop(seg, idx) == IF idx = <<>> THEN 0
                       ELSE (IF Counts(seg, Head(idx)) THEN 1 ELSE 0) + CountLoop(seg, Tail(idx))

(* is_syntax_valid(seg, [type] + idx)[0] *)
ImplValid(type, idx, seg) ==
  CASE type = "P" -> LET c == CountLoop(seg, idx) IN ~(c # 0 /\ c # Len(idx))
    [] type = "R" -> ~(CountLoop(seg, idx) = 0)
    [] type = "E" -> ~(CountLoop(seg, idx) > 1)
    [] type = "C" -> IF Len(seg) >= idx[1] /\ GetValue(seg, idx[1]) # ""
                     THEN ~(CountLoop(seg, Tail(idx)) # Len(idx) - 1) ELSE TRUE
    [] type = "L" -> IF Len(seg) > idx[1] - 1 /\ GetValue(seg, idx[1]) # ""
                     THEN ~(CountLoop(seg, Tail(idx)) = 0) ELSE TRUE
    [] OTHER -> FALSE
ImplViolated(type, idx, seg) == ~ImplValid(type, idx, seg)

(* the element errors the syntax loop of segment_if.is_valid adds for one note *)
ImplErrors(type, idx, seg) ==
  IF ImplValid(type, idx, seg) THEN <<>>
  ELSE << [code |-> IF type = "E" THEN "10" ELSE "2", refdes |-> idx[1]] >>

(* segment_if._split_syntax: first character, then int() of consecutive two-character slices *)
ImplSplit(s) ==
  IF Ch(s, 1) \notin {"P", "R", "C", "L", "E"} THEN [ok |-> FALSE, type |-> "", pos |-> <<>>]
  ELSE [ok |-> TRUE, type |-> Ch(s, 1),
        pos |-> [i \in 1..((Len(s) - 1) \div 2) |-> 10 * DigitVal(Ch(s, 2 * i)) + DigitVal(Ch(s, 2 * i + 1))]]
=============================================================================
