------------------------------ MODULE TreeDef -------------------------------
(* C10, definition layer: an ordered forest of loop and segment nodes over a    *)
(* map fragment, and the meaning of every call of the tree editing API on it.  *)
(*                                                                              *)
(* The map fragment is data (file named by env C10_FRAG, written by lib/c10.py  *)
(* from the real map): `mapnodes` is a sequence of                              *)
(*   [kind "loop"|"seg", id, pos, par (index of the enclosing loop type, 0 for  *)
(*    the fragment root), kids (indexes of the child types in map order; sk, lk, *)
(*    ak index them by id),                                                      *)
(*    qe, qc (element / component that carries the qualifier code of a segment  *)
(*    type, 0 = none), codes (the qualifier codes of the type)]                 *)
(* Sibling types have ascending indexes in map order (position, then file       *)
(* order), so "the first matching child type" is the one with the least index.  *)
(*                                                                              *)
(* A forest is a sequence of node records, the index is the node identity:      *)
(*   [k "loop"|"seg"|"dead", mn (map node index), par (containing loop, 0 for a  *)
(*    detached root), ch (ordered children), eles (segment values: sequence of  *)
(*    composites as in PathDef)]                                                *)
(* Parent links are explicit: `../` is resolved through `par`, and a copy must  *)
(* own its parent links (a copy shares nothing with its original).              *)
(*                                                                              *)
(* Outs(f, c) is the set of acceptable outcomes [ret, f] of call c in forest f; *)
(* Class(f, c) says whether the property text fixes the outcome ("defined"),    *)
(* leaves it open ("free": only `nothing changes' and the agreement of the four *)
(* query methods are required) or the call is outside the explored alphabet     *)
(* ("bad": a mutating call whose meaning the property text does not fix).       *)
EXTENDS PathDef, Json, IOUtils

FRAG == JsonDeserialize(IOEnv.C10_FRAG)
MN == FRAG.mapnodes

SeqToSet(s) == {s[i] : i \in DOMAIN s}
Least(S) == CHOOSE i \in S : \A j \in S : i <= j
Kids(l) == SeqToSet(MN[l].kids)
Codes(m) == SeqToSet(m.codes)

Dead == [k |-> "dead", mn |-> 0, par |-> 0, ch |-> <<>>, eles |-> <<>>]
IsLive(f, n) == n \in 1..Len(f) /\ f[n].k # "dead"
IsLoop(f, n) == IsLive(f, n) /\ f[n].k = "loop"
IsSeg(f, n) == IsLive(f, n) /\ f[n].k = "seg"
Live(f) == {n \in 1..Len(f) : f[n].k # "dead"}
TypeOf(f, n) == MN[f[n].mn]
IdOf(f, n) == MN[f[n].mn].id
PosOf(f, n) == MN[f[n].mn].pos
SegData(f, n) == [id |-> IdOf(f, n), eles |-> f[n].eles]

(* ------------------------------------------------------------ map fragment *)
(* the qualifier code carried by segment values under a segment type *)
QualOf(eles, m) ==
  IF m.qe = 0 \/ m.qe > Len(eles) THEN None
  ELSE LET c == eles[m.qe] IN
       IF m.qc = 0 THEN (IF Len(Trim(c)) = 1 THEN c[1] ELSE None)
       ELSE IF m.qc <= Len(c) THEN c[m.qc] ELSE None
(* segment data belongs to a segment type: same id, and a qualified type wants one of its codes *)
TypeMatches(m, sd) == m.kind = "seg" /\ m.id = sd.id /\ (m.qe > 0 => QualOf(sd.eles, m) \in Codes(m))
(* child types by id (indexes kept by the fragment: sk = segment types per id, lk = loop type per id,    *)
(* ak = loop types per id of their first segment), each list in map order                              *)
SegTypes(l, id) == IF id \in DOMAIN MN[l].sk THEN MN[l].sk[id] ELSE <<>>
FirstWith(s, T(_)) == LET r == SelectSeq(s, T) IN IF r = <<>> THEN 0 ELSE r[1]
ChildSegType(l, sd) == LET T(i) == TypeMatches(MN[i], sd) IN FirstWith(SegTypes(l, sd.id), T)
ChildLoopType(l, sd) ==
  LET T(i) == TypeMatches(MN[MN[i].kids[1]], sd)
  IN FirstWith(IF sd.id \in DOMAIN MN[l].ak THEN MN[l].ak[sd.id] ELSE <<>>, T)

RECURSIVE LoopChain(_, _)
LoopChain(l, ids) ==
  IF ids = <<>> THEN l
  ELSE IF Head(ids) \in DOMAIN MN[l].lk THEN LoopChain(MN[l].lk[Head(ids)], Tail(ids)) ELSE 0
SegValid(l, seg, qual) ==
  LET S == SeqToSet(SegTypes(l, seg))
  IN /\ S # {}
     /\ qual # None => (\A i \in S : MN[i].qe > 0) /\ (\E i \in S : qual \in Codes(MN[i]))
(* a path that names existing types of the map below loop type l *)
PathValid(l, p) ==
  LET e == LoopChain(l, p.loops)
  IN /\ e # 0
     /\ p.seg = None => p.loops # <<>> /\ p.qual = None
     /\ p.seg # None => SegValid(e, p.seg, p.qual)

(* ----------------------------------------------------------------- queries *)
RECURSIVE Up(_, _, _)
Up(f, n, k) == IF k = 0 THEN n ELSE IF f[n].par = 0 THEN 0 ELSE Up(f, f[n].par, k - 1)

MatchQ(f, n, seg, qual) ==
  LET m == TypeOf(f, n)
  IN m.id = seg /\ (qual = None \/ m.qe = 0 \/ (qual \in Codes(m) /\ QualOf(f[n].eles, m) = qual))
RECURSIVE Flat(_)
Flat(ss) == IF ss = <<>> THEN <<>> ELSE Head(ss) \o Flat(Tail(ss))

(* Select: all nodes denoted by the path below loop n, in document order *)
RECURSIVE SelFrom(_, _, _, _, _)
SelFrom(f, n, loops, seg, qual) ==
  IF f[n].k # "loop" THEN <<>>
  ELSE IF loops = <<>> THEN
       (IF seg = None THEN <<>>
        ELSE LET T(c) == f[c].k = "seg" /\ MatchQ(f, c, seg, qual) IN SelectSeq(f[n].ch, T))
  ELSE LET T(c) == f[c].k = "loop" /\ IdOf(f, c) = Head(loops)
           L == SelectSeq(f[n].ch, T)
       IN IF Len(loops) = 1 /\ seg = None THEN L
          ELSE Flat([i \in 1..Len(L) |-> SelFrom(f, L[i], Tail(loops), seg, qual)])
(* Exists / Count / First, each from its own wording, so that their agreement is a theorem to check *)
RECURSIVE ExistsFrom(_, _, _, _, _)
ExistsFrom(f, n, loops, seg, qual) ==
  /\ f[n].k = "loop"
  /\ IF loops = <<>> THEN seg # None /\ \E c \in SeqToSet(f[n].ch) : f[c].k = "seg" /\ MatchQ(f, c, seg, qual)
     ELSE \E c \in SeqToSet(f[n].ch) :
            /\ f[c].k = "loop" /\ IdOf(f, c) = Head(loops)
            /\ (Len(loops) = 1 /\ seg = None) \/ ExistsFrom(f, c, Tail(loops), seg, qual)
RECURSIVE SumSeq(_)
SumSeq(s) == IF s = <<>> THEN 0 ELSE Head(s) + SumSeq(Tail(s))
RECURSIVE CountFrom(_, _, _, _, _)
CountFrom(f, n, loops, seg, qual) ==
  IF f[n].k # "loop" THEN 0
  ELSE IF loops = <<>> THEN
       (IF seg = None THEN 0
        ELSE Cardinality({i \in 1..Len(f[n].ch) : f[f[n].ch[i]].k = "seg" /\ MatchQ(f, f[n].ch[i], seg, qual)}))
  ELSE SumSeq([i \in 1..Len(f[n].ch) |->
         LET c == f[n].ch[i] IN
         IF f[c].k = "loop" /\ IdOf(f, c) = Head(loops)
         THEN (IF Len(loops) = 1 /\ seg = None THEN 1 ELSE CountFrom(f, c, Tail(loops), seg, qual))
         ELSE 0])
(* the first segment found when only the first loop instance of every id is entered (0 = none) *)
RECURSIVE Greedy(_, _, _, _, _)
Greedy(f, n, loops, seg, qual) ==
  IF loops = <<>> THEN
     LET T(c) == f[c].k = "seg" /\ MatchQ(f, c, seg, qual)
         S == SelectSeq(f[n].ch, T)
     IN IF S = <<>> THEN 0 ELSE S[1]
  ELSE LET T(c) == f[c].k = "loop" /\ IdOf(f, c) = Head(loops)
           L == SelectSeq(f[n].ch, T)
       IN IF L = <<>> THEN 0 ELSE Greedy(f, L[1], Tail(loops), seg, qual)
GFirst(f, n, loops, seg, qual) == LET s == SelFrom(f, n, loops, seg, qual) IN IF s = <<>> THEN 0 ELSE s[1]
(* "the first found segment at the path": both readings of `first' are accepted *)
Targets(f, n, p) == {Greedy(f, n, p.loops, p.seg, p.qual), GFirst(f, n, p.loops, p.seg, p.qual)}

(* ------------------------------------------------------------------- edits *)
RECURSIVE Pre(_, _)
Pre(f, n) == <<n>> \o Flat([i \in 1..Len(f[n].ch) |-> Pre(f, f[n].ch[i])])
Subtree(f, n) == SeqToSet(Pre(f, n))
Remove(s, x) == LET T(y) == y # x IN SelectSeq(s, T)
Kill(f, n) ==
  LET D == Subtree(f, n)
  IN [i \in 1..Len(f) |-> IF i \in D THEN Dead
                          ELSE IF i = f[n].par THEN [f[i] EXCEPT !.ch = Remove(@, n)] ELSE f[i]]
(* where the map orders a new child: after the siblings of the same or an earlier position, before later ones *)
InsertIdx(f, ch, pos) == Cardinality({i \in 1..Len(ch) : PosOf(f, ch[i]) <= pos})
InsertAt(ch, k, n) == SubSeq(ch, 1, k) \o <<n>> \o SubSeq(ch, k + 1, Len(ch))
Attach(f, h, n, pos) == [f EXCEPT ![h].ch = InsertAt(@, InsertIdx(f, @, pos), n)]
IndexIn(s, x) == CHOOSE i \in 1..Len(s) : s[i] = x
CopyOf(f, n) ==          \* the fresh nodes of a copy of the subtree at n, numbered in pre-order after Len(f)
  LET o == Pre(f, n)
      N == Len(f)
      New(x) == N + IndexIn(o, x)
  IN [i \in 1..Len(o) |->
        [k |-> f[o[i]].k, mn |-> f[o[i]].mn, eles |-> f[o[i]].eles,
         par |-> IF i = 1 THEN 0 ELSE New(f[o[i]].par),
         ch |-> [j \in 1..Len(f[o[i]].ch) |-> New(f[o[i]].ch[j])]]]

(* ------------------------------------------------------------ serialisation *)
RECURSIVE TrimEles(_)
TrimEles(es) == IF Len(es) > 0 /\ Trim(es[Len(es)]) = <<"">> THEN TrimEles(SubSeq(es, 1, Len(es) - 1)) ELSE es
FmtSeg(sd) == LET es == TrimEles(sd.eles)
              IN sd.id \o "*" \o Join([i \in 1..Len(es) |-> Join(Trim(es[i]), ":")], "*") \o "~"
Ser(f, r) == LET T(n) == f[n].k = "seg"
                 s == SelectSeq(Pre(f, r), T)
             IN [i \in 1..Len(s) |-> FmtSeg(SegData(f, s[i]))]
Roots(f) == {n \in Live(f) : f[n].par = 0}
RECURSIVE SetToSeq(_)
SetToSeq(S) == IF S = {} THEN <<>> ELSE LET x == Least(S) IN <<x>> \o SetToSeq(S \ {x})
SerAll(f) == LET rs == SetToSeq(Roots(f)) IN [i \in 1..Len(rs) |-> [root |-> rs[i], segs |-> Ser(f, rs[i])]]

(* ------------------------------------------------------------------- calls *)
(* call: [h, op, p, sd, v, a]; p: [ok, ups, loops, seg, qual, ele, sub, hasele, hassub]     *)
NoPath == [ok |-> TRUE, ups |-> 0, loops |-> <<>>, seg |-> None, qual |-> None, ele |-> 0, sub |-> 0,
           hasele |-> FALSE, hassub |-> FALSE]
NoSeg == [id |-> "", eles |-> <<>>]
(* the text of a tree path: any number of "../" followed by a relative X12 path (PathDef!Parse) *)
RECURSIVE CountUps(_)
CountUps(s) == IF Len(s) >= 3 /\ SubSeq(s, 1, 3) = "../" THEN 1 + CountUps(SubSeq(s, 4, Len(s))) ELSE 0
ParsePath(s) ==
  LET u == CountUps(s)
      d == Parse(SubSeq(s, 3 * u + 1, Len(s)))
  IN IF ~d.ok THEN [NoPath EXCEPT !.ok = FALSE]
     ELSE IF ~d.rel THEN [NoPath EXCEPT !.ok = FALSE]
     ELSE [ok |-> TRUE, ups |-> u, loops |-> d.loops, seg |-> d.seg, qual |-> d.qual, ele |-> d.ele, sub |-> d.sub,
           hasele |-> d.hasele, hassub |-> d.hassub]
Ret(x, b, n, m, s) == [x |-> x, b |-> b, n |-> n, m |-> m, s |-> s, xs |-> <<>>]
OkRet == Ret("", FALSE, 0, 0, <<>>)
QRet(sel) == [x |-> "", b |-> sel # <<>>, n |-> Len(sel), m |-> IF sel = <<>> THEN 0 ELSE sel[1], s |-> sel,
              xs |-> <<"", "", "", "">>]
PathErr == "X12PathError"
Mutators == {"set", "add_segment", "add_loop", "add_node", "delete_segment", "delete_node", "delete", "copy"}
ReadOnly == {"get", "query"}

(* resolution of the start node and validity of the path there; 0 = not fixed by the property text *)
StartOf(f, c) == IF ~c.p.ok THEN 0 ELSE Up(f, c.h, c.p.ups)
QueryDefined(f, c) ==
  /\ c.p.ok /\ ~c.p.hasele /\ ~c.p.hassub
  /\ IF f[c.h].k = "seg" THEN c.p.ups = 0                 \* segment nodes have no sub-nodes (what "../" means there is left open)
     ELSE LET s == StartOf(f, c) IN s # 0 /\ f[s].k = "loop" /\ PathValid(f[s].mn, c.p)
(* a well-formed path that can denote no node: "../" above the root, or an id that is no child type there *)
NothingThere(f, c) ==
  /\ c.p.ok /\ ~c.p.hasele /\ ~c.p.hassub /\ f[c.h].k = "loop"
  /\ LET s == StartOf(f, c) IN
       \/ s = 0
       \/ /\ f[s].k = "loop"
          /\ LET e == LoopChain(f[s].mn, c.p.loops) IN e = 0 \/ (c.p.seg # None /\ SegTypes(e, c.p.seg) = <<>>)
ValueDefined(f, c) ==                                      \* get / set
  /\ c.p.ok /\ c.p.hasele /\ c.p.ele >= 1 /\ (c.p.hassub => c.p.sub >= 1)
  /\ IF f[c.h].k = "seg"
     THEN c.p.ups = 0 /\ c.p.loops = <<>> /\ c.p.qual = None /\ c.p.seg \in {None, IdOf(f, c.h)}
     ELSE c.p.seg # None /\ LET s == StartOf(f, c) IN s # 0 /\ f[s].k = "loop" /\ PathValid(f[s].mn, c.p)
ValueTargets(f, c) == IF f[c.h].k = "seg" THEN {c.h} ELSE Targets(f, StartOf(f, c), c.p)
(* writes that keep a segment recognisable: not the qualifier element / component, and an empty value only strictly inside *)
WriteOk(f, t, c) ==
  LET es == f[t].eles  m == TypeOf(f, t) IN
  /\ c.p.ele # m.qe \/ (m.qc > 0 /\ c.p.hassub /\ c.p.sub # m.qc)
  /\ c.v = "" => /\ c.p.ele < Len(es)
                 /\ c.p.hassub => c.p.sub < Len(es[c.p.ele])
Detached(f, n) == IsLive(f, n) /\ f[n].par = 0

Class(f, c) ==
  IF ~IsLive(f, c.h) THEN "bad"
  ELSE CASE c.op = "query" -> IF QueryDefined(f, c) THEN "defined" ELSE "free"
    [] c.op = "get" -> IF ValueDefined(f, c) THEN "defined" ELSE "free"
    [] c.op = "set" -> IF ValueDefined(f, c) /\ \A t \in ValueTargets(f, c) : t # 0 => WriteOk(f, t, c)
                       THEN "defined" ELSE "bad"
    [] c.op = "delete_node" -> IF f[c.h].k = "loop" /\ (QueryDefined(f, c) \/ NothingThere(f, c)) THEN "defined" ELSE "bad"
    [] c.op = "add_segment" -> IF f[c.h].k = "loop" /\ c.sd.id # ""
                                  /\ ~(ChildSegType(f[c.h].mn, c.sd) = 0 /\ ChildLoopType(f[c.h].mn, c.sd) # 0)
                               THEN "defined" ELSE "bad"
    [] c.op = "add_loop" -> IF f[c.h].k = "loop" /\ c.sd.id # "" THEN "defined" ELSE "bad"
    [] c.op = "delete_segment" -> IF f[c.h].k = "loop" /\ c.sd.id # "" THEN "defined" ELSE "bad"
    [] c.op = "add_node" -> IF f[c.h].k = "loop" /\ IsLive(f, c.a) /\ c.a # c.h
                               /\ \/ MN[f[c.a].mn].par # f[c.h].mn                          \* refused: not a child type
                                  \/ Detached(f, c.a) /\ c.h \notin Subtree(f, c.a)          \* a detached node (a fresh copy)
                            THEN "defined" ELSE "bad"
    [] c.op = "delete" -> IF c.h # 1 THEN "defined" ELSE "bad"
    [] c.op = "copy" -> "defined"
    [] OTHER -> "bad"

GetRet(f, t, p) ==
  IF t = 0 THEN Ret("", FALSE, 0, 0, <<>>)
  ELSE LET sd == SegData(f, t) IN
       IF p.hassub THEN LET g == GetSub(sd, p.ele, p.sub) IN Ret("", g[1], 0, 0, IF g[1] THEN <<g[2]>> ELSE <<>>)
       ELSE LET g == GetEle(sd, p.ele) IN Ret("", g[1], 0, 0, IF g[1] THEN g[2] ELSE <<>>)
SetOut(f, t, c) ==
  IF t = 0 THEN [ret |-> Ret(PathErr, FALSE, 0, 0, <<>>), f |-> f]
  ELSE LET sd == SegData(f, t)
           nw == IF c.p.hassub THEN SetSub(sd, c.p.ele, c.p.sub, c.v) ELSE SetEle(sd, c.p.ele, <<c.v>>)
       IN [ret |-> OkRet, f |-> [f EXCEPT ![t].eles = nw.eles]]

(* the acceptable outcomes of a defined call *)
Outs(f, c) ==
  LET h == c.h  p == c.p  N == Len(f) IN
  CASE c.op = "query" ->
         LET sel == IF f[h].k = "seg" /\ p.ups = 0 THEN <<>> ELSE SelFrom(f, StartOf(f, c), p.loops, p.seg, p.qual)
         IN {[ret |-> QRet(sel), f |-> f]}
    [] c.op = "get" -> {[ret |-> GetRet(f, t, p), f |-> f] : t \in ValueTargets(f, c)}
    [] c.op = "set" -> {SetOut(f, t, c) : t \in ValueTargets(f, c)}
    [] c.op = "delete_node" ->
         IF NothingThere(f, c)       \* "return False" and "raise X12PathError" are both documented for an invalid path
         THEN {[ret |-> Ret("", FALSE, 0, 0, <<>>), f |-> f], [ret |-> Ret(PathErr, FALSE, 0, 0, <<>>), f |-> f]}
         ELSE
         LET sel == SelFrom(f, StartOf(f, c), p.loops, p.seg, p.qual)
         IN IF sel = <<>> THEN {[ret |-> Ret("", FALSE, 0, 0, <<>>), f |-> f]}
            ELSE {[ret |-> Ret("", TRUE, 0, 0, <<>>), f |-> Kill(f, sel[1])]}
    [] c.op = "delete" -> {[ret |-> OkRet, f |-> Kill(f, h)]}
    [] c.op = "add_segment" ->
         LET m == ChildSegType(f[h].mn, c.sd) IN
         IF m = 0 THEN {[ret |-> Ret(PathErr, FALSE, 0, 0, <<>>), f |-> f]}
         ELSE {[ret |-> Ret("", FALSE, N + 1, 0, <<>>),
                f |-> Append(Attach(f, h, N + 1, MN[m].pos),
                             [k |-> "seg", mn |-> m, par |-> h, ch |-> <<>>, eles |-> c.sd.eles])]}
    [] c.op = "add_loop" ->
         LET l == ChildLoopType(f[h].mn, c.sd) IN
         IF l = 0 THEN {[ret |-> Ret(PathErr, FALSE, 0, 0, <<>>), f |-> f], [ret |-> OkRet, f |-> f]}
         ELSE {[ret |-> Ret("", FALSE, N + 1, 0, <<>>),
                f |-> Attach(f, h, N + 1, MN[l].pos)
                      \o <<[k |-> "loop", mn |-> l, par |-> h, ch |-> <<N + 2>>, eles |-> <<>>],
                           [k |-> "seg", mn |-> ChildSegType(l, c.sd), par |-> N + 1, ch |-> <<>>, eles |-> c.sd.eles]>>]}
    [] c.op = "add_node" ->
         IF MN[f[c.a].mn].par # f[h].mn THEN {[ret |-> Ret(PathErr, FALSE, 0, 0, <<>>), f |-> f]}
         ELSE {[ret |-> OkRet, f |-> [Attach(f, h, c.a, PosOf(f, c.a)) EXCEPT ![c.a].par = h]]}
    [] c.op = "delete_segment" ->
         LET ch == f[h].ch
             S == {i \in 2..Len(ch) : f[ch[i]].k = "seg" /\ SegData(f, ch[i]) = c.sd}
         IN IF S = {} \/ ChildSegType(f[h].mn, c.sd) = 0 THEN {[ret |-> Ret("", FALSE, 0, 0, <<>>), f |-> f]}
            ELSE {[ret |-> Ret("", TRUE, 0, 0, <<>>), f |-> Kill(f, ch[Least(S)])]}
    [] c.op = "copy" -> {[ret |-> Ret("", FALSE, N + 1, 0, <<>>), f |-> f \o CopyOf(f, h)]}

(* agreement of the four query methods on one observation (law 2 of the property) *)
AgreeOK(q) ==
  /\ Len(q.xs) = 4 /\ \A i \in 1..4 : q.xs[i] = q.xs[1]
  /\ q.xs[1] = "" =>
       /\ q.b <=> (q.n > 0)
       /\ q.b <=> (q.m # 0)
       /\ q.b <=> (q.s # <<>>)
       /\ q.n = Len(q.s)
       /\ q.m # 0 => q.m = q.s[1]

(* ------------------------------------------------------ well-formed forests *)
Sorted(f) == \A n \in Live(f) : \A i \in 1..(Len(f[n].ch) - 1) : PosOf(f, f[n].ch[i]) <= PosOf(f, f[n].ch[i + 1])
WellFormed(f) ==
  \A n \in Live(f) :
    /\ f[n].k = "seg" => f[n].ch = <<>>
    /\ \A i \in 1..Len(f[n].ch) : LET c == f[n].ch[i] IN
          /\ IsLive(f, c) /\ f[c].par = n /\ MN[f[c].mn].par = f[n].mn
          /\ \A j \in 1..Len(f[n].ch) : j # i => f[n].ch[j] # c
    /\ f[n].par # 0 => IsLoop(f, f[n].par) /\ n \in SeqToSet(f[f[n].par].ch)
=============================================================================
