----------------------------- MODULE T_Tokenizer -----------------------------
(* Trace validation for C01: executions of the real X12Reader over a text.       *)
(* A trace: [id, d, text, pieces, yields, exc, clean]                            *)
(*   d       delimiters the ISA header declares                                  *)
(*   pieces  the text after the header, cut at the terminator (last, unterminated *)
(*           piece included); text is given too for small inputs ("" otherwise)   *)
(*           and then Pieces(text) must equal pieces                              *)
(*   yields  per yielded segment after the ISA: [seg, n1 (count of code-1 errors), *)
(*           trail (SEG1 raised), fmt (code points of seg.format())]               *)
(*   again   segments obtained by reading the concatenated fmt texts again         *)
(* One TLC state per piece.                                                       *)
EXTENDS Naturals, Sequences, FiniteSets, TLC, Json, IOUtils, TokDef
VARIABLES ti, pi, yi, rej
vars == <<ti, pi, yi, rej>>
Traces == JsonDeserialize(IOEnv.TRACE_FILE)

Bool2Nat(b) == IF b THEN 1 ELSE 0
YieldClause(tr, y, line, blank) ==
  LET s == ParseSeg(line, tr.d)
      \* code-1 errors: one for a dropped leading blank; an identifier that is not 2-3 upper-case alphanumerics may draw
      \* another one (that judgement belongs to segment-id validation, not to tokenisation: either count is accepted)
      n1ok == IF ValidSegId(s.id) THEN y.n1 = Bool2Nat(blank) ELSE y.n1 \in {Bool2Nat(blank), Bool2Nat(blank) + 1}
      hasData == \E i \in 1..Len(s.eles) : ~EmptyComp(s.eles[i])
  IN IF y.seg # s THEN "segment"
     ELSE IF ~n1ok THEN "blank_error"
     ELSE IF y.trail # (line[Len(line)] = tr.d.ele) THEN "trailing_flag"
     ELSE IF hasData /\ y.fmt # FormatSeg(s, tr.d) THEN "format"
     ELSE IF y.again_n # 1 \/ NormSeg(y.again) # NormSeg(s) THEN "reread"
     ELSE ""

Init == ti = 1 /\ pi = 1 /\ yi = 1 /\ rej = {}
NextTrace == ti' = ti + 1 /\ pi' = 1 /\ yi' = 1
Step ==
  /\ ti <= Len(Traces)
  /\ LET tr == Traces[ti]
         np == Len(tr.pieces) - 1            \* the last piece is not terminated
     IN
     IF tr.exc # "" THEN rej' = rej \cup {<<tr.id, 0, "exception">>} /\ NextTrace
     ELSE IF pi = 1 /\ Len(tr.text) > 0 /\ SplitOn(tr.text, tr.d.seg) # tr.pieces
          THEN rej' = rej \cup {<<tr.id, 0, "harness_split">>} /\ NextTrace
     ELSE IF pi > np THEN
          /\ rej' = IF yi = Len(tr.yields) + 1 THEN rej ELSE rej \cup {<<tr.id, yi, "extra_segments">>}
          /\ NextTrace
     ELSE LET l == LineOf(tr.pieces[pi]) IN
          IF l.line = <<>> THEN pi' = pi + 1 /\ UNCHANGED <<ti, yi, rej>>
          ELSE IF yi > Len(tr.yields) THEN rej' = rej \cup {<<tr.id, yi, "lost_segments">>} /\ NextTrace
          ELSE LET c == YieldClause(tr, tr.yields[yi], l.line, l.blank) IN
               IF c = "" THEN pi' = pi + 1 /\ yi' = yi + 1 /\ UNCHANGED <<ti, rej>>
               ELSE rej' = rej \cup {<<tr.id, yi, c>>} /\ NextTrace
Spec == Init /\ [][Step]_vars
Report == (ti > Len(Traces)) => PrintT(<<"REJECTS", ToJson([rej |-> rej])>>)
=============================================================================
