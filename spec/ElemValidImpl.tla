--------------------------- MODULE ElemValidImpl ---------------------------
(* Implementation-shaped layer for C15: the order of checks and the early exits   *)
(* of pyx12.map_if.element_if.is_valid and composite_if.is_valid, transcribed.    *)
(* The result is what errh_list would hold: [res, codes (in the order reported)]. *)
(* Used only at model level (ElemValidGen checks that this algorithm is admissible*)
(* for the definition ElemValid on the whole product of definition and value      *)
(* classes); it is never the oracle for                                           *)
(* the real code.  (Transcribed from the tree with the fixes dc49cfe and 6d6472a:  *)
(* before them an empty required first component of a composite that is not itself *)
(* required drew no error, and a required composite that was not supplied at all    *)
(* raised TypeError - both were reported by this check as findings.)               *)
(*                                                                                *)
(*   element_if.is_valid(elem, errh, type_list):                                  *)
(*     composite value                      -> "6", stop                          *)
(*     nothing / empty value                -> usage N,S: fine; usage R: "1"       *)
(*     usage N                              -> "10", stop                         *)
(*     length (sign and point removed for R and Nx) -> "4" / "5", go on           *)
(*     control character (pyx12's table)    -> "6", stop                          *)
(*     AN/ID ending in a blank, stripped length >= min -> "6"                     *)
(*     code list (inline, external, excluded)       -> "7"                        *)
(*     IsValidDataType                      -> "8" dates, "9" time, "6" otherwise  *)
(*     type list: valid in none             -> "9" if TM listed, "8" if a date     *)
(*                                             type is listed; result false        *)
(*     pattern (search)                     -> "7"                                *)
(*   composite_if.is_valid(comp, errh):                                           *)
(*     nothing / all empty and usage N,S    -> fine                               *)
(*     usage R: nothing supplied, or no component with a value -> "2", stop       *)
(*     usage N and a value                  -> "5", stop                          *)
(*     more components than defined         -> "3", go on                         *)
(*     every defined component in order (missing ones as None)                    *)
(* IsValidDataType is taken to be the C13 definition (DataTypes!Accept).          *)
EXTENDS ElemValid

Ok(codes) == [res |-> IF Len(codes) = 0 THEN "true" ELSE "false", codes |-> codes]
Fail(codes) == [res |-> "false", codes |-> codes]
Opt(c, code) == IF c THEN <<code>> ELSE <<>>

(* validation.contains_control_character: BEL HT LF VT FF CR FS GS RS US, SOH..ACK, DC1..ETB *)
ImplCtrlSet == (1..7) \cup (9..13) \cup (17..23) \cup (28..31)
ImplHasCtrl(cp) == \E i \in 1..Len(cp) : cp[i] \in ImplCtrlSet

ImplTypeOK(s, t, cs, icvn) == IF t \in ClaimedTypes THEN Accept(s, t, cs, icvn) ELSE TRUE

ImplElem(D, V, S) ==
  IF ~V.absent /\ V.isComp THEN Fail(<<"6">>)
  ELSE IF V.absent \/ V.s = "" THEN
       (IF D.usage \in {"N", "S"} THEN Ok(<<>>) ELSE Fail(<<"1">>))
  ELSE IF D.usage = "N" THEN Fail(<<"10">>)
  ELSE
    LET n == CountedLen(D.dtype, V.cp)
        lens == Opt(n < D.min, "4") \o Opt(n > D.max, "5")
    IN IF ImplHasCtrl(V.cp) THEN Fail(lens \o <<"6">>)
       ELSE
         LET trail == Opt(TextType(D.dtype) /\ V.cp[Len(V.cp)] = CBlank /\ StrippedLen(V.cp) >= D.min, "6")
             inl == V.s \in SeqSet(D.codes)
             code == Opt(~((Len(D.codes) = 0 /\ ~D.hasExt) \/ inl \/ (D.hasExt /\ (S.excl \/ V.ext))), "7")
             typ == Opt(~ImplTypeOK(V.s, D.dtype, S.cs, D.icvn), TypeCode(D.dtype))
             qfail == Len(S.tl) > 0 /\ \A t \in SeqSet(S.tl) : ~ImplTypeOK(V.s, t, S.cs, "00401")
             qual == IF ~qfail THEN <<>>
                     ELSE IF "TM" \in SeqSet(S.tl) THEN <<"9">>
                     ELSE IF SeqSet(S.tl) \cap DateTypes # {} THEN <<"8">> ELSE <<>>
             pat == Opt(D.hasRx /\ ~V.rx, "7")
             all == lens \o trail \o code \o typ \o qual \o pat
         IN [res |-> IF Len(all) = 0 /\ ~qfail THEN "true" ELSE "false", codes |-> all]

AllEmpty(V) == \A i \in 1..Len(V.comps) : V.comps[i].s = ""

RECURSIVE KidCodes(_, _, _, _)
KidCodes(D, V, S, i) ==
  IF i > Len(D.kids) THEN <<>>
  ELSE ImplElem(D.kids[i], CompAt(V, i), [cs |-> S.cs, excl |-> S.excl[i], tl |-> <<>>]).codes \o KidCodes(D, V, S, i + 1)

ImplComp(D, V, S) ==
  IF (V.absent \/ AllEmpty(V)) /\ D.usage \in {"N", "S"} THEN Ok(<<>>)
  ELSE IF D.usage = "R" /\ (V.absent \/ AllEmpty(V)) THEN Fail(<<"2">>)
  ELSE IF D.usage = "N" THEN Fail(<<"5">>)
  ELSE Ok(Opt(Len(V.comps) > Len(D.kids), "3") \o KidCodes(D, V, S, 1))

=============================================================================
