------------------------------- MODULE Writer -------------------------------
(* C11.  Two layers:                                                            *)
(*  WriterDef  - definition: what the output of a well-nested write history     *)
(*               must be (non-trailers unchanged and in order; a trailer         *)
(*               generated wherever one is supplied, omitted inside an enclosing *)
(*               trailer, or left open at Close, carrying its header's control   *)
(*               number and the recount of groups / sets / segments).            *)
(*  WImpl      - implementation-shaped: X12Writer.Write/_popToLoop/_close_*      *)
(*               on top of X12Base._parse_segment (Envelope!Base), with the      *)
(*               running counters and their reset points as coded.               *)
(* Segments are the records of module Envelope; for an ISA the field n carries   *)
(* the interchange version (00401 / 00501).                                      *)
EXTENDS Naturals, Sequences, FiniteSets, TLC, Envelope

Level(k) == CASE k \in {"ISA", "IEA"} -> 1 [] k \in {"GS", "GE"} -> 2 [] k \in {"ST", "SE"} -> 3 [] OTHER -> 0
IsHeader(s) == s.k \in {"ISA", "GS", "ST"}
IsTrailer(s) == s.k \in {"IEA", "GE", "SE"}
LastIdx(out, k) == LET S == {j \in 1..Len(out) : out[j].k = k} IN IF S = {} THEN 0 ELSE CHOOSE j \in S : \A x \in S : x <= j
CountFrom(out, from, K) == Cardinality({j \in (from + 1)..Len(out) : out[j].k \in K})

(* ---------------------------------------------------------------- definition *)
TrailerFor(out, lvl, id) ==
  CASE lvl = 3 -> Seg("SE", id, ToString(Len(out) - LastIdx(out, "ST") + 2), "", "")     \* ST..last + the SE itself
    [] lvl = 2 -> Seg("GE", id, ToString(CountFrom(out, LastIdx(out, "GS"), {"ST"})), "", "")
    [] OTHER   -> Seg("IEA", id, ToString(CountFrom(out, LastIdx(out, "ISA"), {"GS"})), "", "")
RECURSIVE CloseDownTo(_, _, _)
CloseDownTo(out, stack, lvl) ==         \* close every open level >= lvl, innermost first
  IF stack = <<>> \/ Top(stack)[1] < lvl THEN [out |-> out, stack |-> stack]
  ELSE CloseDownTo(Append(out, TrailerFor(out, Top(stack)[1], Top(stack)[2])), Drop(stack), lvl)
RECURSIVE DefFrom(_, _, _, _)
DefFrom(h, i, out, stack) ==
  IF i > Len(h) THEN [out |-> out, stack |-> stack]
  ELSE LET s == h[i] IN
    IF IsHeader(s) THEN DefFrom(h, i + 1, Append(out, s), Append(stack, <<Level(s.k), s.id>>))
    ELSE IF IsTrailer(s) THEN LET r == CloseDownTo(out, stack, Level(s.k)) IN DefFrom(h, i + 1, r.out, r.stack)
    ELSE DefFrom(h, i + 1, Append(out, s), stack)
WriterDefOpen(h) == DefFrom(h, 1, <<>>, <<>>)                          \* output so far (before Close)
WriterDef(h) == LET r == WriterDefOpen(h) IN CloseDownTo(r.out, r.stack, 1).out   \* output after Close

(* well-nested write histories: a header only directly inside its enclosing level, a trailer only when its level is open *)
RECURSIVE WNFrom(_, _, _)
WNFrom(h, i, depth) ==
  IF i > Len(h) THEN TRUE
  ELSE LET s == h[i] IN
    IF IsHeader(s) THEN Level(s.k) = depth + 1 /\ WNFrom(h, i + 1, depth + 1)
    ELSE IF IsTrailer(s) THEN Level(s.k) <= depth /\ WNFrom(h, i + 1, Level(s.k) - 1)
    ELSE WNFrom(h, i + 1, depth)
WellNested(h) == WNFrom(h, 1, 0)
RECURSIVE DepthFrom(_, _, _)
DepthFrom(h, i, depth) == IF i > Len(h) THEN depth
                          ELSE IF IsHeader(h[i]) THEN DepthFrom(h, i + 1, depth + 1)
                          ELSE IF IsTrailer(h[i]) THEN DepthFrom(h, i + 1, Level(h[i].k) - 1)
                          ELSE DepthFrom(h, i + 1, depth)
OpenDepth(h) == DepthFrom(h, 1, 0)

(* -------------------------------------------------------- implementation-shaped *)
WClose(st, out, loop) ==
  CASE loop[1] = "ISA" -> [st |-> [st EXCEPT !.gs_count = 0], out |-> Append(out, Seg("IEA", loop[2], ToString(st.gs_count), "", ""))]
    [] loop[1] = "GS"  -> [st |-> [st EXCEPT !.st_count = 0], out |-> Append(out, Seg("GE", loop[2], ToString(st.st_count), "", ""))]
    [] OTHER           -> [st |-> [st EXCEPT !.seg_count = 0], out |-> Append(out, Seg("SE", loop[2], ToString(st.seg_count + 1), "", ""))]
RECURSIVE WPop(_, _, _)
WPop(st, out, type) ==         \* _popToLoop
  IF st.loops = <<>> THEN [st |-> st, out |-> out]
  ELSE LET top == Top(st.loops)
           c == WClose([st EXCEPT !.loops = Drop(@)], out, top)
       IN IF top[1] # type THEN WPop(c.st, c.out, type) ELSE c
WWrite(st, out, s) ==
  LET b == Base(st, s, FALSE).st IN
  CASE s.k = "IEA" -> WPop(b, out, "ISA")
    [] s.k = "GE"  -> WPop(b, out, "GS")
    [] s.k = "SE"  -> WPop(b, out, "ST")
    [] OTHER -> [st |-> b, out |-> Append(out, s)]
WCloseAll(st, out) == WPop(st, out, "ISA")

(* ------------------------------------------------------------------ delimiters *)
(* Characters are code points.  A writer setting w = [st, et, ct, rt]: segment,  *)
(* element and sub-element terminators and repetition separator given to the     *)
(* X12Writer.  A source delimiter set src = [seg, ele, sub, rep]: the delimiters *)
(* of the document the Segment objects handed to Write() were parsed from - the  *)
(* property quantifies over all of them and the definition below does not        *)
(* mention src: whatever the source was, the ISA written carries the WRITER's    *)
(* delimiters.  An ISA observed in the output text: et = the character right     *)
(* after "ISA", nel = number of fields when split at w.et, e11 / e16 = the code  *)
(* points of fields ISA11 / ISA16 (<<>> when empty or absent), ver = ISA12.      *)
SettingOk(w) == Cardinality({w.st, w.et, w.ct, w.rt}) = 4
SourceOk(src) == Cardinality({src.seg, src.ele, src.sub, src.rep}) = 4
IsaFault(w, isa) ==                                  \* "" = this ISA carries the writer's own delimiters
  IF isa.et # w.et THEN "fields"
  ELSE IF isa.e16 # <<w.ct>> THEN "isa16"
  ELSE IF isa.ver = "00501" /\ isa.e11 # <<w.rt>> THEN "isa11"
  ELSE IF isa.nel # 17 THEN "fields"
  ELSE ""
(* which roles of the source delimiter set a writer delimiter coincides with     *)
(* (descriptive only: names the combination in a verdict, never decides it)      *)
Coincide(w, src) ==
  [rep_is_src_ele |-> w.rt = src.ele, rep_is_src_subele |-> w.rt = src.sub,
   subele_is_src_ele |-> w.ct = src.ele, subele_is_src_subele |-> w.ct = src.sub]
=============================================================================
