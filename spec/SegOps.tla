------------------------------ MODULE SegOps -------------------------------
(* C17, segment half: a segment under a history of set() calls.                 *)
(* State = the abstract segment + the history (kept out of the VIEW-free BFS    *)
(* because histories are what we want to enumerate).  Model-level laws are      *)
(* action properties over Set; each maximal history is emitted with the state   *)
(* expected after every call and is replayed into pyx12.segment.Segment.        *)
EXTENDS PathDef, Json
CONSTANTS MaxHist, MaxEle, MaxSub, Vals
VARIABLES seg, hist

Inits == { [id |-> "TST", eles |-> <<>>],
           [id |-> "TST", eles |-> << <<"x">> >>],
           [id |-> "TST", eles |-> << <<"x", "y">>, <<"z">> >>],
           [id |-> "TST", eles |-> << <<"">>, <<"x", "", "y">> >>] }
Ops == [e : 1..MaxEle, c : 0..MaxSub, v : Vals]
Apply(s, op) == IF op.c = 0 THEN SetEle(s, op.e, <<op.v>>) ELSE SetSub(s, op.e, op.c, op.v)

Init == seg \in Inits /\ hist = <<[op |-> "init", seg |-> seg]>>
Set(op) == /\ Len(hist) <= MaxHist
           /\ seg' = Apply(seg, op)
           /\ hist' = Append(hist, [op |-> "set", e |-> op.e, c |-> op.c, v |-> op.v, seg |-> seg'])
Next == \E op \in Ops : Set(op)
Spec == Init /\ [][Next]_<<seg, hist>>

(* laws of the property, checked on the model for every transition *)
LastOp == hist'[Len(hist')]
ReadBack == [][ LET o == LastOp IN
                 IF o.c = 0 THEN GetEle(seg', o.e) = <<TRUE, <<o.v>> >>
                 ELSE GetSub(seg', o.e, o.c) = <<TRUE, o.v>> ]_<<seg, hist>>
OthersUnchanged == [][ LET o == LastOp IN
     /\ \A e \in 1..Len(seg.eles) : e # o.e => seg'.eles[e] = seg.eles[e]
     /\ (o.c # 0 /\ o.e <= Len(seg.eles)) =>
           \A c \in 1..Len(seg.eles[o.e]) : c # o.c => seg'.eles[o.e][c] = seg.eles[o.e][c]
     /\ seg'.id = seg.id ]_<<seg, hist>>
ExactGrowth == [][ LET o == LastOp IN
     /\ Len(seg'.eles) = (IF o.e > Len(seg.eles) THEN o.e ELSE Len(seg.eles))
     /\ \A e \in (Len(seg.eles) + 1)..Len(seg'.eles) : e # o.e => seg'.eles[e] = Blank
     /\ o.c # 0 => LET old == IF o.e <= Len(seg.eles) THEN Len(seg.eles[o.e]) ELSE 1
                   IN Len(seg'.eles[o.e]) = (IF o.c > old THEN o.c ELSE old) ]_<<seg, hist>>
Emit == (Len(hist) = MaxHist + 1) => PrintT(<<"HIST", ToJson(hist)>>)
=============================================================================
