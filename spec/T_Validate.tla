----------------------------- MODULE T_Validate ------------------------------
(* Trace validation for C07: recorded executions of the real pyx12 entry points.  *)
(* TRACE_FILE: a sequence of documents                                            *)
(*   [id, h, env, xclass, xlater, runs]                                           *)
(*   h      the first (at most) 106 characters of the input text as code points   *)
(*   env    the text's ISA / GS / BHT segments in order as abstract segments        *)
(*          [id, els, term] (element strings; values that cannot be map index keys  *)
(*          are replaced by "?")                                                   *)
(*   xclass class announced by the generator (Mutate.tla) for this document, ""     *)
(*          for inputs that do not come from the generator, "any" = no announcement *)
(*   xlater generator's LaterBadIsa                                                *)
(*   runs   [api, sinks, cs, o] with o = [kind, val, exc, site, mnf] (ValidateDef)  *)
(* One TLC state per document.  A run is accepted iff ValidateDef!Clause is "";     *)
(* otherwise <<document id, run index, clause>> is collected.  Clause              *)
(* "class_mismatch" means generator and text-level definition disagree about the    *)
(* class (an error of the harness / model, not of pyx12).                           *)
EXTENDS Naturals, Sequences, FiniteSets, TLC, Json, IOUtils, ValidateDef
VARIABLES di, rej, classes
vars == <<di, rej, classes>>
Docs == JsonDeserialize(IOEnv.TRACE_FILE)

ClassOf(d) == HeaderClass(d.h, d.env)
LaterOf(d) == LaterBadIsa(d.env)
Mismatch(d) == /\ d.xclass \notin {"", "any"}
               /\ (d.xclass # ClassOf(d) \/ (d.xclass \in {"interchange", "no_map"} /\ d.xlater # LaterOf(d)))
RejectsOf(d) ==
  LET c == ClassOf(d)
      l == LaterOf(d)
  IN {<<d.id, k, Clause(c, d.runs[k].api, d.runs[k].o, l)>> : k \in {x \in 1..Len(d.runs) : ~Allowed(c, d.runs[x].api, d.runs[x].o, l)}}
     \cup (IF Mismatch(d) THEN {<<d.id, 0, "class_mismatch">>} ELSE {})

Init == di = 1 /\ rej = {} /\ classes = <<>>
Step == /\ di <= Len(Docs)
        /\ rej' = rej \cup RejectsOf(Docs[di])
        /\ classes' = Append(classes, ClassOf(Docs[di]))
        /\ di' = di + 1
Spec == Init /\ [][Step]_vars
Report == (di > Len(Docs)) => PrintT(<<"REJECTS", ToJson([rej |-> rej, classes |-> classes])>>)
=============================================================================
