------------------------------- MODULE Session -------------------------------
(* C18: a process executing a sequence of library calls.                        *)
(*   log     : the calls made so far with what each observed                    *)
(*   globals : the abstract cell standing for every watched global of pyx12     *)
(* The specification of a call: its observation is the one a fresh process      *)
(* gives for the same document and call kind (Fresh is left uninterpreted here, *)
(* T_Session binds it to recorded one-call processes) and globals' = globals.   *)
(* Nothing of the earlier log, of the reuse mode or of globals enters Obs.      *)
(* TLC enumerates every history up to MaxLen over Docs x Kinds x ReuseModes     *)
(* (the legal calls of SessionDef: the loop kinds on LoopDocs, reuse "none", so  *)
(* that histories "copy the loop trees of one document, then iterate the loops  *)
(* of another" are among the pairs)                                             *)
(* (with Prune: the kept patterns of SessionDef!Kept; with SampleMod > 1: of    *)
(* the histories of full length only the seeded sample SessionDef!Sampled) and  *)
(* emits each one of length >= EmitMin; the harness runs every emitted history  *)
(* in one fresh interpreter.                                                    *)
EXTENDS SessionDef, Json
CONSTANTS NDocs, MaxLen, Prune, SampleMod, SampleSalt, EmitMin
VARIABLES log, globals
vars == <<log, globals>>
(* the corpus (lib/c18_corpus.py): valid / invalid 837P 4010, a 837P with many AK3 lines, valid / invalid 834 5010, *)
(* an 835, a 270, and a file with two interchanges and eight functional groups (278, 837, 835)                      *)
Corpus == <<"e834v5", "e834v5bad", "e834v5local", "i837occ", "i837span", "manyerr", "multi", "p820", "p837", "p837bad", "q270", "r835">>
DocSeq == SubSeq(Corpus, 1, NDocs)
Docs == {DocSeq[n] : n \in 1..Len(DocSeq)}

G0 == "G0"
Fresh(d, k) == <<"Fresh", d, k>>

Calls(l) == {c \in [doc : Docs, kind : Kinds, reuse : ReuseModes] : LegalCall(l, c)}

Init == log = <<>> /\ globals = G0
Process(c) == /\ Len(log) < MaxLen
              /\ Kept(Append(log, c), Prune)
              /\ (Len(log) + 1 = MaxLen => Sampled(DocSeq, Append(log, c), SampleMod, SampleSalt))
              /\ log' = Append(log, [doc |-> c.doc, kind |-> c.kind, reuse |-> c.reuse, obs |-> Fresh(c.doc, c.kind)])
              /\ globals' = globals
Next == \E c \in Calls(log) : Process(c)
Spec == Init /\ [][Next]_vars

(* model-level statements of the property *)
ObsIsFresh == \A i \in 1..Len(log) : log[i].obs = Fresh(log[i].doc, log[i].kind)
HistoryFree == \A i, j \in 1..Len(log) :
                  (log[i].doc = log[j].doc /\ log[i].kind = log[j].kind) => log[i].obs = log[j].obs
LegalLog == \A i \in 1..Len(log) : LegalCall(SubSeq(log, 1, i - 1), log[i])
GlobalsConstant == globals = G0
GlobalsUnchanged == [][globals' = globals]_vars
(* the pruning keeps every ordered pair of calls: nothing of length <= 2 is dropped *)
ASSUME LoopDocsInCorpus == NDocs = Len(Corpus) => LoopDocs \subseteq Docs
ASSUME PairsKept == \A c1 \in Calls(<<>>) : \A c2 \in Calls(<<c1>>) : Kept(<<c1, c2>>, Prune)

Emit == Len(log) >= EmitMin =>
        PrintT(<<"HIST", ToJson([i \in 1..Len(log) |-> <<log[i].doc, log[i].kind, log[i].reuse>>])>>)
=============================================================================
