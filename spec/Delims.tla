------------------------------- MODULE Delims --------------------------------
(* C12: results do not depend on delimiters or line layout.                      *)
(* In the specification delimiters exist only in the tokenizer: validation       *)
(* consumes abstract segments.  What has to hold on the model is therefore the   *)
(* commutation  Oracle(Encode(doc, d, eol), d) = doc  for every admissible       *)
(* delimiter triple d (three distinct characters outside the data alphabet) and  *)
(* line-break convention eol - checked here by TLC over all bounded documents -  *)
(* and what has to be established for the code is that its observable results    *)
(* are a function of that abstract document (T_Delims, on recorded runs).        *)
EXTENDS Naturals, Sequences, FiniteSets, TLC, TokDef
CONSTANTS Data,        \* data code points
          DelimChars,  \* candidate delimiter code points (disjoint from Data, CR, LF, blank)
          MaxSegs, MaxEles, MaxComps
VARIABLES doc, d, eol
Eols == {<<>>, <<LF>>, <<CR, LF>>, <<CR>>}
Vals == {<<a>> : a \in Data} \cup {<<>>}
Ids == {<<a, b>> : a \in Data, b \in Data}
Triples == {t \in [seg : DelimChars, ele : DelimChars, sub : DelimChars] : t.seg # t.ele /\ t.seg # t.sub /\ t.ele # t.sub}
Encode(dd, t, e) == IF Len(dd) = 0 THEN <<>> ELSE
   LET enc(i) == FormatSeg(dd[i], t) \o e IN
   IF Len(dd) = 1 THEN enc(1) ELSE enc(1) \o enc(2)
Init == doc = <<>> /\ d \in Triples /\ eol \in Eols
AddSeg == /\ Len(doc) < MaxSegs
          /\ \E id \in Ids : doc' = Append(doc, [id |-> id, eles |-> <<>>])
          /\ UNCHANGED <<d, eol>>
AddEle == /\ Len(doc) > 0 /\ Len(doc[Len(doc)].eles) < MaxEles
          /\ \E v \in Vals : doc' = [doc EXCEPT ![Len(doc)].eles = Append(@, <<v>>)]
          /\ UNCHANGED <<d, eol>>
AddComp == /\ Len(doc) > 0 /\ Len(doc[Len(doc)].eles) > 0
           /\ LET k == Len(doc[Len(doc)].eles) IN
              /\ Len(doc[Len(doc)].eles[k]) < MaxComps
              /\ \E v \in Vals : doc' = [doc EXCEPT ![Len(doc)].eles[k] = Append(@, v)]
           /\ UNCHANGED <<d, eol>>
Next == AddSeg \/ AddEle \/ AddComp
Spec == Init /\ [][Next]_<<doc, d, eol>>
(* the tokenizer definition recovers the document from every encoding, up to the normal form (trailing empties trimmed);
   a segment with no data at all is excluded: it is not a segment a document can carry *)
HasData(s) == \E i \in 1..Len(s.eles) : ~EmptyComp(s.eles[i])
Commutes == (\A i \in 1..Len(doc) : HasData(doc[i])) =>
   LET o == Oracle(Encode(doc, d, eol), d) IN
   /\ Len(o) = Len(doc)
   /\ \A i \in 1..Len(doc) : NormSeg(o[i].seg) = NormSeg(doc[i]) /\ ~o[i].blank
=============================================================================
