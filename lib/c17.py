"""C17 - reference-designator and path addressing.

spec -> code : TLC enumerates PathGen (all path records of the bounded grammar) and SegOps (all
               histories of set() calls); every emitted behaviour is replayed into the real
               pyx12.path.X12Path / pyx12.segment.Segment and compared with what the spec expects.
code -> spec : the printed path of every node of every shipped map, plus seeded random set/get
               histories on real segments, are recorded and validated by TLC against T_PathSeg
               (Parse/Print definitions, Set/Get semantics).
"""
import json
import os
import random
import sys

sys.path.insert(0, os.path.dirname(os.path.abspath(__file__)))
import vlib
from vlib import run_tlc, tlc_must_pass, Check

sys.path.insert(0, vlib.REPO)
import pyx12.path
import pyx12.segment
import pyx12.errors

NONE = '<none>'


# ------------------------------------------------------------------ projections (shared by replay and recording)
def proj_path(text):
    try:
        p = pyx12.path.X12Path(text)
    except pyx12.errors.X12PathError:
        return {'ok': False}
    except Exception as e:  # any other exception is an observation too
        return {'ok': False, 'exc': type(e).__name__}
    printed = p.format()
    try:
        q = pyx12.path.X12Path(printed)
        eq = (p == q) and not (p != q) and hash(p) == hash(q) and repr(p) == printed
    except Exception:
        eq = False
    return {'ok': True, 'rel': bool(p.relative), 'loops': list(p.loop_list),
            'seg': p.seg_id if p.seg_id is not None else NONE,
            'qual': p.id_val if p.id_val is not None else NONE,
            'ele': p.ele_idx if p.ele_idx is not None else 0, 'hasele': p.ele_idx is not None,
            'sub': p.subele_idx if p.subele_idx is not None else 0, 'hassub': p.subele_idx is not None,
            'printed': printed, 'eq': eq}


def proj_seg(seg):
    return {'id': seg.get_seg_id() or '', 'eles': [[e.get_value() for e in comp.elements] for comp in seg.elements]}


def seg_text(s):
    return s['id'] + ''.join('*' + ':'.join(c) for c in s['eles']) + '~'


def make_seg(s):
    seg = pyx12.segment.Segment(seg_text(s), '~', '*', ':')
    assert proj_seg(seg) == s, (proj_seg(seg), s)
    return seg


def do_call(seg, op, refdes, val):
    """one public call; returns (outcome, got)"""
    try:
        if op == 'set':
            seg.set(refdes, ':'.join(val))
            return 'ok', []
        r = seg.get_value(refdes)
        if r is None:
            return 'none', []
        return 'ok', r.split(':')
    except pyx12.errors.X12PathError:
        return 'patherror', []
    except pyx12.errors.EngineError:
        return 'refused', []
    except Exception as e:
        return 'exc:' + type(e).__name__, []


def trim(c):
    while len(c) > 1 and c[-1] == '':
        c = c[:-1]
    return c


def elem_reads(seg):
    """get_value at element level for every element of the segment (None -> [])"""
    out = []
    for i in range(1, len(seg) + 1):
        r = seg.get_value('%02d' % i)
        out.append(r.split(':') if r is not None else [])
    return out


def refdes_of(segid, e, c):
    return (segid or '') + '%02d' % e + ('-%d' % c if c else '')


# ------------------------------------------------------------------ spec -> code
def replay_paths(chk, payloads):
    n = 0
    for item in payloads:
        n += 1
        text, exp = item['text'], item['exp']
        got = proj_path(text)
        chk.add_eval()
        chk.note_distinct('p:' + text)
        clause = None
        if got.get('ok') != exp['ok'] or 'exc' in got:
            clause = 'ok'
        elif exp['ok']:
            for f in ('rel', 'loops', 'seg', 'qual', 'ele', 'sub', 'hasele', 'hassub'):
                if got[f] != exp[f]:
                    clause = f
                    break
            else:
                if got['printed'] != text:
                    clause = 'print'
                elif not got['eq']:
                    clause = 'equality'
        if clause:
            chk.violation({'clause': 'path_' + clause, 'text': text},
                          'X12Path(%r): expected %s, observed %s' % (text, exp, got),
                          {'kind': 'path', 'text': text, 'expected': exp, 'observed': got})
        if n % 4000 == 1:
            chk.sample({'path_text': text, 'expected_parse': exp})
    chk.add_traces(n)
    return n


def replay_hist(chk, hists):
    n = 0
    for h in hists:
        n += 1
        init = h[0]['seg']
        seg = make_seg(init)
        prev = init
        for k, step in enumerate(h[1:], 1):
            # the same designator is exercised with and without the segment id
            refdes = refdes_of('TST' if (k + n) % 2 else '', step['e'], step['c'])
            before = proj_seg(seg)
            elem_reads(seg)                      # element-level reads before the write (PathDef!GetEle): whatever they leave behind must not outlive it
            out, _ = do_call(seg, 'set', refdes, [step['v']])
            after = proj_seg(seg)
            rb_out, rb = do_call(seg, 'get', refdes, None)
            chk.add_eval()
            clause = None
            if out != 'ok':
                clause = 'outcome'
            elif after != step['seg']:
                clause = 'state'
            elif rb_out != 'ok' or rb != [step['v']]:
                clause = 'readback'
            elif elem_reads(seg) != [trim(list(c)) for c in step['seg']['eles']]:
                clause = 'element_read'          # get_value('NN') of every element = its components without trailing empty ones
            if clause:
                chk.violation({'clause': 'seg_' + clause, 'op': [step['e'], step['c'], step['v']], 'before': seg_text(before)},
                              'Segment %s .set(%r,%r): spec expects %s, observed %s (outcome %s, read back %s %s)'
                              % (seg_text(before), refdes, step['v'], seg_text(step['seg']), seg_text(after), out, rb_out, rb),
                              {'kind': 'hist', 'hist': h, 'step': k})
                break
            prev = after
        chk.note_distinct('h:' + json.dumps(h[1:], sort_keys=True)[:400])
        if n % 20000 == 1:
            chk.sample({'init': seg_text(init), 'calls': [[s['e'], s['c'], s['v']] for s in h[1:]],
                        'expected_final': seg_text(h[-1]['seg'])})
    chk.add_traces(n)
    return n


# ------------------------------------------------------------------ code -> spec
def _map_paths(fname):
    import pyx12.map_if
    import pyx12.params
    param = pyx12.params.params()
    out = set()
    try:
        m = pyx12.map_if.load_map_file(fname, param)
    except Exception:
        return []   # maps that do not load are C16's business
    def rec(node):
        try:
            out.add(node.get_path())
        except Exception:
            pass
        for ch in getattr(node, 'children', None) or []:
            rec(ch)
        if getattr(node, 'pos_map', None):
            for pos in sorted(node.pos_map):
                for ch in node.pos_map[pos]:
                    rec(ch)
    rec(m)
    return sorted(out)


def map_files():
    import xml.etree.ElementTree as ET
    t = ET.parse(os.path.join(vlib.REPO, 'pyx12', 'map', 'maps.xml'))
    names = []
    for el in t.iter('map'):
        if el.text and el.text.strip() not in names:
            names.append(el.text.strip())
    return names


def record_traces(tier, rnd):
    files = map_files()
    if tier == 'quick':
        rnd2 = random.Random(vlib.seed())
        keep = set(rnd2.sample(files, min(6, len(files))))
        keep.update(f for f in files if f.startswith('837.4010.X098') or f.startswith('999.5010.'))
        files = [f for f in files if f in keep]
    res = vlib.parallel_map(_map_paths, files)
    texts = sorted(set(p for r in res for p in r))
    paths = []
    for t in texts:
        g = proj_path(t)
        g['text'] = t
        if not g['ok']:
            g = {'text': t, 'ok': False, 'rel': False, 'loops': [], 'seg': NONE, 'qual': NONE, 'ele': 0, 'sub': 0,
                 'hasele': False, 'hassub': False, 'printed': '', 'eq': False}
        paths.append(g)
    # hand-written corner cases of the grammar
    for t in ['', '/', '/2000A/', '2000A/2300/', 'TST', 'TST02', 'TST02-1', '02', '02-1', 'N102-12', '/A1', '/ISA_LOOP/GS_LOOP/GS',
              '/2000A/20', '2300/[EA]', '/2000A/REF[EA]02-1', 'REF[1C]', '/TST01', '/02', 'AB12', 'AB123', 'ABC12-3', 'TST99-10',
              '2000A/2300/CLM05-1', '../2300', '[EA]02', '/2000A/02-1']:
        g = proj_path(t)
        g['text'] = t
        if not g['ok']:
            g = {'text': t, 'ok': False, 'rel': False, 'loops': [], 'seg': NONE, 'qual': NONE, 'ele': 0, 'sub': 0,
                 'hasele': False, 'hassub': False, 'printed': '', 'eq': False}
        paths.append(g)
    # random histories on real segments
    ntr = 600 if tier == 'quick' else 6000
    segs = []
    vals = ['', 'a', 'b', 'xy', '12', ' ']
    for t in range(ntr):
        sid = rnd.choice(['TST', 'N1', 'REF'])
        neles = rnd.randint(0, 4)
        init = {'id': sid, 'eles': [[rnd.choice(vals) for _ in range(rnd.choice([1, 1, 2, 3]))] for _ in range(neles)]}
        # the textual round trip trims trailing empties: build from text, project back
        seg = pyx12.segment.Segment(seg_text(init), '~', '*', ':')
        init = proj_seg(seg)
        events = []
        for _ in range(rnd.randint(3, 10)):
            op = rnd.choice(['set', 'set', 'get'])
            e = rnd.randint(1, 6)
            c = rnd.choice([0, 0, 1, 2, 3, 11])
            own = rnd.random() < 0.45
            other = rnd.random() < 0.08
            rid = (rnd.choice([x for x in ['TST', 'N1', 'REF', 'ZZ'] if x != sid]) if other else (sid if own else ''))
            refdes = refdes_of(rid, e, c)
            if op == 'set':
                val = [rnd.choice(vals)] if c else [rnd.choice(vals) for _ in range(rnd.choice([1, 1, 1, 2, 3]))]
                # a composite value whose last components are empty is trimmed only when printed, not when stored
            else:
                val = []
            out, got = do_call(seg, op, refdes, val)
            events.append({'op': op, 'refdes': refdes, 'val': val, 'outcome': out, 'after': proj_seg(seg), 'got': got})
        segs.append({'id': t, 'init': init, 'events': events})
    return {'paths': paths, 'segs': segs}


def validate_traces(chk, trace, label):
    d = vlib.scratch('c17tr')
    try:
        path = os.path.join(d, 'trace.json')
        vlib.write_json(path, trace)
        cfg = 'SPECIFICATION Spec\nINVARIANT Report\n'
        res = run_tlc('T_PathSeg', cfg, env={'TRACE_FILE': path}, workers=1, timeout=1500)
        if res.error:
            raise vlib.MachineryError('T_PathSeg: ' + res.error)
        chk.add_tlc(res, label)
        reps = res.payloads.get('REJECTS')
        if not reps:
            raise vlib.MachineryError('T_PathSeg printed no REJECTS report\n' + res.out[-1500:])
        for kind, i, k, clause in reps[-1]['rej']:
            if kind == 'path':
                r = trace['paths'][i - 1]
                chk.violation({'clause': 'trace_path_' + clause, 'text': r['text']},
                              'recorded X12Path(%r) = %s rejected by the specification at clause %s' % (r['text'], r, clause),
                              {'kind': 'path', 'text': r['text'], 'observed': r})
            else:
                tr = trace['segs'][i - 1]
                ev = tr['events'][k - 1]
                chk.violation({'clause': 'trace_seg_' + clause, 'op': ev['op'], 'refdes': ev['refdes']},
                              'recorded %s(%r,%r) on segment trace %s step %d rejected at clause %s: observed outcome %s after %s got %s'
                              % (ev['op'], ev['refdes'], ev['val'], tr['id'], k, clause, ev['outcome'], seg_text(ev['after']), ev['got']),
                              {'kind': 'segtrace', 'trace': tr, 'step': k})
        n = len(trace['paths']) + len(trace['segs'])
        chk.add_traces(n)
        chk.add_eval(len(trace['paths']) + sum(len(t['events']) for t in trace['segs']))
        for r in trace['paths'][:2]:
            chk.sample({'recorded_path': r})
        if trace['segs']:
            chk.sample({'recorded_segment_trace': trace['segs'][0]})
        return res
    finally:
        import shutil
        shutil.rmtree(d, ignore_errors=True)


def selftest(chk, trace):
    """binding self-test: corrupt one logged field, the trace must be rejected"""
    import copy
    t = {'paths': copy.deepcopy(trace['paths'][:3]), 'segs': copy.deepcopy(trace['segs'][:3])}
    t['paths'][0]['loops'] = t['paths'][0]['loops'] + ['X']
    for tr in t['segs']:
        for ev in tr['events']:
            if ev['op'] == 'set' and ev['outcome'] == 'ok':
                ev['after']['eles'][0] = ev['after']['eles'][0] + ['corrupt']
                break
    sub = Check('C17', chk.tier)
    validate_traces(sub, t, 'selftest')
    ok = len(sub.violations) >= 2
    chk.extra['binding_selftest'] = {'corrupted_records': 1 + len(t['segs']), 'rejected': len(sub.violations), 'ok': ok}
    if not ok:
        raise vlib.MachineryError('binding self-test failed: corrupted trace was accepted')


def run(tier, replay=None):
    if replay:
        obj = json.load(open(replay))['replay']
        if obj['kind'] == 'path':
            print('X12Path(%r) ->' % obj['text'], proj_path(obj['text']), 'expected', obj.get('expected'))
        elif obj['kind'] == 'hist':
            chk = Check('C17', tier)
            replay_hist(chk, [obj['hist']])
            for v in chk.violations:
                print(v[1])
            return 1 if chk.violations else 0
        else:
            print(json.dumps(obj, indent=1)[:3000])
        return 0
    chk = Check('C17', tier)
    chk.rule = ('paths: one case per record of the bounded grammar (PathGen state) and per distinct map-node path; '
                'segments: one case per distinct set()/get() history; trivial = none (every case parses or mutates something)')
    rnd = random.Random(vlib.seed() + 17)
    maxloops = 2 if tier == 'quick' else 3
    cfg = ('SPECIFICATION Spec\nCONSTANTS MaxLoops = %d\n FullEmit = TRUE\nINVARIANT RoundTrip\nINVARIANT Emit\n' % maxloops)
    res = tlc_must_pass(run_tlc('PathGen', cfg, timeout=1500), 'PathGen')
    chk.add_tlc(res, 'PathGen MaxLoops=%d' % maxloops)
    n = replay_paths(chk, res.payloads.get('PATH', []))
    if n == 0:
        raise vlib.MachineryError('PathGen emitted no behaviours')
    maxhist = 2 if tier == 'quick' else 3
    cfg = ('SPECIFICATION Spec\nCONSTANTS MaxHist = %d\n MaxEle = 3\n MaxSub = 3\n Vals = {"", "a", "b"}\n'
           'PROPERTY ReadBack\nPROPERTY OthersUnchanged\nPROPERTY ExactGrowth\nINVARIANT Emit\n' % maxhist)
    res = tlc_must_pass(run_tlc('SegOps', cfg, timeout=1500), 'SegOps')
    chk.add_tlc(res, 'SegOps MaxHist=%d' % maxhist)
    n = replay_hist(chk, res.payloads.get('HIST', []))
    if n == 0:
        raise vlib.MachineryError('SegOps emitted no behaviours')
    trace = record_traces(tier, rnd)
    validate_traces(chk, trace, 'T_PathSeg')
    chk.extra['map_node_paths_validated'] = len(trace['paths'])
    if tier == 'thorough':
        selftest(chk, trace)
    chk.assumptions = ['loop ids are taken from a representative set of 9 ids; ids readable as a reference designator only in non-final position',
                       'ISA16 special case of Segment.set is not exercised here (C01 covers the ISA)']
    return chk.finish()


if __name__ == '__main__':
    vlib.main_wrapper(run)
