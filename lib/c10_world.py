"""C10 helper: real loop trees from pyx12.x12context.X12ContextReader, their projection to the forest
records of spec/TreeDef.tla, the map fragment (as data) and the execution of one API call.

Nothing in here decides what is right or wrong: the expected values come from TLC.
"""
import copy
import os
import resource
import signal
import sys
from io import StringIO

sys.path.insert(0, os.path.dirname(os.path.abspath(__file__)))
import vlib

sys.path.insert(0, vlib.REPO)
import pyx12.error_handler
import pyx12.errors
import pyx12.params
import pyx12.segment
import pyx12.x12context
from pyx12.test.x12testdata import datafiles

NONE = '<none>'

# ------------------------------------------------------------------ termination guard
# The real code runs under a CPU-time budget per history (ITIMER_PROF of the worker process: children such as TLC do not
# count) and an address-space allowance: a history on which pyx12 hangs or explodes ends the history with NoTermination,
# which the check reports as a violation (clause no_termination) - the check itself always terminates.
# Histories that each stay below the budget but get slower and slower (state carried from history to history inside the
# library) are bounded by a CPU budget per task (one TLC part / one batch of recorded histories): TASK_CPU, set by c10.run.
HIST_CPU = float(os.environ.get('C10_HIST_CPU', '5'))        # seconds of CPU per history (ordinary histories need < 0.5)
TASK_CPU = float(os.environ.get('C10_TASK_CPU', '600'))      # seconds of CPU for the real-code part of one task
MEM_EXTRA = int(os.environ.get('C10_MEM_MB', '1536')) << 20  # address space the histories of a task may add to the process
POISON_AFTER = 2        # after that many histories without end in one worker process, it executes no further real code


class NoTermination(BaseException):
    """raised from the SIGPROF handler; not an Exception, so neither pyx12 nor the harness' `except Exception` swallows it"""


def _on_prof(signum, frame):
    raise NoTermination('cpu budget of %g s used up' % HIST_CPU)


def _vm_bytes():
    try:
        with open('/proc/self/statm') as f:
            return int(f.read().split()[0]) * os.sysconf('SC_PAGE_SIZE')
    except Exception:
        return 1 << 30


class Budget(object):
    """with Budget(): ... ; the timer keeps firing every second once the budget is used up, until disarmed"""
    poisoned = 0          # histories of this process that did not end
    task_spent = 0.0      # CPU seconds the histories of the current task have used
    task_reported = False
    base = None           # address space of the process when the histories of the current task started

    def __enter__(self):
        self.old = resource.getrlimit(resource.RLIMIT_AS)
        if Budget.base is None:
            Budget.base = _vm_bytes()
        lim = Budget.base + MEM_EXTRA
        if self.old[1] != resource.RLIM_INFINITY:
            lim = min(lim, self.old[1])
        try:
            resource.setrlimit(resource.RLIMIT_AS, (lim, self.old[1]))
        except (ValueError, OSError):
            pass
        t = os.times()
        self.c0 = t[0] + t[1]
        signal.signal(signal.SIGPROF, _on_prof)
        signal.setitimer(signal.ITIMER_PROF, HIST_CPU, 1.0)
        return self

    def __exit__(self, et, ev, tb):
        signal.setitimer(signal.ITIMER_PROF, 0, 0)
        t = os.times()
        self.cpu = t[0] + t[1] - self.c0
        Budget.task_spent += self.cpu
        try:
            resource.setrlimit(resource.RLIMIT_AS, self.old)
        except (ValueError, OSError):
            pass
        if et is not None and issubclass(et, (NoTermination, MemoryError)):
            Budget.poisoned += 1
        return False


def start_task():
    """to be called when the real-code part of a task begins (after the task's inputs have been loaded)"""
    Budget.task_spent = 0.0
    Budget.task_reported = False
    Budget.base = _vm_bytes()


def task_over():
    """the histories of the current task have used up TASK_CPU: the rest of the task is not executed"""
    return Budget.task_spent > TASK_CPU


def give_up():
    Budget.poisoned = max(Budget.poisoned, POISON_AFTER)


def gave_up():
    """this worker process has seen POISON_AFTER histories without end: the library state it carries (e.g. an exploded
    shared list) makes every further history as slow; the remaining ones are counted as not executed"""
    return Budget.poisoned >= POISON_AFTER


def why(e):
    return str(e) if isinstance(e, NoTermination) else 'address space allowance (%d MB per process) exhausted (MemoryError)' % (MEM_EXTRA >> 20)

DEAD = {'k': 'dead', 'mn': 0, 'par': 0, 'ch': [], 'eles': []}

HDR_837 = """ISA*00*          *00*          *ZZ*AAAAAAAA       *ZZ*BBBBBBBBB      *041105*1526*U*00401*000001168*1*P*:~
GS*HC*AAAA*BBBBBBBBB*20041105*1526*1167*X*004010X098A1~
ST*837*1179~
BHT*0019*00*AAAA1179*20041105*1526*RP~
REF*87*004010X098A1~
NM1*41*2*Sender 1*****46*99999~
PER*IC*SUPPORT*EM*Support@dev.null*TE*8005553333~
NM1*40*2*Receiver 1*****46*8888888~
HL*1**20*1~
NM1*85*2*Sender 1*****24*999999999~
N3*399 ELM ROAD~
N4*Kalamazoo*MI*49001~
HL*2*1*22*0~
SBR*P*18*******MC~
NM1*IL*1*THE FIFTH*RICHARD****MI*1212121~
NM1*PR*2*PAYER 1*****PI*8888888~
"""
TRL_837 = "SE*99*1179~\nGE*1*1167~\nIEA*1*000001168~\n"
HDR_835 = """ISA*00*          *00*          *ZZ*383319999      *ZZ*382999999      *090220*1816*U*00401*000003447*1*P*:~
GS*HP*383319999*382999999*20090220*1816*3444*X*004010X091A1~
ST*835*40731~
BPR*I*5950.21*C*CHK************20090220~
TRN*1*0004926*1382999999~
N1*PR*Payer 1~
N1*PE*Provider 1*FI*382999999~
LX*1~
"""
TRL_835 = "SE*99*40731~\nGE*1*3444~\nIEA*1*000003447~\n"
HDR_834 = """ISA*00*          *00*          *ZZ*D00XXX         *ZZ*00AA           *070305*1832*U*00401*000701336*0*P*:~
GS*BE*D00XXX*00AA*20070305*1832*13360001*X*004010X095A1~
ST*834*0001~
BGN*00*88880070301  00*20070305*181245****4~
N1*P5*PAYER 1*FI*999999999~
N1*IN*KCMHSAS*FI*999999999~
"""
TRL_834 = "SE*99*0001~\nGE*1*13360001~\nIEA*1*000701336~\n"

# name -> document (text or key of the suite's datafiles), loop id, index of the tree among the trees of that loop,
#         adds = segments offered to add_segment / add_loop / delete_segment,
#         qpaths / gpaths = curated path alphabets of the exhaustive exploration (small trees only)
FIXTURES = {
    # small trees for exhaustive exploration
    's837': dict(doc=HDR_837 + "CLM*A1*21***12::1*Y*A*Y*A*B~\nREF*F8*R1~\nREF*EA*R2~\nLX*1~\nSV1*HC:H2015*21*UN*12***1~\n"
                 "SVD*P1*21*HC:H2015**12~\nLX*2~\n" + TRL_837, loop='2300', pick=0,
                 adds=['REF*F8*R1', 'REF*EA*N2', 'CN1*05', 'HCP*00*7', 'LX*3', 'NM1*82*2*PROV', 'SV1*HC:H2017*5', 'SVD*P2*3',
                       'ZZZ*1'],
                 qpaths=['CLM', 'REF', 'REF[EA]', 'REF[G1]', '2400', '2400/LX', '2400/SV1', '2400/2430', '2400/2430/SVD',
                         '2310B', 'LX', 'SV1', '2430', 'SVD', '../CLM', '../REF[F8]', '../2400', '../2400/LX', '../LX',
                         '../../CLM', 'ZZZ', 'CLM[XX]', '../../../CLM'],
                 gpaths=['CLM02', 'CLM05-3', 'REF[EA]02', 'REF02', '2400/LX01', '2400/SV101-2', '2400/2430/SVD02', 'SV102',
                         '../CLM02', '../../CLM02', '02', '01-2', 'LX01', 'SVD02', 'CN102', 'CLM',
                         'REF[EA]06', 'REF[EA]04-2']),      # a write far beyond the end of a segment, then a component write into the gap
    's835': dict(doc=HDR_835 + "CLP*C1*22*-310*-210*0*HM*63~\nNM1*QC*1*Flint*Fred~\nSVC*HC:T1017*-310*-210~\n"
                 "DTM*150*20080111~\nSVC*HC:T1018*5*5~\n" + TRL_835, loop='2100', pick=0,
                 adds=['NM1*QC*1*Flint*Fred', 'NM1*74*1*Rubble', 'AMT*AU*580', 'DTM*232*20080101', 'SVC*HC:T1019*1*1',
                       'DTM*150*20080111', 'CAS*CR*45*-100', 'ZZZ*1'],
                 qpaths=['CLP', 'NM1', 'NM1[QC]', 'NM1[74]', 'AMT', '2110', '2110/SVC', '2110/DTM', '2110/DTM[150]', 'SVC',
                         'DTM[150]', '../CLP', '../2110', '../2110/SVC', '../SVC', '../../NM1[QC]', 'ZZZ', 'CLP[XX]', '9999/SVC'],
                 gpaths=['CLP02', 'NM1[QC]03', 'NM104', 'AMT02', '2110/SVC02', '2110/SVC01-2', '2110/DTM[150]02', 'SVC03',
                         'DTM02', '../CLP03', '../../CLP03', '03', '01-2', 'CLP']),
    's834': dict(doc=HDR_834 + "INS*Y*18*030*XN*A*C**FT~\nREF*0F*0038~\nREF*1L*0000~\nNM1*IL*1*DOE*JOHN~\nN3*777 ELM ST~\n"
                 + TRL_834, loop='2000', pick=0,
                 adds=['REF*1L*0000', 'REF*3H*K12', 'DTP*356*D8*20070301', 'NM1*IL*1*ROE', 'HD*030**AK', 'N4*ALLEGAN*MI',
                       'ZZZ*1'],
                 qpaths=['INS', 'REF', 'REF[0F]', 'REF[1L]', 'REF[3H]', 'DTP', '2100A', '2100A/NM1', '2100A/N3', '2300',
                         '2300/HD', 'NM1', 'N3', '../INS', '../REF[1L]', '../2100A', '../2100A/N3', '../N3', 'ZZZ', 'INS[XX]'],
                 gpaths=['INS02', 'INS09', 'REF02', 'REF[1L]02', '2100A/NM103', '2100A/N301', 'N302', '../INS03', 'NM104',
                         '02', '03-2', 'DTP[356]03', 'INS']),
    # the real documents of the test suite
    'b837': dict(doc='simple_837p', loop='2300', pick=0,
                 adds=['REF*F8*R1', 'REF*EA*N2', 'CN1*05', 'DTP*431*D8*20040101', 'HCP*00*7', 'LX*3', 'NM1*82*2*PROV',
                       'NM1*77*2*FAC', 'SV1*HC:H2017*5', 'SVD*P2*3', 'DTP*573*D8*20040929', 'REF*6R*1057296', 'AMT*AAE*21',
                       'SBR*S*18', 'ZZZ*1']),
    'c837': dict(doc='simple_837p', loop='2300', pick=1,
                 adds=['REF*F8*R1', 'CN1*05', 'HI*BK:317', 'LX*4', 'SV1*HC:H2017*5', 'REF*6R*1057297', 'DTP*472*D8*20040414',
                       'ZZZ*1']),
    'a837': dict(doc='simple_837p', loop='2000A', pick=0,
                 adds=['HL*3*1*22*0', 'HL*3*2*23*0', 'NM1*85*2*Sender 2', 'NM1*IL*1*SIX', 'CLM*77*5', 'PRV*BI*ZZ*1',
                       'REF*1D*3334', 'N3*1 ELM', 'LX*9', 'ZZZ*1']),
    'b835': dict(doc='835id', loop='2000', pick=0,
                 adds=['CLP*X*1*3*2*0*HM*6', 'NM1*QC*1*Slate', 'AMT*AU*580', 'SVC*HC:T1019*1*1', 'DTM*150*20080111',
                       'CAS*CR*45*-100', 'REF*G1*20540', 'TS3*1*11*20091231*1*5', 'ZZZ*1']),
    'b834': dict(doc='834_lui_id', loop='2000', pick=0,
                 adds=['REF*3H*K129999A', 'REF*17*E', 'DTP*356*D8*20070301', 'NM1*IL*1*ROE', 'HD*030**AK',
                       'DTP*348*D8*20070301', 'AMT*P3*45.34', 'N4*ALLEGAN*MI', 'LUI***ESS', 'ZZZ*1']),
}


def proj_eles(seg):
    return [[e.get_value() for e in comp.elements] for comp in seg.elements]


def parse_sd(text):
    seg = pyx12.segment.Segment(text + '~', '~', '*', ':')
    return {'id': seg.get_seg_id(), 'eles': proj_eles(seg)}


def sd_text(sd):
    return sd['id'] + ''.join('*' + ':'.join(c) for c in sd['eles'])


def _qualifier(m):
    """which element of a segment type carries its qualifier code (the abstraction of the map used by the spec)"""
    ch = m.children
    c0 = ch[0]
    if c0.is_element() and c0.get_data_type() == 'ID' and c0.usage == 'R' and len(c0.valid_codes) > 0:
        return 1, 0, list(c0.valid_codes)
    if m.id == 'ENT' and ch[1].is_element() and ch[1].get_data_type() == 'ID' and len(ch[1].valid_codes) > 0:
        return 2, 0, list(ch[1].valid_codes)
    if c0.is_composite() and c0.children[0].get_data_type() == 'ID' and len(c0.children[0].valid_codes) > 0:
        return 1, 1, list(c0.children[0].valid_codes)
    if m.id == 'HL' and ch[2].is_element() and len(ch[2].valid_codes) > 0:
        return 3, 0, list(ch[2].valid_codes)
    return 0, 0, []


class Fixture(object):
    """one real tree + the map fragment below its root loop"""

    def __init__(self, name):
        self.name = name
        spec = FIXTURES[name]
        doc, adds = spec['doc'], spec['adds']
        self.spec = spec
        self.text = datafiles[doc]['source'] if doc in datafiles else doc
        self.loop = spec['loop']
        self.pick = spec['pick']
        self.root = self.read_tree()
        self.mapnodes = []
        self.mnidx = {}
        self._walk_map(self.root.x12_map_node, 0)
        self.memo = {}
        top = self.root.x12_map_node
        while getattr(top, 'parent', None) is not None:
            top = top.parent
        self._pin(top)
        self.adds = [parse_sd(t) for t in adds]
        w = World(self, self.root)
        self.init = w.project()
        for n in self.init:               # (a malformed tree is not refused here: T_TreeEdit judges the reader's trees)
            if n['mn'] < 0:
                raise vlib.MachineryError('fixture %s: a node of the tree has a map node outside the fragment' % name)
        for s in self.root.iterate_segments():
            assert (s['segment'].seg_term, s['segment'].ele_term, s['segment'].subele_term) == ('~', '*', ':')

    def read_tree(self):
        param = pyx12.params.params()
        errh = pyx12.error_handler.errh_null()
        src = pyx12.x12context.X12ContextReader(param, errh, StringIO(self.text))
        k = 0
        for t in src.iter_segments(self.loop):
            if t.id == self.loop:
                if k == self.pick:
                    return t
                k += 1
        raise vlib.MachineryError('fixture %s: tree %s #%d not found' % (self.name, self.loop, self.pick))

    def _walk_map(self, m, par):
        idx = len(self.mapnodes) + 1
        self.mnidx[id(m)] = idx
        rec = {'kind': 'loop' if m.is_loop() else 'seg', 'id': m.id, 'pos': int(m.pos), 'par': par, 'kids': [],
               'qe': 0, 'qc': 0, 'codes': [], 'lk': {}, 'sk': {}, 'ak': {}}
        self.mapnodes.append(rec)
        if m.is_loop():
            for c in m.childIterator():
                if c.is_loop() or c.is_segment():
                    k = self._walk_map(c, idx)
                    rec['kids'].append(k)
                    crec = self.mapnodes[k - 1]
                    if crec['kind'] == 'seg':
                        rec['sk'].setdefault(crec['id'], []).append(k)
                    else:
                        assert crec['id'] not in rec['lk']
                        rec['lk'][crec['id']] = k
                        first = self.mapnodes[crec['kids'][0] - 1] if crec['kids'] else None
                        if first is not None and first['kind'] == 'seg':
                            rec['ak'].setdefault(first['id'], []).append(k)
        else:
            rec['qe'], rec['qc'], rec['codes'] = _qualifier(m)
        return idx

    def _pin(self, m):
        self.memo[id(m)] = m
        if hasattr(m, 'pos_map'):
            for pos in m.pos_map:
                for c in m.pos_map[pos]:
                    self._pin(c)

    def fresh_world(self, reread=False):
        """a real tree in the initial state: read again by X12ContextReader, or an object-level clone of the tree read first"""
        if reread:
            root = self.read_tree()
            other = Fixture.__new__(Fixture)          # the new reader has its own map instance: index it the same way
            other.mapnodes, other.mnidx = [], {}
            other._walk_map(root.x12_map_node, 0)
            assert other.mapnodes == self.mapnodes
            self.mnidx.update(other.mnidx)
            return World(self, root)
        return World(self, copy.deepcopy(self.root, dict(self.memo)))


class World(object):
    """real nodes <-> node numbers of the specification"""

    def __init__(self, fx, root):
        self.fx = fx
        self.objs = [None]
        self.ids = {}
        self.roots = [root]
        self.reg_tree(root)

    def reg(self, o):
        if id(o) in self.ids:
            return self.ids[id(o)]
        self.objs.append(o)
        self.ids[id(o)] = len(self.objs) - 1
        return len(self.objs) - 1

    def reg_tree(self, o):
        n = self.reg(o)
        for c in getattr(o, 'children', None) or []:
            if c.type is not None:
                self.reg_tree(c)
        return n

    def nid(self, o):
        if o is None:
            return 0
        return self.ids.get(id(o), -1)

    def project(self):
        live = {}
        cont = set()
        stack = [r for r in self.roots if r.type is not None]
        while stack:
            o = stack.pop()
            if id(o) in live:
                continue
            live[id(o)] = o
            for c in getattr(o, 'children', None) or []:
                if c.type is not None:
                    cont.add(id(c))
                    stack.append(c)
        out = []
        mnidx = self.fx.mnidx
        for o in self.objs[1:]:
            if id(o) not in live:
                out.append(DEAD)
                continue
            kids = [c for c in (getattr(o, 'children', None) or []) if c.type is not None]
            out.append({'k': o.type, 'mn': mnidx.get(id(o.x12_map_node), -1),
                        'par': self.nid(o.parent) if id(o) in cont else 0,
                        'ch': [self.nid(c) for c in kids],
                        'eles': proj_eles(o.seg_data) if o.type == 'seg' and o.seg_data is not None else []})
        return out

    def serialise(self, proj):
        out = []
        for i, n in enumerate(proj, 1):
            if n['k'] != 'dead' and n['par'] == 0:
                try:
                    segs = [s['segment'].format() for s in self.objs[i].iterate_segments()]
                except MemoryError:
                    raise
                except Exception as e:
                    segs = ['EXC:' + type(e).__name__]
                out.append({'root': i, 'segs': segs})
        return out

    # ------------------------------------------------------------------ one API call
    def _segarg(self, node, sd, k):
        text = sd_text(sd)
        has_seg_child = any(c.type == 'seg' for c in node.children)
        if k % 2 == 0 and has_seg_child:
            return text + ('~' if k % 4 == 0 else '')
        return pyx12.segment.Segment(text + '~', '~', '*', ':')

    def call(self, st, k=0):
        """st: {h, op, path, sd, v, a}; returns the projected return value"""
        node = self.objs[st['h']]
        op = st['op']
        ret = {'x': '', 'b': False, 'n': 0, 'm': 0, 's': [], 'xs': []}
        try:
            if op == 'get':
                r = node.get_value(st['path'])
                if r is not None:
                    ret['b'] = True
                    ret['s'] = r.split(':')
            elif op == 'set':
                node.set_value(st['path'], st['v'])
            elif op == 'query':
                ret['xs'] = ['', '', '', '']
                try:
                    ret['b'] = bool(node.exists(st['path']))
                except Exception as e:
                    ret['xs'][0] = type(e).__name__
                try:
                    ret['n'] = int(node.count(st['path']))
                except Exception as e:
                    ret['xs'][1] = type(e).__name__
                try:
                    ret['m'] = self.nid(node.first(st['path']))
                except Exception as e:
                    ret['xs'][2] = type(e).__name__
                try:
                    ret['s'] = [self.nid(x) for x in node.select(st['path'])]
                except Exception as e:
                    ret['xs'][3] = type(e).__name__
            elif op == 'add_segment':
                r = node.add_segment(self._segarg(node, st['sd'], k))
                ret['n'] = self.reg_tree(r) if r is not None else 0
            elif op == 'add_loop':
                r = node.add_loop(self._segarg(node, st['sd'], k))
                ret['n'] = self.reg_tree(r) if r is not None else 0
            elif op == 'add_node':
                arg = self.objs[st['a']]
                node.add_node(arg)
                # handed over to a tree: from now on it lives (and dies) with its container
                self.roots = [r for r in self.roots if r is not arg]
            elif op == 'delete_segment':
                ret['b'] = bool(node.delete_segment(self._segarg(node, st['sd'], k)))
            elif op == 'delete_node':
                ret['b'] = bool(node.delete_node(st['path']))
            elif op == 'delete':
                node.delete()
            elif op == 'copy':
                r = node.copy()
                self.roots.append(r)
                ret['n'] = self.reg_tree(r)
            else:
                raise vlib.MachineryError('unknown op %s' % op)
        except (vlib.MachineryError, MemoryError):
            raise
        except Exception as e:
            ret['x'] = type(e).__name__
        return ret


def forest_diff(exp, obs):
    """name of the first field in which two projected forests differ (for violation signatures)"""
    if len(exp) != len(obs):
        return 'nodes'
    for a, b in zip(exp, obs):
        for fld in ('k', 'mn', 'eles', 'ch', 'par'):
            if a[fld] != b[fld]:
                return fld
    return ''
