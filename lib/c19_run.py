"""C19 helper: drive the real pyx12.x12n_document with an HTML sink and project what happened.

Nothing here decides right or wrong.  The module
  * runs x12n_document(param, src, fd_997, fd_html, None, None, None, callback) with a recording subclass of
    err_handler (every public call on the error tree is logged, the callback closes the log of one source segment),
  * reads the same text a second time with a plain X12Reader (source segments + line numbers),
  * parses the produced HTML with html.parser into items and lexes the raw content of every item into integer
    tokens (raw character = its code point, entity / highlight tag = negative ids defined in spec/Html.tla).
The TLA+ modules Html / T_Html judge the resulting record.
"""
import html.parser
import io
import logging
import os
import re
import sys

sys.path.insert(0, os.path.dirname(os.path.abspath(__file__)))
import vlib

sys.path.insert(0, vlib.REPO)
import pyx12.error_handler
import pyx12.params
import pyx12.x12file
import pyx12.x12n_document

logging.getLogger('pyx12').addHandler(logging.NullHandler())
logging.getLogger('pyx12').propagate = False
logging.disable(logging.CRITICAL)

_BASE = pyx12.error_handler.err_handler
ENVELOPE = ('ISA', 'GS', 'ST', 'SE', 'GE', 'IEA')


class RecHandler(_BASE):
    """err_handler that logs the calls made on it (public protocol only, behaviour unchanged)"""
    last = None

    def __init__(self):
        _BASE.__init__(self)
        RecHandler.last = self
        self.calls = []          # calls since the last segment boundary
        self.errs = []           # every reported error of the run

    def _err(self, lvl, code, msg, val, attached):
        st = getattr(self, 'cur_st_node', None)
        self.errs.append({'lvl': lvl, 'code': str(code), 'msg': msg, 'val': val if isinstance(val, str) else '', 'att': attached,
                          'open': bool(st is not None and not st.is_closed())})
        self.calls.append({'op': lvl + '_error', 'code': str(code), 'u': len(self.errs)})

    def add_isa_loop(self, seg_data, src):
        self.calls.append({'op': 'add_isa', 'code': '', 'u': 0})
        return _BASE.add_isa_loop(self, seg_data, src)

    def add_gs_loop(self, seg_data, src):
        self.calls.append({'op': 'add_gs', 'code': '', 'u': 0})
        return _BASE.add_gs_loop(self, seg_data, src)

    def add_st_loop(self, seg_data, src):
        self.calls.append({'op': 'add_st', 'code': '', 'u': 0})
        return _BASE.add_st_loop(self, seg_data, src)

    def add_seg(self, map_node, seg_data, seg_count, cur_line, ls_id):
        self.calls.append({'op': 'add_seg', 'code': '', 'u': 0})
        return _BASE.add_seg(self, map_node, seg_data, seg_count, cur_line, ls_id)

    def add_ele(self, map_node):
        if not (self.calls and self.calls[-1]['op'] == 'add_ele'):     # consecutive add_ele calls are recorded once
            self.calls.append({'op': 'add_ele', 'code': '', 'u': 0})
        return _BASE.add_ele(self, map_node)

    def close_isa_loop(self, node, seg, src):
        self.calls.append({'op': 'close_isa', 'code': '', 'u': 0})
        return _BASE.close_isa_loop(self, node, seg, src)

    def close_gs_loop(self, node, seg, src):
        self.calls.append({'op': 'close_gs', 'code': '', 'u': 0})
        return _BASE.close_gs_loop(self, node, seg, src)

    def close_st_loop(self, node, seg, src):
        self.calls.append({'op': 'close_st', 'code': '', 'u': 0})
        return _BASE.close_st_loop(self, node, seg, src)

    def isa_error(self, err_cde, err_str):
        _BASE.isa_error(self, err_cde, err_str)
        self._err('isa', err_cde, err_str, None, True)

    def gs_error(self, err_cde, err_str):
        _BASE.gs_error(self, err_cde, err_str)
        self._err('gs', err_cde, err_str, None, True)

    def st_error(self, err_cde, err_str):
        _BASE.st_error(self, err_cde, err_str)
        self._err('st', err_cde, err_str, None, True)

    def seg_error(self, err_cde, err_str, err_value=None, src_line=None):
        _BASE.seg_error(self, err_cde, err_str, err_value, src_line)
        n = self.cur_seg_node
        att = bool(n is not None and getattr(n, 'id', None) == 'SEG' and n.errors and n.errors[-1][0] == err_cde
                   and n.errors[-1][1] == err_str and self.seg_node_added)
        self._err('seg', err_cde, err_str, err_value, att)

    def ele_error(self, err_cde, err_str, bad_value, refdes=None):
        _BASE.ele_error(self, err_cde, err_str, bad_value, refdes)
        self._err('ele', err_cde, err_str, bad_value, True)


# --------------------------------------------------------------------------- HTML -> items
# token ids shared with spec/Html.tla
E_AMP, E_LT, E_GT, E_NBSP, E_QUOT, E_APOS = -1, -2, -3, -4, -5, -6
T_HI_OPEN, T_HI_CLOSE = -100, -101
NUMREF_BASE = -1000
_ENT = {'amp': E_AMP, 'lt': E_LT, 'gt': E_GT, 'nbsp': E_NBSP, 'quot': E_QUOT, 'apos': E_APOS}
_RE_ENT = re.compile(r'&(?:(amp|lt|gt|nbsp|quot|apos)|#([0-9]{1,7})|#[xX]([0-9a-fA-F]{1,6}));')
HI_OPEN = '<span class="ele_err">'
HI_CLOSE = '</span>'


def lex(raw, allow_hi):
    """raw inner text of an item -> integer tokens (no interpretation beyond recognising entities / the highlight span)"""
    out = []
    i = 0
    n = len(raw)
    hi = 0
    while i < n:
        c = raw[i]
        if c == '&':
            m = _RE_ENT.match(raw, i)
            if m:
                if m.group(1):
                    out.append(_ENT[m.group(1)])
                else:
                    v = int(m.group(2)) if m.group(2) else int(m.group(3), 16)
                    out.append(NUMREF_BASE - v)
                i = m.end()
                continue
        elif c == '<' and allow_hi:
            if raw.startswith(HI_OPEN, i):
                out.append(T_HI_OPEN)
                hi += 1
                i += len(HI_OPEN)
                continue
            if hi > 0 and raw.startswith(HI_CLOSE, i):
                out.append(T_HI_CLOSE)
                hi -= 1
                i += len(HI_CLOSE)
                continue
        out.append(ord(c))
        i += 1
    return out


_STRUCT = ('html', 'head', 'title', 'style', 'body', 'div', 'a', 'h1', 'h2', 'h3')
_ITEMCLS = {'seg': 'seg', 'error': 'err', 'info': 'info'}
_RE_ERRTAIL = re.compile(r'^(.*) \((Segment|Element) Error Code: ([^()]*)\)$', re.S)
_RE_SEGHEAD = re.compile(r'^([0-9]+):(?:&nbsp;|&#160;| )')


class ReportParser(html.parser.HTMLParser):
    """document structure + item boundaries; the raw text of every item is cut out of the input by offsets"""

    def __init__(self, text):
        html.parser.HTMLParser.__init__(self, convert_charrefs=False)
        self.text = text
        self.starts = [0]
        for m in re.finditer('\n', text):
            self.starts.append(m.end())
        self.stack = []            # structural elements currently open
        self.flags = {'html_open': False, 'head': False, 'title': False, 'body_open': False, 'body_close': False,
                      'html_close': False, 'balanced': True, 'trailing': False, 'before': False}
        self.items = []
        self.cur = None            # [cls, inner_start, depth, foreign_tags]
        self.done = False

    def _abs(self):
        ln, off = self.getpos()
        return self.starts[ln - 1] + off

    def _close_item(self, end):
        cls, start, _d, foreign = self.cur
        self.items.append((cls, self.text[start:end], foreign))
        self.cur = None

    def handle_starttag(self, tag, attrs):
        pos = self._abs()
        if self.done:
            self.flags['trailing'] = True
        cls = dict(attrs).get('class') if tag == 'span' else None
        if tag == 'span' and cls in _ITEMCLS:
            if self.cur is not None:
                self._close_item(pos)          # recovery: an item that never closed ends where the next begins
            self.cur = [_ITEMCLS[cls], pos + len(self.get_starttag_text()), 1, 0]
            return
        if self.cur is not None:
            if tag == 'span':
                self.cur[2] += 1
                if not (self.cur[0] == 'seg' and cls == 'ele_err'):
                    self.cur[3] += 1
            elif tag != 'br':
                self.cur[3] += 1
            return
        if tag in _STRUCT:
            if tag == 'html':
                if self.flags['html_open'] or self.stack:
                    self.flags['balanced'] = False
                self.flags['html_open'] = True
            elif not self.flags['html_open']:
                self.flags['before'] = True
            if tag == 'head':
                self.flags['head'] = True
            if tag == 'title':
                self.flags['title'] = True
            if tag == 'body':
                self.flags['body_open'] = True
            self.stack.append(tag)

    def handle_startendtag(self, tag, attrs):
        if self.done:
            self.flags['trailing'] = True
        if self.cur is not None and tag != 'br':
            self.cur[3] += 1

    def handle_endtag(self, tag):
        pos = self._abs()
        if self.cur is not None and tag in ('div', 'body', 'html'):
            self.cur[3] += 1
            self._close_item(pos)              # recovery: the enclosing block ends, so does an item that never closed
        if self.cur is not None:
            if tag == 'span':
                self.cur[2] -= 1
                if self.cur[2] == 0:
                    self._close_item(pos)
            elif tag != 'br':
                self.cur[3] += 1
            return
        if tag in _STRUCT:
            if self.stack and self.stack[-1] == tag:
                self.stack.pop()
            else:
                self.flags['balanced'] = False
                if tag in self.stack:
                    while self.stack and self.stack.pop() != tag:
                        pass
            if tag == 'body':
                self.flags['body_close'] = True
            if tag == 'html':
                self.flags['html_close'] = True
                self.done = True

    def handle_data(self, data):
        if self.done and data.strip():
            self.flags['trailing'] = True
        if not self.flags['html_open'] and data.strip():
            self.flags['before'] = True

    def handle_comment(self, data):
        if self.cur is not None:
            self.cur[3] += 1

    def handle_decl(self, decl):
        if self.cur is not None:
            self.cur[3] += 1

    def handle_pi(self, data):
        if self.cur is not None:
            self.cur[3] += 1

    def unknown_decl(self, data):
        if self.cur is not None:
            self.cur[3] += 1

    def finish(self):
        self.feed(self.text)
        self.close()
        if self.cur is not None:
            self._close_item(len(self.text))
        if self.stack:
            self.flags['balanced'] = False
        return self.flags, self.items


def _strip_item_tail(raw):
    # an item that was closed by recovery still carries its own end tag and line break
    for tail in ('</span><br />\n', '</span><br />', '<br />\n', '<br />'):
        if raw.endswith(tail):
            return raw[:-len(tail)]
    return raw


def parse_report(text):
    """HTML text -> (document flags, items).  item = {k, line, tok, lvl, code, tags}"""
    flags, raw_items = ReportParser(text).finish()
    items = []
    for cls, raw, foreign in raw_items:
        if foreign:
            raw = _strip_item_tail(raw)
        it = {'k': cls, 'line': -1, 'tok': [], 'lvl': '', 'code': '', 'tags': foreign}
        if cls == 'seg':
            m = _RE_SEGHEAD.match(raw)
            if m:
                it['line'] = int(m.group(1)) if len(m.group(1)) < 10 else -1
                raw = raw[m.end():]
            it['tok'] = lex(raw, True)
        elif cls == 'err':
            if raw.startswith('&nbsp;'):
                raw = raw[6:]
            m = _RE_ERRTAIL.match(raw)
            if m:
                raw, it['lvl'], it['code'] = m.group(1), m.group(2), m.group(3)
            it['tok'] = lex(raw, False)
        else:
            it['tok'] = lex(raw, False)
        items.append(it)
    return flags, items


# --------------------------------------------------------------------------- running the real code
def read_source(text):
    """source segments as the real X12Reader yields them"""
    rd = pyx12.x12file.X12Reader(io.StringIO(text))
    st, et, ct = rd.get_term()[:3]
    segs = []
    for seg in rd:
        sid = seg.get_seg_id() or ''
        segs.append({'line': rd.get_cur_line(), 'sid': sid, 'text': vlib.codes(seg.format(st, et, ct)), 'raw': False})
    # the segments as WRITTEN in the source, cut here at the terminator independently of the reader: where the pieces line up
    # one to one with what the reader yielded (same identifier, same values once empty tails are dropped) the report is held to
    # the written text itself - empty trailing elements and components included
    pieces = [p.lstrip(' \r\n') for p in text.split(st)]
    pieces = [p for p in pieces if p.strip(' \r\n') != '']
    if len(pieces) == len(segs):
        def canon(t):
            els = [e.rstrip(ct) if i else e for i, e in enumerate(t.rstrip(st).split(et))]
            while len(els) > 1 and els[-1] == '':
                els.pop()
            return els
        for p, g in zip(pieces, segs):
            if g['sid'] != 'ISA' and canon(p) == canon(''.join(chr(c) for c in g['text'])):
                g['text'] = vlib.codes(p + st)
                g['raw'] = True
    return {'st': ord(st), 'et': ord(et), 'ct': ord(ct)}, segs


def _values_of(seg):
    vals = set()
    for i in range(1, len(seg) + 1):
        rd = '%02i' % i
        v = seg.get_value(rd)
        if v:
            vals.add(v)
        if seg.is_composite(ref_des=rd):
            for j in range(1, seg.ele_len(rd) + 1):
                w = seg.get_value('%02i-%i' % (i, j))
                if w:
                    vals.add(w)
    sid = seg.get_seg_id()
    if sid:
        vals.add(sid)
    return vals


_SPECIAL = '<>&'


def taint_positions(msg, values):
    """1-based positions of & < > in msg that lie inside an occurrence of an input value of the segment"""
    pos = set()
    for v in values:
        if not any(c in v for c in _SPECIAL):
            continue
        i = msg.find(v)
        while i >= 0:
            for j, c in enumerate(v):
                if c in _SPECIAL:
                    pos.add(i + j + 1)
            i = msg.find(v, i + 1)
    return sorted(pos)


def _invoke(text, with_html):
    """one call of the real x12n_document; returns (exception name or '', html text, per-segment logs, handler)"""
    pyx12.error_handler.err_handler = RecHandler
    RecHandler.last = None
    per_seg = []

    def cb(seg, src, node, valid):
        h = RecHandler.last
        per_seg.append({'line': src.get_cur_line(), 'calls': h.calls, 'values': _values_of(seg), 'nerr': len(h.errs), 'sid': seg.get_seg_id()})
        h.calls = []

    fd_html = io.StringIO() if with_html else None
    exc = ''
    try:
        pyx12.x12n_document.x12n_document(pyx12.params.params(), io.StringIO(text), io.StringIO(), fd_html, None, None, None, cb)
    except Exception as e:      # the exception is an observation
        exc = type(e).__name__
    finally:
        pyx12.error_handler.err_handler = _BASE
    return exc, (fd_html.getvalue() if with_html else ''), per_seg, RecHandler.last


def execute(rid, label, text):
    """run the real code on one document; returns the trace record handed to T_Html (or None if the text is no X12)"""
    try:
        delims, segs = read_source(text)
    except Exception:
        return None
    exc, page, per_seg, h = _invoke(text, True)
    completes = True
    if exc:
        exc2, _p, _s, _h = _invoke(text, False)
        completes = (exc2 == '')
    if h is None:
        return None
    errs = []
    calls = []
    lo = 0
    for k, ps in enumerate(per_seg):
        body = (ps.get('sid') or '') not in ('ISA', 'GS', 'ST', 'SE', 'GE', 'IEA')
        for e in h.errs[lo:ps['nerr']]:
            # a segment or element error reported while a body segment is handled inside a transaction set the handler has open
            # is claimed wherever the handler chose to keep it
            errs.append({'s': k + 1, 'lvl': e['lvl'], 'code': e['code'], 'msg': vlib.codes(e['msg']),
                         'att': bool(e['att'] or (body and e.get('open') and e['lvl'] in ('seg', 'ele'))),
                         'taint': taint_positions(e['msg'], ps['values'] | ({e['val']} if e['val'] else set()))})
        lo = ps['nerr']
        calls.append(ps['calls'])
    for e in h.errs[lo:]:
        errs.append({'s': 0, 'lvl': e['lvl'], 'code': e['code'], 'msg': vlib.codes(e['msg']), 'att': e['att'], 'taint': []})
    tail = h.calls
    flags, items = parse_report(page)
    return {'id': rid, 'label': label, 'd': delims, 'segs': segs, 'nseen': len(per_seg), 'errs': errs, 'calls': calls, 'tail': tail,
            'items': items, 'doc': flags, 'exc': exc, 'completes': completes}
