"""C13 - data-type recognisers accept exactly the X12 value languages.

The oracle is the TLA+ definition layer spec/DataTypes.tla (calendar and clock arithmetic, numeric
shapes, explicit character sets).  Python only drives pyx12.validation.IsValidDataType and compares.

spec -> code : TLC enumerates DataTypesGen (all strings of a bounded alphabet / length, shaped dates,
               times, ranges) and emits every value with the verdict vector of the definition; every
               value is replayed into the real IsValidDataType under every type and every
               (charset, icvn) setting.  A raise is a divergence ("never raises").
code -> spec : complete tables are recorded from the real function (for every year/month the set of
               accepted days, every YYMMDD, every HHMM / HHMMSS / HHMMSSd(d) combination as sets, every
               single character 0..255, boundary pairs, seeded mutations of valid values) and TLC
               validates every table against the definition (T_DataTypes).
Every reported violation carries the clause of the definition that decides the value, computed by TLC.
"""
import json
import os
import random
import re
import shutil
import sys

sys.path.insert(0, os.path.dirname(os.path.abspath(__file__)))
import vlib
from vlib import run_tlc, tlc_must_pass, Check

sys.path.insert(0, vlib.REPO)
import pyx12.validation

PID = 'C13'
NTYPES = ['N'] + ['N%d' % i for i in range(10)]
CLAIMED = NTYPES + ['R', 'ID', 'AN', 'DT', 'D6', 'D8', 'RD8', 'TM']
UNCLAIMED = ['B', 'XX', 'DTM', 'A']          # only "never raises" is claimed for these
ALLTYPES = CLAIMED + UNCLAIMED
SETTINGS = [('B', '00401'), ('B', '00501'), ('E', '00401'), ('E', '00501')]
FLAG = {'R': 'R', 'D6': '6', 'D8': '8', 'DT': 'T', 'RD8': 'G', 'TM': 'M'}
FLAG.update({t: 'N' for t in NTYPES})
CSFLAG = {('B', '00401'): 'b', ('B', '00501'): 'b', ('E', '00401'): 'e', ('E', '00501'): 'f'}


# ------------------------------------------------------------------ the one observation of the real code
def observe(s, t, cs, icvn):
    """'T' accepted, 'F' rejected, 'X:<Exception>' raised"""
    try:
        r = pyx12.validation.IsValidDataType(s, t, cs, icvn)
    except Exception as e:
        return 'X:' + type(e).__name__
    return 'T' if r else 'F'


def family(t):
    return 'N' if t in NTYPES else t


def shape_of(s):
    """coarse, purely descriptive abstraction of a string used to pick diverse examples"""
    p = re.sub(r'[0-9]', 'd', s)
    p = re.sub(r'[A-Za-z]', 'a', p)
    p = re.sub(r'[^da\-. ]', '?', p)
    return re.sub(r'(.)\1{2,}', lambda m: m.group(1) + '{%d}' % len(m.group(0)), p)[:24]


# ------------------------------------------------------------------ spec -> code
def _expected_from_flags(flags, t, cs, icvn):
    if t in ('ID', 'AN'):
        return CSFLAG[(cs, icvn)] in flags
    return FLAG[t] in flags


def _replay_chunk(items):
    ncalls = 0
    mism = {}
    nmis = 0
    for it in items:
        s, flags = it['s'], it['a']
        for t in ALLTYPES:
            claimed = t in FLAG or (t in ('ID', 'AN') and s != '')
            for cs, icvn in SETTINGS:
                obs = observe(s, t, cs, icvn)
                ncalls += 1
                bad = obs[0] == 'X'
                if not bad and claimed:
                    bad = (obs == 'T') != _expected_from_flags(flags, t, cs, icvn)
                if bad:
                    nmis += 1
                    key = (family(t), obs, shape_of(s), cs + icvn if t in ('ID', 'AN') else '')
                    lst = mism.setdefault(key, [])
                    if len(lst) < 2:
                        lst.append((s, t, cs, icvn, obs))
    return ncalls, nmis, mism


def replay_generated(chk, items):
    chunks = list(vlib.chunked(items, max(1, len(items) // (vlib.NCPU * 4) + 1)))
    res = vlib.parallel_map(_replay_chunk, chunks)
    ncalls = sum(r[0] for r in res)
    nmis = sum(r[1] for r in res)
    mism = {}
    for r in res:
        for k, lst in r[2].items():
            cur = mism.setdefault(k, [])
            for x in lst:
                if len(cur) < 2:
                    cur.append(x)
    chk.add_traces(ncalls)
    chk.add_eval(ncalls)
    chk.distinct_count += len(set(it['s'] for it in items)) * len(ALLTYPES)
    cases = []
    for k in sorted(mism):
        cases.extend(mism[k])
    if len(cases) > 20000:
        rnd = random.Random(vlib.seed())
        # keep every (family, observation) class, sample the shapes
        byclass = {}
        for c in cases:
            byclass.setdefault((family(c[1]), c[4]), []).append(c)
        cases = []
        per = max(50, 20000 // len(byclass))
        for k in sorted(byclass):
            lst = byclass[k]
            cases.extend(lst if len(lst) <= per else rnd.sample(lst, per))
    return nmis, cases


def judge_cases(chk, cases, label, origin, strict=False):
    """cases: (s, t, cs, icvn, obs) observations of the real code.  TLC (T_DataTypes) judges each of them
    and names the deciding clause; every rejected one becomes a violation.  Returns the number rejected."""
    if not cases:
        return 0
    groups = {}
    for c in cases:
        groups.setdefault((c[1], c[2], c[3]), []).append(c)
    recs, index = [], []
    for (t, cs, icvn), lst in sorted(groups.items()):
        recs.append({'k': 'list', 'typ': t, 'cs': cs, 'icvn': icvn, 'strs': [c[0] for c in lst],
                     'lens': [len(c[0]) for c in lst],
                     'acc': [j + 1 for j, c in enumerate(lst) if c[4] == 'T'],
                     'exc': [j + 1 for j, c in enumerate(lst) if c[4][0] == 'X']})
        index.append(lst)
    out = _validate_recs(recs, cap=len(cases) + 10, keep_all=True)
    chk.add_tlc(_as_result(out), label)
    rejected = []
    for e in out['rej']:
        c = index[e['i'] - 1][e['v'] - 1]
        if e['clause'] == 'transport':
            raise vlib.MachineryError('string %r did not survive the transport to TLC' % (c[0],))
        rejected.append((c, e))
    # the first example of a signature is the one that is written out: prefer short, printable values
    rejected.sort(key=lambda ce: (not ce[0][0].isprintable(), len(ce[0][0]), ce[0][0], ce[0][1], ce[0][2], ce[0][3]))
    if strict and len(rejected) != len(cases):
        # every case handed over here differed from the verdict vector DataTypesGen emitted: both come from DataTypes.tla
        raise vlib.MachineryError('%d replay mismatches but T_DataTypes rejects %d of them: the two uses of the '
                                  'definition disagree' % (len(cases), len(rejected)))
    for c, e in rejected:
        report(chk, c, e, origin)
    return len(rejected)


def report(chk, c, e, origin):
    s, t, cs, icvn, obs = c
    sig = {'clause': e['clause'], 'type': family(t), 'why': e['why'],
           'expected': 'accept' if e['exp'] else 'reject', 'observed': _obs_word(obs)}
    if not e['claimed']:
        sig['expected'] = 'no raise'
    if t in ('ID', 'AN'):
        sig['charset'] = cs + '/' + icvn
    desc = ('IsValidDataType(%r, %r, %r, %r): observed %s; the definition %s (clause: %s) [%s]'
            % (s, t, cs, icvn, _obs_word(obs),
               ('accepts' if e['exp'] else 'rejects') if e['claimed'] else 'claims only "never raises"',
               e['why'] or 'accepted', origin))
    chk.violation(sig, desc, {'kind': 'call', 'codes': vlib.codes(s), 'type': t, 'charset': cs, 'icvn': icvn,
                              'expected': sig['expected'], 'why': e['why'], 'observed': _obs_word(obs),
                              'origin': origin})


def _obs_word(obs):
    return {'T': 'accept', 'F': 'reject'}.get(obs, 'raise:' + obs[2:])


# ------------------------------------------------------------------ TLC plumbing for tables
class _Res(object):
    pass


def _as_result(out):
    r = _Res()
    r.generated, r.distinct, r.depth, r.wall = out['stats']
    return r


def _validate_recs(recs, cap=12, keep_all=False, tag='c13tab'):
    d = vlib.scratch(tag)
    try:
        path = os.path.join(d, 'trace.json')
        vlib.write_json(path, {'recs': recs})
        cfg = 'SPECIFICATION Spec\nINVARIANT Report\nCONSTANTS Cap = %d\n KeepAll = %s\n' % (cap, 'TRUE' if keep_all else 'FALSE')
        res = run_tlc('T_DataTypes', cfg, env={'TRACE_FILE': path}, workers=1, timeout=2400, heap='2g', tag=tag)
        if res.error or res.violated:
            raise vlib.MachineryError('T_DataTypes: %s' % (res.error or ('model-level violation ' + res.violated + res.out[-2000:])))
        reps = res.payloads.get('REJECTS')
        if not reps:
            raise vlib.MachineryError('T_DataTypes printed no REJECTS report\n' + res.out[-1500:])
        if res.distinct < len(recs) + 1:
            raise vlib.MachineryError('T_DataTypes consumed %d of %d tables' % (res.distinct - 1, len(recs)))
        return {'rej': reps[-1]['rej'], 'n': reps[-1]['n'], 'stats': (res.generated, res.distinct, res.depth, res.wall)}
    finally:
        shutil.rmtree(d, ignore_errors=True)


# ------------------------------------------------------------------ code -> spec : tables
def suf(typ, pre, n, hi, suffix='', setting=0):
    cs, icvn = SETTINGS[setting % 4]
    return {'k': 'suf', 'typ': typ, 'cs': cs, 'icvn': icvn, 'pre': pre, 'n': n, 'hi': hi, 'suf': suffix}


def lst(typ, strs, setting=0):
    cs, icvn = SETTINGS[setting % 4]
    return {'k': 'list', 'typ': typ, 'cs': cs, 'icvn': icvn, 'strs': list(strs), 'lens': [len(x) for x in strs]}


def job_weight(j):
    return (j['hi'] + 1) if j['k'] == 'suf' else len(j['strs'])


def job_string(j, v):
    if j['k'] == 'suf':
        return j['pre'] + ('%0*d' % (j['n'], v) if j['n'] else '') + j['suf']
    return j['strs'][v - 1]


def record(j):
    """run the real function over the whole table and log the accepted / raising entries"""
    acc, exc = [], []
    t, cs, icvn = j['typ'], j['cs'], j['icvn']
    vals = range(0, j['hi'] + 1) if j['k'] == 'suf' else range(1, len(j['strs']) + 1)
    for v in vals:
        o = observe(job_string(j, v), t, cs, icvn)
        if o == 'T':
            acc.append(v)
        elif o != 'F':
            exc.append(v)
            j.setdefault('excname', {})[v] = o
    r = dict((k, j[k]) for k in j if k != 'excname')
    r['acc'] = acc
    r['exc'] = exc
    return r


BOUNDARY_YEARS = [0, 1, 4, 99, 100, 400, 999, 1000, 1600, 1700, 1752, 1796, 1799, 1800, 1801, 1804, 1896, 1899,
                  1900, 1901, 1904, 1949, 1950, 1970, 1996, 1999, 2000, 2001, 2004, 2020, 2023, 2024, 2038, 2049,
                  2050, 2096, 2099, 2100, 2101, 2104, 2200, 2300, 2400, 2800, 3000, 4000, 9996, 9999]

VALID_SEEDS = {
    'N': ['0', '7', '-1', '12345', '-000', '0000500'],
    'R': ['0', '-1', '1.5', '-12.25', '.5', '-.5', '100.000', '0.0'],
    'D8': ['20240229', '20000229', '18000101', '19991231', '20231130', '99991231'],
    'D6': ['240229', '000229', '490101', '500101', '991231', '960229'],
    'DT': ['20240229', '240229', '202402291230', '202312312359', '180001010000'],
    'RD8': ['20240101-20240229', '18000101-99991231', '20240229-20240229', '19991231-20000101'],
    'TM': ['0000', '2359', '235959', '0930', '1200', '2359599', '23595999', '000000'],
    'ID': ['A1', 'HELLO WORLD', 'x-y_z', 'a^b`c', '~%@[]{}', '!"&\'()*+,-./:;?= '],
}
VALID_SEEDS['AN'] = VALID_SEEDS['ID']
# every type is also fed the valid values of the other types (a dispatcher that routes to the wrong recogniser shows here)
CROSS_SEEDS = sorted(set(x for k in ('N', 'R', 'D8', 'D6', 'DT', 'RD8', 'TM') for x in VALID_SEEDS[k])
                     | set(a + '-' + b for a in ('240229', '20240229', '202402291230', '2359') for b in ('240229', '20240229', '202402291230', '2359')))
EDIT_CHARS = list('0123456789') * 3 + list('--..  +:/xXeE,') + ['\n', '\t', '\x00', '\x7f', '\xe9', '\u0660', '^', '`', '~', '"', '\\']


def mutate(s, rnd):
    for _ in range(rnd.choice([1, 1, 1, 2, 2, 3])):
        op = rnd.choice(['ins', 'del', 'rep', 'rep', 'swap', 'dup', 'trunc'])
        if op == 'ins' or not s:
            i = rnd.randint(0, len(s))
            s = s[:i] + rnd.choice(EDIT_CHARS) + s[i:]
        elif op == 'del':
            i = rnd.randrange(len(s))
            s = s[:i] + s[i + 1:]
        elif op == 'rep':
            i = rnd.randrange(len(s))
            s = s[:i] + rnd.choice(EDIT_CHARS) + s[i + 1:]
        elif op == 'swap' and len(s) > 1:
            i = rnd.randrange(len(s) - 1)
            s = s[:i] + s[i + 1] + s[i] + s[i + 2:]
        elif op == 'dup':
            i = rnd.randrange(len(s))
            s = s[:i] + s[i] + s[i:]
        elif op == 'trunc':
            s = s[:rnd.randint(0, len(s))]
    return s


def build_jobs(tier, rnd):
    quick = tier == 'quick'
    jobs = []
    # --- complete calendars: for every (year, month) the set of accepted days
    if quick:
        years = sorted(set(BOUNDARY_YEARS + [rnd.randrange(0, 10000) for _ in range(24)]
                           + [rnd.randrange(1790, 2110) for _ in range(24)]))
    else:
        years = list(range(0, 10000))
    for y in years:
        for m in range(0, 14):
            jobs.append(suf('D8', '%04d%02d' % (y, m), 2, 39, setting=y + m))
    for y in BOUNDARY_YEARS:
        for m in range(0, 14):
            jobs.append(suf('DT', '%04d%02d' % (y, m), 2, 39, setting=y))
            jobs.append(suf('DT', '%04d%02d' % (y, m), 2, 32, '1230', setting=y + 1))
    for y in (1799, 1800, 1900, 2000, 2023, 2024):
        for m in range(0, 100):
            jobs.append(suf('D8', '%04d%02d' % (y, m), 2, 99, setting=m))
    if not quick:
        for y in range(1700, 2500):
            for m in range(0, 14):
                jobs.append(suf('DT', '%04d%02d' % (y, m), 2, 32, '2359', setting=y))
    # --- every YYMMDD
    for yy in range(0, 100):
        for m in range(0, 14):
            jobs.append(suf('D6', '%02d%02d' % (yy, m), 2, 39, setting=yy))
            jobs.append(suf('DT', '%02d%02d' % (yy, m), 2, 39, setting=yy + 1))
    for yy in (0, 49, 50, 99):
        for m in range(14, 100):
            jobs.append(suf('D6', '%02d%02d' % (yy, m), 2, 99, setting=m))
    # --- date + every HHMM
    for d8 in ('20240229', '20230229', '17991231', '18000101', '20001231', '19000229'):
        jobs.append(suf('DT', d8, 4, 9999, setting=len(jobs)))
    # --- clocks
    for typ in ('TM',):
        jobs.append(suf(typ, '', 1, 9))
        jobs.append(suf(typ, '', 2, 99, setting=1))
        jobs.append(suf(typ, '', 3, 999, setting=2))
        jobs.append(suf(typ, '', 4, 9999, setting=3))          # every HHMM
        for d in range(10):
            jobs.append(suf(typ, str(d), 4, 9999, setting=d))  # every 5-digit string
        hh6 = [0, 1, 9, 10, 19, 20, 22, 23, 24, 25, 29, 30, 59, 60, 99] if quick else range(100)
        for hh in hh6:
            jobs.append(suf(typ, '%02d' % hh, 4, 9999, setting=hh))   # every HHMMSS of that hour
        if quick:
            grid = [(h, m) for h in (0, 9, 19, 23, 24, 60) for m in (0, 9, 30, 59, 60)]
        else:
            grid = [(h, m) for h in list(range(0, 26)) + [29, 30, 59, 60, 99]
                    for m in (0, 1, 9, 10, 29, 30, 58, 59, 60, 61, 69, 70, 99)]
        for h, m in grid:
            for sec in range(100):
                jobs.append(suf(typ, '%02d%02d%02d' % (h, m, sec), 1, 9, setting=sec))
                jobs.append(suf(typ, '%02d%02d%02d' % (h, m, sec), 2, 99, setting=sec + 1))
        jobs.append(suf(typ, '235959', 3, 999))
        jobs.append(suf(typ, '23595999', 2, 99))
    # --- ranges: every month/day in either position, every year in either position
    jobs.append(suf('RD8', '20240229-2024', 4, 1339, setting=1))
    jobs.append(suf('RD8', '2023', 4, 1339, '-20240229', setting=2))
    jobs.append(suf('RD8', '', 4, 9999, '0229-20240229', setting=3))
    jobs.append(suf('RD8', '20240229-', 4, 9999, '0228', setting=0))
    jobs.append(suf('RD8', '20240101-202402', 2, 99, '-20240301', setting=1))
    jobs.append(suf('RD8', '2024', 4, 1339, '', setting=2))
    # ... and values of the other date / time types in either position (6-digit dates, date + HHMM, times)
    jobs.append(suf('RD8', '20240229-24', 4, 1339, setting=3))
    jobs.append(suf('RD8', '24', 4, 1339, '-20240229', setting=0))
    jobs.append(suf('RD8', '20240229-20240229', 4, 2460, setting=1))
    jobs.append(suf('RD8', '20240229', 4, 2460, '-20240229', setting=2))
    jobs.append(suf('RD8', '20240229-', 4, 2460, setting=3))
    jobs.append(suf('RD8', '', 4, 2460, '-20240229', setting=0))
    jobs.append(suf('RD8', '240229-24', 4, 1339, setting=1))
    # --- numbers
    for typ in ('N', 'N0', 'N2', 'N9', 'R'):
        for pre in ('', '-', '--', '.', '-.', '1.', '-1.', '+', ' ', '1-', '1.2.'):
            for n, hi in ((1, 9), (2, 99), (3, 999)):
                jobs.append(suf(typ, pre, n, hi, setting=n))
                jobs.append(suf(typ, pre, n, hi, '.', setting=n + 1))
                jobs.append(suf(typ, pre, n, hi, '\n', setting=n + 2))
    # --- single characters 0..255 (+ a few beyond) for every type and setting
    chars = [chr(c) for c in range(256)] + ['\u0100', '\u0660', '\u2028', '\uff21', '\uff10', '\ufffd']
    for t in ALLTYPES:
        for k in range(4):
            jobs.append(lst(t, chars, setting=k))
    # --- boundary pairs for the character sets
    bsyms = ['A', 'Z', 'a', 'z', '0', '9', ' ', '^', '`', '~', '#', '$', '@', '[', '_', '"', '\\', '\x7f', '\n', '\x00', '\xe9', '\x1f']
    pairs = [a + b for a in bsyms for b in bsyms]
    for t in ('ID', 'AN'):
        for k in range(4):
            jobs.append(lst(t, pairs, setting=k))
    # --- hand-written degenerate values, for every type
    special = ['', '-', '.', '-.', '--', '-0', '0-', '+1', '1e5', '1E5', ' 1', '1 ', '1\n', '\n1', '-\n', '.\n',
               '20240101-20240229', '20240101--20240229', '20240101-20240229-', '-20240101-20240229',
               '20240101-240229', '240101-20240229', '240101-240229', '20240101-202402291230', '202401011230-20240229', '1230-2359',
               '20240101-20240229-20240301', '---', '-20240101', '20240101-', '2024-01-01', '20240101 20240229',
               '2024010120240229', '20240101-2024022', '2024010-20240229', '20240101-20240229\n',
               '1', '12', '123', '12345', '123456789', '2359\n', '\n2359', '23:59', '235959.9', '2359599999',
               '20240229123', '2024022912300', '20240229123000', '20240229\n', '2024022\n', ' 20240229',
               '\u0662\u0660\u0662\u0664\u0660\u0662\u0662\u0669', '\uff11\uff12', '\u0661\u0662\u0663\u0664',
               'A' * 300, '9' * 300, '-' * 40, 'a' * 100 + '^']
    for t in ALLTYPES:
        jobs.append(lst(t, special, setting=len(jobs)))
        jobs.append(lst(t, CROSS_SEEDS, setting=len(jobs) + 1))
    # --- seeded mutations of valid values
    nfuzz = 1500 if quick else 20000
    for t in ('N', 'N4', 'R', 'D8', 'D6', 'DT', 'RD8', 'TM', 'ID', 'AN'):
        seeds = (VALID_SEEDS.get(t) or VALID_SEEDS[family(t)]) * 4 + CROSS_SEEDS
        strs = set()
        while len(strs) < nfuzz:
            strs.add(mutate(rnd.choice(seeds), rnd))
        strs = sorted(strs)
        rnd.shuffle(strs)
        for k, ch in enumerate(vlib.chunked(strs, 250)):
            jobs.append(lst(t, ch, setting=k))
    return jobs


def _table_worker(arg):
    jobs, cap = arg
    recs = [record(j) for j in jobs]
    out = _validate_recs(recs, cap=cap)
    out['calls'] = sum(job_weight(j) for j in jobs)
    out['excname'] = [j.get('excname', {}) for j in jobs]
    out['accepted'] = sum(len(r['acc']) for r in recs)
    return out


def partition(jobs, nparts):
    order = sorted(range(len(jobs)), key=lambda i: -job_weight(jobs[i]))
    parts = [[] for _ in range(nparts)]
    load = [0] * nparts
    for i in order:
        k = load.index(min(load))
        parts[k].append(i)
        load[k] += job_weight(jobs[i]) + 15
    return [sorted(p) for p in parts if p]


def validate_tables(chk, jobs, label):
    parts = partition(jobs, vlib.NCPU)
    outs = vlib.parallel_map(_table_worker, [([jobs[i] for i in p], 12) for p in parts])
    agg = [0, 0, 0, 0.0]
    calls = 0
    nrej = 0
    rejected = []
    for p, out in zip(parts, outs):
        g, d, dep, w = out['stats']
        agg[0] += g
        agg[1] += d
        agg[2] = max(agg[2], dep)
        agg[3] = max(agg[3], w)
        calls += out['calls']
        nrej += out['n']
        for e in out['rej']:
            j = jobs[p[e['i'] - 1]]
            s = job_string(j, e['v'])
            if e['clause'] == 'transport':
                raise vlib.MachineryError('string %r did not survive the transport to TLC' % (s,))
            if e['clause'] == 'raise':
                obs = out['excname'][e['i'] - 1].get(e['v']) or out['excname'][e['i'] - 1].get(str(e['v'])) or 'X:Exception'
            else:
                obs = 'F' if e['exp'] else 'T'
            rejected.append(((s, j['typ'], j['cs'], j['icvn'], obs), e))
    rejected.sort(key=lambda ce: (not ce[0][0].isprintable(), len(ce[0][0]), ce[0][0], ce[0][1], ce[0][2], ce[0][3]))
    for c, e in rejected:
        report(chk, c, e, 'recorded table')
    chk.add_tlc(_as_result({'stats': tuple(agg)}), label)
    chk.add_traces(calls)
    chk.add_eval(calls)
    chk.distinct_count += calls
    chk.extra['tables_validated'] = chk.extra.get('tables_validated', 0) + len(jobs)
    chk.extra['table_entries_rejected'] = chk.extra.get('table_entries_rejected', 0) + nrej
    chk.extra['table_entries_accepted_by_impl'] = chk.extra.get('table_entries_accepted_by_impl', 0) + sum(o['accepted'] for o in outs)
    return nrej


def selftest(chk):
    """binding self-test: a table with one corrupted entry per kind must be rejected at exactly those entries"""
    good = record(suf('D8', '202402', 2, 39))
    bad1 = dict(good, acc=[a for a in good['acc'] if a != 29] + [30])        # drops Feb 29, adds Feb 30
    tm = record(suf('TM', '2359', 2, 99))
    bad2 = dict(tm, acc=tm['acc'] + [60])
    ch = record(lst('AN', ['A', 'a', '^', '\x00', '"'], setting=2))
    bad3 = dict(ch, acc=[1, 2, 3], exc=[5])
    out = _validate_recs([good, bad1, tm, bad2, ch, bad3], cap=100000, keep_all=True)   # the wanted entries follow from the corrupted data alone
    got = sorted((e['i'], e['v'], e['clause']) for e in out['rej'])
    want = [(2, 29, 'verdict'), (2, 30, 'verdict'), (4, 60, 'verdict'), (6, 3, 'verdict'), (6, 5, 'raise')]
    # on a tree with defects the uncorrupted tables may add entries of their own; the corrupted ones must be there
    ok = all(w in got for w in want)
    chk.extra['binding_selftest'] = {'corrupted_entries': len(want), 'rejected': len([g for g in got if g in want]), 'ok': ok}
    if not ok:
        raise vlib.MachineryError('binding self-test failed: corrupted tables were not rejected (%s)' % (got,))


# ------------------------------------------------------------------ generator configuration
def gen_cfg(tier, shapes):
    q = lambda xs: '{' + ', '.join('"%s"' % x for x in xs) + '}'
    if tier == 'quick':
        years = ['0000', '0004', '1799', '1800', '1899', '1900', '1904', '1999', '2000', '2001', '2023', '2024', '2100', '2400', '9999']
        yys = ['00', '01', '04', '23', '49', '50', '51', '96', '99']
        hours = ['00', '09', '10', '19', '20', '23', '24', '30']
        minutes = ['00', '09', '30', '59', '60', '99']
        parts = ['', '20240229', '20230229', '17991231', '18000101', '2024010', '2024', '240229', '202402291230']
        decmin = minutes
        freelen, anlen = 5, 2
    else:
        years = ['%04d' % y for y in BOUNDARY_YEARS]
        yys = ['%02d' % y for y in range(100)]
        hours = ['%02d' % h for h in range(25)] + ['29', '30', '99']
        minutes = ['%02d' % m for m in range(61)] + ['99']
        parts = ['', '20240229', '20230229', '17991231', '18000101', '99991231', '2024010', '202402290', '2024', '2024x229', '0229',
                 '240229', '202402291230', '1230']
        decmin = ['00', '09', '30', '59', '60', '99']
        freelen, anlen = 6, 3
    return ('SPECIFICATION Spec\nCONSTANTS FreeLen = %d\n AnLen = %d\n Years = %s\n YYs = %s\n Hours = %s\n Minutes = %s\n DecMinutes = %s\n'
            ' Parts = %s\n Shapes = %s\n DtAll = FALSE\nINVARIANT Sanity\nINVARIANT Consistent\nINVARIANT Emit\n'
            % (freelen, anlen, q(years), q(yys), q(hours), q(minutes), q(decmin), q(parts), q(shapes)))


def _gen_worker(arg):
    tier, shapes = arg
    res = run_tlc('DataTypesGen', gen_cfg(tier, shapes), workers=(4 if tier == 'quick' else 2), timeout=2400, heap='3g',
                  tag='c13gen-' + shapes[0])
    tlc_must_pass(res, 'DataTypesGen ' + '+'.join(shapes))
    items = res.payloads.get('V', [])
    if len(items) != res.distinct:
        raise vlib.MachineryError('DataTypesGen %s: %d states but %d emitted values' % (shapes, res.distinct, len(items)))
    return items, (res.generated, res.distinct, res.depth, res.wall)


def generate(chk, tier):
    groups = [['free'], ['an', 'd6y', 'rgp'], ['d8y'], ['tmh']]
    outs = vlib.parallel_map(_gen_worker, [(tier, g) for g in groups])
    items = []
    for g, (its, stats) in zip(groups, outs):
        chk.add_tlc(_as_result({'stats': stats}), 'DataTypesGen ' + '+'.join(g))
        items.extend(its)
    seen = set()
    uniq = []
    for it in items:
        if it['s'] not in seen:
            seen.add(it['s'])
            uniq.append(it)
    return uniq


def impl_crosscheck(chk, tier):
    """model-level: the algorithm of validation.py as transcribed in DataTypesImpl leaves the definition only on the
    three documented classes (explains the findings; no binding to the code is claimed from this run)"""
    cfg = gen_cfg(tier, ['free', 'an', 'd8y', 'd6y', 'tmh', 'rgp'])
    cfg = cfg.replace('FreeLen = 6', 'FreeLen = 5').replace('INVARIANT Emit\n', 'INVARIANT ImplVsDef\nINVARIANT ImplSanity\n')
    res = tlc_must_pass(run_tlc('DataTypesImpl', cfg, timeout=2400, heap='4g'), 'DataTypesImpl')
    chk.add_tlc(res, 'DataTypesImpl ImplVsDef')
    chk.extra['impl_transcription_vs_definition'] = {
        'states': res.distinct, 'result': 'the transcribed algorithm equals the definition except on R no_digit, TM too_short, RD8 many_hyphens'}


# ------------------------------------------------------------------ main
def do_replay(path):
    obj = json.load(open(path))['replay']
    s = ''.join(chr(c) for c in obj['codes'])
    obs = observe(s, obj['type'], obj['charset'], obj['icvn'])
    sub = Check(PID, 'quick')
    sub.findings = []
    n = judge_cases(sub, [(s, obj['type'], obj['charset'], obj['icvn'], obs)], 'replay', 'replay')
    print('IsValidDataType(%r, %r, %r, %r)' % (s, obj['type'], obj['charset'], obj['icvn']))
    print('  observed now : %s' % _obs_word(obs))
    print('  recorded     : observed %s, expected %s (clause: %s)' % (obj.get('observed'), obj.get('expected'), obj.get('why') or 'accepted'))
    if n:
        print('  specification: REJECTS this execution - ' + sub.violations[0][1])
        return 1
    print('  specification: accepts this execution')
    return 0


def run(tier, replay=None):
    if replay:
        return do_replay(replay)
    chk = Check(PID, tier)
    chk.rule = ('one case per (string, type, charset, icvn) call of the real IsValidDataType: every string of the bounded '
                'generator (TLC state) under all 23 type identifiers x 4 settings, and every entry of the recorded tables; '
                'trivial = none (every case is a verdict on a concrete value)')
    rnd = random.Random(vlib.seed() + 13)
    # spec -> code
    items = generate(chk, tier)
    if not items:
        raise vlib.MachineryError('DataTypesGen emitted no values')
    nmis, cases = replay_generated(chk, items)
    chk.extra['generated_values'] = len(items)
    chk.extra['replay_mismatches'] = nmis
    for it in items[::max(1, len(items) // 5)][:5]:
        chk.sample({'generated_value': it['s'], 'definition_accepts': it['a'],
                    'legend': 'N R 6=D6 8=D8 T=DT G=RD8 M=TM b/e/f=ID,AN basic/extended/extended-5010'})
    judge_cases(chk, cases, 'T_DataTypes explain', 'generated value', strict=True)
    # code -> spec
    jobs = build_jobs(tier, rnd)
    validate_tables(chk, jobs, 'T_DataTypes tables')
    selftest(chk)
    if tier == 'thorough':
        impl_crosscheck(chk, tier)
    chk.exhaustive = True
    chk.assumptions = [
        'str arguments only; charset in {B,E}, icvn in {00401,00501}; types N N0..N9 R ID AN DT D6 D8 RD8 TM carry a verdict claim, '
        'type B and unknown identifiers only the never-raise claim; the empty value of ID/AN carries no verdict claim',
        'DT is read as: a D6 value, a D8 value, or a D8 value followed by HHMM (lengths 6, 8, 12)',
        'century window of 6-digit dates as documented in is_valid_date: YY < 50 -> 20YY, otherwise 19YY',
        'N and R need at least one digit; "5." (point without fraction digits) is not a decimal',
        'exhaustive = complete over the stated bounded domains (all strings <= FreeLen over the 9-symbol alphabet, every '
        'YYYYMM x day 00..39 of the tier\'s year set, every YYMMDD, every HHMM, HHMMS, the tier\'s HHMMSS[d[d]] grid, '
        'every single character 0..255); longer free-form strings are reached only through the shaped generators and seeded mutations',
    ]
    return chk.finish()


if __name__ == '__main__':
    vlib.main_wrapper(run)
