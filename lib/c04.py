"""C04 - envelope, control-number and counter checks of X12Reader are exact.

spec -> code : TLC explores EnvelopeGen (implementation-shaped Envelope model driven by an environment
               that appends any envelope/HL/LX/body segment, counts chosen relative to the Recount
               definition) and emits histories; each history is concretised and read with the real
               X12Reader.
code -> spec : every such execution, plus the repository fixtures, plus seeded deep random walks, is
               recorded (errors popped after every segment, counters, loop stack, cleanup errors)
               and validated by TLC against T_Envelope: the Recount definition decides violations,
               the Envelope transcription reports drift.
Control numbers: EnvelopeGen renders its abstract ids into the concrete strings of the document
               (styles num / alnum / unpad, see EnvelopeGen.tla); they are written verbatim and the
               recorded events carry what the real reader parsed (ISA13, GS06, ST02, SE02, GE02,
               IEA02 as text), so Recount judges textual equality of the strings actually read.
"""
import io
import json
import os
import random
import shutil
import sys

sys.path.insert(0, os.path.dirname(os.path.abspath(__file__)))
import vlib
from vlib import run_tlc, Check

sys.path.insert(0, vlib.REPO)
import pyx12.x12file
import pyx12.errors

TRIPLES = [('~', '*', ':'), ('+', '&', '!'), ('|', '^', '\\'), ('\n', '*', '>')]
KINDMAP = {'ISA': 'ISA', 'GS': 'GS', 'ST': 'ST', 'SE': 'SE', 'GE': 'GE', 'IEA': 'IEA', 'HL': 'HL', 'CLM': 'CLM', 'LX': 'LX'}


# ------------------------------------------------------------------ concretisation
def seg_elems(s, pad=True):
    """elements of the segment for an abstract record; pad=True zero-pads the control number to 9 characters
    (callers with short abstract ids: c11, c20), pad=False writes it verbatim (C04: the history holds the
    concrete strings)"""
    return _elems(dict(s, id=s['id'].rjust(9, '0')) if pad else s)


def _elems(s):
    k = s['k']
    if k == 'ISA':
        return ['ISA', '00', ' ' * 10, '00', ' ' * 10, 'ZZ', 'SENDER'.ljust(15), 'ZZ', 'RECEIVER'.ljust(15),
                '200101', '1200', 'U', '00401', s['id'], '0', 'P', None]
    if k == 'GS':
        return ['GS', 'HC', 'SENDER', 'RECEIVER', '20200101', '1200', s['id'], 'X', '004010X098A1']
    if k == 'ST':
        return ['ST', '837', s['id']]
    if k == 'SE':
        return ['SE', s['cnt'], s['id']]
    if k == 'GE':
        return ['GE', s['cnt'], s['id']]
    if k == 'IEA':
        return ['IEA', s['cnt'], s['id']]
    if k == 'HL':
        return ['HL', s['n'], s['p'], '20', '1']
    if k == 'CLM':
        return ['CLM', 'A1', '100']
    if k == 'LX':
        return ['LX', s['n']]
    return ['REF', 'EA', 'X1']


BODY_FORMS = [['REF', 'EA', 'X1'], ['LS', '2120'], ['NM1', 'IL', '1', 'A'], ['LE', '2120'], ['DTP', '472', 'D8', '20200101'], ['LQ', 'AS', 'A'],
              ['N1', 'PR', 'A'], ['SBR', 'P', '18']]


def concretise(hist, triple, eol='', pad=True):
    st, et, ct = triple
    out = []
    for i, s in enumerate(hist):
        el = seg_elems(s, pad)
        if el[0] == 'ISA':
            el = el[:-1] + [ct]
        elif el[0] == 'HL' and not pad:
            # level code and child code are no part of the numbering / parent claims: every form of them is written (child code
            # 0 "no subordinate level", 1, absent; with and without the level code)
            el = el[:3] + [['20', '1'], ['22', '0'], ['20'], ['20', '0'], []][i % 5]
        elif el[0] == 'REF' and not pad:
            # C04's own histories: an ordinary body segment is written with rotating segment ids (none of them special to the
            # reader: the definition knows only 'some other segment')
            el = BODY_FORMS[i % len(BODY_FORMS)]
        out.append(et.join(el) + st + eol)
    return ''.join(out)


def abstract(seg):
    """real Segment -> abstract record (used to validate arbitrary real documents)"""
    sid = seg.get_seg_id()
    k = KINDMAP.get(sid, 'B')
    def g(r):
        v = seg.get_value(r)
        return v if v is not None else ''
    if k == 'ISA':
        return {'k': k, 'id': g('ISA13'), 'cnt': '', 'n': '', 'p': ''}
    if k == 'GS':
        return {'k': k, 'id': g('GS06'), 'cnt': '', 'n': '', 'p': ''}
    if k == 'ST':
        return {'k': k, 'id': g('ST02'), 'cnt': '', 'n': '', 'p': ''}
    if k in ('SE', 'GE', 'IEA'):
        return {'k': k, 'id': g(sid + '02'), 'cnt': g(sid + '01'), 'n': '', 'p': ''}
    if k == 'HL':
        return {'k': k, 'id': '', 'cnt': '', 'n': g('HL01'), 'p': g('HL02')}
    if k == 'LX':
        return {'k': k, 'id': '', 'cnt': '', 'n': g('LX01'), 'p': ''}
    return {'k': k, 'id': '', 'cnt': '', 'n': '', 'p': ''}


# ------------------------------------------------------------------ recording the real reader
def proj_state(r):
    return {'loops': [[a, b if b is not None else ''] for (a, b) in r.loops], 'gs_count': r.gs_count, 'st_count': r.st_count,
            'seg_count': r.seg_count, 'hl_count': r.hl_count, 'hl_stack': list(r.hl_stack), 'lx_count': r.lx_count}


def codes_of(errs):
    return [[e[0], e[1]] for e in errs]


def record_text(tid, text, lx, hist=None):
    """run the real X12Reader over text; one event per yielded segment"""
    events = []
    cleanup = []
    try:
        rd = pyx12.x12file.X12Reader(io.StringIO(text))
    except Exception as e:
        return {'id': tid, 'lx': lx, 'events': [], 'cleanup': [], 'open_exc': type(e).__name__}
    rd.check_837_lx = lx
    it = iter(rd)
    i = 0
    while True:
        try:
            seg = next(it)
        except StopIteration:
            break
        except Exception as e:
            # the segment that made the reader raise is the next one of the history (or unknown for real documents)
            nxt = hist[i] if hist is not None and i < len(hist) else {'k': 'B', 'id': '', 'cnt': '', 'n': '', 'p': ''}
            events.append({'seg': nxt, 'errs': [], 'st': proj_state(rd), 'exc': type(e).__name__})
            break
        # what the real reader parsed (control numbers as the text of the document) is what TLC judges
        a = abstract(seg)
        if hist is not None and (i >= len(hist) or a != hist[i]):
            raise vlib.MachineryError('C04 harness: the reader did not read back segment %d of the generated history %s: %r'
                                      % (i + 1, shape(hist), a))
        ev = {'seg': a, 'errs': codes_of(rd.pop_errors()), 'st': proj_state(rd), 'exc': ''}
        events.append(ev)
        i += 1
    if not events or events[-1]['exc'] == '':
        try:
            rd.cleanup()
            cleanup = codes_of(rd.pop_errors())
        except Exception as e:
            events.append({'seg': {'k': 'B', 'id': '', 'cnt': '', 'n': '', 'p': ''}, 'errs': [], 'st': proj_state(rd), 'exc': 'cleanup:' + type(e).__name__})
    return {'id': tid, 'lx': lx, 'events': events, 'cleanup': cleanup}


def _record_batch(args):
    base, hists, lx = args
    out = []
    for j, h in enumerate(hists):
        tid = base + j
        text = concretise(h, TRIPLES[tid % len(TRIPLES)], ['', '\n', '\r\n'][tid % 3] if TRIPLES[tid % len(TRIPLES)][0] != '\n' else '', pad=False)
        tr = record_text(tid, text, lx, h)
        # the reader must have consumed exactly the history (otherwise the concretiser and the tokenizer disagree)
        if len(tr['events']) != len(h) and not (tr['events'] and tr['events'][-1]['exc']):
            raise vlib.MachineryError('C04 harness: %d segments read back from the %d of %s' % (len(tr['events']), len(h), shape(h)))
        out.append(tr)
    return out


def _validate_batch(args):
    path_traces, label = args
    d = vlib.scratch('c04tv')
    try:
        p = os.path.join(d, 'traces.json')
        vlib.write_json(p, path_traces)
        res = run_tlc('T_Envelope', 'SPECIFICATION Spec\nINVARIANT Report\n', env={'TRACE_FILE': p}, workers=1, timeout=1500, heap='3g')
        if res.error:
            raise vlib.MachineryError('T_Envelope: ' + res.error)
        rep = res.payloads.get('REJECTS')
        if not rep:
            raise vlib.MachineryError('T_Envelope printed no report\n' + res.out[-1500:])
        return {'distinct': res.distinct, 'generated': res.generated, 'depth': res.depth, 'wall': res.wall,
                'rej': rep[-1]['rej'], 'drift': rep[-1]['drift']}
    finally:
        shutil.rmtree(d, ignore_errors=True)


def shape(h):
    return ' '.join(s['k'] + ((':' + s['id']) if s['id'] else '') + (('/' + s['cnt']) if s['cnt'] else '') +
                    (('#' + s['n'] + '<' + s['p']) if s['k'] in ('HL', 'LX') else '') for s in h)


def validate(chk, traces, label, hist_of=None):
    if not traces:
        return
    batches = [(b, label) for b in vlib.chunked(traces, max(200, min(4000, len(traces) // vlib.NCPU + 1)))]
    results = vlib.parallel_map(_validate_batch, batches)
    byid = {t['id']: t for t in traces}
    tot = vlib.TlcResult()
    for r in results:
        tot.distinct += r['distinct']; tot.generated += r['generated']; tot.wall = max(tot.wall, r['wall']); tot.depth = max(tot.depth, r['depth'])
        for tid, k, clause, fault in r['rej']:
            tr = byid[tid]
            h = [e['seg'] for e in tr['events']]
            upto = h[:k] if k <= len(h) else h
            sig = {'clause': clause}
            if clause == 'silent_unnested':
                sig['first_fault'] = fault
            elif clause == 'crash':
                sig['exc'] = tr['events'][k - 1]['exc'] if k <= len(tr['events']) else ''
                sig['seg'] = upto[-1]['k'] if upto else ''
                sig['first_fault'] = fault
            else:
                sig['history'] = shape(upto)
            got = tr['events'][k - 1] if k <= len(tr['events']) else {'cleanup': tr['cleanup']}
            chk.violation(sig, 'X12Reader on [%s]%s: clause %s at step %d; observed %s' % (shape(upto), ' (LX check on)' if tr['lx'] else '', clause, k,
                          json.dumps({'errs': got.get('errs'), 'exc': got.get('exc'), 'cleanup': tr['cleanup']})),
                          {'kind': 'history', 'lx': tr['lx'], 'history': h, 'step': k, 'clause': clause, 'trace': tr})
        if r['drift']:
            chk.extra.setdefault('spec_drift', [])
            if len(chk.extra['spec_drift']) < 10:
                for (dtid, dk, what) in r['drift'][:3]:
                    dtr = byid[dtid]
                    chk.extra['spec_drift'].append({'source': label, 'history': shape([e['seg'] for e in dtr['events']][:dk]), 'step': dk, 'differs': what,
                                                    'observed': dtr['events'][dk - 1] if dk <= len(dtr['events']) else None})
    chk.add_tlc(tot, 'T_Envelope ' + label)
    chk.add_traces(len(traces))
    chk.add_eval(sum(len(t['events']) for t in traces))
    for t in traces:
        chk.note_distinct(label + shape([e['seg'] for e in t['events']]))
    chk.sample({'source': label, 'history': shape([e['seg'] for e in traces[0]['events']]),
                'observed_errors_per_segment': [e['errs'] for e in traces[0]['events']], 'cleanup': traces[0]['cleanup']})


# ------------------------------------------------------------------ generation
P1 = 1          # behaviours start with ISA
P3 = 3          # behaviours start with ISA GS ST
NUM = ('num',)
ALLSTYLES = ('num', 'alnum', 'unpad')


def gen_cfg(maxlen, kinds, ids, modes, lx, prefix, view=False, nested=False, styles=NUM):
    cfg = 'SPECIFICATION Spec\nCONSTANTS MaxLen = %d\n Kinds = {%s}\n Ids = {%s}\n CntModes = {%s}\n CheckLX = %s\n PrefixLen = %d\n Styles = {%s}\n EmitAll = TRUE\n NestedOnly = %s\n' % (
        maxlen, ','.join('"%s"' % k for k in kinds), ','.join('"%s"' % i for i in ids), ','.join('"%s"' % m for m in modes),
        'TRUE' if lx else 'FALSE', prefix, ','.join('"%s"' % x for x in styles), 'TRUE' if nested else 'FALSE')
    cfg += 'INVARIANT ExactOnNested\nINVARIANT NoCrash\nINVARIANT CleanupOnNested\nINVARIANT SomeErrorWhenNotNested\nINVARIANT Emit\n'
    if view:
        cfg += 'VIEW ImplView\n'
    return cfg


ENV = ['ISA', 'GS', 'ST', 'SE', 'GE', 'IEA', 'B']


def configs(tier):
    q = tier == 'quick'
    return [
        ('env-full', gen_cfg(4 if q else 5, ENV, ['1', '2'], ['right', 'wrong'], False, P1), None, False),
        # control numbers that are not numbers / trailers written without the header's padding, all three levels:
        # every properly nested envelope sequence up to a complete interchange (declared counts right)
        ('env-ids', gen_cfg(6 if q else 8, ENV[:-1], ['1', '2'], ['right'], False, P1, nested=True, styles=('alnum', 'unpad')), None, False),
        ('env-nonnum', gen_cfg(6 if q else 7, ENV, ['1', '2'], ['right', 'wrong', 'nonnum'], False, P3, view=True), None, False),
        ('env-nested-deep', gen_cfg(12 if q else 15, ENV, ['1', '2'], ['right', 'wrong'], False, P1, view=True, nested=True), None, False),
        ('env-deep-view', gen_cfg(5 if q else 8, ENV, ['1', '2'], ['right', 'wrong'], False, P1, view=True), None, False),
        ('hl', gen_cfg(9 if q else 10, ['ST', 'SE', 'HL'], ['1', '2'], ['right'], False, P3, view=True), None, False),
        ('hl-wrong', gen_cfg(6 if q else 8, ['ST', 'SE', 'HL', 'B'], ['1'], ['right', 'wrong', 'nonnum'], False, P3), None, False),
        ('lx', gen_cfg(8 if q else 9, ['ST', 'SE', 'CLM', 'LX', 'B'], ['1', '2'], ['right', 'wrong'], True, P3, view=True), None, True),
        ('lx-off', gen_cfg(7, ['CLM', 'LX', 'SE', 'ST'], ['1'], ['right', 'wrong'], False, P3, view=True), None, False),
        ('sim-all', gen_cfg(24 if q else 40, ENV + ['HL', 'CLM', 'LX'], ['1', '2', '3'], ['right', 'wrong', 'nonnum'], True, P1, styles=ALLSTYLES),
         'num=%d' % (50 if q else 3000), True),
    ]


def fixtures():
    from pyx12.test.x12testdata import datafiles
    out = []
    for k in sorted(datafiles):
        src = datafiles[k].get('source')
        if src:
            out.append((k, src))
    ex = os.path.join(vlib.REPO, 'pyx12', 'examples', 'example834_5010.txt')
    if os.path.exists(ex):
        out.append(('example834_5010', open(ex).read()))
    return out


def run(tier, replay=None):
    if replay:
        obj = json.load(open(replay))['replay']
        h = obj['history']
        tr = record_text(0, concretise(h, TRIPLES[0], pad=False), obj.get('lx', False))
        print('history  :', shape(h))
        print('observed :', json.dumps([[e['errs'], e['exc']] for e in tr['events']]), 'cleanup', tr['cleanup'])
        print('recorded clause:', obj.get('clause'), 'at step', obj.get('step'))
        return 0
    chk = Check('C04', tier)
    chk.rule = ('one case per distinct segment history (kinds, control numbers, declared counts, HL/LX numbers); non-trivial = '
                'contains at least one segment after the leading ISA')
    modeldiff = {}
    tid = 0
    for label, cfg, sim, lx in configs(tier):
        if sim:
            res = run_tlc('EnvelopeGen', cfg, simulate=sim, depth=int(cfg.split('MaxLen = ')[1].split('\n')[0]) + 1, workers=1, timeout=1500)
        else:
            res = run_tlc('EnvelopeGen', cfg, timeout=2400)
        if res.error:
            raise vlib.MachineryError('EnvelopeGen %s: %s' % (label, res.error))
        if res.violated:
            raise vlib.MachineryError('EnvelopeGen %s: model-level refinement Envelope => Recount violated (%s): the transcription in '
                                      'spec/Envelope.tla no longer satisfies the definition - modelling error, not an alarm about pyx12\n%s'
                                      % (label, res.violated, res.out[-1500:]))
        chk.add_tlc(res, 'EnvelopeGen ' + label)
        hists = res.payloads.get('HIST', [])
        for d in res.payloads.get('MODELDIFF', []):
            modeldiff[d['c']] = modeldiff.get(d['c'], 0) + 1
        if not hists:
            raise vlib.MachineryError('EnvelopeGen %s emitted no history' % label)
        # recorded and validated in slices: the thorough configurations emit up to a million histories
        for off in range(0, len(hists), 40000):
            part = hists[off:off + 40000]
            batches = [(tid + i, b, lx) for i, b in zip(range(0, len(part), 2000), vlib.chunked(part, 2000))]
            traces = [t for r in vlib.parallel_map(_record_batch, batches) for t in r]
            tid += len(part)
            validate(chk, traces, label if len(hists) <= 40000 else '%s [%d..]' % (label, off))
            del traces
        del hists
        res.payloads.clear()
    # repository fixtures and concatenations (multi-interchange files)
    traces = []
    fx = fixtures()
    rnd = random.Random(vlib.seed() + 4)
    docs = [(k, s) for k, s in fx]
    for _ in range(6 if tier == 'quick' else 30):
        a, b = rnd.choice(fx), rnd.choice(fx)
        docs.append((a[0] + '+' + b[0], a[1] + b[1]))
    for k, src in docs:
        for lx in (False, True):
            if lx and 'ST*837' not in src:
                continue          # the LX check is only enabled by callers for 837 maps
            tid += 1
            traces.append(record_text(tid, src, lx))
    traces = [t for t in traces if 'open_exc' not in t]
    validate(chk, traces, 'fixtures')
    chk.extra['model_level_differences'] = modeldiff
    chk.assumptions = ['control numbers range over 2-3 distinct values per level, each written as equally zero-padded digits, as 9 characters '
                       'ending in a letter, or zero-padded in the header and unpadded in the trailer; the definition compares the text read',
                       'a blank HL02 makes no claim about the parent and closes no open level (DESIGN.md C04)',
                       'LX numbering is only claimed after a CLM of the same set and when the caller enabled the 837 check']
    return chk.finish()


if __name__ == '__main__':
    vlib.main_wrapper(run)
