"""C18 worker: executes ONE history of library calls in this (fresh) interpreter and prints the observation log.

Started by lib/c18.py as   PYTHONPATH=<repo> PYTHONHASHSEED=<n> /venv/bin/python c18_worker.py   with the job as JSON
on stdin:  {"calls": [{"doc","kind","reuse"}, ...], "xmldir": <dir with <doc>.xml>, "full": bool, "savexml": bool}
and answers on stdout with one JSON object
   {"g0": <digest of the watched globals after import>, "calls": [<observation record>, ...]}.

Every call (+ the inspection of the watched globals after it) runs under a CPU-time budget (ITIMER_PROF) and the process
under an address-space limit: a call that does not come back is recorded with verdict "no_termination" and the process
executes no further call (the worker itself always terminates).

It only drives pyx12 and projects what it sees (masking exactly the documented run-to-run differences); it takes no
decision - the comparison with Fresh(doc, kind) is done by TLC (spec/T_Session.tla).
"""
import gc
import hashlib
import json
import logging
import os
import re
import resource
import signal
import sys
import types
from io import StringIO

HERE = os.path.dirname(os.path.abspath(__file__))
sys.path.append(HERE)          # after PYTHONPATH: pyx12 comes from the repository under test
import c18_corpus

import pyx12.error_handler
import pyx12.map_if
import pyx12.params
import pyx12.x12context
import pyx12.x12n_document
import pyx12.xmlx12_simple

_RE_ADDR = re.compile(r'0x[0-9a-fA-F]{6,}')
CPU_BUDGET = float(os.environ.get('C18_CALL_CPU', '45'))        # seconds of CPU time per call (ordinary calls need < 3)
MEM_LIMIT = int(os.environ.get('C18_MEM_MB', '3072')) << 20     # address space of the worker


LOCALMAPS = [None]          # directory of the local map copy (job["localmaps"])


def map_path_of(doc):
    """the map_path parameter a document is processed with"""
    return LOCALMAPS[0] if doc in c18_corpus.LOCALMAP else None


class NoTermination(BaseException):
    """the CPU budget of a call is used up (raised from the SIGPROF handler; not an Exception: pyx12 cannot swallow it)"""


def _on_prof(signum, frame):
    raise NoTermination()


class Budget(object):
    """CPU-time guard around one call; the timer keeps firing every second after the budget until it is disarmed"""
    def __enter__(self):
        signal.signal(signal.SIGPROF, _on_prof)
        signal.setitimer(signal.ITIMER_PROF, CPU_BUDGET, 1.0)
        return self

    def __exit__(self, *a):
        signal.setitimer(signal.ITIMER_PROF, 0, 0)
        return False


def digest(text):
    return hashlib.sha1(text.encode('utf-8', 'surrogatepass')).hexdigest()[:16]


# ------------------------------------------------------------------ masking: only what the property allows
def mask_ack(text):
    """date/time of the acknowledgement's ISA and GS, and the control numbers the acknowledgement generates for its
    own envelope (ISA13/IEA02, GS06/GE02, ST02/SE02).  Everything else (AK*/IK*/TA1, counts, order) is kept verbatim."""
    parts = re.split('(~)', text)
    for i in range(0, len(parts), 2):
        s = parts[i]
        body = s.lstrip()
        lead = s[:len(s) - len(body)]
        f = body.split('*')
        sid = f[0]
        if sid == 'ISA' and len(f) >= 14:
            f[9], f[10], f[13] = '<DATE>', '<TIME>', '<ICN>'
        elif sid == 'GS' and len(f) >= 7:
            f[4], f[5], f[6] = '<DATE>', '<TIME>', '<GCN>'
        elif sid == 'GE' and len(f) >= 3:
            f[2] = '<GCN>'
        elif sid == 'IEA' and len(f) >= 3:
            f[2] = '<ICN>'
        elif sid in ('ST', 'SE') and len(f) >= 3:
            f[2] = '<SCN>'
        else:
            continue
        parts[i] = lead + '*'.join(f)
    return ''.join(parts)


def mask_html(text):
    return re.sub(r'(Analysis Date: )[^<\n]*', r'\1<DATE>', text)


def exc_text(e):
    return 'exc:%s:%s' % (type(e).__name__, _RE_ADDR.sub('0x', str(e))[:300])


# ------------------------------------------------------------------ watched globals
_ATOM = (bool, int, float, str, bytes, type(None))
_SKIP_CLASS_ATTR = ('__module__', '__dict__', '__weakref__', '__doc__', '__qualname__', '__firstlineno__',
                    '__static_attributes__', '__annotations__', '__slots__', '__hash__', '__orig_bases__',
                    '__parameters__', '__abstractmethods__', '_abc_impl', '__match_args__')


def canon_logger(lg):
    return 'Logger(%s,level=%s,handlers=%s,propagate=%s,disabled=%s,filters=%d)' % (
        lg.name, lg.level, [type(h).__name__ for h in lg.handlers], lg.propagate, lg.disabled, len(lg.filters))


def canon(x, depth=0):
    if isinstance(x, _ATOM):
        return repr(x)
    if isinstance(x, logging.Logger):
        return canon_logger(x)
    if isinstance(x, re.Pattern):
        return 're(%r,%d)' % (x.pattern, x.flags)
    if isinstance(x, (types.FunctionType, types.BuiltinFunctionType, types.MethodType, type, types.ModuleType)):
        return '<%s %s>' % (type(x).__name__, getattr(x, '__qualname__', getattr(x, '__name__', '?')))
    if depth > 4:
        try:
            n = len(x)
        except Exception:
            n = -1
        return '<%s len=%d>' % (type(x).__name__, n)
    if isinstance(x, (list, tuple)):
        return '%s[%s]' % (type(x).__name__, ','.join(canon(v, depth + 1) for v in x))
    if isinstance(x, (set, frozenset)):
        return 'set{%s}' % ','.join(sorted(canon(v, depth + 1) for v in x))
    if isinstance(x, dict):
        return '%s{%s}' % (type(x).__name__, ','.join(sorted(canon(k, depth + 1) + ':' + canon(v, depth + 1) for k, v in x.items())))
    d = getattr(x, '__dict__', None)
    if isinstance(d, dict):
        return '%s(%s)' % (type(x).__name__, canon(d, depth + 1))
    return '<%s>' % type(x).__name__


def _func_cells(cells, prefix, fn):
    cells['defaults:' + prefix] = digest(canon(fn.__defaults__) + '|' + canon(fn.__kwdefaults__))


def fingerprint():
    """cell name -> digest of a canonical rendering of the cell's content"""
    cells = {}
    for mname in sorted(sys.modules):
        if not (mname == 'pyx12' or mname.startswith('pyx12.')):
            continue
        mod = sys.modules[mname]
        if mod is None or not hasattr(mod, '__dict__'):
            continue
        md = dict(vars(mod))
        # names bound in the module (submodules and dunder entries such as __warningregistry__ come and go harmlessly)
        cells['names:' + mname] = digest(','.join(sorted(n for n, v in md.items()
                                                         if not (n.startswith('__') and n.endswith('__')) and not isinstance(v, types.ModuleType))))
        for name, val in sorted(md.items()):
            key = mname + '.' + name
            if isinstance(val, types.ModuleType):
                continue
            if isinstance(val, types.FunctionType):
                if val.__module__ == mname:
                    _func_cells(cells, key, val)
                continue
            if isinstance(val, type):
                if val.__module__ != mname:
                    continue
                cd = dict(vars(val))
                cells['names:' + key] = digest(','.join(sorted(n for n in cd if not (n.startswith('__') and n.endswith('__')))))
                for an, av in sorted(cd.items()):
                    if an in _SKIP_CLASS_ATTR:
                        continue
                    if isinstance(av, (staticmethod, classmethod)):
                        av = av.__func__
                    if isinstance(av, property):
                        for pn in ('fget', 'fset', 'fdel'):
                            pf = getattr(av, pn)
                            if isinstance(pf, types.FunctionType):
                                _func_cells(cells, key + '.' + an + '.' + pn, pf)
                        continue
                    if isinstance(av, types.FunctionType):
                        _func_cells(cells, key + '.' + an, av)
                        continue
                    if isinstance(av, (types.MemberDescriptorType, types.GetSetDescriptorType, types.WrapperDescriptorType,
                                       types.MethodDescriptorType)):
                        continue
                    cells['classattr:' + key + '.' + an] = digest(canon(av))
                continue
            if name.startswith('__') and name.endswith('__') and name not in ('__all__',):
                continue
            cells['global:' + key] = digest(canon(val))
    # logging: handlers / levels of the root logger and of every configured pyx12 logger.  A logger that merely exists
    # with default settings is indistinguishable from one that does not exist yet, so it is not a cell.
    root = logging.getLogger()
    cells['logging:root'] = digest(canon_logger(root))
    conf = []
    for name, lg in sorted(logging.Logger.manager.loggerDict.items()):
        if isinstance(lg, logging.Logger) and (name == 'pyx12' or name.startswith('pyx12.')):
            if lg.handlers or lg.level or not lg.propagate or lg.disabled or lg.filters:
                conf.append(canon_logger(lg))
    cells['logging:pyx12'] = digest('|'.join(conf))
    cells['logging:disable'] = digest(repr(logging.root.manager.disable))
    # process-wide settings a library call must not touch
    cells['process:cwd'] = digest(os.getcwd())
    cells['process:sys.path'] = digest(repr(sys.path))
    cells['process:environ'] = digest(repr(sorted(os.environ.items())))
    cells['process:recursionlimit'] = digest(repr(sys.getrecursionlimit()))
    cells['process:stdio'] = digest(repr((sys.stdout is sys.__stdout__, sys.stderr is sys.__stderr__, sys.stdin is sys.__stdin__)))
    return cells


def fp_digest(cells):
    return digest(json.dumps(sorted(cells.items())))


def fp_changes(before, after):
    """names of the watched cells whose content changed (cells of modules imported meanwhile are not changes)"""
    return sorted(k for k in before if after.get(k) != before[k])


# ------------------------------------------------------------------ the three call kinds
class Session(object):
    """the long-lived objects of the process that a call may reuse"""
    def __init__(self):
        self.param = None
        self.maps = {}

    def get_param(self, reuse):
        if reuse in ('params', 'maps') and self.param is not None:
            return self.param
        p = pyx12.params.params()
        if self.param is None:
            self.param = p        # the parameter object of the first call becomes the session's long-lived one
        return p


class MapLoader(object):
    """while installed: records every map the library loads; with reuse='maps' hands out the session's map objects"""
    def __init__(self, session, reuse):
        self.session = session
        self.reuse = reuse
        self.orig = None

    def __enter__(self):
        self.orig = orig = pyx12.map_if.load_map_file
        session, reuse = self.session, self.reuse

        def load_map_file(map_file, param, map_path=None):
            key = (map_file, map_path)
            if reuse == 'maps' and key in session.maps:
                return session.maps[key]
            m = orig(map_file, param, map_path)
            session.maps.setdefault(key, m)
            return m
        pyx12.map_if.load_map_file = load_map_file
        return self

    def __exit__(self, *a):
        pyx12.map_if.load_map_file = self.orig
        return False


def _tree_errors(node, path, out):
    """error set of an error_handler tree: one line per recorded error"""
    cls = type(node).__name__
    here = path + '/' + cls
    for a in ('seg_id', 'seg_count', 'cur_line', 'ele_pos', 'subele_pos', 'repeat_pos', 'ele_ref_num', 'ls_id'):
        v = getattr(node, a, None)
        if isinstance(v, _ATOM) and v is not None and not (a == 'cur_line' and cls in ('err_handler',)):
            here += ';%s=%s' % (a, v)
    for e in getattr(node, 'errors', None) or []:
        out.append(here + ' ! ' + '|'.join('' if x is None else str(x) for x in (e if isinstance(e, (tuple, list)) else (e,))))
    for el in getattr(node, 'elements', None) or []:
        _tree_errors(el, here, out)
    for ch in getattr(node, 'children', None) or []:
        _tree_errors(ch, here, out)


def call_validate(doc, session, reuse):
    param = session.get_param(reuse)
    fa, fh, fx = StringIO(), StringIO(), StringIO()
    captured = []
    base = pyx12.error_handler.err_handler

    class recording_err_handler(base):
        def __init__(self, *a, **k):
            base.__init__(self, *a, **k)
            captured.append(self)
    pyx12.error_handler.err_handler = recording_err_handler
    try:
        with MapLoader(session, reuse):
            try:
                r = pyx12.x12n_document.x12n_document(param, StringIO(c18_corpus.DOCS[doc]), fa, fh, fx, None, map_path_of(doc))
                verdict = repr(r)
            except MemoryError:
                raise
            except Exception as e:
                verdict = exc_text(e)
    finally:
        pyx12.error_handler.err_handler = base
    gc.collect()      # the XML writer closes its open elements when it is finalised
    errs = []
    for eh in captured:
        try:
            _tree_errors(eh, '', errs)
        except Exception as e:
            errs.append('error tree unreadable: ' + exc_text(e))
    del captured[:]
    return {'verdict': verdict, 'errors': errs, 'xml': fx.getvalue(), 'html': fh.getvalue(), 'ack': fa.getvalue(), 'out': ''}


def _node_errors(node, tag, errs):
    for lvl in ('err_isa', 'err_gs', 'err_st', 'err_seg', 'err_ele'):
        for e in getattr(node, lvl, None) or []:
            errs.append('%s;%s ! %s' % (tag, lvl, '|'.join('' if x is None else str(x) for x in e)))


def _ids(nodes):
    return ','.join(str(getattr(x, 'id', x)) for x in (nodes or []))


def _iterate(doc, param, loop_id, lines, errs):
    n = 0
    try:
        rd = pyx12.x12context.X12ContextReader(param, pyx12.error_handler.errh_null(), StringIO(c18_corpus.DOCS[doc]), map_path=map_path_of(doc))
        for node in rd.iter_segments(loop_id):
            n += 1
            if node.type == 'loop':
                lines.append('L|%s|%s|%s|%s' % (node.id, node.cur_path, node.seg_count, node.cur_line_number))
                for d in node.iterate_segments():
                    lines.append(' s|%s|%s|%s|%s|%s' % (d['id'], d['path'].format(), d['segment'].format(), d['seg_count'], d['cur_line_number']))
            else:
                tag = 'S|%s|%s|%s|%s|%s' % (node.id, node.cur_path, node.seg_data.format(), node.seg_count, node.cur_line_number)
                lines.append(tag + '|err_ct=%s|start=%s|end=%s' % (node.err_ct, _ids(node.start_loops), _ids(node.end_loops)))
                _node_errors(node, '%s:%s:%s' % (loop_id or '-', node.seg_count, node.id), errs)
        return 'ok:%d' % n
    except MemoryError:
        raise
    except Exception as e:
        return 'after %d %s' % (n, exc_text(e))


def _events(node, tag, lines):
    """the full event stream of iterate_loop_segments() of one node and the text of every segment below it"""
    for ev in node.iterate_loop_segments():
        if ev['type'] == 'seg':
            lines.append('%s seg|%s|%s|%s|%s|start=%s|end=%s' % (tag, ev['id'], ev['segment'].format(), ev['seg_count'],
                                                                 ev['cur_line_number'], _ids(ev['start_loops']), _ids(ev['end_loops'])))
        else:
            lines.append('%s %s|%s|%s' % (tag, ev['type'], ev['id'], getattr(ev['node'], 'id', '?')))
    for d in node.iterate_segments():
        lines.append('%s text|%s|%s' % (tag, d['id'], d['segment'].format()))


def _loop_pass(doc, param, loop_id, do_copy, lines, errs):
    n = 0
    try:
        rd = pyx12.x12context.X12ContextReader(param, pyx12.error_handler.errh_null(), StringIO(c18_corpus.DOCS[doc]), map_path=map_path_of(doc))
        for node in rd.iter_segments(loop_id):
            n += 1
            lines.append('%s|%s|%s|%s|%s' % ('L' if node.type == 'loop' else 'S', node.id, node.cur_path, node.seg_count, node.cur_line_number))
            if do_copy:
                dup = node.copy()
                _events(dup, ' c', lines)
            _events(node, ' o', lines)
            if node.type != 'loop':
                _node_errors(node, '%s:%s:%s' % (loop_id, node.seg_count, node.id), errs)
        return 'ok:%d' % n
    except MemoryError:
        raise
    except Exception as e:
        return 'after %d %s' % (n, exc_text(e))


def call_loops(doc, session, reuse, do_copy):
    """iteration by loop id (one pass per loop id of c18_corpus.LOOPIDS[doc]); with do_copy every yielded node is copied first"""
    param = session.get_param(reuse)
    lines, errs, verdicts = [], [], []
    with MapLoader(session, reuse):
        for loop_id in c18_corpus.LOOPIDS[doc]:
            lines.append('---- pass %s' % loop_id)
            verdicts.append('%s %s' % (loop_id, _loop_pass(doc, param, loop_id, do_copy, lines, errs)))
    gc.collect()
    return {'verdict': '; '.join(verdicts), 'errors': errs, 'xml': '', 'html': '', 'ack': '', 'out': '\n'.join(lines) + '\n'}


def call_context(doc, session, reuse):
    param = session.get_param(reuse)
    lines, errs = [], []
    with MapLoader(session, reuse):
        v1 = _iterate(doc, param, None, lines, errs)
        lines.append('---- tree pass %s' % c18_corpus.LOOPS[doc])
        v2 = _iterate(doc, param, c18_corpus.LOOPS[doc], lines, errs)
    gc.collect()
    return {'verdict': 'flat ' + v1 + '; tree ' + v2, 'errors': errs, 'xml': '', 'html': '', 'ack': '', 'out': '\n'.join(lines) + '\n'}


def call_convert(doc, xmldir):
    out = StringIO()
    try:
        r = pyx12.xmlx12_simple.convert(os.path.join(xmldir, doc + '.xml'), out)
        verdict = repr(r)
    except MemoryError:
        raise
    except Exception as e:
        verdict = exc_text(e)
    gc.collect()
    return {'verdict': verdict, 'errors': [], 'xml': '', 'html': '', 'ack': '', 'out': out.getvalue()}


def do_call(kind, doc, reuse, session, xmldir):
    if kind == 'validate':
        return call_validate(doc, session, reuse)
    if kind == 'context':
        return call_context(doc, session, reuse)
    if kind == 'convert':
        return call_convert(doc, xmldir)
    if kind in ('loops', 'loopcopy'):
        return call_loops(doc, session, reuse, kind == 'loopcopy')
    raise SystemExit('unknown call kind %r' % kind)


def main():
    job = json.load(sys.stdin)
    full = job.get('full')
    LOCALMAPS[0] = os.path.join(job['xmldir'], 'localmaps')
    soft, hard = resource.getrlimit(resource.RLIMIT_AS)
    if hard == resource.RLIM_INFINITY or hard > MEM_LIMIT:
        resource.setrlimit(resource.RLIMIT_AS, (MEM_LIMIT, hard))
    session = Session()
    before = fingerprint()
    g = fp_digest(before)
    res = {'g0': g, 'hashseed': os.environ.get('PYTHONHASHSEED', ''), 'pyx12_file': pyx12.__file__, 'calls': []}
    for c in job['calls']:
        doc, kind, reuse = c['doc'], c['kind'], c['reuse']
        o = after = None
        why = ''
        try:
            with Budget():
                o = do_call(kind, doc, reuse, session, job['xmldir'])
                after = fingerprint()
        except NoTermination:
            why = 'cpu budget of %g s used up %s' % (CPU_BUDGET, 'during the call' if o is None else 'while the watched globals were read after the call')
        except MemoryError:
            why = 'address space limit of %d MB reached' % (MEM_LIMIT >> 20)
        if why:
            # no result: recorded as such, and nothing further is executed in this process
            nt = 'no_termination'
            rec = {'doc': doc, 'kind': kind, 'reuse': reuse, 'verdict': nt, 'errors': nt, 'nerr': 0, 'xml': nt, 'html': nt, 'ack': nt,
                   'out': nt, 'g': nt, 'gdiff': [], 'len': {}, 'why': why}
            if full:
                rec['text'] = {'errors': [why], 'xml': why, 'html': why, 'ack': why, 'out': why, 'raw_ack': ''}
            res['calls'].append(rec)
            res['aborted'] = why
            break
        changed = fp_changes(before, after)
        if changed:
            g = fp_digest(after)      # a watched cell changed: new value of the abstract `globals` cell
        before = after
        if job.get('savexml') and kind == 'validate':
            with open(os.path.join(job['xmldir'], doc + '.xml'), 'w') as f:
                f.write(o['xml'])
        masked = {'xml': o['xml'], 'html': mask_html(o['html']), 'ack': mask_ack(o['ack']), 'out': o['out']}
        errs = sorted(o['errors'])
        rec = {'doc': doc, 'kind': kind, 'reuse': reuse, 'verdict': o['verdict'][:400],
               'errors': digest('\n'.join(errs)), 'nerr': len(errs),
               'xml': digest(masked['xml']), 'html': digest(masked['html']), 'ack': digest(masked['ack']),
               'out': digest(masked['out']), 'g': g, 'gdiff': changed[:6],
               'len': {k: len(v) for k, v in masked.items()}}
        if full:
            rec['text'] = {'errors': errs, 'xml': masked['xml'], 'html': masked['html'], 'ack': masked['ack'], 'out': masked['out'],
                           'raw_ack': o['ack']}
        res['calls'].append(rec)
    sys.stdout.write(json.dumps(res))
    sys.stdout.flush()
    if res.get('aborted'):
        os._exit(0)        # do not spend time tearing down an exploded heap


if __name__ == '__main__':
    main()
