"""Shared machinery for the pyx12 TLA+ conformance checks.

  * run_tlc()      - run TLC on a module of /verif/spec under a timeout, parse its statistics
                     and the JSON payloads it prints with PrintT(<<"TAG", ToJson(x)>>)
  * Check          - collects counts, samples, violations, known findings; writes
                     /verif/evidence/<id>.json and decides the exit status
  * known findings - /verif/known_findings.json, read only

Exit status convention: 0 property held on everything explored (known findings are printed),
1 at least one VIOLATION line was printed, 2 machinery failure (TLC crash, unparsable output).
"""
import hashlib
import json
import os
import re
import shutil
import subprocess
import sys
import tempfile
import time

ROOT = os.path.dirname(os.path.dirname(os.path.abspath(__file__)))
SPEC = os.path.join(ROOT, 'spec')
WORK = os.path.join(ROOT, '.work')
REPO = os.environ.get('PYX12_REPO', '/repo')
TLA_JAR = '/opt/veriftools/tla/tla2tools.jar'
TLA_CP = TLA_JAR + ':/opt/veriftools/tla/CommunityModules-deps.jar'
NCPU = os.cpu_count() or 4
MAXV = int(os.environ.get('VERIF_MAXVIOL', '8'))     # violations listed / replay files written per run


class MachineryError(Exception):
    pass


def scratch(prefix):
    os.makedirs(WORK, exist_ok=True)
    return tempfile.mkdtemp(prefix=prefix + '-', dir=WORK)


def seed():
    try:
        return int(os.environ.get('VERIF_SEED', '0'))
    except ValueError:
        return 0


# --------------------------------------------------------------------------- TLC

_RE_STATES = re.compile(r'(\d+) states generated, (\d+) distinct states found, (\d+) states left on queue')
_RE_DEPTH = re.compile(r'The depth of the complete state graph search is (\d+)')
_RE_SIM = re.compile(r'The number of states generated: (\d+)')
_RE_TAG = re.compile(r'<<\s*"(?P<tag>[A-Z][A-Z0-9_]*)",\s*"(?P<body>(?:[^"\\]|\\.)*)"\s*>>', re.S)


class TlcResult(object):
    def __init__(self):
        self.out = ''
        self.rc = None
        self.generated = 0      # states generated  (= transitions explored + initial states)
        self.distinct = 0
        self.depth = 0
        self.wall = 0.0
        self.violated = None    # name of a violated invariant / property, if any
        self.error = None       # TLC error text that is not an invariant violation
        self.payloads = {}      # tag -> list of decoded JSON values
        self.coverage = {}

    @property
    def ok(self):
        return self.error is None and self.violated is None


def _unescape_tla_string(s):
    # TLC prints strings with \" and \\ escaped (ToJson output is printed as a TLA+ string)
    out = []
    i = 0
    while i < len(s):
        c = s[i]
        if c == '\\' and i + 1 < len(s):
            n = s[i + 1]
            if n in '"\\':
                out.append(n)
                i += 2
                continue
            if n == 'n':
                out.append('\n'); i += 2; continue
            if n == 't':
                out.append('\t'); i += 2; continue
            if n == 'r':
                out.append('\r'); i += 2; continue
            if n == 'f':
                out.append('\f'); i += 2; continue
        out.append(c)
        i += 1
    return ''.join(out)


def parse_payloads(text):
    res = {}
    # TLC wraps long printed values over several lines: remove line breaks inside the tuple text
    for m in _RE_TAG.finditer(text):
        body = m.group('body')
        body = body.replace('\n', '')
        raw = _unescape_tla_string(body)
        try:
            val = json.loads(raw)
        except ValueError:
            try:
                val = json.loads(raw, strict=False)
            except ValueError as e:
                raise MachineryError('cannot decode TLC payload %s: %s ...' % (m.group('tag'), raw[:200]))
        res.setdefault(m.group('tag'), []).append(val)
    return res


def run_tlc(module, cfg_text, env=None, workers=None, timeout=600, simulate=None, depth=None,
            extra=(), keep=False, tag=None, heap='6g', deadlock=False, want_coverage=False, tseed=None):
    """Run TLC on /verif/spec/<module>.tla with the given config text.

    simulate: None (BFS) or a string such as 'num=1000' (passed to -simulate); depth: -depth for simulation.
    Returns a TlcResult.  Raises MachineryError on timeouts / crashes of TLC itself.
    """
    workers = workers or NCPU
    d = scratch(tag or module)
    res = TlcResult()
    try:
        cfg = os.path.join(d, module + '.cfg')
        with open(cfg, 'w') as f:
            f.write(cfg_text)
        cmd = ['java', '-XX:+UseSerialGC' if workers == 1 else '-XX:+UseParallelGC', '-Xmx' + heap, '-Xss64m', '-cp', TLA_CP, 'tlc2.TLC',
               '-config', cfg, '-metadir', os.path.join(d, 'meta'), '-noGenerateSpecTE',
               '-workers', str(workers)]
        if not deadlock:
            cmd.append('-deadlock')   # -deadlock DISABLES deadlock checking
        if simulate is not None:
            cmd += ['-simulate', simulate]
            if depth:
                cmd += ['-depth', str(depth)]
            cmd += ['-seed', str(tseed if tseed is not None else seed())]
        if want_coverage:
            cmd += ['-coverage', '1']
        cmd += list(extra)
        cmd.append(os.path.join(SPEC, module + '.tla'))
        e = dict(os.environ)
        if env:
            e.update({k: str(v) for k, v in env.items()})
        t0 = time.time()
        try:
            p = subprocess.run(cmd, cwd=SPEC, env=e, stdout=subprocess.PIPE, stderr=subprocess.STDOUT,
                               timeout=timeout, universal_newlines=True, errors='replace')
        except subprocess.TimeoutExpired as ex:
            out = ex.stdout or ''
            if isinstance(out, bytes):
                out = out.decode('utf-8', 'replace')
            subprocess.call(['pkill', '-f', d], stderr=subprocess.DEVNULL)
            raise MachineryError('TLC timed out after %ss on %s\n%s' % (timeout, module, out[-2000:]))
        res.wall = time.time() - t0
        res.out = p.stdout
        res.rc = p.returncode
        for m in _RE_STATES.finditer(res.out):
            res.generated, res.distinct = int(m.group(1)), int(m.group(2))
        m = _RE_DEPTH.search(res.out)
        if m:
            res.depth = int(m.group(1))
        if simulate is not None:
            m = _RE_SIM.search(res.out)
            if m:
                res.generated = int(m.group(1))
                res.distinct = res.distinct or res.generated
        m = re.search(r'Invariant (\S+) is violated', res.out)
        if m:
            res.violated = m.group(1)
        m = re.search(r'Action property (\S+) is violated|Temporal properties were violated|property (\S+) is violated', res.out)
        if m and not res.violated:
            res.violated = m.group(1) or m.group(2) or 'temporal'
        if 'Deadlock reached' in res.out:
            res.violated = res.violated or 'Deadlock'
        if res.violated is None and ('Error:' in res.out or p.returncode not in (0,)):
            # anything else is a machinery problem (parse error, evaluation error, assertion)
            idx = res.out.find('Error:')
            res.error = res.out[idx:idx + 3000] if idx >= 0 else 'TLC exit code %s\n%s' % (p.returncode, res.out[-2000:])
        res.payloads = parse_payloads(res.out)
        if want_coverage:
            for m in re.finditer(r'<(\w+) line \d+, col \d+ to line \d+, col \d+ of module (\w+)>: (\d+):(\d+)', res.out):
                res.coverage[m.group(1)] = res.coverage.get(m.group(1), 0) + int(m.group(4))
        return res
    finally:
        if not keep:
            shutil.rmtree(d, ignore_errors=True)


def tlc_must_pass(res, what):
    """A TLC run of the *model* (no implementation involved) must succeed; anything else is our bug."""
    if res.error:
        raise MachineryError('%s: TLC error\n%s' % (what, res.error))
    if res.violated:
        raise MachineryError('%s: model-level property %s violated (modelling error, not an alarm about pyx12)\n%s'
                             % (what, res.violated, res.out[-3000:]))
    return res


# --------------------------------------------------------------------------- JSON for TLC

def tla_safe(x):
    """JSON value without nulls (TLC's Json module rejects null): None -> "" ."""
    if x is None:
        return ''
    if isinstance(x, dict):
        return {str(k): tla_safe(v) for k, v in x.items()}
    if isinstance(x, (list, tuple)):
        return [tla_safe(v) for v in x]
    return x


def write_json(path, obj):
    with open(path, 'w') as f:
        json.dump(tla_safe(obj), f, separators=(',', ':'))


def codes(s):
    """text -> list of code points (strings survive JSON/TLC only as Seq(Nat))"""
    return [ord(c) for c in s]


def chunked(seq, n):
    for i in range(0, len(seq), n):
        yield seq[i:i + n]


def parallel_map(fn, items, procs=None):
    """fork-based parallel map (results must be picklable)"""
    import multiprocessing
    procs = procs or NCPU
    if procs <= 1 or len(items) <= 1:
        return [fn(x) for x in items]
    ctx = multiprocessing.get_context('fork')
    # a worker that is killed from outside (out of memory ...) must end the check as a machinery failure, not hang it:
    # concurrent.futures notices a dead worker (BrokenProcessPool), multiprocessing.Pool.map would wait for ever
    import concurrent.futures
    from concurrent.futures.process import BrokenProcessPool
    # the forked workers share the parent's pages copy-on-write; a garbage collection in a child would touch (and so copy) every
    # object the parent holds - with a parent of several GB (thorough tiers) that multiplied the memory by the number of workers
    import gc
    gc.collect()
    gc.freeze()
    try:
        with concurrent.futures.ProcessPoolExecutor(max_workers=min(procs, len(items)), mp_context=ctx) as ex:
            return list(ex.map(fn, items))
    except BrokenProcessPool as e:
        raise MachineryError('a worker process of %s died (killed from outside, e.g. out of memory): %s' % (getattr(fn, '__name__', fn), e))
    finally:
        gc.unfreeze()


# --------------------------------------------------------------------------- findings / evidence

def load_findings():
    p = os.path.join(ROOT, 'known_findings.json')
    if not os.path.exists(p):
        open(p, 'w').write('{"findings": []}')
    with open(p) as f:
        res = json.load(f).get('findings', [])
    extra = os.environ.get('VERIF_EXTRA_FINDINGS')
    if extra and os.path.exists(extra):
        with open(extra) as f:
            res += json.load(f).get('findings', [])
    return res


class Check(object):
    def __init__(self, pid, tier, level='model_checking'):
        self.pid = pid
        self.tier = tier
        self.level = level
        self.t0 = time.time()
        self.states = 0
        self.transitions = 0
        self.traces = 0
        self.evaluations = 0
        self.distinct = set()
        self.distinct_count = 0
        self.samples = []
        self.violations = []       # (signature, description, replay obj)
        self.known_hits = {}
        self.extra = {}
        self.assumptions = []
        self.rule = ''
        self.exhaustive = None
        self.findings = [f for f in load_findings() if f.get('property') == pid and f.get('kind') == 'finding']
        self.tlc_runs = []

    # -- accounting
    def add_tlc(self, res, label):
        self.states += res.distinct
        self.transitions += res.generated
        self.tlc_runs.append({'run': label, 'distinct_states': res.distinct, 'states_generated': res.generated,
                              'depth': res.depth, 'wall_s': round(res.wall, 1)})

    def add_traces(self, n):
        self.traces += n

    def add_eval(self, n=1):
        self.evaluations += n

    def note_distinct(self, key):
        if len(self.distinct) < 2000000:
            self.distinct.add(key if isinstance(key, (str, int)) else hashlib.sha1(repr(key).encode()).hexdigest())

    def sample(self, obj, cap=6):
        if len(self.samples) < cap:
            self.samples.append(obj)

    # -- verdicts
    def _match_known(self, sig):
        for f in self.findings:
            fs = f.get('signature', {})
            if all(sig.get(k) == v for k, v in fs.items()):
                return f
        return None

    def violation(self, sig, desc, replay):
        """sig: dict naming the abstract cause (monitor clause + discriminating fields)."""
        k = self._match_known(sig)
        if k is not None:
            key = json.dumps(k.get('signature'), sort_keys=True)
            if key not in self.known_hits:
                self.known_hits[key] = {'finding': k, 'count': 0, 'example': replay}
            self.known_hits[key]['count'] += 1
            return False
        self.violations.append((sig, desc, replay))
        return True

    def finish(self):
        evdir = os.environ.get('VERIF_EVIDENCE_DIR') or os.path.join(ROOT, 'evidence')
        os.makedirs(evdir, exist_ok=True)
        for key, h in sorted(self.known_hits.items()):
            f = h['finding']
            print('KNOWN-FINDING: property=%s %s (%d occurrences this run)' % (self.pid, f.get('description', key), h['count']))
        nviol = 0
        seen = set()
        if self.violations:
            rdir = os.path.join(os.environ.get('VERIF_REPLAY_DIR') or os.path.join(ROOT, 'replays'), self.pid)
            os.makedirs(rdir, exist_ok=True)
            for sig, desc, replay in self.violations:
                skey = json.dumps(sig, sort_keys=True)
                if skey in seen:
                    continue
                seen.add(skey)
                nviol += 1
                if nviol > MAXV:
                    continue
                h = hashlib.sha1(skey.encode()).hexdigest()[:12]
                path = os.path.join(rdir, h + '.json')
                with open(path, 'w') as f:
                    json.dump({'property': self.pid, 'signature': sig, 'description': desc, 'replay': replay}, f, indent=1, default=str)
                print('VIOLATION property=%s replay=%s' % (self.pid, path))
                print('  ' + desc[:400].replace('\n', ' '))
        if nviol > MAXV:
            print('... %d further distinct violation signatures not listed' % (nviol - MAXV))
        dn = self.distinct_count + len(self.distinct)
        cov = {
            'states': self.states,
            'transitions': self.transitions,
            'traces_validated_against_impl': self.traces,
            'evaluations': self.evaluations,
            'distinct_nontrivial': dn,
            'rule': self.rule,
            'samples': self.samples if self.samples else ['(no sample recorded)'],
            'tlc_runs': self.tlc_runs,
            'known_findings_hit': [{'signature': h['finding'].get('signature'), 'count': h['count']} for h in self.known_hits.values()],
            'violation_signatures': [json.loads(s) for s in sorted(seen)][:25],
        }
        if self.exhaustive is not None:
            cov['exhaustive'] = self.exhaustive
        cov.update(self.extra)
        ev = {
            'property_id': self.pid,
            'tier': self.tier,
            'seed': seed(),
            'level': self.level,
            'coverage': cov,
            'assumptions': self.assumptions,
            'wall_s': round(time.time() - self.t0, 2),
            'violations': nviol,
        }
        with open(os.path.join(evdir, self.pid + '.json'), 'w') as f:
            json.dump(ev, f, indent=1, default=str)
        if self.traces == 0 and nviol == 0:
            print('MACHINERY: no execution of the implementation was validated', file=sys.stderr)
            return 2
        print('%s %s: states=%d transitions=%d impl_traces=%d evaluations=%d violations=%d known=%d wall=%.1fs'
              % (self.pid, self.tier, self.states, self.transitions, self.traces, self.evaluations, nviol,
                 len(self.known_hits), time.time() - self.t0))
        return 1 if nviol else 0


def main_wrapper(fn):
    """run a check function(tier) -> exit status, mapping machinery failures to exit 2"""
    import argparse
    ap = argparse.ArgumentParser()
    ap.add_argument('--tier', default=os.environ.get('VERIF_TIER', 'quick'), choices=['quick', 'thorough'])
    ap.add_argument('--replay', default=None)
    args = ap.parse_args()
    try:
        rc = fn(args.tier, args.replay)
    except MachineryError as e:
        print('MACHINERY FAILURE: %s' % e, file=sys.stderr)
        rc = 2
    sys.exit(rc)
