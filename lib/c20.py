"""C20 - the command-line normaliser preserves content, is idempotent and repairs counts.

spec -> code : TLC explores NormGen (properly nested histories whose only defects are wrong IEA/GE/SE counts or HL
               numbers; model-level theorems: implementation-shaped fixing rule = definition, repaired output has no
               count defect, nothing else altered, idempotent) and emits every history; each is concretised to a file
               (several delimiter triples / line-break conventions) and normalised by the real
               pyx12.scripts.x12norm.main() under every option combination (eol, fix counting; stdout, -o, in place).
code -> spec : every run (output segments, layout, second pass, destinations), plus histories with other defects and the
               repository fixtures, is validated by TLC against T_Norm / Norm!NormDef.
real size    : emitted histories (and a complete well-formed interchange) are inflated with filler values and runs of short
               segments so that the file is longer than the reader's first read (106 + 8192 characters) and the next
               ones; sweeping the filler length moves a segment terminator, a CR and a LF over every read boundary
               (8298 + 8192 k); every such file is normalised under all four option combinations and every destination
               and judged by the same T_Norm clauses.
"""
import contextlib
import io
import json
import os
import random
import shutil
import sys

sys.path.insert(0, os.path.dirname(os.path.abspath(__file__)))
import vlib
from vlib import run_tlc, Check
import c04

sys.path.insert(0, vlib.REPO)
import pyx12.scripts.x12norm as x12norm

TRIPLES = [('~', '*', ':'), ('+', '&', '!'), ('|', '^', '\\')]
EOLS = ['', '\n', '\r\n']
FIRST_READ = 106 + 8192      # RawX12File: the ISA, then reads of DEFAULT_BUFSIZE characters
BUFSIZE = 8192
RUN = 16                     # short segments laid over a read boundary
SWEEP = 16                   # filler lengths tried: more than the longest short segment (14 characters + CR LF)


def seg(k, id='', cnt='', n='', p=''):
    return {'k': k, 'id': id, 'cnt': cnt, 'n': n, 'p': p}


def concretise(hist, triple, eol=''):
    """c04.concretise, plus: a body segment with a non-empty id carries that id as its value (Norm!ConcreteEls)"""
    st, et, ct = triple
    return ''.join((et.join(['REF', 'EA', s['id']]) + st + eol) if (s['k'] == 'B' and s['id']) else c04.concretise([s], triple, eol) for s in hist)


def shape(h):
    """c04.shape with filler values not written out and long histories cut in the middle"""
    hh = [dict(s, id='filler') if (s['k'] == 'B' and s['id']) else s for s in h]
    if len(hh) > 24:
        return c04.shape(hh[:10]) + ' ..%d more.. ' % (len(hh) - 16) + c04.shape(hh[-6:])
    return c04.shape(hh)


def inflate(h, j1, j2, pad, nbound, triple, eol_in):
    """h with filler + a run of short segments inserted after segment j1 (laid over the first read boundary) and after segment
    j2 >= j1 (the next boundaries); the first filler is `pad` characters longer than that needs, so everything behind it
    is `pad` characters further on"""
    def short_run(base):
        return [seg('HL', n=str(base + i // 3 + 1)) if i % 3 == 0 else seg('B') for i in range(RUN)]
    out = list(h[:j1])
    rest = [h[j1:j2], h[j2:]] + [[]] * nbound
    for b in range(nbound):
        target = FIRST_READ + b * BUFSIZE - 8 * (10 + len(eol_in)) + pad + 5 * b    # boundary in the middle of the run
        here = len(concretise(out, triple, eol_in)) + len('REF*EA*') + 1 + len(eol_in)
        out.append(seg('B', id='P' * max(1, target - here)))
        out += short_run(b * 6)
        out += rest[b]
    for r in rest[nbound:]:
        out += r
    return out


def well_formed(variant, nbound):
    """a complete interchange of two transaction sets, counts and HL numbers written for the history inflated (by `inflate`
    after segment 3, both insertions) - variant 0: all right, -f must change nothing; 1 and 2: wrong ones, to be repaired"""
    nh = 6 * nbound                          # HL segments of the inserted runs
    body1 = [seg('HL', n=str(nh + 1)), seg('B'), seg('HL', n=str(nh + 2), p=str(nh + 1)), seg('CLM'), seg('B')]
    body2 = [seg('HL', n='1' if variant != 1 else '4'), seg('B', id='   ')]      # a value of blanks only is a value like any other (fixed-width back ends write them)
    se1 = len(body1) + 2 + nbound * (RUN + 1) + (3 if variant == 1 else 0)
    return ([seg('ISA', '1'), seg('GS', '1'), seg('ST', '1')] + body1 + [seg('SE', '1', str(se1))]
            + [seg('ST', '2')] + body2 + [seg('SE', '2', str(len(body2) + 2)), seg('GE', '1', '2' if variant != 2 else '7'),
                                          seg('IEA', '1', '1' if variant != 2 else '3')])


def big_cases(tier, pool, rnd):
    """(history, delimiters, input line breaks) of the real-size inputs"""
    q = tier == 'quick'
    nbound = 2 if q else 3
    cases = []
    for ei, eol_in in enumerate(EOLS):
        for pad in range(SWEEP if q else 2 * SWEEP):
            for ti, triple in enumerate(TRIPLES):
                if q and (pad + ei) % 3 != ti:
                    continue                  # quick: every (line break, alignment) once, the delimiters rotating
                k = len(cases)
                if k % 3 == 0 or not pool:
                    h, j1, j2 = well_formed((k // 3) % 3, nbound), 3, 3
                else:
                    h = pool[k % len(pool)]
                    j1 = rnd.randint(1, len(h))
                    j2 = rnd.randint(j1, len(h))
                cases.append((inflate(h, j1, j2, pad, nbound, triple, eol_in), triple, eol_in))
    return cases


def _big_batch(args):
    base, cases = args
    d = vlib.scratch('c20big')
    out = []
    try:
        for j, (h, triple, eol_in) in enumerate(cases):
            for c, (fix, eol) in enumerate([(False, False), (True, False), (False, True), (True, True)]):
                tr = one_trace((base + j) * 4 + c, h, fix, eol, triple, eol_in, d)
                tr['big'] = True
                out.append(tr)
    finally:
        shutil.rmtree(d, ignore_errors=True)
    return out


def run_norm(argv):
    old = sys.argv
    sys.argv = ['x12norm'] + argv
    buf = io.StringIO()
    try:
        import logging
        lg = logging.getLogger()
        before = list(lg.handlers)
        with contextlib.redirect_stdout(buf), contextlib.redirect_stderr(io.StringIO()):
            x12norm.main()
        for h in list(lg.handlers):
            if h not in before:
                lg.removeHandler(h)
        return buf.getvalue(), ''
    except SystemExit as e:
        return buf.getvalue(), 'SystemExit(%s)' % e.code
    except Exception as e:
        return buf.getvalue(), type(e).__name__
    finally:
        sys.argv = old


def parse_out(text, header, triple):
    st, et, ct = triple
    hdr_same = text[:106] == header
    rest = text[106:]
    pieces = rest.split(st)
    out = []
    for p in pieces[:-1]:
        i = 0
        while i < len(p) and p[i] in '\r\n':
            i += 1
        els = p[i:].split(et)
        if els[0] == 'ISA':
            # a later ISA: reduced to its control number when it is character for character the ISA the harness wrote
            same = (p[i:] + st) == (header[:-1].split(et)[0:13] and et.join(header[:-1].split(et)[:13] + [els[13] if len(els) > 13 else ''] + header[:-1].split(et)[14:]) + st)
            els = ['ISA', els[13]] if same and len(els) == 17 else ['ISA', 'CHANGED']
        out.append({'lead': vlib.codes(p[:i]), 'els': els})
    return hdr_same, out, vlib.codes(pieces[-1])


def one_trace(tid, hist, fix, eol, triple, eol_in, d, other=None):
    text = concretise(hist, triple, eol_in)
    header = text[:106]
    fin = os.path.join(d, 'in%d.x12' % tid)
    with open(fin, 'w', encoding='ascii', newline='') as f:
        f.write(text)
    opts = (['-e'] if eol else []) + (['-f'] if fix else [])
    tr = {'id': tid, 'hist': hist, 'fix': fix, 'eol': eol, 'hdr_same': False, 'out': [], 'tail': [], 'second_same': False, 'dest_same': False, 'multi_same': True,
          'exc': '', 'triple': list(triple), 'eol_in': eol_in}
    out1, exc = run_norm(opts + [fin])
    if exc:
        tr['exc'] = exc
        return tr
    tr['hdr_same'], tr['out'], tr['tail'] = parse_out(out1, header, triple)
    # destinations: -o file, and in place on a copy
    fo = os.path.join(d, 'out%d.x12' % tid)
    _, exc2 = run_norm(opts + ['-o', fo, fin])
    fc = os.path.join(d, 'copy%d.x12' % tid)
    shutil.copy(fin, fc)
    _, exc3 = run_norm(opts + ['-i', fc])
    try:
        t2 = open(fo, encoding='ascii', newline='').read()
    except Exception:
        t2 = None
    t3 = open(fc, encoding='ascii', newline='').read()
    tr['dest_same'] = (exc2 == '' and exc3 == '' and t2 == out1 and t3 == out1)
    tr['dest_detail'] = {'o_equal': t2 == out1, 'inplace_equal': t3 == out1, 'exc_o': exc2, 'exc_i': exc3}
    # second pass over the in-place result
    out2, exc4 = run_norm(opts + [fc])
    tr['second_same'] = (exc4 == '' and out2 == out1)
    # several files in one invocation: a longer file first, then this one (stdout and in place)
    if other is not None:
        flong = os.path.join(d, 'long%d.x12' % tid)
        with open(flong, 'w', encoding='ascii', newline='') as f:
            # the earlier file is written under ANOTHER encoding (every other time with the line break itself as terminator):
            # nothing decided while normalising one file may carry over to the next
            t_other, e_other = [(('\n', '*', ':'), ''), (TRIPLES[(TRIPLES.index(tuple(triple)) + 1) % 3] if tuple(triple) in TRIPLES else TRIPLES[0], '\n'),
                                (('\n', '|', '>'), ''), (tuple(triple), eol_in)][tid // 4 % 4]
            f.write(concretise(other, t_other, e_other))
        outl, excl = run_norm(opts + [flong])
        both, excb = run_norm(opts + [flong, fin])
        c1 = os.path.join(d, 'm1_%d.x12' % tid)
        c2 = os.path.join(d, 'm2_%d.x12' % tid)
        shutil.copy(flong, c1)
        shutil.copy(fin, c2)
        _, exci = run_norm(opts + ['-i', c1, c2])
        t1 = open(c1, encoding='ascii', newline='').read()
        t2 = open(c2, encoding='ascii', newline='').read()
        tr['multi_same'] = (excl == '' and excb == '' and exci == '' and both == outl + out1 and t1 == outl and t2 == out1)
        tr['multi_detail'] = {'stdout_equal': both == outl + out1, 'inplace_first': t1 == outl, 'inplace_second': t2 == out1}
        for p in (flong, c1, c2):
            try:
                os.remove(p)
            except OSError:
                pass
    for p in (fin, fo, fc):
        try:
            os.remove(p)
        except OSError:
            pass
    return tr


def _batch(args):
    base, hists = args
    d = vlib.scratch('c20run')
    out = []
    try:
        for j, h in enumerate(hists):
            tid = base + j
            triple = TRIPLES[tid % 3]
            eol_in = ['', '\n', '\r\n'][(tid // 3) % 3]
            combos = [(False, False), (True, False), (False, True), (True, True)]
            fix, eol = combos[tid % 4]
            longer = None
            if tid % 7 == 0:
                cands = [x for x in hists if len(x) > len(h)]
                longer = (cands[0] + [{'k': 'B', 'id': '', 'cnt': '', 'n': '', 'p': ''}] * 6) if cands else (h + [{'k': 'B', 'id': '', 'cnt': '', 'n': '', 'p': ''}] * 8)
            out.append(one_trace(tid * 4, h, fix, eol, triple, eol_in, d, other=longer))
            if tid % 5 == 0:        # all four option combinations on a sample
                for c, (f2, e2) in enumerate(combos):
                    if (f2, e2) != (fix, eol):
                        out.append(one_trace(tid * 4 + 1 + c, h, f2, e2, triple, eol_in, d))
    finally:
        shutil.rmtree(d, ignore_errors=True)
    return out


def _validate_batch(traces):
    d = vlib.scratch('c20tv')
    try:
        p = os.path.join(d, 'traces.json')
        keys = ('id', 'hist', 'fix', 'eol', 'hdr_same', 'out', 'tail', 'second_same', 'dest_same', 'multi_same', 'exc')
        vlib.write_json(p, [{k: t[k] for k in keys} for t in traces])
        res = run_tlc('T_Norm', 'SPECIFICATION Spec\nINVARIANT Report\n', env={'TRACE_FILE': p}, workers=1, timeout=1500, heap='3g')
        if res.error:
            raise vlib.MachineryError('T_Norm: ' + res.error)
        rep = res.payloads.get('REJECTS')
        if not rep:
            raise vlib.MachineryError('T_Norm printed no report\n' + res.out[-1500:])
        return {'distinct': res.distinct, 'generated': res.generated, 'depth': res.depth, 'wall': res.wall, 'rej': rep[-1]['rej']}
    finally:
        shutil.rmtree(d, ignore_errors=True)


def validate(chk, traces, label, chunk=None):
    if not traces:
        return
    results = vlib.parallel_map(_validate_batch, list(vlib.chunked(traces, chunk or max(100, min(3000, len(traces) // vlib.NCPU + 1)))))
    byid = {t['id']: t for t in traces}
    tot = vlib.TlcResult()
    for r in results:
        tot.distinct += r['distinct']; tot.generated += r['generated']; tot.wall = max(tot.wall, r['wall']); tot.depth = max(tot.depth, r['depth'])
        for tid, clause in r['rej']:
            tr = byid[tid]
            sig = {'clause': clause}
            if clause == 'exception':
                sig['exc'] = tr['exc']
            if clause == 'destinations_differ':
                sig.update({k: v for k, v in tr.get('dest_detail', {}).items()})
            if clause == 'several_files_in_one_run':
                sig.update({k: v for k, v in tr.get('multi_detail', {}).items()})
            if clause in ('values', 'segment_count'):
                sig['fix'] = tr['fix']
                sig['history'] = shape(tr['hist'])
            if tr.get('big'):
                sig['real_size'] = True
                sig['eol_in'] = tr['eol_in']
            chk.violation(sig, 'x12norm %s%son [%s] (delimiters %r, input line breaks %r): clause %s; output segments %s'
                          % ('-e ' if tr['eol'] else '', '-f ' if tr['fix'] else '', shape(tr['hist']), ''.join(tr['triple']), tr['eol_in'], clause,
                             [(''.join('*' + e for e in o['els'])[1:])[:40 if tr.get('big') else None] for o in tr['out']][:12]),
                          {'kind': 'norm', 'history': tr['hist'], 'fix': tr['fix'], 'eol': tr['eol'], 'triple': tr['triple'], 'eol_in': tr['eol_in'], 'clause': clause})
    chk.add_tlc(tot, 'T_Norm ' + label)
    chk.add_traces(len(traces))
    chk.add_eval(len(traces) * 4)
    for t in traces:
        chk.note_distinct('%s|%s|%s|%s|%s' % (shape(t['hist']), t['fix'], t['eol'], t['triple'], t['eol_in']))
    t = traces[len(traces) // 2]
    chk.sample({'source': label, 'input': shape(t['hist']), 'options': {'eol': t['eol'], 'fixcounting': t['fix']}, 'delimiters': ''.join(t['triple']),
                'output_segments': ['*'.join(o['els'])[:80] for o in t['out']][:10]})


def fixture_hists():
    """abstract histories of the repository fixtures cannot be concretised back (values differ); instead perturb counts of generated nests"""
    return []


def run(tier, replay=None):
    if replay:
        obj = json.load(open(replay))['replay']
        d = vlib.scratch('c20rp')
        try:
            tr = one_trace(0, obj['history'], obj['fix'], obj['eol'], tuple(obj['triple']), obj['eol_in'], d)
        finally:
            shutil.rmtree(d, ignore_errors=True)
        print('input   :', shape(obj['history']), 'options', {'fix': obj['fix'], 'eol': obj['eol']})
        print('output  :', [(o['lead'], '*'.join(o['els'])[:60]) for o in tr['out']], 'tail', tr['tail'], 'second_same', tr['second_same'], 'dest', tr.get('dest_detail'), 'exc', tr['exc'])
        print('recorded clause:', obj.get('clause'))
        return 0
    chk = Check('C20', tier)
    chk.rule = 'one case per (input history, option combination, delimiter triple, input line-break convention); each case runs stdout, -o and in-place destinations and a second pass; real-size cases: one per (inflated history, filler length, line-break convention), all four option combinations'
    q = tier == 'quick'
    tid = 0
    plans = [('all-kinds', 6 if q else 7, ['ISA', 'GS', 'ST', 'SE', 'GE', 'IEA', 'HL', 'B']),
             ('envelope-deep', 8 if q else 10, ['ISA', 'GS', 'ST', 'SE', 'GE', 'IEA']),
             ('hl-deep', 7 if q else 9, ['GS', 'ST', 'SE', 'HL'])]
    rnd = random.Random(vlib.seed() + 20)
    pool = []
    for label, maxlen, kinds in plans:
        cfg = ('SPECIFICATION Spec\nCONSTANTS MaxLen = %d\n Kinds = {%s}\n Ids = {"1","2"}\n EmitAll = TRUE\n'
               'INVARIANT ImplIsDef\nINVARIANT Repaired\nINVARIANT NothingElse\nINVARIANT Idempotent\nINVARIANT Emit\n'
               % (maxlen, ','.join('"%s"' % k for k in kinds)))
        res = run_tlc('NormGen', cfg, timeout=3000)
        if res.error:
            raise vlib.MachineryError('NormGen %s: %s' % (label, res.error))
        if res.violated:
            raise vlib.MachineryError('NormGen %s: model-level theorem %s violated (modelling error)\n%s' % (label, res.violated, res.out[-1500:]))
        chk.add_tlc(res, 'NormGen ' + label)
        hists = res.payloads.get('HIST', [])
        if not hists:
            raise vlib.MachineryError('NormGen emitted nothing')
        cap = 2000 if q else 60000
        if len(hists) > cap:
            hists = rnd.sample(hists, cap)
        traces = [t for r in vlib.parallel_map(_batch, [(tid + i, b) for i, b in zip(range(0, len(hists), 400), vlib.chunked(hists, 400))]) for t in r]
        tid += len(hists)
        validate(chk, traces, label)
        pool += rnd.sample(hists, min(len(hists), 20))
    # real-size inputs: read boundaries of RawX12File swept by a terminator / CR / LF
    cases = big_cases(tier, pool, rnd)
    per = max(1, len(cases) // vlib.NCPU + 1)
    traces = [t for r in vlib.parallel_map(_big_batch, [(tid + i, b) for i, b in zip(range(0, len(cases), per), vlib.chunked(cases, per))]) for t in r]
    validate(chk, traces, 'real-size', chunk=max(48, len(traces) // vlib.NCPU + 1))
    chk.assumptions = ['count fixing is only specified (and checked) for properly nested inputs whose only defects are IEA/GE/SE counts or HL sequence numbers',
                       'segment values of the generated inputs are fixed representative values; delimiters from 3 triples; input line breaks none/LF/CRLF',
                       'inputs are given by file path (the only form the script accepts)',
                       'real-size inputs: %d read boundaries (8298 + 8192 k) crossed, filler length swept over %d values; longer files are not run'
                       % (2 if q else 3, SWEEP if q else 2 * SWEEP)]
    return chk.finish()


if __name__ == '__main__':
    vlib.main_wrapper(run)
