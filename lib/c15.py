"""C15 - element / composite validation enforces exactly what the map declares.

The oracle is the TLA+ definition layer spec/ElemValid.tla: for a definition record and a value it states which
constraints are broken and the error code each one implies (value languages of the data types: spec/DataTypes.tla),
and the monitor `Clause` says which reports an implementation may give for them.

spec -> code : TLC enumerates ElemValidGen (definition classes: usage x data type x length shape x code list kind
               x pattern x version; value classes at every constraint boundary; character set, exclusion; and
               two-component composites with every presence pattern), checks that the transcription of pyx12's
               algorithm (ElemValidImpl) is admissible for the definition, and emits every case with the broken
               constraints.  Each case is replayed on REAL element_if / composite_if nodes of a small map written
               to scratch and loaded through pyx12.map_if.load_map_file(map_path=...).
code -> spec : the COMPLETE table of the shipped maps: every element and composite node of every map of maps.xml
               x the value catalogue of its definition x {charset B, E} x {external-code exclusions off / on}, called
               through is_valid with errh_list; DTP03-like elements also through segment_if.is_valid with every
               qualifier the map allows.  The log (definition signature read by our own XML reading of the map,
               dataele.xml and codes.xml; value text and code points; the two outside facts; result; codes) is
               de-duplicated by (signature, value, setting, outcome) and validated by TLC (T_ElemValid).
Python only builds inputs, drives the real code and projects what it did; right or wrong is decided by TLC.
"""
import collections
import json
import os
import random
import re
import shutil
import sys

sys.path.insert(0, os.path.dirname(os.path.abspath(__file__)))
import vlib
from vlib import run_tlc, tlc_must_pass, Check
import c15_defs as defs
import c15_values as values
import c15_run as runner
import c15_synth as synth

sys.path.insert(0, vlib.REPO)
import pyx12.segment

PID = 'C15'
MAPDIR = defs.map_dir(vlib.REPO)


# ------------------------------------------------------------------ plan
def exclusion_plan(tabs):
    """three settings of exclude_external_codes, loaded one after the other in the same process:
    nothing excluded, a seeded half of the code sets, the other half"""
    ids = sorted(tabs.codesets)
    rnd = random.Random(vlib.seed() + 15)
    rnd.shuffle(ids)
    a, b = sorted(ids[:len(ids) // 2]), sorted(ids[len(ids) // 2:])
    return [None, ','.join(a), ','.join(b)]


def survey(files, tabs):
    """our own reading of every map: segment counts and the definition signatures that occur"""
    info = {}
    esigs, csigs = collections.Counter(), collections.Counter()
    for f in files:
        try:
            segs, icvn = defs.read_map(os.path.join(MAPDIR, f), tabs)
        except Exception as e:
            info[f] = {'nsegs': 0, 'why': str(e)[:100]}
            continue
        info[f] = {'nsegs': len(segs), 'icvn': icvn}
        for s in segs:
            for kind, d, xid in s['children']:
                if kind == 'element':
                    if d is not None:
                        esigs[defs.elem_sig(d)] += 1
                else:
                    for k in d['kids']:
                        if k is not None:
                            esigs[defs.elem_sig(k)] += 1
                    if d['complete']:
                        csigs[defs.comp_sig(d)] += 1
    return info, esigs, csigs


def stratum(sig):
    usage, dtype, mn, mx, codes, ext, has_ext, regex = sig[:8]
    return (usage, dtype, mn == mx, bool(codes), has_ext, bool(regex), sig[8], sig[11], sig[12])


def select(sigs, frac, rnd, key):
    """seeded selection of about frac of the signatures, at least one of every stratum"""
    by = collections.defaultdict(list)
    for s in sorted(sigs, key=repr):
        by[key(s)].append(s)
    out = set()
    for k in sorted(by, key=repr):
        lst = by[k]
        n = max(1, int(round(len(lst) * frac)))
        out.update(rnd.sample(lst, n))
    return out


# ------------------------------------------------------------------ recording (parallel over map slices)
def record_all(chk, tier, files, tabs, plan, want_e, want_c, slice_len=24):
    info, _e, _c = survey(files, tabs)
    tasks = []
    for f in files:
        n = info[f]['nsegs']
        for lo in range(0, max(n, 1), slice_len):
            tasks.append((f, lo, lo + slice_len, tier, plan, vlib.seed(), want_e, want_c, MAPDIR))
    rnd = random.Random(vlib.seed())
    rnd.shuffle(tasks)
    outs = vlib.parallel_map(runner.record_task, tasks)
    failed = {}
    sigid = {}
    sigdef = []
    erecs, crecs = {}, {}
    ncalls = 0
    skipped = collections.Counter()
    nodes = collections.Counter()
    loaded = set()
    for o in outs:
        if not o['loaded']:
            failed[o['map']] = o['why']
            continue
        loaded.add(o['map'])
        ncalls += o['ncalls']
        skipped.update(o['skipped'])
        nodes.update(o['nodes'])
        remap = []
        for sig, d in zip(o['sigs'], o['sigdef']):
            if sig not in sigid:
                sigid[sig] = len(sigdef)
                sigdef.append(d)
            remap.append(sigid[sig])
        for store, src in ((erecs, o['erecs']), (crecs, o['crecs'])):
            for key, slot in src.items():
                nk = (remap[key[0]],) + key[1:]
                cur = store.get(nk)
                if cur is None:
                    store[nk] = dict(slot)
                else:
                    for out, origin in slot.items():
                        cur.setdefault(out, origin)
    return {'erecs': erecs, 'crecs': crecs, 'sigdef': sigdef, 'ncalls': ncalls, 'skipped': dict(skipped), 'nodes': dict(nodes),
            'failed': failed, 'loaded': sorted(loaded)}


# ------------------------------------------------------------------ groups for TLC
def value_rec(d, tabs, v):
    ext, rx = runner.fact_of(d, runner.members_of(tabs, d), v)
    return {'s': v, 'cp': vlib.codes(v), 'n': len(v), 'ext': ext, 'rx': rx}


def build_groups(rec, tabs):
    """[(tla group, [origin per case], [python-side case info])]"""
    groups = {}
    for key in sorted(rec['erecs'], key=lambda k: (k[0], k[1] is None, k[1] or '', k[2:])):
        k, v, is_comp, cs, excl, tl, qual = key
        d = rec['sigdef'][k]
        g = groups.get(('e', k))
        if g is None:
            g = groups[('e', k)] = ({'kind': 'element', 'd': defs.tla_elem(d), 'cases': []}, [], d)
        for out in sorted(rec['erecs'][key]):
            res, codes, exc = out
            if v is None or is_comp:
                c = {'absent': v is None, 'isComp': is_comp, 's': v or '', 'cp': [], 'n': 0, 'ext': False, 'rx': False}
            else:
                c = dict(value_rec(d, tabs, v), absent=False, isComp=False)
            c.update({'cs': cs, 'excl': bool(excl), 'tl': list(tl), 'qual': qual, 'res': res, 'codes': list(codes)})
            g[0]['cases'].append(c)
            g[1].append({'origin': rec['erecs'][key][out], 'exc': exc, 'value': v, 'key': key})
    for key in sorted(rec['crecs'], key=lambda k: (k[0], k[1] is None, k[1] or (), k[2:])):
        k, vals, cs, excl = key
        d = rec['sigdef'][k]
        g = groups.get(('c', k))
        if g is None:
            g = groups[('c', k)] = ({'kind': 'composite', 'd': {'usage': d['usage'], 'kids': [defs.tla_elem(x) for x in d['kids']]},
                                     'cases': []}, [], d)
        for out in sorted(rec['crecs'][key]):
            res, codes, exc = out[:3]
            cc = out[3] if len(out) > 3 else ()
            comps = []
            for i, v in enumerate(vals or ()):
                if i < len(d['kids']):
                    comps.append(value_rec(d['kids'][i], tabs, v))
                else:
                    comps.append({'s': v, 'cp': vlib.codes(v), 'n': len(v), 'ext': False, 'rx': False})
            g[0]['cases'].append({'absent': vals is None, 'comps': comps, 'cs': cs, 'excl': [bool(x) for x in excl],
                                  'res': res, 'codes': list(codes), 'cc': [[c_, int(k_)] for (c_, k_) in cc]})
            g[1].append({'origin': rec['crecs'][key][out], 'exc': exc, 'value': None if vals is None else list(vals), 'key': key})
    return [groups[k] for k in sorted(groups)]


def case_weight(c):
    if 'comps' in c:
        return 3 + sum(x['n'] for x in c['comps']) // 8
    return 1 + c['n'] // 8


def split_groups(groups, nb, max_cases=4000):
    """cut big groups into pieces and spread the pieces over nb batches of similar weight"""
    pieces = []
    for gi, (g, meta, d) in enumerate(groups):
        for lo in range(0, len(g['cases']), max_cases):
            cs = g['cases'][lo:lo + max_cases]
            pieces.append((sum(case_weight(c) for c in cs), gi, lo, {'kind': g['kind'], 'd': g['d'], 'cases': cs}))
    pieces.sort(key=lambda p: -p[0])
    batches = [[] for _ in range(nb)]
    load = [0] * nb
    for p in pieces:
        b = load.index(min(load))
        batches[b].append(p)
        load[b] += p[0] + 20
    return [b for b in batches if b]


def _tlc_batch(arg):
    label, pieces, cap = arg
    d = vlib.scratch('c15tr')
    try:
        path = os.path.join(d, 'trace.json')
        vlib.write_json(path, {'groups': [p[3] for p in pieces]})
        res = run_tlc('T_ElemValid', 'SPECIFICATION Spec\nINVARIANT Report\nCONSTANT Cap = %d\n' % cap, env={'TRACE_FILE': path},
                      workers=1, timeout=1700, heap='3g', tag='T_ElemValid-' + label)
        res.out = res.out[-3000:]
        return res
    finally:
        shutil.rmtree(d, ignore_errors=True)


def validate(chk, groups, label, nb=None, cap=3):
    """-> [(group index, case index, clause, names, implied)] of the rejected cases (examples, at most cap per class
    and batch) and the totals"""
    ncases = sum(len(g[0]['cases']) for g in groups)
    if ncases == 0:
        raise vlib.MachineryError('no record was produced for %s' % label)
    nb = nb or max(1, min(vlib.NCPU, ncases // 1500))
    batches = split_groups(groups, nb)
    results = vlib.parallel_map(_tlc_batch, [('%s%d' % (label, b), batch, cap) for b, batch in enumerate(batches)], procs=len(batches))
    rejected = []
    stat = collections.Counter()
    nrej = 0
    agg = None
    for b, (batch, res) in enumerate(zip(batches, results)):
        if res.error or res.violated:
            raise vlib.MachineryError('T_ElemValid (%s batch %d): %s' % (label, b, res.error or (res.violated + res.out[-1500:])))
        reps = res.payloads.get('REJECTS')
        if not reps:
            raise vlib.MachineryError('T_ElemValid printed no REJECTS report\n' + res.out[-1500:])
        rep = reps[-1]
        want = sum(len(p[3]['cases']) for p in batch)
        if rep['stat']['cases'] != want or res.distinct < len(batch) + 1:
            raise vlib.MachineryError('T_ElemValid judged %s cases, %d were recorded' % (rep['stat']['cases'], want))
        for k in ('cases', 'none', 'one', 'many'):
            stat[k] += rep['stat'][k]
        nrej += rep['n']
        for e in rep['rej']:
            w, gi, lo, piece = batch[e['g'] - 1]
            if e['clause'] == 'transport':
                raise vlib.MachineryError('a value did not survive the transport to TLC (group %d case %d)' % (gi, lo + e['k'] - 1))
            rejected.append((gi, lo + e['k'] - 1, e['clause'], sorted(e['names']), sorted(e['implied'])))
        if agg is None:
            agg = res
        else:
            agg.distinct += res.distinct
            agg.generated += res.generated
            agg.wall = max(agg.wall, res.wall)
            agg.depth = max(agg.depth, res.depth)
    chk.add_tlc(agg, '%s: %d batches, %d cases' % (label, len(batches), ncases))
    chk.add_eval(stat['cases'])
    return rejected, stat, nrej


# ------------------------------------------------------------------ reporting
def show(v):
    if v is None:
        return 'None'
    return repr(v) if len(v) <= 40 else repr(v[:37]) + '...(%d chars)' % len(v)


def report(chk, groups, rejected, plan, origin_label, world=None, classes=None):
    rejected.sort(key=lambda r: (r[2], r[3], len(json.dumps(groups[r[0]][1][r[1]]['value'])), r[0], r[1]))
    for gi, ci, clause, names, implied in rejected:
        g, meta, d = groups[gi]
        c = g['cases'][ci]
        m = meta[ci]
        origin = m['origin']
        sig = {'clause': clause, 'kind': g['kind'], 'constraints': '+'.join(names) or 'none', 'usage': d['usage'],
               'reported': '+'.join(sorted(set(c['codes']), key=lambda x: int(x) if x.isdigit() else 99)) or 'none'}
        if g['kind'] == 'element':
            sig['dtype'] = d['dtype']
            if origin[0] == 'seg':
                sig['kind'] = 'segment'
        if clause == 'raise':
            sig['exc'] = m['exc']
        where = '%s segment #%d' % (origin[1], origin[3])
        if g['kind'] == 'element':
            what = ('%s %s (usage %s, %s %d..%d%s%s%s%s): value %s%s charset %s%s'
                    % (where, d['xid'], d['usage'], d['dtype'], d['min'], d['max'],
                       ', %d inline codes' % len(d['codes']) if d['codes'] else '', ', external set %s' % d['ext'] if d['hasExt'] else '',
                       ', pattern %s' % d['regex'] if d['regex'] else '',
                       ', component %d of a usage-%s composite' % (d['seq'], d['pusage']) if d['inComp'] else '',
                       show(m['value']), ' (as a composite value)' if c['isComp'] else '',
                       c['cs'], (', external set excluded' if c['excl'] else '') +
                       (', type list %s' % c['tl'] if c['tl'] else '') + (', through segment_if with qualifier %s' % c['qual'] if c['qual'] else '')))
        else:
            what = ('%s composite %s (usage %s, components %s): value %s charset %s%s'
                    % (where, d['xid'] or '#%d' % origin[4], d['usage'], '/'.join(k['usage'] for k in d['kids']),
                       'None' if m['value'] is None else [v if len(v) < 30 else v[:27] + '...' for v in m['value']], c['cs'],
                       ', external sets excluded for components %s' % [i + 1 for i, x in enumerate(c['excl']) if x] if any(c['excl']) else ''))
        desc = ('[%s] %s: is_valid -> %s, reported codes %s%s; the definition finds broken constraints {%s} implying {%s} [%s]'
                % (clause, what, c['res'] if c['res'] != 'exc' else 'raised ' + m['exc'], list(c['codes']),
                   '', ', '.join(names), ', '.join(implied), origin_label))
        replay = {'kind': origin[0], 'map': origin[1], 'loads': plan[:origin[2] + 1], 'origin': list(origin),
                  'value': None if m['value'] is None else ([vlib.codes(x) for x in m['value']] if isinstance(m['value'], list) else vlib.codes(m['value'])),
                  'isComp': bool(c.get('isComp')), 'cs': c['cs'], 'tl': c.get('tl', []), 'qual': c.get('qual', ''),
                  'observed': {'res': c['res'], 'codes': list(c['codes']), 'exc': m['exc']},
                  'broken': names, 'implied': implied, 'clause': clause}
        if world is not None:
            replay['classes'] = world.rev[(origin[1], origin[3], origin[4])]
        chk.violation(sig, desc, replay)


# ------------------------------------------------------------------ main parts
def table(chk, tier):
    tabs = defs.Tables(MAPDIR)
    files = defs.map_files(vlib.REPO)
    plan = exclusion_plan(tabs)
    info, esigs, csigs = survey(files, tabs)
    want_e = want_c = None
    if tier == 'quick':
        rnd = random.Random(vlib.seed() + 150)
        want_e = select(esigs, 0.15, rnd, stratum)
        want_c = select(csigs, 0.15, rnd, lambda s: (s[0], len(s) - 1, tuple(k[0] for k in s[1:])))
    rec = record_all(chk, tier, files, tabs, plan, want_e, want_c)
    groups = build_groups(rec, tabs)
    rejected, stat, nrej = validate(chk, groups, 'T_ElemValid')
    report(chk, groups, rejected, plan, 'recorded table')
    chk.add_traces(rec['ncalls'])
    chk.distinct_count += stat['cases']
    chk.extra['table'] = {
        'maps_in_index': len(files), 'maps_loaded': len(rec['loaded']), 'maps_not_loadable_skipped': rec['failed'],
        'exclusion_settings': plan, 'nodes_run': rec['nodes'], 'nodes_skipped': rec['skipped'],
        'element_signatures_in_maps': len(esigs), 'composite_signatures_in_maps': len(csigs),
        'element_signatures_run': len(esigs) if want_e is None else len(want_e),
        'composite_signatures_run': len(csigs) if want_c is None else len(want_c),
        'calls_of_is_valid': rec['ncalls'], 'distinct_records_validated_by_tlc': stat['cases'],
        'records_no_constraint_broken': stat['none'], 'records_one_constraint_broken': stat['one'],
        'records_several_constraints_broken': stat['many'], 'rejected_by_spec': nrej}
    for g, meta, d in groups:
        for c, m in zip(g['cases'], meta):
            if g['kind'] == 'element' and c['codes'] and not c['absent'] and len(c['s']) < 20 and len(chk.samples) < 3:
                chk.sample({'recorded_case': {'map': m['origin'][1], 'element': d['xid'], 'definition': [d['usage'], d['dtype'], d['min'], d['max']],
                                              'value': c['s'], 'charset': c['cs'], 'result': c['res'], 'codes': c['codes']}})
                break
    return groups, stat


# ------------------------------------------------------------------ spec -> code : generated cases on real nodes
GEN_CFG = ('SPECIFICATION Spec\nCONSTANT DoEmit = TRUE\nINVARIANT Sanity\nINVARIANT ImplAdmissibleElem\nINVARIANT ImplAdmissibleComp\n'
           'INVARIANT ImplExactOnSingle\nINVARIANT ImplComplete\nINVARIANT DefLaws\nINVARIANT EmitDef\nINVARIANT EmitCompDef\nINVARIANT Emit\n')


class World(object):
    """the generated definitions written as a pyx12 map world, loaded by the real loader and read back by c15_defs"""
    def __init__(self, dirpath, eclasses, cclasses):
        self.dir = dirpath
        self.info = synth.write_world(dirpath, eclasses, cclasses)
        self.tabs = defs.Tables(dirpath)
        self.excl_all = ','.join(self.info['sets'])
        self.index = {}        # (file, segment xid, seq) -> (segment index, child index, kind, definition)
        self.segs = {}
        for f in self.info['maps']:
            segs, icvn = defs.read_map(os.path.join(dirpath, f), self.tabs)
            self.segs[f] = segs
            for si, s in enumerate(segs):
                for ci, (kind, d, xid) in enumerate(s['children']):
                    self.index[(f, s['seg'], ci + 1)] = (si, ci, kind, d)
        self.loaded = {}       # (file, excluded?) -> (map, param)
        self.rev = {}          # (file, segment index, child index) -> the class it was written from
        for c in eclasses:
            f, segx, seq = self.info['eplace'][synth.ekey(c)]
            self.rev[(f,) + self.index[(f, segx, seq)][:2]] = ([c], [])
        for c in cclasses:
            f, segx, seq = self.info['cplace'][synth.ckey(c)]
            self.rev[(f,) + self.index[(f, segx, seq)][:2]] = ([], [c])

    def node(self, f, ex, si, ci):
        key = (f, bool(ex))
        if key not in self.loaded:
            if (f, False) not in self.loaded:
                self.loaded[(f, False)] = runner.load(f, None, map_path=self.dir)
            if ex:
                self.loaded[(f, True)] = runner.load(f, self.excl_all or None, map_path=self.dir)
        m, param = self.loaded[key]
        s = self.segs[f][si]
        return runner.pair_children(f, runner.locate(m, s['ipath'], s['seg']), s)[ci], param


def check_class(c, d, kind):
    """the definition read back from the written XML must be the class TLC emitted"""
    if kind == 'e':
        want = (c['u'], c['t'], c['mn'], c['mx'], list(c['codes']), c['ck'] in ('ext', 'both'), c['rk'] != 'none', c['iv'])
        got = (d['usage'], d['dtype'], d['min'], d['max'], list(d['codes']), d['hasExt'], d['hasRx'], d['icvn'])
    else:
        want = (c['u'], [(k['u'], k['t'], k['mn'], k['mx'], list(k['codes'])) for k in c['kids']])
        got = (d['usage'], [(k['usage'], k['dtype'], k['min'], k['max'], list(k['codes'])) for k in d['kids']])
    if want != got:
        raise vlib.MachineryError('generated definition was not written / read back faithfully: %r vs %r' % (want, got))


def gen_element(world, c, sigs, rec):
    f, segx, seq = world.info['eplace'][(c['u'], c['t'], c['mn'], c['mx'], c['ck'], c['rk'], c['iv'])]
    si, ci, kind, d = world.index[(f, segx, seq)]
    node, param = world.node(f, c['ex'], si, ci)
    param.set('charset', c['cs'])
    if c['ab'] == 1:
        data, v, is_comp = None, None, False
    elif c['ab'] == 2:
        data, v, is_comp = runner.composite_data(['A', 'B']), 'A:B', True
    else:
        data, v, is_comp = runner.element_data(c['s']), c['s'], False
        if v != '':
            ext, rx = runner.fact_of(d, runner.members_of(world.tabs, d), v)
            if (d['hasExt'] and ext != c['ext']) or (d['hasRx'] and rx != c['rx']):
                raise vlib.MachineryError('generated case: membership / pattern fact differs from the spec for %r in %s' % (v, d['xid']))
    out = runner.observe(node, data, tl=c['tl'] or None)
    k = sigs(('e', f, si, ci), d)
    excl = bool(c['ex']) and d['hasExt']
    if excl != bool(c['ex']):
        raise vlib.MachineryError('generated case excludes a set the definition does not reference')
    runner.Recorder.put(rec['erecs'], (k, v, is_comp, c['cs'], excl, tuple(c['tl']), ''), out[:3],
                        ('gen', f, 1 if c['ex'] else 0, si, ci, -1, 'E'))
    return out


def gen_composite(world, c, sigs, rec):
    f, segx, seq = world.info['cplace'][(c['u'],) + tuple(c['ku'])]
    si, ci, kind, d = world.index[(f, segx, seq)]
    node, param = world.node(f, False, si, ci)
    param.set('charset', c['cs'])
    vals = None if c['ab'] == 1 else list(c['l'])
    out = runner.observe(node, runner.composite_data(vals), with_comp=True)
    k = sigs(('c', f, si, ci), d)
    runner.Recorder.put(rec['crecs'], (k, None if vals is None else tuple(vals), c['cs'], tuple(False for _ in d['kids'])), out[:3] + (out[4],),
                        ('gen', f, 0, si, ci))
    return out


def admissible(c, out):
    res, codes, exc = out[:3]
    return res in ('true', 'false') and (res == 'true') == (not codes) and sorted(set(codes)) in [sorted(x) for x in c['ok']]


def generate_and_replay(chk, tier):
    res = tlc_must_pass(run_tlc('ElemValidGen', GEN_CFG, workers=4, timeout=1500, heap='4g'), 'ElemValidGen')
    chk.add_tlc(res, 'ElemValidGen (definition classes x value classes, Impl admissible for Def)')
    cases = res.payloads.get('CASE', [])
    eclasses = res.payloads.get('DEF', [])
    cclasses = res.payloads.get('CDEF', [])
    if not cases or len(cases) != res.distinct - 1 - len(eclasses) - len(cclasses):
        raise vlib.MachineryError('ElemValidGen: %d states, %d + %d definition classes, but %d emitted cases'
                                  % (res.distinct, len(eclasses), len(cclasses), len(cases)))
    eclasses.sort(key=lambda c: (c['iv'], c['t'], c['mn'], c['mx'], c['u'], c['ck'], c['rk']))
    cclasses.sort(key=lambda c: (c['u'], [k['u'] for k in c['kids']]))
    d = vlib.scratch('c15syn')
    try:
        world = World(d, eclasses, cclasses)
        for c in eclasses:
            f, segx, seq = world.info['eplace'][synth.ekey(c)]
            check_class(c, world.index[(f, segx, seq)][3], 'e')
        for c in cclasses:
            f, segx, seq = world.info['cplace'][synth.ckey(c)]
            check_class(c, world.index[(f, segx, seq)][3], 'c')
        sigdef, sigid = [], {}

        def sigs(key, dd):
            if key not in sigid:
                sigid[key] = len(sigdef)
                sigdef.append(dd)
            return sigid[key]
        rec = {'erecs': {}, 'crecs': {}, 'sigdef': sigdef}
        nbad = 0
        for c in cases:
            out = gen_element(world, c, sigs, rec) if c['k'] == 'e' else gen_composite(world, c, sigs, rec)
            if not admissible(c, out):
                nbad += 1
        groups = build_groups(rec, world.tabs)
        rejected, stat, nrej = validate(chk, groups, 'T_ElemValid generated', cap=2)
        if stat['cases'] != len(cases):
            raise vlib.MachineryError('generated cases: %d replayed, %d validated' % (len(cases), stat['cases']))
        # component_missed (a component's own error hidden by another component's) is judged by T_ElemValid only: the generator's
        # admissible report sets are per composite, not per component
        only_tv = any(r[2] in ('component_missed', 'incomplete') for r in rejected)
        if nrej < nbad or (nrej > nbad and not only_tv):
            raise vlib.MachineryError('generated cases: %d replays leave the admissible reports ElemValidGen emitted but T_ElemValid rejects %d: '
                                      'the two uses of the definition disagree' % (nbad, nrej))
        report(chk, groups, rejected, [None, world.excl_all], 'generated case', world=world, classes=(eclasses, cclasses))
    finally:
        shutil.rmtree(d, ignore_errors=True)
    chk.add_traces(len(cases))
    chk.distinct_count += len(cases)
    chk.extra['generated'] = {'element_definition_classes': len(eclasses), 'composite_definition_classes': len(cclasses),
                              'cases': len(cases), 'cases_no_constraint_broken': sum(1 for c in cases if not c['br']),
                              'cases_one_constraint_broken': sum(1 for c in cases if len(c['br']) == 1),
                              'cases_several_constraints_broken': sum(1 for c in cases if len(c['br']) > 1),
                              'replays_outside_the_admissible_reports': nbad}
    for c in [x for x in cases if x['k'] == 'e' and len(x['br']) == 1 and x['s']][:2]:
        chk.sample({'generated_case': {'definition': [c['u'], c['t'], c['mn'], c['mx'], c['ck'], c['rk']], 'value': c['s'], 'charset': c['cs'],
                                       'broken': c['br'], 'admissible_reports': c['ok']}})


# ------------------------------------------------------------------ binding self-test
def selftest(chk, groups):
    """corrupt logged fields of records the specification accepts: T_ElemValid must reject every corruption with the
    expected clause (the untouched originals are validated alongside; a pair whose original is rejected is not used)"""
    import copy
    kinds = collections.OrderedDict([('false_alarm', []), ('missed', []), ('wrong_code', []), ('flag', []), ('raise', [])])
    for g, meta, d in groups:
        if g['kind'] != 'element':
            continue
        for c in g['cases']:
            if c['absent'] or c['isComp'] or c['qual'] or c['tl'] or c['res'] == 'exc':
                continue
            x = copy.deepcopy(c)
            if c['res'] == 'true' and not c['codes'] and len(kinds['false_alarm']) < 3:
                x['res'], x['codes'] = 'false', ['7']
                kinds['false_alarm'].append((g, c, x))
            elif c['res'] == 'false' and c['codes'] and len(kinds['missed']) < 3:
                x['res'], x['codes'] = 'true', []
                kinds['missed'].append((g, c, x))
            elif c['res'] == 'false' and c['codes'] == ['5'] and len(kinds['wrong_code']) < 3:
                x['codes'] = ['4']
                kinds['wrong_code'].append((g, c, x))
            elif c['res'] == 'false' and c['codes'] and len(kinds['flag']) < 3:
                x['res'] = 'true'
                kinds['flag'].append((g, c, x))
            elif c['res'] == 'true' and c['n'] > 0 and len(kinds['raise']) < 3:
                x['res'] = 'exc'
                kinds['raise'].append((g, c, x))
        if all(len(v) >= 3 for v in kinds.values()):
            break
    trial, index = [], []
    for w, lst in kinds.items():
        for g, c, x in lst:
            trial.append(({'kind': 'element', 'd': g['d'], 'cases': [c, x]}, [None, None], None))
            index.append(w)
    if not trial:
        return
    sub = Check(PID, 'quick')
    rejected, stat, nrej = validate(sub, trial, 'selftest', nb=1, cap=100)
    got = {(gi, ci): clause for gi, ci, clause, names, implied in rejected}
    used, ok = collections.Counter(), True
    for i, w in enumerate(index):
        if (i, 0) in got:
            continue                      # the original itself is rejected (a defect of the tree under test): pair not usable
        used[w] += 1
        if got.get((i, 1)) != w:
            ok = False
    chk.tlc_runs.extend(sub.tlc_runs)
    chk.extra['binding_selftest'] = {'corruptions_tried': dict(used), 'ok': ok}
    if not ok:
        raise vlib.MachineryError('binding self-test failed: a corrupted record was not rejected as expected (%s)' % (got,))


# ------------------------------------------------------------------ replay of a stored violation
def do_replay(path):
    obj = json.load(open(path))['replay']
    origin = obj['origin']
    kind = origin[0]
    d = None
    tmp = None
    try:
        if kind == 'gen':
            tmp = vlib.scratch('c15rep')
            world = World(tmp, obj['classes'][0], obj['classes'][1])
            fname = origin[1]
            (loc,) = [k for k in world.rev if k[0] == fname]        # the one definition of the replay, wherever it was placed now
            origin = origin[:3] + [loc[1], loc[2]] + origin[5:]
            tabs = world.tabs
            segs = world.segs[fname]
            loads = [runner.load(fname, e, map_path=tmp) for e in obj['loads']]
        else:
            fname = origin[1]
            tabs = defs.Tables(MAPDIR)
            segs, icvn = defs.read_map(os.path.join(MAPDIR, fname), tabs)
            loads = [runner.load(fname, e) for e in obj['loads']]       # the same sequence of loads in one process
        m, param = loads[-1]
        param.set('charset', obj['cs'])
        excl_set = set((obj['loads'][-1] or '').split(','))
        s = segs[origin[3]]
        node = runner.locate(m, s['ipath'], s['seg'])
        kids = runner.pair_children(fname, node, s)
        val = obj['value']
        text = lambda cps: ''.join(chr(c) for c in cps)
        if kind == 'seg':
            j, qi, filled = origin[4], origin[5], origin[6]
            dd = s['children'][j][1]
            v = text(val)
            seg = pyx12.segment.Segment(runner.seg_text(s['seg'], s['children'], tabs, filled, {qi: obj['qual'], j: v}), '~', '*', ':')
            out = runner.observe(node, seg, only_refdes=s['children'][j][2])
            shown = 'segment_if.is_valid(%s)' % seg.format()
            case = dict(value_rec(dd, tabs, v), absent=False, isComp=False, cs=obj['cs'], excl=False, tl=[], qual=obj['qual'])
            grp = {'kind': 'element', 'd': defs.tla_elem(dd)}
        elif kind == 'comp' or (kind == 'gen' and len(origin) == 5):
            dd = s['children'][origin[4]][1]
            vals = None if val is None else [text(x) for x in val]
            out = runner.observe(kids[origin[4]], runner.composite_data(vals))
            shown = 'composite_if.is_valid(%r) on %s' % (vals, dd['xid'] or 'child %d' % origin[4])
            comps = [value_rec(dd['kids'][i], tabs, v) if i < len(dd['kids']) else {'s': v, 'cp': vlib.codes(v), 'n': len(v), 'ext': False, 'rx': False}
                     for i, v in enumerate(vals or [])]
            case = {'absent': vals is None, 'comps': comps, 'cs': obj['cs'],
                    'excl': [bool(k['hasExt'] and k['ext'] in excl_set) for k in dd['kids']]}
            grp = {'kind': 'composite', 'd': {'usage': dd['usage'], 'kids': [defs.tla_elem(x) for x in dd['kids']]}}
        else:
            ci, ki, form = origin[4], origin[5], origin[6]
            dd = s['children'][ci][1] if ki < 0 else s['children'][ci][1]['kids'][ki]
            nd = kids[ci] if ki < 0 else kids[ci].children[ki]
            if obj['isComp']:
                data, v = runner.composite_data(['A', 'B']), 'A:B'
            else:
                v = None if val is None else text(val)
                data = runner.element_data(v, form)
            out = runner.observe(nd, data, tl=obj['tl'] or None)
            shown = 'element_if.is_valid(%s%s) on %s' % (show(v), ', type_list=%s' % obj['tl'] if obj['tl'] else '', dd['xid'])
            if v is None or obj['isComp']:
                case = {'absent': v is None, 'isComp': obj['isComp'], 's': v or '', 'cp': [], 'n': 0, 'ext': False, 'rx': False}
            else:
                case = dict(value_rec(dd, tabs, v), absent=False, isComp=False)
            case.update({'cs': obj['cs'], 'excl': bool(dd['hasExt'] and dd['ext'] in excl_set), 'tl': obj['tl'], 'qual': ''})
            grp = {'kind': 'element', 'd': defs.tla_elem(dd)}
        case.update({'res': out[0], 'codes': list(out[1])})
        grp['cases'] = [case]
        sub = Check(PID, 'quick')
        rejected, stat, nrej = validate(sub, [(grp, [None], None)], 'replay', nb=1)
    finally:
        if tmp:
            shutil.rmtree(tmp, ignore_errors=True)
    print('%s, map %s (loads in this process: %s), charset %s' % (shown, fname, obj['loads'], obj['cs']))
    print('  observed now : result %s, codes %s%s' % (out[0], list(out[1]), ' (%s)' % out[2] if out[2] else ''))
    print('  recorded     : result %s, codes %s; broken constraints %s implying %s; clause %s'
          % (obj['observed']['res'], obj['observed']['codes'], obj['broken'], obj['implied'], obj['clause']))
    if rejected:
        gi, ci, clause, names, implied = rejected[0]
        print('  specification: REJECTS this execution at clause %s (broken constraints %s imply %s)' % (clause, names, implied))
        return 1
    print('  specification: accepts this execution')
    return 0


# ------------------------------------------------------------------ main
def run(tier, replay=None):
    if replay:
        return do_replay(replay)
    chk = Check(PID, tier)
    chk.rule = ('one case = one call of is_valid of a real element_if / composite_if / segment_if node with one value under one setting; '
                'recorded cases are de-duplicated by (definition signature, value, charset, exclusion, type list / qualifier, outcome); '
                'cases where no constraint is broken are counted separately (records_no_constraint_broken / cases_no_constraint_broken)')
    generate_and_replay(chk, tier)
    groups, stat = table(chk, tier)
    selftest(chk, groups)
    chk.exhaustive = (tier == 'thorough')
    chk.assumptions = ASSUMPTIONS
    return chk.finish()


ASSUMPTIONS = [
    'error-code numbers are read off pyx12 (1 missing, 10 not used, 4 / 5 length, 6 control character / trailing blanks / character set / number shape / '
    'composite value in a simple element, 7 code list and pattern, 8 date, 9 time; composite: 2 required but empty, 5 not used but present, 3 too many '
    'components): the property names the constraints, not the numbers',
    'a value breaking several constraints: result false, at least one error, every reported code implied by a broken constraint (no precedence is claimed); '
    'one broken constraint: exactly its code; none: no error and result true',
    'control character = code point < 32 or 127; needless trailing blanks = text type (AN, ID), last character blank and the value without trailing blanks '
    'still has the minimum length; lengths of R / N values do not count minus signs and points; pattern = Python re search (harness boolean); '
    'external membership = our own reading of codes.xml; an excluded external set admits every value',
    'an empty component is judged only through composite_if.is_valid (the composite decides whether components are due); direct calls of a component '
    'node use non-empty values only',
    'qualifier-selected formats: DTP03 / element 1251 after an element 1250, through segment_if.is_valid with every date/time qualifier the map allows and '
    'the other elements valid; the selected format is the one named by the qualifier value; the values tried there (both tiers) include date ranges '
    'whose halves have 6, 8 or 12 digits or are empty in all combinations, and D8 / D6 / DT / TM values just below, at and just above every length '
    'the format admits',
    'not covered: maps that do not load (841.4010.XXXC), nodes whose data element is not defined in dataele.xml (C16), composites with trailing empty '
    'surplus components, too many sub-elements at segment level (segment_if), regex semantics (Python re is trusted)',
    'exhaustive = complete over all element / composite nodes of the loadable shipped maps x the stated value catalogue (thorough tier); the catalogue '
    'itself is a finite boundary-spanning selection, not all strings',
]


if __name__ == '__main__':
    vlib.main_wrapper(run)
