"""C16 - independent export of the shipped map configuration into JSON constants for TLC.

Reads <repo>/pyx12/map/{maps.xml, dataele.xml, codes.xml, <map files>} with xml.etree only - nothing of pyx12 is
imported here, so the exported tree does not depend on the loader that is being checked.  The export is a plain
projection of the XML (texts stay texts: positions, limits, usages, sequence numbers are interpreted by the
specification, not here).  No JSON null is produced: an absent text is "" and the companion flag says so.

  export_index(map_dir)  -> {'found','entries':[{icvn,vriic,fic,tspc,has_tspc,file,abbr}], 'files':[...]}
  export_dataele(map_dir)-> {'found','eles':[{num,type,min,max}]}
  export_codes(map_dir)  -> {'found','sets':[{id,data_ele,has_data_ele,n}]}
  export_map(map_dir, f) -> {'file','found','parsed','err','root_tag','xid','nodes':[node]}
     node (1-based index = position in 'nodes', document pre-order, node 1 = the transaction):
       kind    'map' | 'loop' | 'segment' | 'element' | 'composite' | 'component'
       xid, parent (0 for the map), kids (indexes, XML order, only loop/segment resp. element/composite children)
       usage, pos, repeat, max_use, seq, data_ele, refdes, type : the texts of the map (attribute or child element)
       has    : names of the fields that are present at all
       ext    : name of the external code set ("" if none), codes : inline codes in XML order, has_codes
       syntax : syntax note texts (segments)
       style  : 'attr' / 'child' / 'mixed' / '' - where the fields of this node were written
"""
import json
import os
import sys
import xml.etree.ElementTree as ET

FIELDS = ('usage', 'pos', 'repeat', 'max_use', 'seq', 'data_ele', 'refdes', 'type', 'name')
STRUCT = {'transaction': ('loop', 'segment'), 'loop': ('loop', 'segment'), 'segment': ('element', 'composite'),
          'composite': ('element',), 'element': ()}


def _text(x):
    return '' if x is None else x


def _field(el, name, styles):
    """value of a map field: XML attribute, else child element text (both schema styles); '' when absent"""
    a = el.get(name)
    if a is not None and a != '':
        styles.add('attr')
        return a, True
    c = el.find(name)
    if c is not None:
        styles.add('child')
        return _text(c.text), True
    if a is not None:
        styles.add('attr')
        return a, True
    return '', False


def export_map(map_dir, fname):
    path = os.path.join(map_dir, fname)
    out = {'file': fname, 'found': os.path.isfile(path), 'parsed': False, 'err': '', 'root_tag': '', 'xid': '', 'nodes': []}
    if not out['found']:
        return out
    try:
        root = ET.parse(path).getroot()
    except Exception as e:                      # not well formed
        out['err'] = '%s: %s' % (type(e).__name__, e)
        return out
    out['parsed'] = True
    out['root_tag'] = root.tag
    out['xid'] = _text(root.get('xid'))
    nodes = out['nodes']

    def add(el, kind, parent):
        styles = set()
        n = {'kind': kind, 'xid': _text(el.get('xid')), 'parent': parent, 'kids': [], 'has': [],
             'ext': '', 'codes': [], 'has_codes': False, 'syntax': [], 'ncodes': 0}
        for f in FIELDS:
            v, present = _field(el, f, styles)
            if f == 'name':
                continue
            n[f] = v.strip() if f != 'refdes' else v
            if f in ('pos', 'seq', 'repeat', 'max_use', 'usage', 'data_ele'):
                n[f] = v                          # raw text: the specification judges its form
            if present:
                n['has'].append(f)
        n['style'] = 'mixed' if len(styles) > 1 else (list(styles)[0] if styles else '')
        if kind == 'segment':
            n['syntax'] = [_text(s.text) for s in el.findall('syntax')]
        if kind in ('element', 'component'):
            vc = el.find('valid_codes')
            if vc is not None:
                n['has_codes'] = True
                n['ext'] = _text(vc.get('external'))
                n['codes'] = [_text(c.text) for c in vc.findall('code')]
            n['ncodes'] = len(n['codes'])
        nodes.append(n)
        me = len(nodes)
        tag = 'transaction' if kind == 'map' else ('element' if kind == 'component' else kind)
        for ch in list(el):
            if ch.tag in STRUCT[tag]:
                ck = ch.tag
                if tag == 'composite':
                    ck = 'component'
                n['kids'].append(add(ch, ck, me))
        return me

    add(root, 'map', 0)
    return out


def export_index(map_dir):
    path = os.path.join(map_dir, 'maps.xml')
    out = {'found': os.path.isfile(path), 'entries': [], 'files': []}
    if not out['found']:
        return out
    root = ET.parse(path).getroot()
    for v in root.iter('version'):
        for m in v.findall('map'):
            out['entries'].append({'icvn': _text(v.get('icvn')), 'vriic': _text(m.get('vriic')), 'fic': _text(m.get('fic')),
                                   'tspc': _text(m.get('tspc')), 'has_tspc': m.get('tspc') is not None,
                                   'file': _text(m.text), 'abbr': _text(m.get('abbr'))})
    for e in out['entries']:
        if e['file'] not in out['files']:
            out['files'].append(e['file'])
    return out


def export_dataele(map_dir):
    path = os.path.join(map_dir, 'dataele.xml')
    out = {'found': os.path.isfile(path), 'eles': []}
    if not out['found']:
        return out
    for e in ET.parse(path).getroot().iter('data_ele'):
        out['eles'].append({'num': _text(e.get('ele_num')), 'type': _text(e.get('data_type')),
                            'min': _text(e.get('min_len')), 'max': _text(e.get('max_len'))})
    return out


def export_codes(map_dir):
    path = os.path.join(map_dir, 'codes.xml')
    out = {'found': os.path.isfile(path), 'sets': []}
    if not out['found']:
        return out
    for c in ET.parse(path).getroot().iter('codeset'):
        de = c.find('data_ele')
        out['sets'].append({'id': _text(c.findtext('id')), 'data_ele': _text(de.text) if de is not None else '',
                            'has_data_ele': de is not None, 'n': len(c.findall('version/code'))})
    return out


def other_map_files(map_dir, indexed):
    """shipped map files the index does not name (same XML vocabulary, root <transaction>)"""
    res = []
    for f in sorted(os.listdir(map_dir)):
        if not f.endswith('.xml') or f in indexed:
            continue
        try:
            for _ev, el in ET.iterparse(os.path.join(map_dir, f), events=('start',)):
                if el.tag == 'transaction':
                    res.append(f)
                break
        except Exception:
            continue
    return res


if __name__ == '__main__':
    d = sys.argv[1] if len(sys.argv) > 1 else '/repo/pyx12/map'
    idx = export_index(d)
    print(json.dumps({'entries': len(idx['entries']), 'files': idx['files'], 'others': other_map_files(d, idx['files']),
                      'dataele': len(export_dataele(d)['eles']), 'codesets': [s['id'] for s in export_codes(d)['sets']]}, indent=1))
    for f in idx['files']:
        m = export_map(d, f)
        print(f, m['found'], m['parsed'], len(m['nodes']))
