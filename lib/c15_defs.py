"""C15 helper: the definitions of the shipped maps read by an XML reading of our own.

Nothing in this module imports pyx12.  It reads maps.xml, every map file, dataele.xml and codes.xml with
xml.etree and produces, for every element / composite of every segment, the *definition signature* that the
TLA+ definition (spec/ElemValid.tla) takes as its argument:

  element   [usage, dtype, min, max, codes (inline list), ext (id of the external set or ''), hasExt, regex, hasRx,
             inComp, seq, pusage (usage of the enclosing composite or ''), icvn (ISA12 of the map)]
  composite [usage, kids (element definitions in component order)]

The walk mirrors only the *document structure* (loops in document order, then segments in document order,
grouped by <pos>; children of a segment by <seq>) so that every definition can be paired with the node object
the real loader built; the pairing is verified by the xid of every node.
"""
import os
import xml.etree.ElementTree as ET


def _g(e, key):
    """attribute or child text (the map schema allows both)"""
    v = e.get(key)
    if v:
        return v
    return e.findtext(key)


def map_dir(repo):
    return os.path.join(repo, 'pyx12', 'map')


def map_files(repo):
    t = ET.parse(os.path.join(map_dir(repo), 'maps.xml'))
    names = []
    for el in t.iter('map'):
        if el.text and el.text.strip() not in names:
            names.append(el.text.strip())
    return names


def read_dataele(path):
    de = {}
    for e in ET.parse(path).iter('data_ele'):
        de[e.get('ele_num')] = (e.get('data_type'), int(e.get('min_len')), int(e.get('max_len')))
    return de


def read_codes(path):
    cs = {}
    for c in ET.parse(path).iter('codeset'):
        cs[c.findtext('id')] = set(x.text for x in c.iterfind('version/code') if x.text is not None)
    return cs


class Tables(object):
    def __init__(self, mdir):
        self.dir = mdir
        self.dataele = read_dataele(os.path.join(mdir, 'dataele.xml'))
        self.codesets = read_codes(os.path.join(mdir, 'codes.xml'))


def element_def(e, tabs, icvn, parent):
    """definition record of one <element>; None when its data element is not defined (dangling reference)"""
    num = _g(e, 'data_ele')
    if num not in tabs.dataele:
        return None
    dtype, mn, mx = tabs.dataele[num]
    v = e.find('valid_codes')
    codes, ext = [], None
    if v is not None:
        ext = v.get('external')
        codes = [c.text for c in v.findall('code') if c.text is not None]
    regex = e.findtext('regex') or ''
    in_comp = parent is not None and parent.tag == 'composite'
    return {'xid': e.get('xid') or '', 'num': num, 'usage': _g(e, 'usage') or '', 'dtype': dtype or '', 'min': mn, 'max': mx,
            'codes': codes, 'ext': ext or '', 'hasExt': ext is not None, 'regex': regex, 'hasRx': regex != '',
            'inComp': in_comp, 'seq': int(_g(e, 'seq')), 'pusage': (_g(parent, 'usage') or '') if in_comp else '',
            'icvn': icvn or ''}


def composite_def(c, tabs, icvn):
    kids = [element_def(e, tabs, icvn, c) for e in c.findall('element')]
    return {'xid': c.get('xid') or '', 'usage': _g(c, 'usage') or '', 'seq': int(_g(c, 'seq')),
            'kids': kids, 'complete': all(k is not None for k in kids)}


def segment_children(seg):
    """[(seq, tag, xml element)] ordered by seq (a later element with the same seq replaces an earlier one,
    composites after elements - document structure only)"""
    m = {}
    for e in seg.findall('element'):
        m[int(_g(e, 'seq'))] = e
    for e in seg.findall('composite'):
        m[int(_g(e, 'seq'))] = e
    return [(s, m[s].tag, m[s]) for s in sorted(m)]


def map_icvn(root):
    """first inline code of ISA12 of /ISA_LOOP/ISA"""
    for lp in root.findall('loop'):
        if lp.get('xid') == 'ISA_LOOP':
            for seg in lp.findall('segment'):
                if seg.get('xid') == 'ISA':
                    ch = segment_children(seg)
                    if len(ch) >= 12:
                        v = ch[11][2].find('valid_codes')
                        if v is not None:
                            cs = [c.text for c in v.findall('code')]
                            if cs:
                                return cs[0]
    return None


def pos_groups(container):
    """{pos: [xml loop / segment elements]} - loops in document order first, then segments"""
    pm = {}
    for e in container.findall('loop'):
        pm.setdefault(int(_g(e, 'pos')), []).append(e)
    for e in container.findall('segment'):
        pm.setdefault(int(_g(e, 'pos')), []).append(e)
    return pm


def walk_segments(root):
    """yields (index path, xml segment element); the index path ((pos, k), ...) addresses the same node in the
    loaded tree: container.pos_map[pos][k]"""
    def rec(container, prefix):
        pm = pos_groups(container)
        for pos in sorted(pm):
            for k, e in enumerate(pm[pos]):
                here = prefix + ((pos, k),)
                if e.tag == 'segment':
                    yield here, e
                else:
                    for x in rec(e, here):
                        yield x
    return rec(root, ())


def read_map(path, tabs):
    """[{'ipath', 'seg', 'children': [('element', def) | ('composite', def)]}], icvn"""
    root = ET.parse(path).getroot()
    icvn = map_icvn(root)
    out = []
    for ipath, seg in walk_segments(root):
        kids = []
        for seq, tag, e in segment_children(seg):
            if tag == 'element':
                kids.append(('element', element_def(e, tabs, icvn, seg), e.get('xid') or ''))
            else:
                kids.append(('composite', composite_def(e, tabs, icvn), e.get('xid') or ''))
        out.append({'ipath': ipath, 'seg': seg.get('xid'), 'children': kids})
    return out, icvn


# ------------------------------------------------------------------ signatures
ELEM_KEYS = ('usage', 'dtype', 'min', 'max', 'codes', 'ext', 'hasExt', 'regex', 'hasRx', 'inComp', 'seq', 'pusage', 'icvn')


def elem_sig(d):
    """hashable definition signature of an element (everything the definition depends on)"""
    return (d['usage'], d['dtype'], d['min'], d['max'], tuple(d['codes']), d['ext'], d['hasExt'], d['regex'],
            d['inComp'], d['seq'] == 1, d['pusage'], d['icvn'], d['num'] == '1251')


def comp_sig(d):
    return (d['usage'],) + tuple(elem_sig(k) for k in d['kids'])


def tla_elem(d):
    """the record handed to TLC"""
    return {'usage': d['usage'], 'dtype': d['dtype'], 'min': d['min'], 'max': d['max'], 'codes': list(d['codes']),
            'hasExt': d['hasExt'], 'hasRx': d['hasRx'], 'inComp': d['inComp'], 'seq': d['seq'], 'pusage': d['pusage'],
            'icvn': d['icvn']}
