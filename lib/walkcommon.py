"""Shared machinery of the map-walker family (C02, C03, C08, C09, C12):

  * export of the shipped maps (lib/mapexport.py) into a per-run cache keyed by content hash
  * TLC DocGen runs: the conformant documents of a map as sequences of map node ids
  * the concretiser: node sequence -> X12 text (delimiters, line breaks, value proposals, envelope bookkeeping)
  * the runner: pyx12.x12n_document with recorders (error tree, node matched per segment, walker calls)
"""
import hashlib
import io
import json
import logging
import os
import random
import shutil
import sys

sys.path.insert(0, os.path.dirname(os.path.abspath(__file__)))
import vlib
import mapexport

sys.path.insert(0, vlib.REPO)
logging.disable(logging.CRITICAL)

CACHE = os.path.join(vlib.WORK, 'cache')


def _sha(*parts):
    h = hashlib.sha256()
    for p in parts:
        h.update(p if isinstance(p, bytes) else str(p).encode())
    return h.hexdigest()[:20]


def _file_bytes(p):
    with open(p, 'rb') as f:
        return f.read()


def map_hash(fn):
    md = mapexport.MAPDIR
    return _sha(_file_bytes(os.path.join(md, fn)), _file_bytes(os.path.join(md, 'dataele.xml')), _file_bytes(os.path.join(md, 'codes.xml')),
                _file_bytes(os.path.join(vlib.ROOT, 'lib', 'mapexport.py')))


def export_map(fn):
    """returns (skeleton json path, full dict); cached by the content of the XML files"""
    d = os.path.join(CACHE, 'map-' + map_hash(fn))
    p = os.path.join(d, fn + '.json')
    pf = os.path.join(d, fn + '.full.json')
    if not (os.path.exists(p) and os.path.exists(pf)):
        os.makedirs(d, exist_ok=True)
        tmp = '%s.%d.tmp' % (d, os.getpid())          # written aside and moved in: several checks may fill the cache at the same time
        os.makedirs(tmp, exist_ok=True)
        try:
            mapexport.write(fn, tmp)
            os.replace(os.path.join(tmp, fn + '.full.json'), pf)
            os.replace(os.path.join(tmp, fn + '.json'), p)
        finally:
            shutil.rmtree(tmp, ignore_errors=True)
    with open(pf) as f:
        full = json.load(f)
    return p, full


def index_files():
    seen = []
    for e in mapexport.index_entries():
        if e['file'] not in seen:
            seen.append(e['file'])
    return seen


def choose_maps(tier, rnd, always=('837.4010.X098.A1.xml', '835.4010.X091.A1.xml', '835.5010.X221.A1.xml', '834.5010.X220.A1.xml', '999.5010.xml', '997.4010.xml'), extra=1, wide=False):
    """quick: the big 837P map, a fixed set of small ones and a seed-chosen one; wide=True: every small map (<= 120 nodes) as well"""
    files = [f for f in index_files() if loadable(f) and not f.startswith('x12.control')]
    if tier != 'quick':
        return files
    pick = [f for f in always if f in files]
    rest = [f for f in files if f not in pick]
    if wide:
        small = [f for f in rest if len(export_map(f)[1]['nodes']) <= 120]
        pick += small
        rest = [f for f in rest if f not in small]
    pick += rnd.sample(rest, min(extra, len(rest)))
    return pick


_LOADABLE = {}


def loadable(fn):
    """maps that the independent export cannot process or whose data elements are undefined are C16's business"""
    if fn not in _LOADABLE:
        try:
            _, full = export_map(fn)
            ok = all(e.get('dtype', 'x') != '?' for n in full['nodes'] for e in n.get('eles', []) if e['k'] == 'e') and \
                all(s['dtype'] != '?' for n in full['nodes'] for e in n.get('eles', []) if e['k'] == 'c' for s in e['subs'])
            ent = [e for e in mapexport.index_entries() if e['file'] == fn]
            ok = ok and any(e['icvn'] in ('00401', '00501') for e in ent)
            _LOADABLE[fn] = ok
        except Exception:
            _LOADABLE[fn] = False
    return _LOADABLE[fn]


# --------------------------------------------------------------------------- TLC DocGen
def _spec_hash():
    return _sha(*[_file_bytes(os.path.join(vlib.SPEC, f)) for f in ('MapWalk.tla', 'DocGen.tla', 'XmlOut.tla')])


def gen_docs(fn, cap=2, maxdepth=60, timeout=1500, mode='bfs', num=200, seed=0):
    """conformant documents of map fn as lists of node ids (TLC DocGen, one worker so that emission is not interleaved)"""
    skel, full = export_map(fn)
    key = _sha(map_hash(fn), _spec_hash(), cap, maxdepth, mode, num, seed)
    cp = os.path.join(CACHE, 'docs-%s-%s.json' % (fn, key))
    if os.path.exists(cp):
        with open(cp) as f:
            return json.load(f)
    cfg = 'SPECIFICATION GSpec\nCONSTANTS Cap = %d\n MaxDepth = %d\nINVARIANT NoErr\nINVARIANT EmitDoc\nINVARIANT XmlNote\n' % (cap, maxdepth)
    if mode == 'bfs':
        cfg += 'VIEW GView\n'
        res = vlib.run_tlc('DocGen', cfg, env={'MAP_FILE': skel}, workers=1, timeout=timeout, heap='3g', tag='docgen')
    else:
        res = vlib.run_tlc('DocGen', cfg, env={'MAP_FILE': skel}, workers=1, timeout=timeout, heap='3g', tag='docgen',
                           simulate='num=%d' % num, depth=maxdepth, tseed=seed)
    if res.error:
        raise vlib.MachineryError('DocGen %s: %s' % (fn, res.error))
    docs = []
    seen = set()
    for d in res.payloads.get('DOC', []):
        t = tuple(d)
        if t not in seen:
            seen.add(t)
            docs.append(d)
    viol = []
    vs = set()
    for v in res.payloads.get('VIOL', []):
        k = json.dumps(v, sort_keys=True)
        if k not in vs:
            vs.add(k)
            viol.append(v)
    out = {'file': fn, 'docs': docs, 'viol': viol, 'xmldiff': len(res.payloads.get('XMLDIFF', [])), 'distinct': res.distinct, 'generated': res.generated, 'depth': res.depth, 'wall': res.wall}
    os.makedirs(CACHE, exist_ok=True)
    tmp = '%s.%d.tmp' % (cp, os.getpid())          # several checks may fill the cache at the same time
    with open(tmp, 'w') as f:
        json.dump(out, f)
    os.replace(tmp, cp)
    return out


def _gen_one(args):
    try:
        return gen_docs(*args)
    except vlib.MachineryError as e:
        return {'file': args[0], 'error': str(e)[:2000]}


def gen_docs_many(files, **kw):
    args = [(f, kw.get('cap', 2), kw.get('maxdepth', 60), kw.get('timeout', 1500), kw.get('mode', 'bfs'), kw.get('num', 200), kw.get('seed', 0)) for f in files]
    res = vlib.parallel_map(_gen_one, args, procs=min(8, vlib.NCPU))
    for r in res:
        if 'error' in r:
            raise vlib.MachineryError(r['error'])
    return {r['file']: r for r in res}


# --------------------------------------------------------------------------- concretiser
TRIPLES = [('~', '*', ':'), ('+', '&', '!'), ('|', '^', '\\'), ('\n', '*', '>')]
EOLS = ['', '\n', '\r\n', '\r']


def parse_syntax(s):
    return (s[0], [int(s[i:i + 2]) for i in range(1, len(s) - 1, 2)]) if s and s[0] in 'PRCLE' else None


class Concretiser(object):
    """proposes values; whether they are admissible is what the validator under test (and the specification) decide"""

    def __init__(self, full, triple=('~', '*', ':'), eol='\n', fill_optional=True, rep='^', data_chars='', maxlen=False):
        self.m = full
        self.nodes = {n['n']: n for n in full['nodes']}
        self.st, self.et, self.ct = triple
        self.eol = eol if triple[0] not in eol else ''
        self.fill = fill_optional
        self.maxlen = maxlen                  # propose values of the declared MAXIMUM length (boundary of the length and format checks)
        self.rep = [c for c in (rep, '^', '%', '#', '=') if c not in triple][0]
        self.ext = mapexport.extcodes()
        self.data_chars = data_chars          # extra characters put into free-text AN values (markup, blanks ...)
        ent = [e for e in mapexport.index_entries() if e['file'] == full['file'] and e['icvn'] in ('00401', '00501')]
        self.entry = ent[0] if ent else None
        # the ISA segment is validated against the control map of the interchange version, not the transaction map
        self.ctl_isa = None
        if self.entry:
            try:
                _, ctl = export_map('x12.control.%s.xml' % self.entry['icvn'])
                self.ctl_isa = [n for n in ctl['nodes'] if n['kind'] == 'seg' and n['id'] == 'ISA'][0]
            except Exception:
                self.ctl_isa = None
        self.reset()

    def reset(self):
        self.isa_n = getattr(self, 'isa_start', 0)
        self.gs_n = 0
        self.st_n = 0
        self.isa_id = self.gs_id = self.st_id = ''
        self.gs_in_isa = 0
        self.st_in_gs = 0
        self.segs_in_st = 0
        self.hl = 0
        self.hl_of_loop = {}
        self.lx = 0

    # ---- value proposals
    def val_for(self, e):
        t, mn, mx = e['dtype'], e['mn'], e['mx']
        if e['codes']:
            for c in e['codes']:
                if c and mn <= len(c) <= mx and c == c.strip():
                    return c
            return e['codes'][0]
        if e['ext'] and e['ext'] in self.ext:
            for c in self.ext[e['ext']]:
                if c and mn <= len(c) <= mx and c == c.strip():
                    return c
        if e.get('regex'):
            import re as _re
            m = _re.match(r'^\[0-9\]\{(\d+)\}$', e['regex'])
            if m and mn <= int(m.group(1)) <= mx:
                return '1' * int(m.group(1))          # the only pattern the shipped maps use: a fixed number of digits
        if self.maxlen and not e.get('regex'):
            if t in ('AN', 'ID'):
                return 'A' * max(mn, min(mx, 60))
            if t == 'DT':
                return '20040101' if mx >= 8 else '040101'
            if t == 'TM':
                return '12003075' if mx >= 8 else ('120030' if mx >= 6 else '1200')
            if t == 'R':
                # alternately the longest value and the shortest signed fraction (minus sign and decimal point do not count towards the length)
                self._r_alt = getattr(self, '_r_alt', 0) + 1
                if self._r_alt % 2 == 0 and mn <= 1:
                    return '-.5'
                d = max(mn, min(mx, 15))
                return '1' * (d - 1) + '.5' if d >= 2 else '1'
            if t[0] == 'N' and len(t) > 1 and t[1:].isdigit():
                # N0..N9: implied decimal; a minus sign does not count towards the length either
                self._n_alt = getattr(self, '_n_alt', 0) + 1
                if self._n_alt % 2 == 0:
                    return '-' + '1' * max(mn, min(mx, 15))
            if t[0] == 'N':
                return '1' * max(mn, min(mx, 15))
        if t == 'AN':
            base = 'A' * max(mn, 1)
            if self.data_chars and mx >= mn + len(self.data_chars) + 1 and not e.get('regex'):
                base = ('A' + self.data_chars + 'Z').ljust(mn, 'Q')
            return base[:mx]
        if t == 'ID':
            return ('A' * max(mn, 1))[:mx]
        if t == 'DT':
            return '20040101' if mx >= 8 else '040101'
        if t == 'TM':
            return '1200' if mn <= 4 else '120000'[:max(mn, 4)]
        if t == 'R' or t[0] == 'N':
            return '1' * max(mn, 1)
        return 'A' * max(mn, 1)

    @staticmethod
    def fmt_val(code):
        return {'D8': '20040101', 'RD8': '20040101-20040102', 'TM': '1200', 'DT': '200401011200', 'D6': '040101'}.get(code)

    def presence(self, n):
        eles = n['eles']
        present = [e['usage'] == 'R' or (self.fill and e['usage'] == 'S') for e in eles]
        syn = [x for x in (parse_syntax(s) for s in n.get('syntax', [])) if x]

        def usable(i):
            return 1 <= i <= len(eles) and eles[i - 1]['usage'] != 'N'
        if not any(present):
            for i, e in enumerate(eles):
                if e['usage'] != 'N':
                    present[i] = True
                    break
        for _ in range(6):
            for (ty, pos) in syn:
                pres = [p for p in pos if p <= len(eles) and present[p - 1]]
                if ty == 'P' and pres and len(pres) != len(pos):
                    if all(usable(p) for p in pos):
                        for p in pos:
                            present[p - 1] = True
                    else:
                        for p in pres:
                            if eles[p - 1]['usage'] != 'R':
                                present[p - 1] = False
                elif ty == 'R' and not pres:
                    for p in pos:
                        if usable(p):
                            present[p - 1] = True
                            break
                elif ty == 'C' and pos[0] <= len(eles) and present[pos[0] - 1]:
                    if all(usable(p) for p in pos[1:]):
                        for p in pos[1:]:
                            present[p - 1] = True
                    elif eles[pos[0] - 1]['usage'] != 'R':
                        present[pos[0] - 1] = False
                elif ty == 'L' and pos[0] <= len(eles) and present[pos[0] - 1] and not [p for p in pos[1:] if p <= len(eles) and present[p - 1]]:
                    done = False
                    for p in pos[1:]:
                        if usable(p):
                            present[p - 1] = True
                            done = True
                            break
                    if not done and eles[pos[0] - 1]['usage'] != 'R':
                        present[pos[0] - 1] = False
                elif ty == 'E' and len(pres) > 1:
                    keep = [p for p in pres if eles[p - 1]['usage'] == 'R'][:1] or pres[:1]
                    for p in pres:
                        if p not in keep and eles[p - 1]['usage'] != 'R':
                            present[p - 1] = False
        return present

    def comp_val(self, e):
        sub = []
        for se in e['subs']:
            if se['usage'] == 'R' or (self.fill and se['usage'] == 'S'):
                sub.append(self.val_for(se))
            else:
                sub.append('')
        if not any(sub) and e['subs']:
            for j, se in enumerate(e['subs']):
                if se['usage'] != 'N':
                    sub[j] = self.val_for(se)
                    break
        while sub and sub[-1] == '':
            sub.pop()
        return sub

    def seg_values(self, n):
        """list of element values; a composite is a list of component values"""
        eles = n['eles']
        present = self.presence(n)
        vals = []
        fmtq = None
        for i, e in enumerate(eles):
            if not present[i]:
                vals.append('')
                continue
            if e['k'] == 'c':
                vals.append(self.comp_val(e))
            else:
                if e['de'] == '1250':
                    prefer = [c for c in ('D8', 'RD8', 'TM', 'DT', 'D6') if c in e['codes']]
                    v = prefer[0] if prefer else self.val_for(e)
                    fmtq = v
                elif e['de'] == '1251' and fmtq and self.fmt_val(fmtq):
                    v = self.fmt_val(fmtq)
                else:
                    v = self.val_for(e)
                vals.append(v)
        return vals

    def hl_parent_loop(self, n):
        """nearest enclosing loop (above the HL's own loop) that starts with an HL segment"""
        l = self.nodes.get(n['parent'])
        l = self.nodes.get(l['parent']) if l else None
        while l:
            kids = l['kids']
            if kids and self.nodes[kids[0]]['kind'] == 'seg' and self.nodes[kids[0]]['id'] == 'HL':
                return l['n']
            l = self.nodes.get(l['parent'])
        return None

    def build_seg(self, nid):
        n = self.nodes[nid]
        sid = n['id']
        if sid == 'ISA' and self.ctl_isa is not None:
            # usable values must satisfy both definitions: take the control map's, narrowed by the transaction map's code lists
            merged = json.loads(json.dumps(self.ctl_isa))
            for a, b in zip(merged['eles'], n['eles']):
                if b.get('codes'):
                    both = [c for c in b['codes'] if not a['codes'] or c in a['codes']]
                    a['codes'] = both or a['codes']
            vals = self.seg_values(merged)
        else:
            vals = self.seg_values(n)

        def setv(i, v):
            while len(vals) <= i:
                vals.append('')
            vals[i] = v
        if sid == 'ISA':
            self.isa_n += 1
            self.isa_id = '%09d' % self.isa_n
            self.gs_in_isa = 0
            setv(12, self.isa_id)
            setv(15, self.ct)
            if self.entry:
                setv(11, self.entry['icvn'])      # the version under which the index lists this map
            if len(vals) > 11 and vals[11] == '00501':
                setv(10, self.rep)
            elif len(vals) > 10:
                setv(10, 'U')
        elif sid == 'GS':
            self.gs_n += 1
            self.gs_in_isa += 1
            self.gs_id = str(self.gs_n)
            self.st_in_gs = 0
            setv(5, self.gs_id)
            if self.entry:
                setv(0, self.entry['fic'])
                setv(7, self.entry['vriic'])
        elif sid == 'ST':
            self.st_n += 1
            self.st_in_gs += 1
            self.st_id = '%04d' % self.st_n
            self.segs_in_st = 0
            self.hl = 0
            self.hl_of_loop = {}
            setv(1, self.st_id)
        elif sid == 'SE':
            setv(0, str(self.segs_in_st + 1))
            setv(1, self.st_id)
        elif sid == 'GE':
            setv(0, str(self.st_in_gs))
            setv(1, self.gs_id)
        elif sid == 'IEA':
            setv(0, str(self.gs_in_isa))
            setv(1, self.isa_id)
        elif sid == 'HL':
            self.hl += 1
            setv(0, str(self.hl))
            self.hl_of_loop[n['parent']] = self.hl
            if len(n['eles']) > 1 and n['eles'][1]['usage'] != 'N':
                pl = self.hl_parent_loop(n)
                setv(1, str(self.hl_of_loop.get(pl, '')) if pl else '')
            else:
                setv(1, '')
        elif sid == 'CLM':
            self.lx = 0
        elif sid == 'LX':
            self.lx += 1
            setv(0, str(self.lx))
        if sid not in ('ISA', 'IEA', 'GS', 'GE'):
            self.segs_in_st += 1
        return sid, vals

    def format_seg(self, sid, vals):
        parts = []
        for v in vals:
            if isinstance(v, list):
                parts.append(self.ct.join(v))
            else:
                parts.append(v)
        while parts and parts[-1] == '':
            parts.pop()
        return sid + self.et + self.et.join(parts) + self.st + self.eol

    def build(self, doc):
        """doc: list of node ids -> (text, [(node id, seg id, values)])"""
        self.reset()
        out = []
        info = []
        for nid in doc:
            sid, vals = self.build_seg(nid)
            info.append((nid, sid, vals))
            out.append(self.format_seg(sid, vals))
        return ''.join(out), info

    def render(self, info):
        return ''.join(self.format_seg(sid, vals) for (_, sid, vals) in info)


# --------------------------------------------------------------------------- runner with recorders
import pyx12.error_handler
import pyx12.map_if
import pyx12.map_walker
import pyx12.params
import pyx12.x12n_document

_captured = []
_OrigErrHandler = pyx12.error_handler.err_handler


class _RecErrHandler(_OrigErrHandler):
    def __init__(self, *a, **k):
        _OrigErrHandler.__init__(self, *a, **k)
        _captured.append(self)


class TreeVisitor(object):
    """projects the finished error tree through the public visitor protocol"""

    def __init__(self):
        self.out = []
        self.cur = None

    def visit_root_pre(self, e):
        pass

    def visit_root_post(self, e):
        pass

    def visit_isa_pre(self, n):
        self.out += [{'lvl': 'isa', 'code': x[0], 'msg': x[1]} for x in n.errors]
        self.cur = ('ISA', 0, getattr(n, 'cur_line_isa', 0))
        for x in n.elements:
            self.visit_ele(x)

    def visit_isa_post(self, n):
        pass

    def visit_gs_pre(self, n):
        self.out += [{'lvl': 'gs', 'code': x[0], 'msg': x[1]} for x in n.errors]
        self.cur = ('GS', 0, getattr(n, 'cur_line_gs', 0))
        for x in n.elements:
            self.visit_ele(x)

    def visit_gs_post(self, n):
        pass

    def visit_st_pre(self, n):
        self.out += [{'lvl': 'st', 'code': x[0], 'msg': x[1]} for x in n.errors]
        self.cur = ('ST', 1, getattr(n, 'cur_line_st', 0))
        for x in n.elements:
            self.visit_ele(x)

    def visit_st_post(self, n):
        pass

    def visit_seg(self, n):
        self.cur = (n.seg_id, n.seg_count, n.cur_line)
        self.out += [{'lvl': 'seg', 'code': x[0], 'msg': x[1], 'val': x[2] if len(x) > 2 and x[2] is not None else '', 'seg': n.seg_id,
                      'segpos': n.seg_count, 'line': n.cur_line} for x in n.errors]

    def visit_ele(self, n):
        c = self.cur or ('?', -1, -1)
        self.out += [{'lvl': 'ele', 'code': x[0], 'msg': x[1], 'val': x[2] if x[2] is not None else '', 'seg': c[0], 'segpos': c[1], 'line': c[2],
                      'ele': n.ele_pos if n.ele_pos is not None else 0, 'sub': n.subele_pos if n.subele_pos is not None else 0} for x in n.errors]


_walk_events = None
_orig_walk = pyx12.map_walker.walk_tree.walk
_orig_load = pyx12.map_if.load_map_file


MEMO_MAPS = False       # harness-side speed-up for checks that create many readers of the same map (never on by default)
_memo = {}


MEMO_MAX = 4           # map objects kept per worker process (a loaded 837 is a few hundred MB of Python objects)


def _tag_load(map_file, param, map_path=None):
    if MEMO_MAPS and (map_file, map_path) in _memo:
        m = _memo.pop((map_file, map_path))
        _memo[(map_file, map_path)] = m          # most recently used last
        return m
    m = _orig_load(map_file, param, map_path)
    if MEMO_MAPS:
        _memo[(map_file, map_path)] = m
        while len(_memo) > MEMO_MAX:
            _memo.pop(next(iter(_memo)))
    try:
        m._verif_file = map_file
    except Exception:
        pass
    return m


def _traced_walk(self, node, seg, errh, seg_count, cur_line, ls_id):
    if _walk_events is None:
        return _orig_walk(self, node, seg, errh, seg_count, cur_line, ls_id)
    errs = []
    cbefore = {k.format(): v for k, v in self.counter._dict.items()}
    o = errh.seg_error

    def cap(code, s, v=None, src_line=None):
        errs.append(code)
        return o(code, s, v, src_line)
    errh.seg_error = cap
    try:
        res = _orig_walk(self, node, seg, errh, seg_count, cur_line, ls_id)
    finally:
        del errh.seg_error
    (n, pops, pushes) = res

    def gv(r):
        v = seg.get_value(r)
        return v if v is not None else ''
    root = node
    while getattr(root, 'parent', None) is not None and not root.is_map_root():
        root = root.parent
    _walk_events.append(dict(map=getattr(root, '_verif_file', ''), start=node.get_path(), seg=seg.get_seg_id(), v01=gv('01'), v02=gv('02'), v011=gv('01-1'), v03=gv('03'),
                             res=(n.get_path() if n is not None else ''), pops=[p.get_path() for p in pops], pushes=[p.get_path() for p in pushes],
                             errs=errs, cbefore=cbefore, counter={k.format(): v for k, v in self.counter._dict.items()}))
    return res


def install_recorders():
    pyx12.error_handler.err_handler = _RecErrHandler
    pyx12.map_walker.walk_tree.walk = _traced_walk
    pyx12.map_if.load_map_file = _tag_load
    pyx12.x12n_document.walk_tree = pyx12.map_walker.walk_tree


def run_validator(text, want_ack=True, want_html=False, want_xml=False, record_walk=False, param=None, source=None):
    """run pyx12.x12n_document on text; returns dict(verdict|exc, errors, ack, html, xml, nodes, walk)"""
    global _walk_events
    install_recorders()
    param = param or pyx12.params.params()
    f997 = io.StringIO() if want_ack else None
    fhtml = io.StringIO() if want_html else None
    fxml = io.StringIO() if want_xml else None
    nodes = []

    def cb(seg, src, node, valid):
        try:
            nodes.append({'seg': seg.get_seg_id(), 'path': node.get_path() if node is not None else '', 'segpos': src.get_seg_count(), 'line': src.get_cur_line(),
                          'text': seg.format('~', '*', ':'), 'eles': [[e.get_value() for e in comp.elements] for comp in seg.elements]})
        except Exception:
            nodes.append({'seg': '?', 'path': '', 'segpos': -1, 'line': -1, 'text': ''})
    del _captured[:]
    _walk_events = [] if record_walk else None
    res = {'verdict': None, 'exc': '', 'errors': [], 'ack': '', 'html': '', 'xml': '', 'nodes': nodes, 'walk': []}
    try:
        res['verdict'] = pyx12.x12n_document.x12n_document(param, source if source is not None else io.StringIO(text), f997, fhtml, fxml, None, None, cb)
    except Exception as e:
        import traceback
        tb = traceback.extract_tb(e.__traceback__)
        site = ''
        for fr in reversed(tb):
            if '/pyx12/' in fr.filename:
                site = '%s:%s' % (os.path.basename(fr.filename), fr.name)
                break
        res['exc'] = type(e).__name__
        res['site'] = site
        res['excmsg'] = str(e)[:200]
    if _captured:
        v = TreeVisitor()
        try:
            _captured[0].accept(v)
            res['errors'] = v.out
        except Exception as e:
            res['errors'] = [{'lvl': 'visitor', 'code': type(e).__name__, 'msg': str(e)[:100]}]
    res['ack'] = f997.getvalue() if f997 else ''
    res['html'] = fhtml.getvalue() if fhtml else ''
    res['xml'] = fxml.getvalue() if fxml else ''
    if record_walk:
        res['walk'] = _walk_events
    _walk_events = None
    return res


def ack_segments(ack):
    """the acknowledgement cut into element lists with ITS OWN delimiters (element separator = 4th character, terminator = 106th)"""
    if len(ack) < 106 or not ack.startswith('ISA'):
        return []
    et, st = ack[3], ack[105]
    out = []
    for piece in ack.split(st):
        piece = piece.lstrip('\r\n')
        if piece:
            out.append(piece.split(et))
    return out


def ack_codes(ack, triple=None):
    """set-level (AK5/IK5) and group-level (AK9) acceptance codes of a 997/999"""
    sets, groups = [], []
    for el in ack_segments(ack):
        if el[0] in ('AK5', 'IK5') and len(el) > 1:
            sets.append(el[1])
        if el[0] == 'AK9' and len(el) > 1:
            groups.append(el[1])
    return sets, groups


# --------------------------------------------------------------------------- walker trace validation
def _validate_walk_batch(args):
    skel, events = args
    d = vlib.scratch('walktv')
    try:
        p = os.path.join(d, 'walk.json')
        vlib.write_json(p, events)
        res = vlib.run_tlc('T_MapWalk', 'SPECIFICATION Spec\nINVARIANT Report\n', env={'MAP_FILE': skel, 'TRACE_FILE': p}, workers=1, timeout=2400, heap='3g')
        if res.error:
            raise vlib.MachineryError('T_MapWalk: ' + res.error)
        rep = res.payloads.get('REJECTS')
        if not rep:
            raise vlib.MachineryError('T_MapWalk printed no report\n' + res.out[-1500:])
        return {'distinct': res.distinct, 'generated': res.generated, 'depth': res.depth, 'wall': res.wall, 'n': rep[-1]['n'], 'rej': rep[-1]['rej']}
    finally:
        shutil.rmtree(d, ignore_errors=True)


def validate_walks(chk, events_by_map, label):
    """events_by_map: {map file: [events with tid,k]}; returns list of (map, tid, k, clause, expected result, expected errors)"""
    jobs = []
    for fn, evs in events_by_map.items():
        if not evs or not loadable(fn):
            continue
        skel, _ = export_map(fn)
        for b in vlib.chunked(evs, 6000):
            jobs.append((skel, b))
    if not jobs:
        return []
    results = vlib.parallel_map(_validate_walk_batch, jobs)
    tot = vlib.TlcResult()
    out = []
    for (skel, b), r in zip(jobs, results):
        tot.distinct += r['distinct']; tot.generated += r['generated']; tot.wall = max(tot.wall, r['wall']); tot.depth = max(tot.depth, r['depth'])
        for x in r['rej']:
            out.append((os.path.basename(skel)[:-5],) + tuple(x))
    chk.add_tlc(tot, 'T_MapWalk ' + label)
    return out
