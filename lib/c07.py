"""C07 - validation is total: any input yields a verdict or a documented refusal.

spec -> code : TLC explores Mutate.tla (a repository fixture reduced to abstract segments; every single
               structural mutation at every position by BFS, seeded double mutations by -simulate) and
               emits each mutated abstract document with the class ValidateDef.tla assigns to it.  Python
               concretises the document (the unmutated one must reproduce the fixture text exactly) and
               runs the real x12n_document (subsets of the sinks 997/999, HTML, XML x charset B/E),
               X12Reader iteration + pop_errors + cleanup, and X12ContextReader.iter_segments (no loop id
               and two loop ids), each in-process under try/except and a time limit (10 CPU seconds, wall-clock
               backstop; only a repeated time-out counts as 'no termination').
code -> spec : every run - plus a seeded stream of arbitrary strings, edited ISA headers, garbage bodies and
               one minimal interchange per map index entry - is recorded [first 106 characters, ISA/GS/BHT
               projection, API, sinks, charset, outcome] and validated by TLC against T_Validate.tla: the
               class of the text (computed by TLC from the text itself) defines the allowed outcomes; the
               class announced by the generator must agree with it.
"""
import io
import json
import logging
import os
import random
import re
import shutil
import signal
import sys
import traceback
import xml.etree.ElementTree as ET

sys.path.insert(0, os.path.dirname(os.path.abspath(__file__)))
import vlib
from vlib import run_tlc, Check

sys.path.insert(0, vlib.REPO)
logging.disable(logging.CRITICAL)
import pyx12.errors
import pyx12.error_handler
import pyx12.params
import pyx12.x12context
import pyx12.x12file
import pyx12.x12n_document

PYX = os.path.join(os.path.realpath(vlib.REPO), 'pyx12') + os.sep
RUN_CPU_LIMIT = 10.0      # CPU seconds for one call of the implementation (normal: < 0.3 s): an endless loop burns CPU
RUN_LIMIT = 300.0         # wall-clock backstop for one call (a call that blocks without using CPU)
MAX_HANGS = 2            # per batch of inputs: stop running after that many time-outs
SINKS = ['', 'a', 'h', 'x', 'ah', 'ax', 'hx', 'ahx']

# fixture -> (label, loop ids used for the context reader)
SKELETONS = [('simple_837p', '837P 4010', ['2300', '2000A']),
             ('834_lui_id_5010', '834 5010', ['2000', '2300']),
             ('835id', '835 4010', ['2100', '2000']),
             ('repeat_init_segment', '270 4010', ['2000A', '2100C']),
             ('multiple_trn', '278 4010 (BHT02 selects the map) + 837 + 835 groups', ['ST_LOOP', '2000A'])]
ALT_TRIPLE = ('!', '|', '>')


# ------------------------------------------------------------------ map index (data export for the spec constants)
def index_constants():
    t = ET.parse(os.path.join(vlib.REPO, 'pyx12', 'map', 'maps.xml'))
    i3, i4, entries = set(), set(), []
    for v in t.iter('version'):
        icvn = v.get('icvn')
        for m in v.iterfind('map'):
            entries.append({'icvn': icvn, 'vriic': m.get('vriic'), 'fic': m.get('fic'), 'tspc': m.get('tspc'), 'file': m.text, 'abbr': m.get('abbr')})
            if (m.text or '').startswith('x12.control.'):
                continue                       # the envelope maps are not a transaction type
            i3.add((icvn, m.get('vriic'), m.get('fic')))
            if m.get('tspc') is not None:
                i4.add((icvn, m.get('vriic'), m.get('fic'), m.get('tspc')))

    def tup(s):
        return '{' + ', '.join('"%s"' % '|'.join(e) for e in sorted(s)) + '}'
    return 'CONSTANTS Index3 = %s\n Index4 = %s\n' % (tup(i3), tup(i4)), entries


# ------------------------------------------------------------------ fixture <-> abstract document
def abstract_fixture(text):
    """fixture text (delimiters ~ * :) -> list of abstract segments; raises if the text is not of the expected shape"""
    out = []
    pos = 0
    for m in re.finditer(r'([^~\n]*)~(\n?)', text):
        if m.start() != pos:
            raise vlib.MachineryError('fixture not of the form (segment~eol)*')
        pos = m.end()
        el = m.group(1).split('*')
        out.append({'src': len(out) + 1, 'id': el[0], 'els': el[1:], 'pre': '', 'term': True, 'nl': m.group(2) == '\n'})
    if pos != len(text):
        raise vlib.MachineryError('fixture has an unterminated tail')
    return out


def concretise(doc, triple=('~', '*', ':')):
    st, et, ct = triple
    out = []
    for s in doc:
        body = et.join([s['id']] + list(s['els']))
        if ct != ':':
            body = body.replace(':', ct)
        out.append(s['pre'] + body + ((st + ('\n' if s['nl'] else '')) if s['term'] else ''))
    return ''.join(out)


def expand(compact, skel):
    return [skel[x[0] - 1] if isinstance(x[0], int) else x[0] for x in compact]


def mut_label(muts):
    return '+'.join('%s@%d%s%s' % (m['op'], m['i'], ('.%d' % m['j']) if m['j'] else '', ('=' + repr(m['v'])) if m['v'] != '' or m['op'] in ('retag', 'num') else '') for m in muts) or 'unmutated'


# ------------------------------------------------------------------ projection of a text to the facts the definition needs
_SAFE = re.compile(r'^[A-Za-z0-9]{0,30}$')


def project(text):
    """first 106 characters as code points; ISA/GS/BHT segments in order (abstract segments, values that cannot be
    index keys replaced by '?').  Pieces are cut at the character in position 106, elements at the character in position 4."""
    h = [ord(c) for c in text[:106]]
    env = []
    if len(text) >= 106:
        st, et, ct = text[105], text[3], text[104]
        pieces = text.split(st)[:-1]             # whatever follows the last terminator is never delivered
        for p in pieces:
            p = p.lstrip(' \r\n')
            if p[:3] not in ('ISA', 'BHT') and p[:2] != 'GS':
                continue
            el = p.split(et) if et != st else [p]
            if el[0] in ('ISA', 'GS', 'BHT'):
                # a value holding the component separator is read as a composite by the tokenizer: it cannot be an index key as written
                env.append({'id': el[0], 'els': [e if (_SAFE.match(e) and (ct not in e or el[0] == 'ISA')) else '?' for e in el[1:60]], 'term': True})
            if len(env) > 400:
                break
    return h, env


# ------------------------------------------------------------------ running the implementation
class _Timeout(BaseException):
    pass


def _on_alarm(signum, frame):
    raise _Timeout()


def _site(tb):
    site = '<outside pyx12>'
    for fr in traceback.extract_tb(tb):
        fn = os.path.realpath(fr.filename)
        if fn.startswith(PYX) and os.sep + 'test' + os.sep not in fn:
            site = '%s:%s' % (os.path.basename(fn), fr.name)
    return site


def _call_once(fn, cpu_limit=None):
    """one guarded execution -> outcome record"""
    o = {'kind': '', 'val': False, 'exc': '', 'site': '', 'mnf': False, 'msg': ''}
    old = signal.signal(signal.SIGALRM, _on_alarm)
    oldp = signal.signal(signal.SIGPROF, _on_alarm)
    # the timers re-fire: a bare except inside pyx12 cannot swallow the interruption for good
    signal.setitimer(signal.ITIMER_PROF, cpu_limit or RUN_CPU_LIMIT, 0.2)
    signal.setitimer(signal.ITIMER_REAL, RUN_LIMIT, 0.2)
    try:
        try:
            r = fn()
        finally:
            signal.setitimer(signal.ITIMER_PROF, 0, 0)
            signal.setitimer(signal.ITIMER_REAL, 0, 0)
        if r is None:
            o['kind'] = 'completed'
        elif isinstance(r, bool):
            o['kind'] = 'verdict'
            o['val'] = r
        else:
            o['kind'] = 'nonbool'
            o['msg'] = repr(r)[:80]
    except _Timeout:
        o['kind'] = 'timeout'
    except Exception as e:
        signal.setitimer(signal.ITIMER_PROF, 0, 0)
        signal.setitimer(signal.ITIMER_REAL, 0, 0)
        o['kind'] = 'exception'
        o['exc'] = type(e).__name__
        o['site'] = _site(sys.exc_info()[2])
        o['msg'] = str(e)[:160]
        o['mnf'] = isinstance(e, pyx12.errors.EngineError) and str(e).startswith('Map not found')
    finally:
        signal.setitimer(signal.ITIMER_PROF, 0, 0)
        signal.setitimer(signal.ITIMER_REAL, 0, 0)
        signal.signal(signal.SIGALRM, old)
        signal.signal(signal.SIGPROF, oldp)
    return o


CONFIRM = [None]      # set to a CPU limit while time-outs are re-examined in the parent process


def _call(fn):
    if CONFIRM[0]:
        return _call_once(fn, CONFIRM[0])
    o = _call_once(fn)
    if o['kind'] == 'timeout':
        o = _call_once(fn)          # only a repeated time-out counts (a stalled, overloaded machine is not an endless loop)
    return o


def confirm_timeouts(recs, byid):
    """time-outs seen in the workers are re-examined one by one in the parent (no competing workers of our own, a
    four times larger CPU budget); a call that now returns is recorded with that outcome"""
    pend = sorted([(len(byid[r['id']]['text']), r['id'], k) for r in recs for k, x in enumerate(r['runs']) if x['o']['kind'] == 'timeout'])
    if not pend:
        return 0, 0
    recid = {r['id']: r for r in recs}
    CONFIRM[0] = 4 * RUN_CPU_LIMIT
    confirmed = 0
    try:
        for n, (_, did, k) in enumerate(pend):
            if n >= 3 and confirmed:
                break                   # the implementation really hangs: the remaining time-outs stand as recorded
            x = recid[did]['runs'][k]
            o = execute(byid[did]['text'], x['api'], x['sinks'], x['cs'], x['loop'])
            x['o'] = o
            confirmed += o['kind'] == 'timeout'
    finally:
        CONFIRM[0] = None
    return len(pend), confirmed


def run_x12n(text, sinks, cs):
    def f():
        param = pyx12.params.params()
        param.set('charset', cs)
        fa = io.StringIO() if 'a' in sinks else None
        fh = io.StringIO() if 'h' in sinks else None
        fx = io.StringIO() if 'x' in sinks else None
        return pyx12.x12n_document.x12n_document(param, io.StringIO(text), fa, fh, fx)
    return _call(f)


def run_reader(text):
    def f():
        rd = pyx12.x12file.X12Reader(io.StringIO(text))
        for seg in rd:
            rd.pop_errors()
        rd.cleanup()
        rd.pop_errors()
        return None
    return _call(f)


def run_ctx(text, loop, cs):
    def f():
        param = pyx12.params.params()
        param.set('charset', cs)
        rd = pyx12.x12context.X12ContextReader(param, pyx12.error_handler.errh_null(), io.StringIO(text))
        for node in rd.iter_segments(loop or None):
            pass
        return None
    return _call(f)


def execute(text, api, sinks, cs, loop):
    if api == 'x12n':
        return run_x12n(text, sinks, cs)
    if api == 'reader':
        return run_reader(text)
    return run_ctx(text, loop, cs)


def plan(doc, tier, seed):
    """which (api, sinks, charset, loop id) combinations are run for one input"""
    rnd = random.Random('%s|%s' % (seed, doc['id']))
    loops = doc.get('loops') or ['ST_LOOP', '2000A']
    cs = 'BE'[doc['id'] % 2]
    other = 'EB'[doc['id'] % 2]
    if tier == 'thorough' or doc.get('full'):
        runs = [('x12n', s, c, '') for s in SINKS for c in 'BE']
        runs += [('reader', '', '', ''), ('ctx', '', cs, ''), ('ctx', '', other, loops[0]), ('ctx', '', cs, loops[1])]
    else:
        # a crash in the HTML sink hides the XML sink (same segment) and both hide the acknowledgement (written after the
        # loop): the three sinks are run separately; every fourth input gets one more random combination
        ctx = ('ctx', '', rnd.choice('BE'), ['', loops[0], loops[1]][doc['id'] % 3])
        if doc.get('slow'):
            # long skeletons / several maps per run: alternate instead of running everything on every input
            runs = [('x12n', 'ahx'[doc['id'] % 3], cs, ''), ('reader', '', '', '')] + ([ctx] if doc['id'] % 4 < 2 else [])
            if doc.get('inseg'):
                # the mutation is inside a segment: the two sinks that render segments element by element both see it
                runs = [('x12n', 'h', cs, ''), ('x12n', 'x', other, '')] + runs[1:] + ([('x12n', 'a', cs, '')] if doc['id'] % 3 == 0 else [])
        else:
            runs = [('x12n', 'a', cs, ''), ('x12n', 'h', other, ''), ('x12n', 'x', cs, ''), ('reader', '', '', ''), ctx]
        if doc['id'] % 4 == 0:
            runs.append(('x12n', rnd.choice(SINKS), rnd.choice('BE'), ''))
    return runs


def _run_batch(args):
    docs, tier, seed = args
    out = []
    hangs = 0
    for d in docs:
        h, env = project(d['text'])
        runs = []
        for api, sinks, cs, loop in plan(d, tier, seed):
            if hangs >= MAX_HANGS:
                break                      # the implementation hangs again and again: reported, do not wait for every input
            o = execute(d['text'], api, sinks, cs, loop)
            hangs += o['kind'] == 'timeout'
            runs.append({'api': api, 'sinks': sinks, 'cs': cs, 'loop': loop, 'o': o})
        out.append({'id': d['id'], 'h': h, 'env': env, 'xclass': d.get('xclass', ''), 'xlater': bool(d.get('xlater', False)), 'runs': runs})
    return out


def _validate_batch(args):
    recs, consts = args
    d = vlib.scratch('c07tv')
    try:
        p = os.path.join(d, 'traces.json')
        slim = [{'id': r['id'], 'h': r['h'], 'env': r['env'], 'xclass': r['xclass'], 'xlater': r['xlater'],
                 'runs': [{'api': x['api'], 'sinks': x['sinks'], 'cs': x['cs'],
                           'o': {k: x['o'][k] for k in ('kind', 'val', 'exc', 'site', 'mnf')}} for x in r['runs']]} for r in recs]
        vlib.write_json(p, slim)
        res = run_tlc('T_Validate', 'SPECIFICATION Spec\nINVARIANT Report\n' + consts, env={'TRACE_FILE': p}, workers=1, timeout=1500, heap='3g')
        if res.error:
            raise vlib.MachineryError('T_Validate: ' + res.error)
        rep = res.payloads.get('REJECTS')
        if not rep:
            raise vlib.MachineryError('T_Validate printed no report\n' + res.out[-1500:])
        return {'distinct': res.distinct, 'generated': res.generated, 'depth': res.depth, 'wall': res.wall,
                'rej': rep[-1]['rej'], 'classes': rep[-1]['classes']}
    finally:
        shutil.rmtree(d, ignore_errors=True)


# ------------------------------------------------------------------ inputs
def fixtures():
    from pyx12.test.x12testdata import datafiles
    return {k: datafiles[k]['source'] for k in datafiles if datafiles[k].get('source')}


def _tlc_job(args):
    label, cfg, sp, sim, tseed = args
    if sim:
        res = run_tlc('Mutate', cfg, env={'SKEL_FILE': sp}, workers=1, timeout=2400, simulate=sim, depth=3, tag='Mutate2', tseed=tseed)
    else:
        res = run_tlc('Mutate', cfg, env={'SKEL_FILE': sp}, workers=1, timeout=2400, tag='Mutate1')
    vlib.tlc_must_pass(res, 'Mutate ' + label)
    res.out = ''
    return res


ALLOPS = ['del', 'dup', 'swap', 'trunc', 'truncmid', 'retag', 'orphan', 'num', 'longseg', 'longele', 'subs', 'blank', 'drop', 'lead', 'trail', 'empty', 'cutsub']


def generate(chk, tier, seed, consts, fx):
    """spec -> code: documents produced by TLC from the skeletons"""
    q = tier == 'quick'
    docs = []
    work = vlib.scratch('c07gen')
    try:
        jobs = []
        skels = {}
        base = ('SPECIFICATION Spec\n' + consts + ' Ops = {%s}\n RetagAll = %s\n AllEls = %s\n Sample = %s\n' +
                'INVARIANT TypeOK\nINVARIANT SkeletonConformant\nINVARIANT TermOnlyLast\nINVARIANT ClassStable\nINVARIANT DefSane\nINVARIANT Emit\n')
        ops = ', '.join('"%s"' % o for o in ALLOPS)
        only = [x for x in os.environ.get('C07_SKEL', '').split(',') if x]        # development aid: restrict the skeletons
        todo = [s for s in SKELETONS if not only or s[0] in only]
        for si, (name, label, loops) in enumerate(todo):
            skel = abstract_fixture(fx[name])
            if concretise(skel) != fx[name]:
                raise vlib.MachineryError('abstract form of fixture %s does not reproduce its text' % name)
            skels[name] = skel
            sp = os.path.join(work, name + '.json')
            vlib.write_json(sp, skel)
            big = len(skel) > 40
            # all single mutations at all positions (BFS, complete for the enabled retag targets / element positions)
            cfg = base % (ops, 'FALSE' if q else 'TRUE', 'FALSE' if (q and big) else 'TRUE', 'FALSE') + 'CONSTANTS MaxMut = 1\n EmitLen = 99\n'
            jobs.append(('singles ' + name, cfg, sp, None, None))
            # seeded double mutations (simulation, one random mutation per step)
            n2 = (60 if q else 600) * (2 if big else 1)
            cfg2 = base % (ops, 'FALSE', 'FALSE', 'TRUE') + 'CONSTANTS MaxMut = 2\n EmitLen = 2\n'
            jobs.append(('doubles ' + name, cfg2, sp, 'num=%d' % n2, seed + si))
        results = vlib.parallel_map(_tlc_job, jobs)
        for si, (name, label, loops) in enumerate(todo):
            skel = skels[name]
            big = len(skel) > 40
            emitted = []
            for job, res in zip(jobs, results):
                if job[0].endswith(' ' + name):
                    chk.add_tlc(res, 'Mutate ' + job[0])
                    emitted += res.payloads.get('DOC', [])
            if len(emitted) < 50:
                raise vlib.MachineryError('Mutate emitted only %d documents for %s' % (len(emitted), name))
            seen = set()
            n0 = 0
            for e in emitted:
                doc = expand(e['d'], skel)
                use_alt = (not q) and (len(docs) % 5 == 4) and e['c'] in ('interchange', 'no_map')
                text = concretise(doc, ALT_TRIPLE if use_alt else ('~', '*', ':'))
                if not e['m']:
                    n0 += 1
                    if text != fx[name]:
                        raise vlib.MachineryError('unmutated document from TLC does not reproduce fixture %s' % name)
                if text in seen:
                    continue
                seen.add(text)
                docs.append({'text': text, 'xclass': e['c'], 'xlater': e['later'], 'loops': loops, 'source': 'mutate:' + name,
                             'label': mut_label(e['m']), 'nmut': len(e['m']), 'full': not e['m'], 'slow': big or name == 'multiple_trn',
                             'inseg': any(m['op'] in ('longele', 'subs', 'cutsub', 'num', 'blank', 'drop', 'trail', 'longseg') for m in e['m'])})
            if n0 != 1:
                raise vlib.MachineryError('TLC did not emit the unmutated skeleton of %s exactly once' % name)
    finally:
        shutil.rmtree(work, ignore_errors=True)
    return docs


POOL = '~*:^|>\n\r 0159AISXZaz\\\t\x1c\x1d\x1e\x00\xff'


def fuzz(tier, seed, fx, entries):
    """code -> spec only: arbitrary strings, edited ISA headers, garbage bodies, one minimal interchange per index entry"""
    rnd = random.Random(seed * 1000003 + 77)
    n = 900 if tier == 'quick' else 6000
    names = [s[0] for s in SKELETONS] + ['834_lui_id', 'simple_837i', 'mult_isa']
    docs = []

    def rbytes(k):
        return ''.join(chr(rnd.randrange(256)) for _ in range(k))

    def add(text, label):
        docs.append({'text': text, 'xclass': '', 'source': 'fuzz', 'label': label, 'nmut': 9})
    for length in (0, 1, 2, 3, 4, 105, 106, 107):
        add(rbytes(length), 'random bytes')
        add(('ISA' + rbytes(length))[:max(length, 0)], 'ISA + random bytes')
    for i in range(n):
        base = fx[rnd.choice(names)]
        hdr, body = base[:106], base[106:]
        k = i % 9
        if k == 0:
            add(rbytes(rnd.choice([5, 50, 106, 120, 300])), 'random bytes')
        elif k == 1:
            add('ISA' + rbytes(rnd.choice([2, 102, 103, 104, 200])), 'ISA + random bytes')
        elif k == 2:                                  # a few character edits of the header
            t = list(hdr)
            for _ in range(rnd.choice([1, 1, 2, 3])):
                p = rnd.randrange(len(t))
                op = rnd.choice('dir')
                if op == 'd':
                    del t[p]
                elif op == 'i':
                    t.insert(p, rnd.choice(POOL))
                else:
                    t[p] = rnd.choice(POOL)
            add(''.join(t) + body, 'header with character edits')
        elif k == 3:                                  # version field
            v = rnd.choice(['00400', '00402', '00500', '00502', '     ', '0040 ', '00301', '004010', 'abcde', ''.join(rnd.choice('0145 ') for _ in range(5))])
            add(hdr[:84] + v + hdr[89:] + body, 'header with version %r' % v)
        elif k == 4:                                  # delimiters: equal to each other / unusual, body re-delimited or not
            st, et, ct = [rnd.choice(POOL) for _ in range(3)]
            which = rnd.randrange(5)
            if which == 0:
                et = st
            elif which == 1:
                ct = st
            elif which == 2:
                ct = et
            elif which == 3:
                st = et = ct
            t = base.replace('\n', '') if rnd.random() < 0.5 else base
            t = t.replace('*', '\ue000').replace(':', '\ue001').replace('~', '\ue002')
            t2 = t.replace('\ue000', et).replace('\ue001', ct).replace('\ue002', st)
            if rnd.random() < 0.3:
                t2 = t2[:106] + body
            add(t2, 'delimiters st=%r et=%r ct=%r' % (st, et, ct))
        elif k == 5:                                  # short / cut texts
            add(base[:rnd.randrange(0, min(len(base), 260))], 'cut text')
        elif k == 6:                                  # valid header, garbage body
            g = ''.join(rnd.choice(POOL + 'GSTEHLNM1') for _ in range(rnd.randrange(0, 200)))
            add(hdr + g + (body if rnd.random() < 0.5 else ''), 'header + garbage')
        elif k == 7:                                  # valid header, shuffled / sampled segments of several fixtures
            segs = [s for nm in rnd.sample(names, 2) for s in re.findall(r'[^~]*~\n?', fx[nm][106:])]
            pick = [rnd.choice(segs) for _ in range(rnd.randrange(1, 25))]
            if rnd.random() < 0.5:
                pick = re.findall(r'[^~]*~\n?', body)[:2] + pick
            add(hdr + ''.join(pick), 'header + sampled segments')
        else:                                         # random byte edits anywhere in the document
            t = list(base)
            for _ in range(rnd.choice([1, 2, 5])):
                p = rnd.randrange(len(t))
                t[p] = rnd.choice(POOL)
            add(''.join(t), 'document with character edits')
    # one minimal interchange per map index entry (every map must load and run)
    for e in entries:
        v = e['icvn']
        st = e['file'].split('.')[0]
        rep = 'U' if v == '00401' else '^'
        text = ('ISA*00*          *00*          *ZZ*SENDER         *ZZ*RECEIVER       *200101*1200*%s*%s*000000001*0*P*:~\n'
                'GS*%s*SENDER*RECEIVER*20200101*1200*1*X*%s~\nST*%s*0001%s~\n%sSE*%d*0001~\nGE*1*1~\nIEA*1*000000001~\n'
                % (rep, v, e['fic'], e['vriic'], st, ('*' + e['vriic']) if v == '00501' else '',
                   ('BHT*0078*%s*1*20200101*1200~\n' % e['tspc']) if e['tspc'] else '', 3 if e['tspc'] else 2))
        docs.append({'text': text, 'xclass': '', 'source': 'index', 'label': 'minimal interchange for %s' % e['file'], 'nmut': 1, 'full': True})
    return docs


def inputs(tier, seed, chk=None, consts=None, entries=None):
    """all corpora; each item {text, xclass, xlater, loops, source, label, nmut}.  Further corpora can be appended here."""
    fx = fixtures()
    docs = generate(chk, tier, seed, consts, fx)
    if not os.environ.get('C07_NOFUZZ'):                                         # development aid
        docs += fuzz(tier, seed, fx, entries)
    for i, d in enumerate(docs):
        d['id'] = i + 1
    return docs


def detail(o):
    """what failed, without the data values: keeps apart different causes that share a crash site"""
    m = o.get('msg', '')
    if o['exc'] in ('AttributeError', 'UnboundLocalError', 'NameError'):
        return m[:90]
    return re.sub(r'\d+', '#', re.sub(r"'[^']*'|\"[^\"]*\"", '?', m))[:90]


# for the --replay print-out only (the definition is ValidateDef.tla)
ALLOWED_TEXT = {'not_x12': 'x12n_document: False; readers: X12Error',
                'unknown_version': 'x12n_document: False; readers: X12Error',
                'bad_isa': 'x12n_document: False or X12Error (or map-not-found EngineError); readers: X12Error or completion',
                'no_map': 'a boolean verdict / completion, or EngineError "Map not found" (not from X12Reader)',
                'interchange': 'a boolean verdict / completion (X12Error only if a later ISA segment has not 16 elements)'}


def show(text, n=160):
    s = ''.join(c if 32 <= ord(c) < 127 else {'\n': '\\n', '\r': '\\r'}.get(c, '\\x%02x' % ord(c)) for c in text[:n])
    return s + ('...(%d chars)' % len(text) if len(text) > n else '')


def run(tier, replay=None):
    if replay:
        obj = json.load(open(replay))['replay']
        o = execute(obj['text'], obj['api'], obj['sinks'], obj['cs'], obj['loop'])
        print('input    : %s (%s)' % (show(obj['text'], 300), obj.get('label')))
        print('call     : api=%s sinks=%r charset=%s loop=%r' % (obj['api'], obj['sinks'], obj['cs'], obj['loop']))
        print('observed : %s' % json.dumps(o))
        print('expected : input class %s allows %s (ValidateDef!Clause); the recorded outcome drew clause %r'
              % (obj.get('class'), ALLOWED_TEXT.get(obj.get('class'), '?'), obj.get('clause')))
        return 0
    chk = Check('C07', tier)
    chk.rule = ('one case per (input text, API, sink subset, charset, loop id); non-trivial = the text differs from the unmutated fixture')
    seed = vlib.seed()
    consts, entries = index_constants()
    docs = inputs(tier, seed, chk, consts, entries)
    size = max(8, min(200, len(docs) // (vlib.NCPU * 4) + 1))
    order = list(range(len(docs)))
    random.Random(seed).shuffle(order)                       # spread the expensive skeletons over the workers
    batches = [([docs[i] for i in b], tier, seed) for b in vlib.chunked(order, size)]
    recs = [r for part in vlib.parallel_map(_run_batch, batches) for r in part]
    recs.sort(key=lambda r: r['id'])
    byid = {d['id']: d for d in docs}
    chk.extra['timeouts_seen_in_workers_then_confirmed'] = list(confirm_timeouts(recs, byid))
    vb = [(b, consts) for b in vlib.chunked(recs, max(100, len(recs) // vlib.NCPU + 1))]
    results = vlib.parallel_map(_validate_batch, vb)
    byid = {d['id']: d for d in docs}
    recid = {r['id']: r for r in recs}
    tot = vlib.TlcResult()
    rejects = []
    classes = {}
    outcomes = {}
    for (b, _), r in zip(vb, results):
        tot.distinct += r['distinct']; tot.generated += r['generated']; tot.wall = max(tot.wall, r['wall']); tot.depth = max(tot.depth, r['depth'])
        if len(r['classes']) != len(b):
            raise vlib.MachineryError('T_Validate classified %d of %d documents' % (len(r['classes']), len(b)))
        for rec, c in zip(b, r['classes']):
            rec['class'] = c
            key = byid[rec['id']]['source'].split(':')[0] + '/' + c
            classes[key] = classes.get(key, 0) + 1
        rejects += r['rej']
    chk.add_tlc(tot, 'T_Validate')
    nruns = 0
    for rec in recs:
        for x in rec['runs']:
            nruns += 1
            o = x['o']
            k = o['kind'] if o['kind'] != 'exception' else ('X12Error' if o['exc'] == 'X12Error' else 'EngineError map-not-found' if o['mnf'] else 'other exception')
            if o['kind'] == 'verdict':
                k = 'verdict %s' % o['val']
            outcomes[k] = outcomes.get(k, 0) + 1
            chk.note_distinct('%s|%s|%s|%s|%s' % (hash(byid[rec['id']]['text']), x['api'], x['sinks'], x['cs'], x['loop']))
    chk.add_traces(nruns)
    chk.add_eval(len(recs))
    chk.extra['inputs_by_source_and_class'] = classes
    chk.extra['outcomes'] = outcomes
    for did, k, clause in sorted(rejects, key=lambda t: (byid[t[0]]['nmut'], len(byid[t[0]]['text']), t[0], t[1])):
        d = byid[did]
        rec = recid[did]
        if clause == 'class_mismatch':
            raise vlib.MachineryError('generator announced class %s (later=%s) for %s [%s] but the text-level definition says %s: %s'
                                      % (d.get('xclass'), d.get('xlater'), d['label'], d['source'], rec.get('class'), show(d['text'], 240)))
        x = rec['runs'][k - 1]
        o = x['o']
        sig = {'clause': clause, 'api': x['api']}
        if clause == 'escape':
            sig['exc'] = o['exc']
            sig['site'] = o['site']
            sig['detail'] = detail(o)
        elif clause == 'not_refused':
            sig['class'] = rec.get('class')
        what = {'x12n': 'x12n_document(sinks=%r, charset=%s)' % (x['sinks'], x['cs']), 'reader': 'X12Reader iteration',
                'ctx': 'X12ContextReader.iter_segments(%r), charset=%s' % (x['loop'] or None, x['cs'])}[x['api']]
        got = ('%s: %s escaped at %s' % (o['exc'], o['msg'], o['site'])) if o['kind'] == 'exception' else ('%s %s' % (o['kind'], o['val'] if o['kind'] == 'verdict' else ''))
        chk.violation(sig, '%s on %s [%s; class %s]: %s -> clause %s. Input: %s' % (what, d['label'], d['source'], rec.get('class'), got, clause, show(d['text'])),
                      {'text': d['text'], 'api': x['api'], 'sinks': x['sinks'], 'cs': x['cs'], 'loop': x['loop'], 'label': d['label'] + ' of ' + d['source'],
                       'class': rec.get('class'), 'clause': clause, 'outcome': o})
    if os.environ.get('C07_DUMP'):
        with open(os.environ['C07_DUMP'], 'w') as f:
            json.dump([[v[0], v[1], v[2]] for v in chk.violations] + [[h['finding'].get('signature'), 'KNOWN x%d' % h['count']] for h in chk.known_hits.values()], f, indent=1)
    for d in docs:
        if d['source'].startswith('mutate') and d['nmut'] == 1 and len(chk.samples) < 3 or d['source'] == 'fuzz' and len(chk.samples) in (3, 4):
            rec = recid[d['id']]
            chk.sample({'source': d['source'], 'what': d['label'], 'class': rec.get('class'), 'text': show(d['text'], 140),
                        'runs': [[x['api'], x['sinks'], x['cs'], x['loop'], x['o']['kind'], x['o']['val'] if x['o']['kind'] == 'verdict' else x['o']['exc']] for x in rec['runs']][:8]})
    chk.exhaustive = False
    chk.assumptions = ['skeletons: %s' % ', '.join('%s (%s)' % (s[0], s[1]) for s in SKELETONS),
                       'single mutations are enumerated completely per skeleton (quick tier: retag targets and element positions of long skeletons reduced); double mutations, arbitrary strings and header edits are seeded samples',
                       'quick tier: each sink alone (short skeletons: all three per input; long ones: one per input, alternating), sometimes one random combination, one context-reader call; thorough tier: all 16 sink/charset combinations and three context-reader calls',
                       'a later ISA segment that has not 16 elements may draw the documented X12Error (counted as the documented refusal of a malformed ISA)',
                       'inputs whose ISA is malformed beyond length/prefix/version (class bad_isa) may be refused late or - for the readers - not at all',
                       'no termination = one call uses more than %d CPU seconds (or %d s wall clock) twice in a row; after %d such calls a worker skips the rest of its batch of inputs' % (RUN_CPU_LIMIT, RUN_LIMIT, MAX_HANGS),
                       'not reached: resource exhaustion, non-text streams, I/O errors of the sinks, path sources']
    return chk.finish()


if __name__ == '__main__':
    vlib.main_wrapper(run)
