"""C19 - the HTML report lists every source segment once, in order, with line number and values, shows every
segment-/element-level error next to its segment, escapes every input character, is a complete document.

spec -> code : TLC explores HtmlGen (err_handler + err_iter + gen_seg/footer as coded, driven by every bounded
               tree-growth sequence: several sets / groups / interchanges, 0..2 segment and element errors per
               segment, extra error nodes before/after a segment, errors on trailers, unknown segments, unclosed
               loops), checks the model-level invariants and emits behaviours; every behaviour is realised as a
               real X12 document (997 grammar, values carrying < > & " ' and blanks, several delimiter triples)
               and run through the real x12n_document with an HTML sink.
code -> spec : those runs, the repository fixtures and seeded mutations of the fixtures (bad codes, too long
               values, invalid dates, unknown / repeated / missing segments, several errors on one segment,
               errors on the first / last segment of a set, re-delimited copies) are recorded - source segments
               from a plain X12Reader, the calls on the error tree through a recording subclass, the HTML parsed
               back with html.parser - and validated by TLC against T_Html: the definition layer of Html.tla
               names the failing clause (VIOLATION), the replay of the recorded calls through the
               implementation-shaped layer reports drift.
"""
import json
import os
import random
import shutil
import sys

sys.path.insert(0, os.path.dirname(os.path.abspath(__file__)))
import vlib
from vlib import run_tlc, Check

import c19_run as R

SPECIALS = ['A<B', 'R&D', '<b>x</b>', '"Q\'s"', 'x  y', '&lt;', 'a>b', '<LF>', "it's <i>", 'AT&T "<3"', '1 < 2 & 3 > 2']
TRIPLES = [('~', '*', ':'), ('|', '^', '+'), ('\n', '*', '!')]
EXOTIC = [('~', '*', '>'), ('~', '&', ':')]      # delimiters that are themselves markup characters


# =========================================================================== documents as lists of segments
def split_doc(text):
    """text -> (delims, [[id, e1, e2, ...]]) using the real reader for segmentation"""
    import io
    import pyx12.x12file
    rd = pyx12.x12file.X12Reader(io.StringIO(text))
    st, et, ct = rd.get_term()[:3]
    segs = []
    for seg in rd:
        segs.append(seg.format(st, et, ct)[:-1].split(et))
    return (st, et, ct), segs


def join_doc(segs, delims, src_ct=':', eol='\n'):
    st, et, ct = delims
    out = []
    for s in segs:
        el = list(s)
        if el[0] == 'ISA' and len(el) == 17:
            el[16] = ct
        elif src_ct != ct:
            el = [el[0]] + [e.replace(src_ct, ct) for e in el[1:]]
        out.append(et.join(el) + st + (eol if st != '\n' else ''))
    return ''.join(out)


def clash(segs, delims, src_ct):
    """a value contains one of the new delimiters"""
    st, et, ct = delims
    for s in segs:
        for e in s[1:] if s[0] != 'ISA' else s[1:16]:
            for c in (st, et) + ((ct,) if src_ct != ct else ()):
                if c in e.replace(src_ct, ''):
                    return True
    return False


def fix_counts(segs):
    """recompute SE01 after insertions / deletions (GE01 / IEA01 untouched by the mutations)"""
    start = None
    for i, s in enumerate(segs):
        if s[0] == 'ST':
            start = i
        elif s[0] == 'SE' and start is not None and len(s) > 1:
            s[1] = str(i - start + 1)
            start = None


ENV = ('ISA', 'GS', 'ST', 'SE', 'GE', 'IEA')


def mutate(segs, rnd, kinds):
    """apply a few seeded mutations; returns a short description"""
    segs[:] = [list(s) for s in segs]
    body = [i for i, s in enumerate(segs) if s[0] not in ENV]
    desc = []
    for kind in kinds:
        body = [i for i, s in enumerate(segs) if s[0] not in ENV]
        if not body:
            break
        if kind == 'value':            # element value with markup characters (bad code / too long / plain text)
            i = rnd.choice(body)
            if len(segs[i]) > 2:
                j = rnd.randrange(2, len(segs[i]))
                segs[i][j] = rnd.choice(SPECIALS)
                desc.append('value@%d.%d' % (i + 1, j))
        elif kind == 'value1':         # first element (qualifier): usually makes the segment unknown to the map
            i = rnd.choice(body)
            if len(segs[i]) > 1:
                segs[i][1] = rnd.choice(SPECIALS)
                desc.append('qual@%d' % (i + 1))
        elif kind == 'long':
            i = rnd.choice(body)
            if len(segs[i]) > 2:
                j = rnd.randrange(2, len(segs[i]))
                segs[i][j] = (rnd.choice(SPECIALS) + ' ') * 12
                desc.append('long@%d.%d' % (i + 1, j))
        elif kind == 'date':
            cands = [(i, j) for i in body for j in range(1, len(segs[i])) if len(segs[i][j]) == 8 and segs[i][j].isdigit()]
            if cands:
                i, j = rnd.choice(cands)
                segs[i][j] = rnd.choice(['2004<3>1', '20041&31', '"004130', '2004 3 1'])
                desc.append('date@%d.%d' % (i + 1, j))
        elif kind == 'two':            # two bad elements on one segment
            cands = [i for i in body if len(segs[i]) > 3]
            if cands:
                i = rnd.choice(cands)
                for j in rnd.sample(range(2, len(segs[i])), 2):
                    segs[i][j] = rnd.choice(SPECIALS)
                desc.append('two@%d' % (i + 1))
        elif kind == 'unknown':
            i = rnd.choice(body)
            segs.insert(i, ['ZZZ', rnd.choice(SPECIALS), 'x'])
            desc.append('unknown@%d' % (i + 1))
        elif kind == 'repeat':         # repeat a segment beyond its max use and damage the last copy
            i = rnd.choice(body)
            n = rnd.choice([1, 2, 3])
            copies = [list(segs[i]) for _ in range(n)]
            if len(copies[-1]) > 2:
                copies[-1][rnd.randrange(2, len(copies[-1]))] = rnd.choice(SPECIALS)
            segs[i + 1:i + 1] = copies
            desc.append('repeat%d@%d' % (n, i + 1))
        elif kind == 'delete':
            i = rnd.choice(body)
            del segs[i]
            desc.append('delete@%d' % (i + 1))
        elif kind == 'first':          # first segment of a set
            sts = [i for i, s in enumerate(segs) if s[0] == 'ST' and i + 1 < len(segs) and segs[i + 1][0] not in ENV]
            if sts:
                i = rnd.choice(sts) + 1
                if len(segs[i]) > 2:
                    segs[i][len(segs[i]) - 1] = rnd.choice(SPECIALS)
                    desc.append('first@%d' % (i + 1))
        elif kind == 'last':           # last segment of a set
            ses = [i for i, s in enumerate(segs) if s[0] == 'SE' and i > 0 and segs[i - 1][0] not in ENV]
            if ses:
                i = rnd.choice(ses) - 1
                if len(segs[i]) > 2:
                    segs[i][len(segs[i]) - 1] = rnd.choice(SPECIALS)
                    segs.insert(i + 1, list(segs[i]))
                    desc.append('last@%d' % (i + 1))
        elif kind == 'trailer':        # element errors on trailers
            for i, s in enumerate(segs):
                if s[0] in ('SE', 'IEA') and len(s) > 2 and rnd.random() < 0.7:
                    s[2] = s[2] + rnd.choice(['<', '&', '>'])
            desc.append('trailer')
        elif kind == 'header':         # element errors on headers
            for i, s in enumerate(segs):
                if s[0] == 'GS' and len(s) > 3 and rnd.random() < 0.7:
                    s[2] = 'A<B&C"D\'E F G>H'
                if s[0] == 'ST' and len(s) > 2 and rnd.random() < 0.5:
                    s.append(rnd.choice(SPECIALS))
            desc.append('header')
        elif kind == 'spaces':         # reader-level segment errors
            i = rnd.choice(body)
            segs[i][0] = ' ' + segs[i][0]
            desc.append('lead@%d' % (i + 1))
        elif kind == 'trail':
            i = rnd.choice(body)
            segs[i].append('')
            desc.append('trail@%d' % (i + 1))
        elif kind == 'subtrail':       # empty trailing components written out with their separators (on a composite where there is one)
            cands = [(i, j) for i in body for j in range(1, len(segs[i])) if ':' in segs[i][j]] or [(i, j) for i in body for j in range(2, len(segs[i])) if segs[i][j]]
            if cands:
                i, j = rnd.choice(cands)
                segs[i][j] = segs[i][j] + ':' * rnd.choice([1, 2, 3])
                desc.append('subtrail@%d.%d' % (i + 1, j))
    return ','.join(desc)


def fixtures():
    sys.path.insert(0, vlib.REPO)
    from pyx12.test.x12testdata import datafiles
    out = []
    for k in sorted(datafiles):
        src = datafiles[k].get('source')
        if src:
            out.append((k, src))
    ex = os.path.join(vlib.REPO, 'pyx12', 'examples', 'example834_5010.txt')
    if os.path.exists(ex):
        out.append(('example834_5010', open(ex).read()))
    return out


MUT_KINDS = ['value', 'value', 'value1', 'long', 'date', 'two', 'unknown', 'repeat', 'repeat', 'delete', 'first', 'last',
             'trailer', 'header', 'spaces', 'trail', 'subtrail']


def targeted(fx):
    """documents in which ONE source segment gets several error nodes, built from the fixtures"""
    out = []
    d = dict(fx)
    for key in ('per_segment_repeat', 'simple_837p', 'elements', 'bad_2010AA_bug'):
        if key not in d:
            continue
        delims, segs = split_doc(d[key])
        pers = [i for i, s in enumerate(segs) if s[0] == 'PER']
        if not pers:
            continue
        i = pers[0]
        for ncopies, bad in ((2, 'T<'), (3, 'R&D'), (2, '')):
            s2 = [list(s) for s in segs]
            copies = [list(s2[i]) for _ in range(ncopies)]
            if bad and len(copies[-1]) > 3:
                copies[-1][3] = bad                     # PER03: communication number qualifier, a code
            if len(copies[-1]) > 2:
                copies[-1][2] = 'Jo "<J>" & Co'
            s2[i + 1:i + 1] = copies
            fix_counts(s2)
            out.append(('%s/per+%d%s' % (key, ncopies, '/badcode' if bad else ''), join_doc(s2, delims)))
        # a required segment missing right before a segment with a bad element and a reader-level error
        s2 = [list(s) for s in segs]
        if i + 1 < len(s2) and len(s2[i + 1]) > 2:
            del s2[i]
            s2[i][-1] = 'A<B'
            s2[i].append('')
            fix_counts(s2)
            out.append(('%s/missing+bad' % key, join_doc(s2, delims)))
    # reader-level segment errors (leading blank, trailing separator) on the segments x12n_document handles in branches of
    # their own: the first segment after ST (BHT / BGN / BPR) and the segment right before SE
    for key in ('simple_837p', '834_lui_id_5010', '835id', 'repeat_init_segment'):
        if key not in d:
            continue
        delims, segs = split_doc(d[key])
        sts = [i for i, s in enumerate(segs) if s[0] == 'ST']
        ses = [i for i, s in enumerate(segs) if s[0] == 'SE']
        if not sts or not ses:
            continue
        for name, i in (('first', sts[0] + 1), ('last', ses[0] - 1)):
            for how in ('lead', 'trail'):
                s2 = [list(x) for x in segs]
                if how == 'lead':
                    s2[i][0] = ' ' + s2[i][0]
                else:
                    s2[i].append('')
                out.append(('%s/%s-body-segment/%s' % (key, name, how), join_doc(s2, delims)))
    # every composite element of a fixture written with two empty trailing components, every third segment with two empty trailing elements
    for key in ('simple_837p', '835id', '834_lui_id_5010'):
        if key not in d:
            continue
        delims, segs = split_doc(d[key])
        s2 = [list(x) for x in segs]
        for k, x in enumerate(s2):
            if x[0] in ENV:
                continue
            for j in range(1, len(x)):
                if ':' in x[j]:
                    x[j] = x[j] + '::'
            if k % 3 == 0:
                x.extend(['', ''])
        out.append(('%s/empty-tails' % key, join_doc(s2, delims)))
    # element errors on the envelope TRAILERS whose offending value spells a segment identifier (the header's, or another one):
    # the report must show each of them next to its trailer, and the header's own element errors next to the header
    for key in ('simple_837p', '834_lui_id_5010', '835id'):
        if key not in d:
            continue
        delims, segs = split_doc(d[key])
        for hdr, hi, trl, ti, vals in (('ST', 2, 'SE', 2, ('1ST0000001', '12GS567890')), ('GS', 6, 'GE', 2, ('1GS', 'ISA2')), ('ISA', 13, 'IEA', 2, ('0000ISA01', '00000GS01'))):
            for v in vals:
                for both in (False, True):
                    s2 = [list(x) for x in segs]
                    ok = False
                    for x in s2:
                        if x[0] == trl and len(x) > ti:
                            x[ti] = v
                            ok = True
                        if both and x[0] == hdr and len(x) > hi:
                            x[hi] = v
                    if ok and not clash(s2, delims, delims[2]):
                        out.append(('%s/%s-value-%s%s' % (key, trl, v, '+header' if both else ''), join_doc(s2, delims)))
    return out


def inputs(tier, seed):
    """[(label, x12 text)] - fixtures, targeted multi-node documents, seeded mutations, re-delimited copies.
    Further corpora can be appended here: every entry is run through the real code and validated by T_Html."""
    rnd = random.Random(seed * 7919 + 19)
    fx = fixtures()
    out = list(fx)
    out += targeted(fx)
    small = [(k, s) for k, s in fx if len(s) < 3500]
    nmut = 110 if tier == 'quick' else 1500
    for n in range(nmut):
        k, src = small[n % len(small)] if tier == 'quick' else fx[n % len(fx)]
        try:
            delims, segs = split_doc(src)
        except Exception:
            continue
        kinds = [rnd.choice(MUT_KINDS) for _ in range(rnd.choice([1, 2, 2, 3, 4]))]
        desc = mutate(segs, rnd, kinds)
        if rnd.random() < 0.5:
            fix_counts(segs)
        tri = TRIPLES[n % len(TRIPLES)] if n % 2 else TRIPLES[0]
        if clash(segs, tri, delims[2]):
            tri = TRIPLES[0]
        if clash(segs, tri, delims[2]):
            continue
        out.append(('%s~%d[%s]%s' % (k, n, desc, '' if tri == TRIPLES[0] else '/d%d' % TRIPLES.index(tri)),
                    join_doc(segs, tri, delims[2], eol=rnd.choice(['\n', '', '\r\n']))))
    # concatenated interchanges
    for n in range(4 if tier == 'quick' else 40):
        a, b = rnd.choice(small), rnd.choice(small)
        da, sa = split_doc(a[1])
        db, sb = split_doc(b[1])
        if da != db:
            continue
        mutate(sb, rnd, ['value', 'two'])
        out.append(('%s+%s~%d' % (a[0], b[0], n), join_doc(sa, da, da[2]) + join_doc(sb, da, da[2])))
    # delimiters that are markup characters themselves
    comp = [(k, s) for k, s in small if any(':' in line[4:] for line in s.split('~')[1:])] or small
    for n, tri in enumerate(EXOTIC):
        k, src = comp[n % len(comp)]
        delims, segs = split_doc(src)
        if not clash(segs, tri, delims[2]):
            out.append(('%s/exotic%d' % (k, n), join_doc(segs, tri, delims[2])))
    return out


# =========================================================================== spec -> code: realise behaviours (997 world)
def _shape(ev):
    ops = ev['calls']
    sh = {'sid': ev['sid'], 'pre': 0, 'nu': 0, 'max': 0, 'own': 0, 'ele': 0, 'env': 0, 'misnest': 0, 'stale': 0}
    seen_own = False
    pending = 0
    for c in ops:
        op, code = c.split(':', 1)
        if op == 'add_seg':
            pending += 1
        elif op == 'seg_error':
            if code == '3':
                sh['pre'] += 1
            elif code == '2':
                sh['nu'] += 1
            elif code == '5':
                sh['max'] += 1
            elif code == '1' and ev['sid'] == 'X':
                pass
            else:
                sh['own'] += 1
        elif op == 'ele_error':
            if code == '3':
                sh['stale'] += 1
            else:
                sh['ele'] += 1
        elif op in ('isa_error', 'gs_error', 'st_error'):
            if code == '024':
                sh['misnest'] += 1
            else:
                sh['env'] += 1
    return sh


def realise(beh, variant):
    """abstract behaviour (HtmlGen history) -> X12 text in the 997 grammar, or None if a shape has no concrete counterpart"""
    rnd = random.Random(variant * 1000003 + vlib.seed())
    tri = TRIPLES[variant % len(TRIPLES)]
    st, et, ct = tri
    spec = [s for s in SPECIALS if not any(c in s for c in tri)]

    def sp(n=0):
        return spec[(variant + n) % len(spec)]

    out = []
    isa_n = 0
    gs_n = 0
    st_n = 0
    cur_isa = cur_gs = cur_st = None
    state = 'none'          # position inside the 997 set
    exact = True
    evs = [e for e in beh['h'] if e['sid'] != 'END']
    for idx, ev in enumerate(evs):
        sh = _shape(ev)
        sid = sh['sid']
        lead = ' ' if (sid in ('B', 'SE') and sh['own'] >= 1) else ''
        trail = [''] if (sid == 'B' and sh['own'] >= 2) else []
        if sh['nu']:
            exact = False        # no shipped 997 segment is marked "not used"
        if sid == 'ISA':
            isa_n += 1
            cur_isa = '%09d' % (isa_n if sh['env'] == 0 or isa_n == 1 else isa_n - 1)
            el = ['ISA', '00', ' ' * 10, '00', ' ' * 10, 'ZZ', 'ZZ000'.ljust(15), 'ZZ', 'ZZ001'.ljust(15), '030828', '1128', 'U', '00401',
                  cur_isa, '0', 'T', ct]
            if sh['ele'] >= 1:
                el[1] = '<>'
            if sh['ele'] >= 2:
                el[6] = 'A<B & "C"'.ljust(15)
                el[5] = '&&'
            gs_n = 0
            out.append(el)
        elif sid == 'GS':
            gs_n += 1
            cur_gs = str(gs_n if sh['env'] == 0 or gs_n == 1 else gs_n - 1)
            el = ['GS', 'FA', 'ZZ000', 'ZZ001', '20030828', '1128', cur_gs, 'X', '004010']
            if sh['ele'] >= 1:
                el[2] = ('S ' + sp() + ' ' + sp(1) + ' 0123456789')[:24]
            if sh['ele'] >= 2:
                el[4] = '2003<828'
            st_n = 0
            out.append(el)
        elif sid == 'ST':
            st_n += 1
            cur_st = '%04d' % (st_n if sh['env'] == 0 or st_n == 1 else st_n - 1)
            if sh['ele'] >= 1:
                cur_st = (cur_st + sp())[:20] + 'xxxxxx'
            el = ['ST', '997', cur_st]
            if sh['ele'] >= 2:
                el.append(sp(2))
            state = 'start'
            out.append(el)
        elif sid == 'B':
            # choose the concrete segment from the position in the grammar and the extra error nodes wanted
            if sh['max'] and state in ('ak1', 'ak5', 'ak9'):
                seg = {'ak1': 'AK1', 'ak5': 'AK5', 'ak9': 'AK9'}[state]
            elif sh['pre'] and state == 'start':
                seg = 'AK2'
            elif sh['pre'] and state in ('ak2', 'ak3'):
                seg = 'AK9' if (variant + idx) % 2 else 'AK2'
            elif state == 'start':
                seg = 'AK1'
            elif state == 'ak1':
                seg = 'AK2'
            elif state == 'ak2':
                seg = 'AK3' if (variant + idx) % 3 else 'AK5'
            elif state == 'ak3':
                seg = 'AK4' if (variant + idx) % 2 else 'AK5'
            elif state == 'ak5':
                seg = 'AK2' if (variant + idx) % 3 else 'AK9'
            elif state == 'ak9':
                seg = 'AK9'
            else:
                seg = 'AK1'
            if sh['max'] and seg != {'ak1': 'AK1', 'ak5': 'AK5', 'ak9': 'AK9'}.get(state):
                exact = False
            if sh['pre'] > 1 or (sh['pre'] and seg not in ('AK2', 'AK9')):
                exact = False
            good = {'AK1': ['AK1', 'HC', '17'], 'AK2': ['AK2', '837', '0001'], 'AK3': ['AK3', 'NM1', '4', '2010', '8'],
                    'AK4': ['AK4', '3', '66', '7', 'x y'], 'AK5': ['AK5', 'R', '5'], 'AK9': ['AK9', 'R', '1', '1', '0']}[seg]
            el = list(good)
            bad = {'AK1': [(2, 'A<B'[:3])], 'AK2': [(2, ('1' + sp() + sp(1) + 'xxxxxxxxxx')[:18]), (3, sp(2))],
                   'AK3': [(2, '4' + sp()), (3, (sp(1) + ' ' + sp(2) + ' zzzzzz')[:20])], 'AK4': [(3, '<&'), (2, '6>6')],
                   'AK5': [(2, '<&'), (3, '"\'')], 'AK9': [(2, '1<2'), (5, '&>')]}[seg]
            for n in range(min(sh['ele'], len(bad))):
                j, v = bad[n]
                while len(el) <= j:
                    el.append('')
                if any(c in v for c in tri):
                    v = 'Q<Q'
                el[j] = v
            if sh['ele'] > len(bad):
                exact = False
            if sh['ele'] == 0 and seg == 'AK4':
                el[4] = sp(3)        # harmless free text with markup characters: no error, but the listing must escape it
            if sh['stale']:
                width = {'AK1': 2, 'AK2': 2, 'AK3': 4, 'AK4': 4, 'AK5': 6, 'AK9': 9}[seg]
                while len(el) <= width:
                    el.append('')
                el.append(sp(4))          # one element more than the map defines: "too many elements"
            el[0] = lead + el[0]
            out.append(el + trail)
            state = {'AK1': 'ak1', 'AK2': 'ak2', 'AK3': 'ak3', 'AK4': 'ak3', 'AK5': 'ak5', 'AK9': 'ak9'}[seg]
        elif sid == 'X':
            out.append(['ZZZ', sp(idx), 'q'])
        elif sid == 'SE':
            nseg = 1
            for j in range(len(out) - 1, -1, -1):
                nseg += 1
                if out[j][0].strip() == 'ST':
                    break
            cnt = str(nseg + (1 if sh['env'] else 0))
            if sh['ele'] >= 1:
                cnt = '<' + cnt + '&'
            el = [lead + 'SE', cnt, cur_st or '0001']
            if sh['ele'] >= 2:
                el.append(sp(1))
            want_pre = (0 if state in ('ak9',) else 1) + (1 if state == 'start' else 0) + (1 if state in ('ak2', 'ak3') else 0)
            if want_pre != sh['pre']:
                exact = False
            out.append(el)
            state = 'none'
        elif sid == 'GE':
            el = ['GE', str(st_n + (1 if sh['env'] else 0)), cur_gs or '1']
            if sh['ele'] >= 1:
                el[2] = el[2] + '<&'
            if sh['ele'] >= 2:
                el.append(sp(2))
            out.append(el)
        elif sid == 'IEA':
            el = ['IEA', str(gs_n + (1 if sh['env'] else 0)), cur_isa or '000000001']
            if sh['ele'] >= 1:
                el[2] = el[2][:6] + '<&>'
            if sh['ele'] >= 2:
                el.append(sp(3))
            out.append(el)
    if not out or out[0][0] != 'ISA':
        return None, False
    text = ''.join(et.join(s) + st + ('\n' if st != '\n' and variant % 2 else '') for s in out)
    return text, exact


# =========================================================================== running + validating
def _exec_batch(args):
    base, docs = args
    out = []
    for j, (label, text) in enumerate(docs):
        try:
            tr = R.execute(base + j, label, text)
        except Exception as e:
            raise vlib.MachineryError('recording failed on %s: %r' % (label, e))
        if tr is not None:
            tr['text'] = text
        out.append(tr)
    return out


_KEEP = ('id', 'd', 'segs', 'errs', 'calls', 'tail', 'items', 'doc', 'exc')


def _validate_batch(traces):
    d = vlib.scratch('c19tv')
    try:
        p = os.path.join(d, 'traces.json')
        vlib.write_json(p, [{k: t[k] for k in _KEEP} for t in traces])
        for attempt in (1, 2):
            res = run_tlc('T_Html', 'SPECIFICATION Spec\nINVARIANT Report\n', env={'TRACE_FILE': p}, workers=1, timeout=2400, heap='3g')
            if not (res.error and res.rc in (137, 143)):
                break
        if res.error:
            raise vlib.MachineryError('T_Html: ' + res.error)
        rep = res.payloads.get('REJECTS')
        if not rep:
            raise vlib.MachineryError('T_Html printed no report\n' + res.out[-1500:])
        return {'distinct': res.distinct, 'generated': res.generated, 'depth': res.depth, 'wall': res.wall,
                'rej': rep[-1]['rej'], 'drift': rep[-1]['drift']}
    finally:
        shutil.rmtree(d, ignore_errors=True)


def _tok_text(toks):
    m = {R.E_AMP: '&amp;', R.E_LT: '&lt;', R.E_GT: '&gt;', R.E_NBSP: '&nbsp;', R.E_QUOT: '&quot;', R.E_APOS: '&apos;',
         R.T_HI_OPEN: '[', R.T_HI_CLOSE: ']'}
    return ''.join(chr(t) if t >= 0 else m.get(t, '&#%d;' % (R.NUMREF_BASE - t)) for t in toks)


def _s(codes):
    return ''.join(chr(c) for c in codes)


def describe(tr, r):
    """short text for one rejected clause"""
    c = r['c']
    if c in ('error_missing', 'error_misplaced') or (c == 'unescaped_message' and r['i'] > 0):
        e = tr['errs'][r['i'] - 1]
        seg = tr['segs'][e['s'] - 1] if 1 <= e['s'] <= len(tr['segs']) else None
        where = 'line %d %s' % (seg['line'], _s(seg['text'])[:40]) if seg else 'end of input'
        return '%s: %s-level error code %s "%s" reported for %s (%s)' % (c, e['lvl'], e['code'], _s(e['msg'])[:120], where, r['where'] or r['origin'])
    if c == 'unescaped_message':
        return 'unescaped_message: an error line of the report contains text a parser takes for a tag (%s error code %s)' % (r['lvl'], r['code'])
    if c == 'not_a_complete_document':
        return 'not_a_complete_document: %s (validation without an HTML sink completes)' % r['origin']
    i = r['i']
    si = [it for it in tr['items'] if it['k'] == 'seg']
    src = tr['segs'][i - 1] if 1 <= i <= len(tr['segs']) else None
    got = si[i - 1] if 1 <= i <= len(si) else None
    return '%s at listed segment %d: source %s, report %s' % (
        c, i, ('%d: %s' % (src['line'], _s(src['text'])[:80])) if src else '(none)',
        ('%d: %s' % (got['line'], _tok_text(got['tok'])[:100])) if got else '(none)')


def signature(tr, r):
    c = r['c']
    sig = {'clause': c}
    if c in ('error_missing', 'error_misplaced'):
        sig['level'] = r['lvl']
        sig['where'] = r['where']
        sig['code'] = r['code']
    elif c == 'unescaped_message':
        sig['level'] = r['lvl']
        sig['origin'] = r['origin']
    elif c == 'not_a_complete_document':
        sig['origin'] = r['origin']
    elif c == 'unescaped_segment_text':
        i = r['i']
        si = [it for it in tr['items'] if it['k'] == 'seg']
        raw = [t for t in (si[i - 1]['tok'] if 1 <= i <= len(si) else []) if t in (38, 60, 62)]
        dl = (tr['d']['st'], tr['d']['et'], tr['d']['ct'])
        sig['origin'] = 'delimiter' if raw and all(t in dl for t in raw) else 'value'
    return sig


def validate(chk, traces, label, stats):
    traces = [t for t in traces if t is not None]
    skipped = [t for t in traces if t['exc'] and not t['completes']]
    traces = [t for t in traces if not (t['exc'] and not t['completes'])]
    stats['not_completing'] = stats.get('not_completing', 0) + len(skipped)
    if not traces:
        return
    # one JVM start costs ~4 s: few large batches, balanced by the number of segments
    total = sum(len(t['segs']) for t in traces)
    nb = max(1, min(vlib.NCPU, total // 2500))
    batches = [[] for _ in range(nb)]
    load = [0] * nb
    for t in sorted(traces, key=lambda t: -len(t['segs'])):
        j = load.index(min(load))
        batches[j].append(t)
        load[j] += len(t['segs']) + 5
    results = vlib.parallel_map(_validate_batch, [b for b in batches if b])
    byid = {t['id']: t for t in traces}
    tot = vlib.TlcResult()
    for r in results:
        tot.distinct += r['distinct']
        tot.generated += r['generated']
        tot.wall = max(tot.wall, r['wall'])
        tot.depth = max(tot.depth, r['depth'])
        for rj in r['rej']:
            tr = byid[rj['id']]
            sig = signature(tr, rj)
            chk.violation(sig, '%s: %s' % (tr['label'], describe(tr, rj)),
                          {'kind': 'document', 'label': tr['label'], 'text': tr['text'], 'verdict': rj, 'signature': sig})
            stats.setdefault('clauses', {})
            key = json.dumps(sig, sort_keys=True)
            stats['clauses'][key] = stats['clauses'].get(key, 0) + 1
        for d in r['drift']:
            stats.setdefault('spec_drift', [])
            if len(stats['spec_drift']) < 10:
                tr = byid[d[0]]
                stats['spec_drift'].append({'source': label, 'label': tr['label'], 'slot_after_segment': d[1], 'what': d[2]})
            stats['drift_count'] = stats.get('drift_count', 0) + 1
    chk.add_tlc(tot, 'T_Html ' + label)
    chk.add_traces(len(traces))
    for t in traces:
        ne = sum(1 for e in t['errs'] if e['lvl'] in ('seg', 'ele') and e['att'] and e['s'] >= 1)
        chk.add_eval(len(t['segs']) + ne)
        stats['claimed_errors'] = stats.get('claimed_errors', 0) + ne
        stats['segments'] = stats.get('segments', 0) + len(t['segs'])
        for c in t['calls']:
            per_seg_nodes = sum(1 for x in c if x['op'] == 'add_seg')
            per_seg_errs = sum(1 for x in c if x['op'].endswith('_error'))
            if per_seg_nodes >= 2 and per_seg_errs >= 2:
                stats['segments_with_two_error_nodes'] = stats.get('segments_with_two_error_nodes', 0) + 1
        chk.note_distinct(label + '|' + t['label'] + '|' + str(len(t['segs'])) + '|' + str(ne))
    t0 = traces[0]
    chk.sample({'source': label, 'document': t0['label'], 'segments': len(t0['segs']),
                'reported_errors': [[e['s'], e['lvl'], e['code'], _s(e['msg'])[:70]] for e in t0['errs'][:4]],
                'report_items': [[it['k'], it['line'], _tok_text(it['tok'])[:60]] for it in t0['items'][:5]]})


def run_docs(docs, base):
    if not docs:
        return []
    size = max(1, (len(docs) + vlib.NCPU * 2 - 1) // (vlib.NCPU * 2))
    batches = [(base + i, b) for i, b in zip(range(0, len(docs), size), vlib.chunked(docs, size))]
    return [t for r in vlib.parallel_map(_exec_batch, batches) for t in r]


# =========================================================================== model runs
def gen_cfg(maxseg, maxerr, per, unnested, multi, notused, enverr, emit, stale=False):
    b = lambda x: 'TRUE' if x else 'FALSE'
    return ('SPECIFICATION Spec\nCONSTANTS MaxSeg = %d\n MaxErr = %d\n Per = %d\n Unnested = %s\n MultiIsa = %s\n NotUsed = %s\n'
            ' EnvErr = %s\n EmitAll = %s\n StaleEle = %s\nINVARIANT SegNodeOnce\nINVARIANT BodyErrorsShown\nINVARIANT NoFooterCrash\n'
            'INVARIANT NoModelCrash\nINVARIANT ModelDiff\nINVARIANT Emit\n') % (maxseg, maxerr, per, b(unnested), b(multi), b(notused), b(enverr), b(emit), b(stale))


def configs(tier):
    q = tier == 'quick'
    return [
        # label, cfg, simulate, keep (how many emitted behaviours are realised), TLC workers
        ('nested-2errs', gen_cfg(8, 3 if q else 5, 2, False, False, False, False, True), None, 400 if q else 3000, 6),
        ('nested-envelope-errors', gen_cfg(8, 2 if q else 3, 1 if q else 2, False, False, False, True, True), None, 250 if q else 2500, 3),
        ('unnested-multi', gen_cfg(7 if q else 8, 2, 1, True, True, True, True, True), None, 300 if q else 3000, 4),
        ('two-sets', gen_cfg(10 if q else 12, 2, 1, False, False, False, False, True), None, 200 if q else 2000, 3),
        ('stale-element-node', gen_cfg(8 if q else 9, 2, 1, False, False, False, False, True, True), None, 150 if q else 1500, 3),
        ('sim-deep', gen_cfg(22 if q else 36, 8 if q else 14, 2, True, True, True, True, True, True), 'num=%d' % (100 if q else 600), 100 if q else 600, 1),
    ]


def _run_cfg(c):
    label, cfg, sim, keep, workers = c
    for attempt in (1, 2):
        if sim:
            maxseg = int(cfg.split('MaxSeg = ')[1].split('\n')[0])
            res = run_tlc('HtmlGen', cfg, simulate=sim, depth=maxseg + 2, workers=1, timeout=2400, tag='HtmlGen-' + label)
        else:
            res = run_tlc('HtmlGen', cfg, timeout=3000, workers=workers, tag='HtmlGen-' + label)
        if not (res.error and res.error.startswith('TLC exit code 1') and res.rc in (137, 143)):
            break           # a JVM killed from outside (shared machine) is started once more
    res.out = res.out[-3000:]
    return res


def pick(behs, keep, rnd):
    """all behaviours the model predicts to go wrong (capped per class) + an even sample of the others"""
    if len(behs) <= keep:
        return behs
    rnd.shuffle(behs)
    return behs[:keep]


def run(tier, replay=None):
    if replay:
        obj = json.load(open(replay))['replay']
        tr = R.execute(1, obj['label'], obj['text'])
        print('document :', obj['label'])
        print('recorded verdict:', json.dumps(obj.get('verdict')))
        res = _validate_batch([tr]) if not (tr['exc'] and not tr['completes']) else {'rej': [], 'drift': []}
        print('observed now (T_Html):', json.dumps(res['rej']))
        for rj in res['rej'][:6]:
            print('  ', describe(tr, rj))
        v = obj.get('verdict') or {}
        if v.get('c') in ('error_missing', 'error_misplaced', 'unescaped_message') and v.get('i'):
            e = tr['errs'][v['i'] - 1] if v['i'] <= len(tr['errs']) else None
            if e:
                print('expected : an error line with the text %r next to source segment %d' % (_s(e['msg']), e['s']))
                sp = [k for k, it in enumerate(tr['items']) if it['k'] == 'seg']
                if 1 <= e['s'] <= len(sp):
                    lo = sp[e['s'] - 2] if e['s'] >= 2 else 0
                    hi = sp[e['s']] if e['s'] < len(sp) else len(tr['items'])
                    for it in tr['items'][lo:hi + 1]:
                        print('  report  :', it['k'], it['line'] if it['k'] == 'seg' else '', _tok_text(it['tok'])[:150])
        return 1 if res['rej'] else 0

    chk = Check('C19', tier)
    chk.rule = ('one case per executed document (label, number of segments, number of claimed errors); non-trivial = the run reported at '
                'least one segment- or element-level error or carried markup characters in its data')
    stats = {}
    rnd = random.Random(vlib.seed() + 19)
    base = 0
    modeldiff = {}
    realised = {'behaviours': 0, 'exact_shape': 0}
    # ---- spec -> code: explore the model, realise the emitted behaviours
    cfgs = configs(tier)
    results = vlib.parallel_map(_run_cfg, cfgs, procs=len(cfgs))
    docs = []
    for (label, cfg, sim, keep, _w), res in zip(cfgs, results):
        if res.error:
            raise vlib.MachineryError('HtmlGen %s: %s' % (label, res.error))
        if res.violated:
            raise vlib.MachineryError('HtmlGen %s: model-level invariant %s violated: the transcription of err_iter/gen_seg in '
                                      'spec/Html.tla does not have a property the model asserts - modelling error, not an alarm '
                                      'about pyx12\n%s' % (label, res.violated, res.out[-1500:]))
        chk.add_tlc(res, 'HtmlGen ' + label)
        for d in res.payloads.get('MODELDIFF', []):
            for c in d['c']:
                k = '/'.join(c)
                modeldiff[k] = modeldiff.get(k, 0) + 1
        hists = res.payloads.get('HIST', [])
        if not hists:
            raise vlib.MachineryError('HtmlGen %s emitted no behaviour' % label)
        # behaviours the model predicts to go wrong and the others, half and half
        bad = [h for h in hists if h['missed'] or h['fcrash']]
        good = [h for h in hists if not (h['missed'] or h['fcrash'])]
        nbad = min(len(bad), keep // 2)
        chosen = pick(bad, nbad, rnd) + pick(good, keep - nbad, rnd)
        for n, h in enumerate(chosen):
            text, exact = realise(h, n)
            if text is None:
                continue
            realised['behaviours'] += 1
            realised['exact_shape'] += 1 if exact else 0
            docs.append(('gen:%s#%d' % (label, n), text))
    ngen = len(docs)
    # ---- code -> spec: fixtures, targeted documents, seeded mutations; everything is validated by T_Html
    docs += inputs(tier, vlib.seed())
    traces = run_docs(docs, 0)
    validate(chk, [t for t in traces[:ngen]], 'generated', stats)
    validate(chk, [t for t in traces[ngen:]], 'corpus', stats)
    chk.extra['model_predicted_differences'] = modeldiff
    chk.extra['realised_behaviours'] = realised
    chk.extra['corpus'] = {k: v for k, v in stats.items() if k != 'clauses'}
    chk.extra['rejected_clauses'] = stats.get('clauses', {})
    chk.assumptions = [
        'claimed: errors reported through seg_error / ele_error while a source segment was being validated and stored in the error tree '
        '(element errors on ISA/GS/ST/SE/GE/IEA included); errors of the interchange / group / set levels (isa_error, gs_error, st_error) '
        'and errors the error handler itself dropped are recorded but not claimed',
        '"next to": among the error lines between the previous and the following segment line; duplicates and extra lines are allowed',
        'escaping is claimed for every character of the segment text and for the & < > of a message that were copied from an element value, '
        'the segment id or the reported bad value; quotes and blanks may be written literally or as entities; a message must not contain '
        'anything html.parser takes for a tag',
        'segment texts are compared up to empty trailing elements / components (X12 does not distinguish them)',
        'documents on which validation without an HTML sink raises are skipped (the property quantifies over completing validations)',
    ]
    return chk.finish()


if __name__ == '__main__':
    vlib.main_wrapper(run)
