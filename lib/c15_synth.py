"""C15 helper: writes a small pyx12 map world (map files, dataele.xml, codes.xml) for given definitions.

The definitions come from TLC (ElemValidGen emits the definition classes).  The files are written to a scratch
directory and loaded by the real pyx12.map_if.load_map_file(map_file, param, map_path=<dir>); the definitions the
checks use afterwards are read back from these files by c15_defs (our own XML reading), exactly as for shipped maps.

element class : {'u','t','mn','mx','ck' (none|inline|ext|both),'rk' (none|always|never),'iv','codes','member'}
composite class: {'u','kids': [{'u','t','mn','mx','codes'}]}
"""
import os
from xml.sax.saxutils import escape

PER_SEGMENT = 40
RX = {'always': '.', 'never': 'QQQQ'}


def ekey(c):
    return (c['u'], c['t'], c['mn'], c['mx'], c['ck'], c['rk'], c['iv'])


def ckey(c):
    return (c['u'],) + tuple(k['u'] for k in c['kids'])


def map_name(iv):
    return 'SYN%s.xml' % iv


def ext_id(t):
    return 'x_' + t


def _num(t, mn, mx):
    return 'T%s_%d_%d' % (t, mn, mx)


def _element(xid, num, usage, seq, codes=(), ext=None, regex=None, indent='        '):
    out = ['%s<element xid="%s">' % (indent, xid), '%s  <data_ele>%s</data_ele>' % (indent, num),
           '%s  <name>%s</name>' % (indent, xid), '%s  <usage>%s</usage>' % (indent, usage), '%s  <seq>%02d</seq>' % (indent, seq)]
    if codes or ext:
        out.append('%s  <valid_codes%s>' % (indent, ' external="%s"' % ext if ext else ''))
        for c in codes:
            out.append('%s    <code>%s</code>' % (indent, escape(c)))
        out.append('%s  </valid_codes>' % indent)
    if regex:
        out.append('%s  <regex>%s</regex>' % (indent, escape(regex)))
    out.append('%s</element>' % indent)
    return out


def write_world(dirpath, eclasses, cclasses):
    """-> {'maps': [file names], 'eplace': {ekey: (file, segment xid, seq)}, 'cplace': {ckey: (file, segment xid, seq)}}"""
    types = {('AN', 1, 15): 'TISA'}
    sets = {}
    for c in eclasses:
        types[(c['t'], c['mn'], c['mx'])] = _num(c['t'], c['mn'], c['mx'])
        if c['ck'] in ('ext', 'both'):
            sets.setdefault(ext_id(c['t']), set()).add(c['member'])
    for c in cclasses:
        for k in c['kids']:
            types[(k['t'], k['mn'], k['mx'])] = _num(k['t'], k['mn'], k['mx'])
    with open(os.path.join(dirpath, 'dataele.xml'), 'w') as f:
        f.write('<?xml version="1.0" encoding="utf-8"?>\n<data_elements>\n')
        for (t, mn, mx), num in sorted(types.items()):
            f.write('  <data_ele ele_num="%s" data_type="%s" min_len="%d" max_len="%d" name="%s"/>\n' % (num, t, mn, mx, num))
        f.write('</data_elements>\n')
    with open(os.path.join(dirpath, 'codes.xml'), 'w') as f:
        f.write('<?xml version="1.0" encoding="UTF-8"?>\n<codesets>\n')
        for sid in sorted(sets):
            f.write('  <codeset>\n    <id>%s</id>\n    <name>%s</name>\n    <data_ele>0</data_ele>\n    <version>\n' % (sid, sid))
            for m in sorted(sets[sid]):
                f.write('      <code>%s</code>\n' % escape(m))
            f.write('    </version>\n  </codeset>\n')
        f.write('</codesets>\n')
    ivs = sorted(set(c['iv'] for c in eclasses) | set(['00401']))
    eplace, cplace = {}, {}
    maps = []
    for iv in ivs:
        mine = [c for c in eclasses if c['iv'] == iv]
        lines = ['<?xml version="1.0"?>', '<transaction xid="SYN">', '  <name>generated definitions %s</name>' % iv,
                 '  <loop xid="ISA_LOOP" type="explicit">', '    <name>interchange</name>', '    <usage>R</usage>', '    <pos>001</pos>',
                 '    <repeat>&gt;1</repeat>', '    <segment xid="ISA">', '      <name>header</name>', '      <usage>R</usage>',
                 '      <pos>010</pos>', '      <max_use>1</max_use>']
        for i in range(1, 13):
            lines += _element('ISA%02d' % i, 'TISA', 'R', i, codes=[iv] if i == 12 else (), indent='      ')
        lines += ['    </segment>', '    <loop xid="BODY" type="explicit">', '      <name>body</name>', '      <usage>R</usage>',
                  '      <pos>020</pos>', '      <repeat>&gt;1</repeat>']
        nseg = 0

        def open_seg():
            return ['      <segment xid="Z%02d">' % nseg, '        <name>Z%02d</name>' % nseg, '        <usage>S</usage>',
                    '        <pos>%03d</pos>' % (10 * (nseg + 1)), '        <max_use>1</max_use>']
        for lo in range(0, len(mine), PER_SEGMENT):
            lines += open_seg()
            for j, c in enumerate(mine[lo:lo + PER_SEGMENT]):
                ext = ext_id(c['t']) if c['ck'] in ('ext', 'both') else None
                lines += _element('Z%02d%02d' % (nseg, j + 1), _num(c['t'], c['mn'], c['mx']), c['u'], j + 1, codes=c['codes'], ext=ext,
                                  regex=RX.get(c['rk']))
                eplace[ekey(c)] = (map_name(iv), 'Z%02d' % nseg, j + 1)
            lines.append('      </segment>')
            nseg += 1
        if iv == '00401':
            for lo in range(0, len(cclasses), PER_SEGMENT):
                lines += open_seg()
                for j, c in enumerate(cclasses[lo:lo + PER_SEGMENT]):
                    lines += ['        <composite xid="Z%02d%02d">' % (nseg, j + 1), '          <data_ele>C000</data_ele>',
                              '          <name>composite</name>', '          <usage>%s</usage>' % c['u'], '          <seq>%02d</seq>' % (j + 1)]
                    for m, k in enumerate(c['kids']):
                        lines += _element('Z%02d%02d-%02d' % (nseg, j + 1, m + 1), _num(k['t'], k['mn'], k['mx']), k['u'], m + 1,
                                          codes=k['codes'], indent='          ')
                    lines.append('        </composite>')
                    cplace[ckey(c)] = (map_name(iv), 'Z%02d' % nseg, j + 1)
                lines.append('      </segment>')
                nseg += 1
        lines += ['    </loop>', '  </loop>', '</transaction>']
        with open(os.path.join(dirpath, map_name(iv)), 'w') as f:
            f.write('\n'.join(lines) + '\n')
        maps.append(map_name(iv))
    return {'maps': maps, 'eplace': eplace, 'cplace': cplace, 'sets': sorted(sets)}
