"""Independent export of the shipped implementation-guide maps into JSON constants for TLC.

Reads /repo/pyx12/map/*.xml of the CURRENT working tree with xml.etree only (pyx12 is not imported), so the
pyx12 loader is checked against this export and not trusted by it.  Two files per map:
  <name>.json       node skeleton for TLC (no nulls): nodes[n] = [n, kind, id, parent, pos, usage, rep, path,
                    kids (loader order: by position, loops before segments within a position, XML order inside),
                    quals (the conjunction of qualifier tests is_match applies), wrapper, comps]
  <name>.full.json  the same plus element definitions and syntax notes (for the concretiser / fault injector)
"""
import json
import os
import sys
import xml.etree.ElementTree as et

sys.path.insert(0, os.path.dirname(os.path.abspath(__file__)))
import vlib

MAPDIR = os.path.join(vlib.REPO, 'pyx12', 'map')


def attr(e, k):
    v = e.get(k)
    return v if v else e.findtext(k)


_DE = None
_EXT = None


def dataele():
    global _DE
    if _DE is None:
        _DE = {}
        for e in et.parse(os.path.join(MAPDIR, 'dataele.xml')).iter('data_ele'):
            _DE[e.get('ele_num')] = dict(t=e.get('data_type'), mn=int(e.get('min_len')), mx=int(e.get('max_len')))
    return _DE


def extcodes():
    global _EXT
    if _EXT is None:
        _EXT = {}
        for cs in et.parse(os.path.join(MAPDIR, 'codes.xml')).iter('codeset'):
            _EXT[cs.findtext('id')] = [c.text for c in cs.iterfind('version/code') if c.text]
    return _EXT


def index_entries():
    out = []
    t = et.parse(os.path.join(MAPDIR, 'maps.xml'))
    for v in t.iter('version'):
        for m in v.iterfind('map'):
            out.append(dict(icvn=v.get('icvn'), vriic=m.get('vriic'), fic=m.get('fic'), tspc=m.get('tspc') or '', file=m.text.strip(), abbr=m.get('abbr') or ''))
    return out


def ele_def(e):
    DE = dataele()
    v = e.find('valid_codes')
    codes = [c.text for c in v.findall('code')] if v is not None else []
    de = attr(e, 'data_ele')
    rx = e.find('regex')
    return dict(id=e.get('xid') or '', usage=attr(e, 'usage') or '', seq=int(attr(e, 'seq')), de=de or '',
                dtype=(DE[de]['t'] if de in DE else '?'), mn=(DE[de]['mn'] if de in DE else 0), mx=(DE[de]['mx'] if de in DE else 0),
                codes=[c for c in codes if c is not None], ext=(v.get('external') or '') if v is not None else '',
                regex=(rx.text or '') if rx is not None else '', repeat=attr(e, 'repeat') or '')


def export(fn):
    root = et.parse(os.path.join(MAPDIR, fn)).getroot()
    nodes = []

    def add(kind, e, parent):
        nid = len(nodes) + 1
        n = dict(n=nid, kind=kind, id=e.get('xid'), parent=parent, pos=int(attr(e, 'pos')), usage=attr(e, 'usage') or '',
                 wrapper=(e.get('type') == 'wrapper'), rep=-1, path='', kids=[], quals=[], name=attr(e, 'name') or '')
        nodes.append(n)
        return n

    def maxrep(v):
        if v is None or v in ('>1', '&gt;1'):
            return -1
        return int(v)

    def quals_of(n):
        el = n['eles']
        out = []
        if not el:
            return out
        e0 = el[0]
        if e0['k'] == 'e' and e0['dtype'] == 'ID' and e0['usage'] == 'R' and e0['codes']:
            out.append(dict(k='01', codes=e0['codes']))
        if n['id'] == 'ENT' and len(el) > 1 and el[1]['k'] == 'e' and el[1]['dtype'] == 'ID' and el[1]['codes']:
            out.append(dict(k='02', codes=el[1]['codes']))
        if n['id'] == 'CTX' and e0['k'] == 'c' and e0['subs'] and e0['subs'][0]['dtype'] == 'AN' and e0['subs'][0]['codes']:
            out.append(dict(k='01-1', codes=e0['subs'][0]['codes']))
        if e0['k'] == 'c' and e0['subs'] and e0['subs'][0]['dtype'] == 'ID' and e0['subs'][0]['codes']:
            out.append(dict(k='01-1', codes=e0['subs'][0]['codes']))
        if n['id'] == 'HL' and len(el) > 2 and el[2]['k'] == 'e' and el[2]['codes']:
            out.append(dict(k='03', codes=el[2]['codes']))
        return out

    def guess(n):
        el = n['eles']
        if not el:
            return None
        e0 = el[0]
        if e0['k'] == 'e' and e0['dtype'] == 'ID' and e0['codes']:
            return e0['codes'][0]
        if n['id'] == 'ENT' and len(el) > 1 and el[1]['k'] == 'e' and el[1]['dtype'] == 'ID' and el[1]['codes']:
            return el[1]['codes'][0]
        if e0['k'] == 'c' and e0['subs'] and e0['subs'][0]['dtype'] == 'ID' and e0['subs'][0]['codes']:
            return e0['subs'][0]['codes'][0]
        if n['id'] == 'HL' and len(el) > 2 and el[2]['k'] == 'e' and el[2]['codes']:
            return el[2]['codes'][0]
        return None

    def build(e, parent, ppath, is_root):
        loop_elems = e.findall('loop')
        segs_e = e.findall('segment')
        loops = [add('loop', c, parent) for c in loop_elems]
        segs = [add('seg', c, parent) for c in segs_e]
        for n, c in zip(loops, loop_elems):
            n['rep'] = maxrep(attr(c, 'repeat'))
            n['path'] = ppath + '/' + n['id']
        for n, c in zip(segs, segs_e):
            n['rep'] = maxrep(attr(c, 'max_use'))
            ch = {}
            for x in c.findall('element'):
                ch[int(attr(x, 'seq'))] = ('e', x)
            for x in c.findall('composite'):
                ch[int(attr(x, 'seq'))] = ('c', x)
            n['eles'] = []
            n['syntax'] = [x.text for x in c.findall('syntax') if x.text]
            for k in sorted(ch):
                t, x = ch[k]
                if t == 'e':
                    n['eles'].append(dict(k='e', **ele_def(x)))
                else:
                    n['eles'].append(dict(k='c', id=x.get('xid') or '', usage=attr(x, 'usage') or '', seq=int(attr(x, 'seq')), de=attr(x, 'data_ele') or '',
                                          subs=[ele_def(s) for s in sorted(x.findall('element'), key=lambda s: int(attr(s, 'seq')))]))
            n['quals'] = quals_of(n)
        allk = loops + segs
        order = sorted(range(len(allk)), key=lambda i: (allk[i]['pos'], i))
        kids = [allk[i] for i in order]
        bypos = {}
        for k in kids:
            bypos.setdefault(k['pos'], []).append(k)
        for k in kids:
            if k['kind'] == 'seg':
                suffix = ''
                if not is_root and len(bypos[k['pos']]) > 1:       # only loop_if adjusts paths, not the map root
                    g = guess(k)
                    if g is not None:
                        suffix = '[' + g + ']'
                k['path'] = ppath + '/' + k['id'] + suffix
        # XML document order of the children (used by the document generator: position, ties by document order)
        docorder = {id(c): i for i, c in enumerate(list(e))}
        xml_kids = sorted(range(len(allk)), key=lambda i: (allk[i]['pos'], docorder[id((loop_elems + segs_e)[i])]))
        for n, c in zip(loops, loop_elems):
            n['kids'], n['maporder'] = build(c, n['n'], n['path'], False)
        return [k['n'] for k in kids], [allk[i]['n'] for i in xml_kids]

    rootkids, rootorder = build(root, 0, '', True)
    full = []
    for n in nodes:
        full.append(dict(n=n['n'], kind=n['kind'], id=n['id'], parent=n['parent'], pos=n['pos'], usage=n['usage'], rep=n['rep'], path=n['path'],
                         kids=n.get('kids', []), maporder=n.get('maporder', []), quals=n['quals'], wrapper=n['wrapper'], name=n['name'],
                         eles=n.get('eles', []), syntax=n.get('syntax', []), comps=[c for c in n['path'].split('/') if c]))
    return dict(xid=root.get('xid') or '', file=fn, rootkids=rootkids, rootorder=rootorder, nodes=full)


def write(fn, outdir):
    m = export(fn)
    p_full = os.path.join(outdir, fn + '.full.json')
    p = os.path.join(outdir, fn + '.json')
    with open(p_full, 'w') as f:
        json.dump(vlib.tla_safe(m), f)
    skel = dict(m)
    skel['nodes'] = [{k: v for k, v in n.items() if k not in ('eles', 'syntax', 'name')} for n in m['nodes']]
    with open(p, 'w') as f:
        json.dump(vlib.tla_safe(skel), f)
    return p, p_full, m


if __name__ == '__main__':
    out = sys.argv[2] if len(sys.argv) > 2 else '.'
    p, pf, m = write(sys.argv[1], out)
    print(p, len(m['nodes']), 'nodes')
