"""C10 - the tree editing API obeys its read/write/insert/delete/copy laws.

spec -> code : TLC explores spec/TreeEdit.tla (every history of <= N mutating calls from small real trees, breadth
               first; random histories of all calls on the trees of the suite's documents with -simulate), checking the
               laws of the property as invariants / action properties of the model.  Every emitted history carries the
               acceptable return values and the expected forest + serialisation after each call and is replayed on a
               REAL tree obtained from pyx12.x12context.X12ContextReader.
code -> spec : seeded random call histories (all API calls, valid and invalid paths) and the README / test-suite usage
               patterns are executed on real trees and recorded (call, arguments, result, projected tree,
               iterate_segments()); the read-only calls are additionally observed on every distinct forest reached by
               the exhaustive replay.  TLC validates every record against the definitions (spec/T_TreeEdit.tla).
"""
import hashlib
import json
import os
import random
import re
import shutil
import sys

sys.path.insert(0, os.path.dirname(os.path.abspath(__file__)))
import vlib
from vlib import tlc_must_pass, Check
import c10_world as W

NONE = W.NONE
PID = 'C10'


def run_tlc(module, cfg, env=None, **kw):
    """TLC through vlib.run_tlc; the check consists of many short single-worker runs: keep the JIT cheap"""
    e = {'JAVA_TOOL_OPTIONS': '-XX:TieredStopAtLevel=1'}
    e.update(env or {})
    return vlib.run_tlc(module, cfg, env=e, **kw)


# ------------------------------------------------------------------ alphabets (inputs only, no expectations)
def _path(ups, loops, seg=None, qual=None, ele=0, sub=0):
    return {'ups': ups, 'loops': list(loops), 'seg': seg or NONE, 'qual': qual or NONE, 'ele': ele, 'sub': sub}


def path_text(p):
    t = '../' * p['ups'] + '/'.join(p['loops'])
    if p['seg'] != NONE:
        t += ('/' if p['loops'] else '') + p['seg']
        if p['qual'] != NONE:
            t += '[%s]' % p['qual']
    if p['ele']:
        t += '%02d' % p['ele']
        if p['sub']:
            t += '-%d' % p['sub']
    return t


_RE_LAST = re.compile(r'^([A-Z][A-Z0-9]{1,2})?(?:\[([A-Z0-9]+)\])?([0-9]{2})?(?:-([0-9]+))?$')


def parse_curated(text):
    """text of a curated alphabet path -> path record (TreeEdit re-checks it against PathDef!Parse with an ASSUME)"""
    ups = 0
    while text.startswith('../'):
        ups += 1
        text = text[3:]
    comps = text.split('/') if text else []
    p = _path(ups, comps)
    if comps:
        m = _RE_LAST.match(comps[-1])
        if m:
            p = _path(ups, comps[:-1], m.group(1), m.group(2), int(m.group(3) or 0), int(m.group(4) or 0))
    assert path_text(p) == '../' * ups + text, (text, p)
    return p


def curated_alpha(fx, vals):
    return {'qpaths': [parse_curated(t) for t in fx.spec['qpaths']], 'gpaths': [parse_curated(t) for t in fx.spec['gpaths']],
            'vals': list(vals), 'segs': fx.adds, 'es': [[2, 0]]}


def used_types(fx):
    """map types that occur in the fixture tree or are named by the offered segments: {type index: set of codes seen}"""
    mn = fx.mapnodes
    used = {}
    for n in fx.init:
        if n['k'] == 'dead':
            continue
        m = mn[n['mn'] - 1]
        code = None
        if n['k'] == 'seg' and m['qe'] and len(n['eles']) >= m['qe']:
            comp = n['eles'][m['qe'] - 1]
            code = comp[m['qc'] - 1] if m['qc'] and len(comp) >= m['qc'] else comp[0]
        used.setdefault(n['mn'], set())
        if code:
            used[n['mn']].add(code)
    changed = True
    while changed:
        changed = False
        for li in [i for i in list(used) if mn[i - 1]['kind'] == 'loop']:
            for sd in fx.adds:
                for k in mn[li - 1]['kids']:
                    m = mn[k - 1]
                    tgt = mn[m['kids'][0] - 1] if m['kind'] == 'loop' and m['kids'] else m
                    if tgt['kind'] != 'seg' or tgt['id'] != sd['id']:
                        continue
                    code = None
                    if tgt['qe']:
                        comp = sd['eles'][tgt['qe'] - 1] if len(sd['eles']) >= tgt['qe'] else ['']
                        code = comp[tgt['qc'] - 1] if tgt['qc'] and len(comp) >= tgt['qc'] else comp[0]
                        if code not in tgt['codes']:
                            continue
                    for idx in ([k, m['kids'][0]] if m['kind'] == 'loop' else [k]):
                        if idx not in used:
                            used[idx] = set()
                            changed = True
                    if code and code not in used[m['kids'][0] if m['kind'] == 'loop' else k]:
                        used[m['kids'][0] if m['kind'] == 'loop' else k].add(code)
                        changed = True
    return used


def make_alpha(fx, depth, es_list, vals, nbad, maxq=90, maxg=120):
    mn = fx.mapnodes
    used = used_types(fx)
    qp = {}

    def below(li, loops, d):
        for k in mn[li - 1]['kids']:
            if k not in used:
                continue
            m = mn[k - 1]
            if m['kind'] == 'seg':
                yield _path(0, loops, m['id'])
                for c in sorted(used[k]):
                    yield _path(0, loops, m['id'], c)
                if m['qe'] and m['codes']:
                    other = [c for c in m['codes'] if c not in used[k]]
                    if other:
                        yield _path(0, loops, m['id'], other[0])
            else:
                yield _path(0, loops + [m['id']])
                if d > 1:
                    for p in below(k, loops + [m['id']], d - 1):
                        yield p

    for li in [i for i in used if mn[i - 1]['kind'] == 'loop']:
        for p in below(li, [], depth):
            for ups in (0, 1, 2):
                if ups == 2 and len(p['loops']) > 0:
                    continue
                q = dict(p, ups=ups)
                qp.setdefault(path_text(q), q)
    segids = sorted(set(mn[i - 1]['id'] for i in used if mn[i - 1]['kind'] == 'seg'))
    unq = [mn[i - 1]['id'] for i in sorted(used) if mn[i - 1]['kind'] == 'seg' and not mn[i - 1]['qe']]
    qual = [mn[i - 1]['id'] for i in sorted(used) if mn[i - 1]['kind'] == 'seg' and mn[i - 1]['qe']]
    loopids = sorted(set(mn[i - 1]['id'] for i in used if mn[i - 1]['kind'] == 'loop'))
    bad = [_path(0, [], 'ZZZ'), _path(0, ['2999']), _path(1, [], 'ZZZ'), _path(0, [loopids[-1]], 'ZZZ'),
           _path(0, ['2999'], segids[0]), _path(4, [], segids[0]), _path(0, [])]
    if unq:
        bad.append(_path(0, [], unq[0], 'XX'))
    if qual:
        bad.append(_path(0, [], qual[0], 'QQ'))
    for q in bad[:nbad]:
        qp.setdefault(path_text(q), q)
    gp = {}
    for q in list(qp.values()):
        if q['seg'] == NONE:
            continue
        for e, s in es_list:
            g = dict(q, ele=e, sub=s)
            gp.setdefault(path_text(g), g)
    for e, s in es_list:                      # reference designators without a segment id (segment handles)
        g = _path(0, [], None, None, e, s)
        gp.setdefault(path_text(g), g)
    if nbad:
        g = _path(0, [], segids[0])            # get_value without an element index
        gp.setdefault(path_text(g), g)
    rnd = random.Random(vlib.seed() + 10)
    qs, gs = [qp[k] for k in sorted(qp)], [gp[k] for k in sorted(gp)]
    if len(qs) > maxq:
        qs = rnd.sample(qs, maxq)
    if len(gs) > maxg:
        gs = rnd.sample(gs, maxg)
    return {'qpaths': qs, 'gpaths': gs, 'vals': list(vals), 'segs': fx.adds, 'es': [list(x) for x in es_list]}


def write_frag(d, fx, alpha, inits=None, tag=''):
    path = os.path.join(d, 'frag_%s_%s.json' % (fx.name, tag))
    vlib.write_json(path, {'mapnodes': fx.mapnodes, 'inits': inits or [fx.init], 'alpha': alpha})
    return path


# ------------------------------------------------------------------ violation signatures
ADD_OPS = ('add_segment', 'add_loop', 'add_node')
NOSD = {'id': '', 'eles': []}


def has_tombstone(node):
    for c in getattr(node, 'children', None) or []:
        if c.type is None or has_tombstone(c):
            return True
    return False


def _perm_node(exp, obs):
    """children lists (expected, observed) of the first node whose children are the expected ones in another order"""
    if len(exp) == len(obs):
        for a, b in zip(exp, obs):
            if a['ch'] != b['ch'] and sorted(a['ch']) == sorted(b['ch']):
                return a['ch'], b['ch']
    return [], []


def _place(st, expch, obsch):
    """where the new child was expected / observed among its siblings"""
    if not expch:
        return ''
    n = st['a'] if st['op'] == 'add_node' else max(expch)
    if n not in expch or n not in obsch:
        return ''

    def cls(ch):
        i = ch.index(n)
        return 'first' if i == 0 else ('last' if i == len(ch) - 1 else 'middle')
    return 'expected_%s_observed_%s' % (cls(expch), cls(obsch))


def tree_sig(st, fld, expch, obsch, ret, tomb):
    """fld: first differing field of the first differing node (W.forest_diff / T_TreeEdit!DiffField)"""
    sig = {'clause': 'tree', 'op': st['op'], 'field': fld, 'ret_x': ret['x']}
    if st['op'] == 'copy':
        sig['tomb'] = bool(tomb)
    if st['op'] in ADD_OPS and fld == 'ch':
        sig['place'] = _place(st, expch, obsch)
    return sig


def ret_sig(clause, st, hk, ret, exp_ret):
    sig = {'clause': clause, 'op': st['op'], 'handle': hk, 'ret_x': ret['x'] or '|'.join(x for x in ret['xs'] if x)}
    if st['op'] in ('query', 'get', 'set', 'delete_node'):
        sig['ups'] = st['path'].startswith('../')
    if st['op'] == 'query' and exp_ret:
        names = {'b': 'exists', 'n': 'count', 'm': 'first', 's': 'select'}
        sig['q'] = ','.join(names[k] for k in ('b', 'n', 'm', 's') if ret[k] != exp_ret[k])
    return sig


def handle_kind(forest, st):
    h = st.get('h', 0)
    if forest and 1 <= h <= len(forest):
        return forest[h - 1]['k']
    return '?'


def call_text(st):
    op = st['op']
    if op in ('get', 'query', 'delete_node'):
        return '%s(%r)' % ({'get': 'get_value', 'query': 'exists/count/first/select'}.get(op, op), st['path'])
    if op == 'set':
        return 'set_value(%r, %r)' % (st['path'], st['v'])
    if op in ('add_segment', 'add_loop', 'delete_segment'):
        return '%s(%r)' % (op, W.sd_text(st['sd']))
    if op == 'add_node':
        return 'add_node(node %d)' % st['a']
    return op + '()'


def short_ret(r):
    if r.get('xs'):
        return {'exc': r['xs'], 'exists': r['b'], 'count': r['n'], 'first': r['m'], 'select': r['s']}
    return {k: v for k, v in r.items() if v not in ('', False, 0, [], None) or k == 'x'}


# ------------------------------------------------------------------ spec -> code: replay of TLC histories
class Observer(object):
    """read-only calls observed on every distinct forest reached by the replay (validated by T_TreeEdit afterwards)"""

    def __init__(self, alpha, cap):
        self.alpha = alpha
        self.cap = cap
        self.seen = set()
        self.items = []

    def visit(self, world, forest):
        if len(self.seen) >= self.cap:
            return
        key = json.dumps(forest, sort_keys=True)
        if key in self.seen:
            return
        self.seen.add(key)
        recs = []
        for h, n in enumerate(forest, 1):
            if n['k'] == 'dead':
                continue
            for op, paths in (('query', self.alpha['qpaths']), ('get', self.alpha['gpaths'])):
                for p in paths:
                    st = {'h': h, 'op': op, 'path': path_text(p), 'sd': NOSD, 'v': '', 'a': 0}
                    st['ret'] = world.call(st)
                    recs.append(st)
        self.items.append({'f': forest, 'recs': recs, 'same': world.project() == forest})


class Sink(object):
    """violations collected in a worker process: one example + the number of occurrences per distinct signature"""

    def __init__(self):
        self.by_sig = {}

    def violation(self, sig, desc, rep):
        key = json.dumps(sig, sort_keys=True)
        if key in self.by_sig:
            self.by_sig[key][3] += 1
        else:
            self.by_sig[key] = [sig, desc, rep, 1]

    @property
    def items(self):
        return [tuple(v) for v in self.by_sig.values()]


def report(chk, items):
    for sig, desc, rep, count in items:
        for _ in range(count):
            if chk.violation(sig, desc, rep):
                break                                   # a new violation: one entry per signature is enough


_CPU_MAX = [0.0]          # largest CPU time one history took in this process (evidence: distance to the budget)
_TASK_MAX = [0.0]         # largest CPU time the histories of one task took in this process
_SLOWEST = [0.0, None]    # of the current task: CPU time and replay object of its slowest history


def _account(b, rep_obj):
    """after a history ran under budget b"""
    _CPU_MAX[0] = max(_CPU_MAX[0], b.cpu)
    _TASK_MAX[0] = max(_TASK_MAX[0], W.Budget.task_spent)
    if b.cpu >= _SLOWEST[0]:
        _SLOWEST[0], _SLOWEST[1] = b.cpu, rep_obj


def _skip(sink, fx):
    """True if the next history of this task must not be executed any more (reported once per task)"""
    if W.gave_up():
        return True
    if W.task_over():
        if not W.Budget.task_reported:
            W.Budget.task_reported = True
            rep_obj = _SLOWEST[1] or {'kind': 'obs', 'fixture': fx.name, 'forest': []}
            sink.violation({'clause': 'no_termination', 'op': 'task'},
                           '%s: the histories of one task have used more than %g s of CPU time on the real code (every one below the '
                           'budget of %g s per history, the slowest so far %.1f s; ordinary histories need < 0.5 s): the real code '
                           'gets slower from history to history and the rest of the task is not executed'
                           % (fx.name, W.TASK_CPU, W.HIST_CPU, _SLOWEST[0]), dict(rep_obj, clause='no_termination'))
            W.give_up()
        return True
    return False


def replay_history(sink, fx, hist, observer=None, src='bfs', reread=False, verbose=False):
    """_replay_history under the per-history CPU / memory budget of c10_world.Budget: a history on which the real code does not
    come back is a violation (clause no_termination), not a hang of the check.  Returns the number of calls executed,
    -1 if the history was not executed because this worker process has given up (c10_world.gave_up)."""
    if _skip(sink, fx):
        return -1
    pos = {'k': 0}
    b = W.Budget()
    try:
        with b:
            return _replay_history(sink, fx, hist, observer, src, reread, verbose, pos)
    except (W.NoTermination, MemoryError) as e:
        k = pos['k']
        st = hist[k] if 1 <= k < len(hist) else None
        what = ('%s on node %d' % (call_text(st), st['h'])) if st else 'building the initial tree'
        sink.violation({'clause': 'no_termination', 'op': st['op'] if st else 'setup'},
                       '%s: history %s: the real code does not come back at step %d (%s, or the projection / iterate_segments() of '
                       'the tree after it): %s' % (fx.name, [call_text(x) for x in hist[1:]], k, what, W.why(e)),
                       {'kind': 'hist', 'fixture': fx.name, 'hist': hist, 'step': k, 'src': src, 'clause': 'no_termination'})
        return k
    finally:
        _account(b, {'kind': 'hist', 'fixture': fx.name, 'hist': hist, 'step': max(pos['k'], 1), 'src': src})


def _replay_history(sink, fx, hist, observer, src, reread, verbose, pos):
    """execute one TLC history on a real tree, comparing after every call; returns the number of calls executed"""
    world = fx.fresh_world(reread=reread)
    cur = fx.init
    cur_ser = world.serialise(cur)
    if observer is not None:
        observer.visit(world, cur)
    nsteps = 0
    for k, st in enumerate(hist[1:], 1):
        nsteps += 1
        pos['k'] = k
        tomb = has_tombstone(world.objs[st['h']]) if st['op'] == 'copy' else False
        ret = world.call(st, k + len(hist) + st['h'])
        obs = world.project()
        obs_ser = world.serialise(obs)
        exp = st['f'] if st['chg'] else cur
        exp_ser = st['ser'] if st['chg'] else cur_ser
        hk = handle_kind(cur, st)
        rep = {'kind': 'hist', 'fixture': fx.name, 'hist': hist, 'step': k, 'src': src}
        if verbose:
            print('  step %d node %d (%s) %s -> %s ; accepted %s' % (k, st['h'], hk, call_text(st), short_ret(ret),
                                                                   'anything' if st['free'] else [short_ret(r) for r in st['rets']]))
        if obs != exp:
            sig = tree_sig(st, W.forest_diff(exp, obs), *_perm_node(exp, obs), ret, tomb)
            sink.violation(sig, '%s: %s on node %d (%s): the tree after the call differs from the specification in `%s` %s'
                           '(returned %s, accepted %s)' % (fx.name, call_text(st), st['h'], hk, sig['field'], sig.get('place', ''),
                                                          short_ret(ret), [short_ret(r) for r in st['rets']]), rep)
            return nsteps
        if not st['free'] and ret not in st['rets']:
            sink.violation(ret_sig('ret', st, hk, ret, st['rets'][0]),
                           '%s: %s on node %d (%s) returned %s, the specification accepts %s'
                           % (fx.name, call_text(st), st['h'], hk, short_ret(ret), [short_ret(r) for r in st['rets']]), rep)
        if obs_ser != exp_ser:
            sink.violation({'clause': 'serialisation', 'op': st['op']},
                           '%s: %s: iterate_segments() gives %s, expected %s' % (fx.name, call_text(st), obs_ser, exp_ser), rep)
            return nsteps
        cur, cur_ser = exp, exp_ser
        if observer is not None and st['chg']:
            observer.visit(world, cur)
    return nsteps


_FX = {}


def fixture(name):
    if name not in _FX:
        _FX[name] = W.Fixture(name)
    return _FX[name]


CFG = ('SPECIFICATION Spec\nCONSTANTS Mode = "%s"\n MaxHist = %d\n MaxNodes = %d\n AllowCopy = %s\n Part = %d\n NParts = %d\n NSub = %d\n'
       'INVARIANT Shape\nINVARIANT QueryAgree\nPROPERTY SetGet\nPROPERTY DeleteExact\nPROPERTY InsertOrder\n'
       'PROPERTY CopyFresh\nPROPERTY SerReflects\nINVARIANT Emit\n')


def _tlc_part(arg):
    """one TLC run (a part of the exhaustive exploration, or one batch of random histories) + replay of what it emits"""
    name, alpha, frag, mode, maxhist, maxnodes, allow_copy, part, nparts, num, obs_cap = arg
    fx = fixture(name)
    cfg = CFG % (mode, maxhist, maxnodes, 'TRUE' if allow_copy else 'FALSE', part, nparts, 8 if nparts >= 64 else 1)
    if mode == 'bfs':
        res = run_tlc('TreeEdit', cfg, env={'C10_FRAG': frag}, timeout=3000, tag='c10bfs', workers=1, heap='2g')
    else:
        res = run_tlc('TreeEdit', cfg, env={'C10_FRAG': frag}, timeout=3000, simulate='num=%d' % num, depth=maxhist + 1,
                      tag='c10sim', workers=1, heap='2g', tseed=vlib.seed() * 1000 + part + 1)
    label = 'TreeEdit %s %s part %d/%d' % (mode, name, part, nparts)
    tlc_must_pass(res, label)
    hists = res.payloads.get('HIST', [])
    sink = Sink()
    obs = Observer(alpha, obs_cap) if obs_cap else None
    _start_task()
    steps = skipped = 0
    keys = set()
    for i, h in enumerate(hists):
        n = replay_history(sink, fx, h, obs, mode, reread=(i == 0))
        if n < 0:
            skipped += 1
            continue
        steps += n
        keys.add(hashlib.sha1(json.dumps([[st['h'], st['op'], st['path'], st['sd'], st['v'], st['a']] for st in h[1:]]).encode()).hexdigest())
    sample = None
    if hists:
        h = hists[len(hists) // 2]
        sample = {'fixture': name, 'mode': mode, 'calls': ['node %d: %s' % (st['h'], call_text(st)) for st in h[1:]],
                  'accepted_returns': [('any' if st['free'] else [short_ret(r) for r in st['rets']]) for st in h[1:]],
                  'expected_serialisation_at_end': ([st['ser'] for st in h[1:] if st['chg']] or ['unchanged'])[-1]}
    stats = {'distinct': res.distinct, 'generated': res.generated, 'depth': res.depth, 'wall': res.wall}
    return {'viol': sink.items, 'steps': steps, 'obs': obs.items if obs else [], 'nh': len(hists) - skipped, 'keys': keys, 'stats': stats,
            'sample': sample, 'label': label, 'skipped': skipped, 'cpu_max': _CPU_MAX[0], 'task_max': _TASK_MAX[0]}


def explore_tasks(d, name, alpha, mode, maxhist, extra_nodes, allow_copy, nparts, num=0, obs_cap=0):
    """spec -> code for one fixture: TLC generates histories (in nparts independent runs), each is replayed on the real code"""
    fx = fixture(name)
    frag = write_frag(d, fx, alpha, tag='%s%d' % (mode, allow_copy))
    return [('tlc', (name, alpha, frag, mode, maxhist, len(fx.init) + extra_nodes, allow_copy, p, nparts, num,
                     max(1, obs_cap // nparts) if obs_cap else 0)) for p in range(nparts)]


def _cpu():
    t = os.times()
    return t[0] + t[1] + t[2] + t[3]


def _start_task():
    W.start_task()
    _SLOWEST[0], _SLOWEST[1] = 0.0, None


def _task(t):
    c0 = _cpu()
    r = _tlc_part(t[1]) if t[0] == 'tlc' else _record_part(t[1])
    if os.environ.get('C10_PROFILE'):
        print('PROFILE %s %s cpu=%.1f' % (t[0], [x for x in t[1] if isinstance(x, (str, int, bool))][:8], _cpu() - c0), file=sys.stderr)
    return r


def _note_budget(chk, r):
    """evidence: the largest CPU time of one history (budget: c10_world.HIST_CPU) and the histories a worker process did not
    execute after it had seen c10_world.POISON_AFTER histories without end"""
    b = chk.extra.setdefault('termination_guard', {'cpu_budget_per_history_s': W.HIST_CPU, 'max_cpu_of_one_history_s': 0.0,
                                                   'cpu_budget_per_task_s': W.TASK_CPU, 'max_cpu_of_the_histories_of_one_task_s': 0.0,
                                                   'histories_not_executed_after_no_termination': 0})
    b['max_cpu_of_one_history_s'] = round(max(b['max_cpu_of_one_history_s'], r.get('cpu_max', 0.0)), 2)
    b['max_cpu_of_the_histories_of_one_task_s'] = round(max(b['max_cpu_of_the_histories_of_one_task_s'], r.get('task_max', 0.0)), 1)
    b['histories_not_executed_after_no_termination'] += r.get('skipped', 0)


def merge_explore(chk, tasks, results):
    """account for the TLC runs / replays of explore_tasks; returns {fixture: observations per distinct forest}, {fixture: #histories}"""
    groups = {}
    for t, r in zip(tasks, results):
        if t[0] != 'tlc':
            continue
        name, mode, maxhist, allow_copy, nparts = t[1][0], t[1][3], t[1][4], t[1][6], t[1][8]
        g = groups.setdefault((name, mode, maxhist, allow_copy, nparts), {'tot': vlib.TlcResult(), 'nh': 0, 'obs': {}, 'sample': None})
        g['tot'].distinct += r['stats']['distinct']
        g['tot'].generated += r['stats']['generated']
        g['tot'].depth = max(g['tot'].depth, r['stats']['depth'])
        g['tot'].wall = max(g['tot'].wall, r['stats']['wall'])
        g['nh'] += r['nh']
        g['skipped'] = g.get('skipped', 0) + r['skipped']
        _note_budget(chk, r)
        chk.add_eval(r['steps'])
        report(chk, r['viol'])
        for k in r['keys']:
            chk.note_distinct(name + mode + k)
        for it in r['obs']:
            g['obs'].setdefault(json.dumps(it['f'], sort_keys=True), it)
        g['sample'] = g['sample'] or r['sample']
    obs, nhs = {}, {}
    for (name, mode, maxhist, allow_copy, nparts), g in sorted(groups.items()):
        chk.add_tlc(g['tot'], 'TreeEdit %s %s MaxHist=%d copy=%s (%d runs)' % (mode, name, maxhist, allow_copy, nparts))
        chk.add_traces(g['nh'])
        if g['nh'] == 0 and not g.get('skipped'):
            raise vlib.MachineryError('TreeEdit %s %s emitted no history' % (mode, name))
        if g['sample'] and mode == 'sim' and allow_copy is False:
            chk.sample(g['sample'], cap=3)
        if mode == 'bfs':
            obs[name] = list(g['obs'].values())
            nhs[name] = g['nh']
    return obs, nhs


# ------------------------------------------------------------------ code -> spec: recorded executions
def _code_of(m, eles):
    if not m['qe'] or len(eles) < m['qe']:
        return None
    comp = eles[m['qe'] - 1]
    if m['qc']:
        return comp[m['qc'] - 1] if len(comp) >= m['qc'] else None
    return comp[0]


def random_call(fx, proj, rnd, allow_copy):
    """choose the next call (inputs only).  Mutating calls are kept inside the alphabet whose meaning the property fixes."""
    mn = fx.mapnodes
    live = [i for i, n in enumerate(proj, 1) if n['k'] != 'dead']
    loops = [i for i in live if proj[i - 1]['k'] == 'loop']
    h = rnd.choice(loops) if loops and rnd.random() < 0.6 else rnd.choice(live)
    node = proj[h - 1]
    ops = ['query', 'query', 'get', 'get', 'set', 'set', 'delete']
    if node['k'] == 'loop':
        ops += ['add_segment', 'add_segment', 'add_loop', 'delete_segment', 'delete_node', 'delete_node', 'add_node', 'query', 'set']
    if allow_copy:
        ops.append('copy')
    op = rnd.choice(ops)
    st = {'h': h, 'op': op, 'path': '', 'sd': NOSD, 'v': '', 'a': 0}
    if op == 'copy':
        return st
    if op == 'delete':
        return st if h != 1 and rnd.random() < 0.5 else None
    if op in ('add_segment', 'add_loop', 'delete_segment'):
        cands = list(fx.adds)
        for c in node['ch']:
            if proj[c - 1]['k'] == 'seg':
                cands.append({'id': mn[proj[c - 1]['mn'] - 1]['id'], 'eles': proj[c - 1]['eles']})
        if op != 'delete_segment':          # also data found anywhere in the tree
            segs = [n for n in proj if n['k'] == 'seg']
            if segs:
                s = rnd.choice(segs)
                cands.append({'id': mn[s['mn'] - 1]['id'], 'eles': s['eles']})
        sd = rnd.choice(cands)
        t = mn[node['mn'] - 1]
        if op == 'add_segment' and sd['id'] in t['ak']:
            return None
        st['sd'] = sd
        return st
    if op == 'add_node':
        roots = [i for i in live if proj[i - 1]['par'] == 0]
        top = h
        while proj[top - 1]['par']:
            top = proj[top - 1]['par']
        roots = [r for r in roots if r != top]
        if not roots:
            return None
        st['a'] = rnd.choice(roots)
        return st
    # ---- calls with a path
    mutating = op in ('set', 'delete_node')
    anc = []
    x = h
    while proj[x - 1]['par'] > 0:
        x = proj[x - 1]['par']
        anc.append(x)
    ups = rnd.choice([0, 0, 0, 0, 1, 1, 2])
    if ups > len(anc):
        if mutating or rnd.random() < 0.8:
            ups = len(anc)
    if node['k'] == 'seg' and op in ('get', 'set'):
        if op == 'set' or rnd.random() < 0.8:
            ups = 0
    if node['k'] == 'seg' and ups == 0 and op in ('get', 'set'):
        own = mn[node['mn'] - 1]
        e = rnd.randint(1, len(node['eles']) + 1)
        s = rnd.choice([0, 0, 0, 1, 2, 3])
        seg = own['id'] if rnd.random() < 0.4 else None
        if op == 'get' and rnd.random() < 0.1:
            seg = 'ZZZ'
        p = _path(0, [], seg, None, e, s)
        if op == 'set':
            st['v'] = rnd.choice(['v', 'w', 'x1', ''])
            if (e == own['qe'] and not (own['qc'] and s and s != own['qc'])) or (st['v'] == '' and not (e < len(node['eles']) and (s == 0 or s < len(node['eles'][e - 1])))):
                return None
        st['path'] = path_text(p)
        return st
    start = h if ups == 0 else (anc[ups - 1] if ups <= len(anc) else None)
    if start is None or proj[start - 1]['k'] != 'loop':
        # above the root / below a segment: nothing to walk; read-only calls only
        if mutating:
            return None
        p = _path(ups, [], rnd.choice(['CLM', 'REF', 'NM1', 'LX']), None, 2 if op == 'get' else 0, 0)
        st['path'] = path_text(p)
        return st
    want_seg = op in ('get', 'set') or rnd.random() < 0.6
    loops_ids, seg, qual, tgt = [], None, None, None
    if rnd.random() < 0.65:                      # walk the data
        cur = start
        while True:
            lc = [c for c in proj[cur - 1]['ch'] if proj[c - 1]['k'] == 'loop']
            if lc and len(loops_ids) < 3 and rnd.random() < (0.5 if want_seg else 0.75):
                cur = rnd.choice(lc)
                loops_ids.append(mn[proj[cur - 1]['mn'] - 1]['id'])
            else:
                break
        sc = [c for c in proj[cur - 1]['ch'] if proj[c - 1]['k'] == 'seg']
        if want_seg and sc:
            tgt = proj[rnd.choice(sc) - 1]
            m = mn[tgt['mn'] - 1]
            seg = m['id']
            if m['qe'] and rnd.random() < 0.5:
                qual = _code_of(m, tgt['eles']) if rnd.random() < 0.8 else rnd.choice(m['codes'])
        elif want_seg or not loops_ids:
            t = mn[proj[cur - 1]['mn'] - 1]
            if not t['sk']:
                return None
            seg = rnd.choice(sorted(t['sk']))
    else:                                        # walk the map types
        t = mn[proj[start - 1]['mn'] - 1]
        while t['lk'] and len(loops_ids) < 3 and rnd.random() < (0.45 if want_seg else 0.7):
            lid = rnd.choice(sorted(t['lk']))
            loops_ids.append(lid)
            t = mn[t['lk'][lid] - 1]
        if want_seg or not loops_ids:
            if not t['sk']:
                return None
            seg = rnd.choice(sorted(t['sk']))
            types = [mn[i - 1] for i in t['sk'][seg]]
            if all(x['qe'] for x in types) and rnd.random() < 0.5:
                qual = rnd.choice(rnd.choice(types)['codes'])
    if qual is not None and seg is not None:
        # a qualifier is only meaningful when every type of that id in the loop is qualified
        pass
    ele = sub = 0
    if op in ('get', 'set'):
        n_e = len(tgt['eles']) if tgt else 4
        ele = rnd.randint(1, n_e + 1)
        sub = rnd.choice([0, 0, 0, 1, 2, 3])
    p = _path(ups, loops_ids, seg, qual, ele, sub)
    if op == 'delete_node' and rnd.random() < 0.1:   # ids that are no child types / above the root: nothing can be deleted
        k = rnd.choice([0, 1, 3])
        if k == 0:
            p['seg'], p['qual'] = 'ZZZ', NONE
        elif k == 1:
            p['loops'] = ['2999'] + p['loops']
        elif len(anc) < p['ups'] + 3:
            p['ups'] = p['ups'] + 3
    if not mutating and rnd.random() < 0.15:      # invalid variants (read-only calls)
        k = rnd.randint(0, 5)
        if k == 0:
            p['seg'] = 'ZZZ'
        elif k == 1:
            p['loops'] = p['loops'] + ['2999'] if rnd.random() < 0.5 else ['2999'] + p['loops']
        elif k == 2 and p['seg'] != NONE:
            p['qual'] = 'QQ'
        elif k == 3:
            p['ups'] = p['ups'] + 3
        elif k == 4 and op == 'get':
            p['ele'] = 0
            p['sub'] = 0
        elif k == 5 and op == 'query':
            p['ele'] = 2
    if op == 'set':
        st['v'] = rnd.choice(['v', 'w', 'x1', ''])
        segs_same = [n for n in proj if n['k'] == 'seg' and mn[n['mn'] - 1]['id'] == seg]
        types_same = [m for m in mn if m['kind'] == 'seg' and m['id'] == seg]
        if any(m['qe'] == ele and not (m['qc'] and sub and sub != m['qc']) for m in types_same):
            return None
        if st['v'] == '' and not all(ele < len(n['eles']) and (sub == 0 or sub < len(n['eles'][ele - 1])) for n in segs_same):
            return None
    st['path'] = path_text(p)
    if p['seg'] == NONE and not p['loops']:
        st['path'] = '../' * p['ups']
    return st


def record_trace(fx, rnd, nsteps, allow_copy, reread=False, script=None, holder=None):
    holder = holder if holder is not None else {}
    world = fx.fresh_world(reread=reread)
    proj = world.project()
    ser = world.serialise(proj)
    tr = {'fixture': fx.name, 'init': proj, 'ser0': ser, 'events': []}
    holder['tr'] = tr

    def do(st):
        nonlocal proj, ser
        holder['pending'] = st
        tomb = has_tombstone(world.objs[st['h']]) if st['op'] == 'copy' else False
        ret = world.call(st, rnd.randint(0, 3))
        p2 = world.project()
        s2 = world.serialise(p2)
        chg = p2 != proj or s2 != ser
        ev = dict(st, ret=ret, chg=chg, f=p2 if chg else [], ser=s2 if chg else [], tomb=tomb)
        tr['events'].append(ev)
        proj, ser = p2, s2
        return ret
    if script is not None:
        script(do)
        return tr
    tries = 0
    while len(tr['events']) < nsteps and tries < nsteps * 6:
        tries += 1
        st = random_call(fx, proj, rnd, allow_copy)
        if st is not None:
            do(st)
    return tr


def scripted(name):
    """the usage patterns of README.md and of pyx12/test/test_x12context.py as call scripts"""
    def C(h, op, path='', sd=None, v='', a=0):
        return {'h': h, 'op': op, 'path': path, 'sd': W.parse_sd(sd) if sd else NOSD, 'v': v, 'a': a}

    def readme(do):                                    # README: select 2400, read, update, delete something
        for l in do(C(1, 'query', '2400'))['s']:
            do(C(l, 'get', 'SV101'))
            do(C(l, 'set', 'SV102', v='xx'))
            do(C(l, 'get', 'SV102'))
            if do(C(l, 'query', 'PWK'))['b']:
                do(C(l, 'delete_node', 'PWK'))
            do(C(l, 'delete_node', 'DTP[472]'))

    def suite837(do):                                  # TreeGetValue .. NodeDeleteSelf
        for p in ('CLM02', 'CLM99', '2400/SV101', '2400/SV101-2', '2400/REF[6R]02', '2400/2430/SVD02', '2400/AMT[AAE]02',
                  '2400/SV199', '2400', '2400/REF[G1]02', '2400/REF[XX]02'):
            do(C(1, 'get', p))
        l = do(C(1, 'query', '2400'))['m']
        for p in ('../CLM01', '../2310B/NM109', 'AMT[AAE]02', '2430/AMT[AAE]02', '../2310E/NM109'):
            do(C(l, 'get', p))
        clm = do(C(1, 'query', 'CLM'))['m']
        do(C(clm, 'get', '02'))
        do(C(clm, 'get', '05-3'))
        do(C(1, 'set', 'CLM02', v='50'))
        do(C(1, 'get', 'CLM02'))
        do(C(l, 'set', 'AMT[AAE]02', v='25'))
        do(C(l, 'get', 'AMT[AAE]02'))
        for p in ('2400', '2400/SV1', '2310B', '2310B/NM1[82]', '2400/2430', '2400/2430/DTP[573]', '2400/2430/DTP[111]'):
            do(C(1, 'query', p))
        do(C(l, 'query', '../CLM'))
        do(C(1, 'add_segment', sd='HCP*00*7.11'))
        do(C(1, 'add_segment', sd='REF*F5*6.11'))
        do(C(1, 'add_segment', sd='ZZZ*00'))
        do(C(1, 'add_loop', sd='NM1*82*2*Provider 1*****ZZ*9898798'))
        do(C(1, 'query', '2310B'))
        n = do(C(1, 'add_loop', sd='LX*5'))['n']
        do(C(1, 'query', '2400'))
        if n:
            do(C(n, 'query', 'LX'))
        do(C(1, 'delete_segment', sd='CN1*05'))
        do(C(1, 'get', 'CN101'))
        do(C(1, 'delete_segment', sd='HCP*00*7.12'))
        do(C(1, 'get', '2400/LX01'))
        do(C(1, 'delete_node', '2400'))
        do(C(1, 'get', '2400/LX01'))
        do(C(1, 'delete_node', '2500'))
        hi = do(C(1, 'query', 'HI'))['m']
        if hi:
            do(C(hi, 'delete'))
        do(C(1, 'query', 'HI'))

    def suite835(do):                                  # TreeCopy, TreeAddNode
        for c in do(C(1, 'query', '2100'))['s'][:2]:
            for svc in do(C(c, 'query', '2110'))['s']:
                new = do(C(svc, 'copy'))['n']
                if new:
                    do(C(new, 'get', 'SVC02'))
                    do(C(new, 'set', 'SVC02', v='77'))
                    do(C(svc, 'get', 'SVC02'))
                    do(C(c, 'add_node', a=new))
                    do(C(c, 'query', '2110'))
        cn = do(C(1, 'query', '2100/NM1'))['m']
        l = do(C(1, 'query', '2100/2110'))['m']
        if cn and l:
            do(C(l, 'add_node', a=cn))

    return {'b837': [readme, suite837], 'c837': [readme], 'b835': [suite835]}.get(name, [])


def guarded_trace(sink, fx, *a, **kw):
    """record_trace under the per-history budget; None if the real code did not come back (reported through sink) or if
    this worker process has given up"""
    if _skip(sink, fx):
        return None
    holder = {}
    b = W.Budget()
    try:
        with b:
            return record_trace(fx, *a, holder=holder, **kw)
    except (W.NoTermination, MemoryError) as e:
        tr = holder.get('tr') or {'fixture': fx.name, 'init': [], 'ser0': [], 'events': []}
        st = holder.get('pending')
        k = len(tr['events']) + 1
        what = ('%s on node %d' % (call_text(st), st['h'])) if st else 'building the initial tree'
        if st:
            tr = dict(tr, events=tr['events'] + [dict(st, ret={'x': 'no_termination', 'b': False, 'n': 0, 'm': 0, 's': [], 'xs': []},
                                                       chg=False, f=[], ser=[], tomb=False)])
        sink.violation({'clause': 'no_termination', 'op': st['op'] if st else 'setup'},
                       '%s: recorded history: the real code does not come back at step %d (%s, or the projection / '
                       'iterate_segments() of the tree after it): %s' % (fx.name, k, what, W.why(e)),
                       {'kind': 'trace', 'fixture': fx.name, 'trace': tr, 'step': k, 'clause': 'no_termination'})
        return None
    finally:
        tr = holder.get('tr')
        _account(b, {'kind': 'trace', 'fixture': fx.name, 'trace': tr, 'step': len(tr['events'])} if tr else None)


def _record_part(arg):
    name, ntraces, nsteps, part = arg
    fx = fixture(name)
    rnd = random.Random(vlib.seed() * 7919 + part * 104729 + sum(ord(c) for c in name))
    out = []
    sink = Sink()
    _start_task()
    if part == 0:
        for sc in scripted(name):
            out.append(guarded_trace(sink, fx, rnd, 0, True, reread=True, script=sc))
    for t in range(ntraces):
        out.append(guarded_trace(sink, fx, rnd, nsteps, allow_copy=(t % 2 == 0), reread=(t == 0)))
    return {'traces': [t for t in out if t is not None], 'viol': sink.items,
            'skipped': max(0, sum(1 for t in out if t is None) - len([v for v in sink.items if v[0].get('op') != 'task'])),
            'cpu_max': _CPU_MAX[0], 'task_max': _TASK_MAX[0]}


def _validate_part(arg):
    name, frag, path = arg
    c0 = _cpu()
    try:
        return _validate_part2(arg)
    finally:
        if os.environ.get('C10_PROFILE'):
            print('PROFILE val %s cpu=%.1f' % (os.path.basename(path), _cpu() - c0), file=sys.stderr)


def _validate_part2(arg):
    name, frag, path = arg
    res = run_tlc('T_TreeEdit', 'SPECIFICATION Spec\nINVARIANT Report\n', env={'C10_FRAG': frag, 'C10_TRACE': path}, workers=1,
                  timeout=3000, tag='c10tr', heap='2g')
    if res.error or res.violated:
        raise vlib.MachineryError('T_TreeEdit %s: %s' % (name, res.error or res.violated))
    reps = res.payloads.get('REJECTS')
    if not reps:
        raise vlib.MachineryError('T_TreeEdit %s printed no REJECTS report\n%s' % (name, res.out[-1500:]))
    return {'rej': reps[-1]['rej'], 'distinct': res.distinct, 'generated': res.generated, 'depth': res.depth, 'wall': res.wall}


def validation_parts(d, name, traces, obs, label, nparts):
    """code -> spec: files for TLC, which judges every recorded event / observation (independent batches)"""
    fx = fixture(name)
    frag = write_frag(d, fx, {'qpaths': [], 'gpaths': [], 'vals': [], 'segs': [], 'es': []}, tag='val')
    parts = []
    for p in range(nparts):
        tp, op = traces[p::nparts], obs[p::nparts]
        if not tp and not op:
            continue
        path = os.path.join(d, 'trace_%s_%s_%d.json' % (name, label, p))
        texts = {}
        for ev in [e for t in tp for e in t['events']] + [r for o in op for r in o['recs']]:
            ev['pi'] = texts.setdefault(ev['path'], len(texts) + 1)
        vlib.write_json(path, {'paths': sorted(texts, key=texts.get), 'traces': [{'init': t['init'], 'ser0': t['ser0'], 'events': t['events']} for t in tp],
                               'obs': op})
        parts.append({'name': name, 'frag': frag, 'path': path, 'traces': tp, 'obs': op, 'label': label})
    return parts


def merge_validation(chk, parts, out):
    tot = {}
    bad_calls = nev = 0
    new = set()                          # signatures already reported as new violations (one replay file each is enough)

    def vio(sig, desc, rep):
        key = json.dumps(sig, sort_keys=True)
        if key not in new and chk.violation(sig, desc, rep):
            new.add(key)
    for part, r in zip(parts, out):
        name, tp, op = part['name'], part['traces'], part['obs']
        t = tot.setdefault((name, part['label']), [vlib.TlcResult(), 0])
        t[0].distinct += r['distinct']
        t[0].generated += r['generated']
        t[0].wall = max(t[0].wall, r['wall'])
        t[1] += 1
        chk.add_traces(len(tp) + len(op))
        n = sum(len(x['events']) for x in tp) + sum(len(o['recs']) for o in op)
        chk.add_eval(n)
        nev += n
        for rj in r['rej']:
            clause = rj['clause']
            if rj['kind'] == 'trace' and rj['k'] == 0:
                tr = tp[rj['i'] - 1]
                vio({'clause': clause, 'op': 'reader'},
                              '%s: the tree obtained from X12ContextReader.iter_segments(%r) is rejected by the specification: %s '
                              '(children %s)' % (name, fixture(name).loop, clause, [n['ch'] for n in tr['init'] if n['ch']][:4]),
                              {'kind': 'trace', 'fixture': name, 'trace': dict(tr, events=[]), 'step': 0, 'clause': clause})
                continue
            if rj['kind'] == 'trace':
                tr = tp[rj['i'] - 1]
                ev = tr['events'][rj['k'] - 1]
                before = tr['init']
                for e in tr['events'][:rj['k'] - 1]:
                    if e['chg']:
                        before = e['f']
                hk = handle_kind(before, ev)
                rep = {'kind': 'trace', 'fixture': name, 'trace': tr, 'step': rj['k'], 'clause': clause}
                if clause == 'bad_call':
                    bad_calls += 1
                    continue
                if clause in ('tree', 'free_call_changed_tree'):
                    sig = tree_sig(ev, rj['fld'], rj['expch'], rj['obsch'], ev['ret'], ev.get('tomb'))
                    if clause != 'tree':
                        sig['clause'] = clause
                elif clause == 'serialisation':
                    sig = {'clause': 'serialisation', 'op': ev['op']}
                else:
                    sig = ret_sig(clause, ev, hk, ev['ret'], rj['ret'] if clause == 'ret' else None)
                vio(sig, '%s: recorded %s on node %d (%s), step %d of a real history, is rejected by the specification at '
                              'clause `%s`: returned %s%s' % (name, call_text(ev), ev['h'], hk, rj['k'], clause, short_ret(ev['ret']),
                                                              (', tree differs in `%s` %s' % (sig.get('field'), sig.get('place', '')))
                                                              if 'field' in sig else ''), rep)
            else:
                o = op[rj['i'] - 1]
                if rj['k'] == 0:
                    vio({'clause': clause, 'op': 'readonly'}, '%s: read-only calls changed the tree' % name,
                                  {'kind': 'obs', 'fixture': name, 'forest': o['f']})
                    continue
                rec = o['recs'][rj['k'] - 1]
                hk = handle_kind(o['f'], rec)
                if clause == 'bad_call':
                    bad_calls += 1
                    continue
                sig = ret_sig(clause, rec, hk, rec['ret'], rj['ret'] if clause == 'ret' else None)
                vio(sig, '%s: observed %s on node %d (%s) = %s is rejected by the specification at clause `%s` (expected %s)'
                              % (name, call_text(rec), rec['h'], hk, short_ret(rec['ret']), clause,
                                 short_ret(rj['ret']) if clause == 'ret' else 'agreement of the four'),
                              {'kind': 'obs', 'fixture': name, 'forest': o['f'], 'rec': rec, 'clause': clause})
    for (name, label), (res, n) in sorted(tot.items()):
        chk.add_tlc(res, 'T_TreeEdit %s %s (%d runs)' % (name, label, n))
    return bad_calls, nev


def validate(chk, d, name, traces, obs, label, nparts=1):
    parts = validation_parts(d, name, traces, obs, label, nparts)
    out = vlib.parallel_map(_validate_part, [(x['name'], x['frag'], x['path']) for x in parts], procs=min(vlib.NCPU, len(parts)))
    return merge_validation(chk, parts, out)


def selftest(chk, d, name, traces):
    """binding self-test: corrupt recorded fields (a return value, a projected tree), the traces must be rejected"""
    import copy
    ts = copy.deepcopy([t for t in traces if len(t['events']) >= 3][:6])
    kinds = set()
    for j, t in enumerate(ts):
        for e in t['events']:
            if j % 2 == 0 and e['op'] == 'get' and e['ret']['b']:
                e['ret']['s'] = e['ret']['s'] + ['corrupt']
                kinds.add('ret')
                break
            if j % 2 == 1 and e['chg'] and any(n['k'] == 'seg' for n in e['f']):
                n = [n for n in e['f'] if n['k'] == 'seg'][0]
                n['eles'] = n['eles'] + [['corrupt']]
                kinds.add('tree')
                break
    sub = Check(PID, chk.tier)
    sub.findings = []
    validate(sub, d, name, ts, [], 'selftest', nparts=1)
    got = set(v[0]['clause'] for v in sub.violations)
    ok = len(kinds) > 0 and kinds <= got
    chk.extra['binding_selftest'] = {'corrupted': sorted(kinds), 'rejected_clauses': sorted(got), 'ok': ok}
    if not ok:
        raise vlib.MachineryError('binding self-test failed: corrupted traces were accepted (%s of %s)' % (sorted(got), sorted(kinds)))


# ------------------------------------------------------------------ replay of a stored violation
def do_replay(path):
    obj = json.load(open(path))['replay']
    fx = fixture(obj['fixture'])
    if obj['kind'] == 'hist':
        sink = Sink()
        print('history generated by TLC (%s) on fixture %s, failing step %d:' % (obj.get('src'), fx.name, obj['step']))
        replay_history(sink, fx, obj['hist'], verbose=True)
        for sig, desc, rep, _ in sink.items:
            print('VIOLATION', json.dumps(sig), desc)
        return 1 if sink.items else 0
    if obj['kind'] == 'trace':
        tr = obj['trace']
        evs = tr['events'][:obj['step']]
        world = fx.fresh_world(reread=True)
        print('recorded history on fixture %s (%d calls), TLC rejected step %d at clause %s' % (fx.name, len(evs), obj['step'], obj.get('clause')))
        try:
            with W.Budget():
                for k, ev in enumerate(evs, 1):
                    ret = world.call(ev, 1)
                    world.serialise(world.project())
                    print('  step %d node %d %s -> now %s ; recorded %s' % (k, ev['h'], call_text(ev), short_ret(ret), short_ret(ev['ret'])))
        except (W.NoTermination, MemoryError) as e:
            print('VIOLATION no_termination: the real code does not come back at step %d: %s' % (k, W.why(e)))
            return 1
        if obj.get('clause') == 'no_termination':
            print('all calls came back within the budget')
            return 0
        d = vlib.scratch('c10rp')
        try:
            sub = Check(PID, 'quick')
            validate(sub, d, fx.name, [dict(tr, events=evs)], [], 'replay', nparts=1)
            for sig, desc, rep in sub.violations:
                print('VIOLATION', json.dumps(sig), desc)
            return 1 if sub.violations else 0
        finally:
            shutil.rmtree(d, ignore_errors=True)
    if obj['kind'] == 'obs':
        print(json.dumps({k: obj[k] for k in obj if k != 'forest'}, indent=1)[:3000])
        world = fx.fresh_world()
        if obj.get('rec') and world.project() == obj['forest']:
            print('now observed:', short_ret(world.call(obj['rec'])))
        return 1
    return 0


# ------------------------------------------------------------------ the check
SMALL = ['s837', 's835', 's834']
BIG = ['b837', 'c837', 'a837', 'b835', 'b834']
SIM_ES = [(1, 0), (2, 0), (2, 1), (3, 0), (5, 3), (9, 0)]


def explorable(name):
    """the model runs start from the fixture's tree and presuppose its shape (T_TreeEdit judges the shape itself)"""
    fx = fixture(name)
    for i, n in enumerate(fx.init, 1):
        pos = [fx.mapnodes[fx.init[c - 1]['mn'] - 1]['pos'] for c in n['ch']]
        if pos != sorted(pos) or any(fx.init[c - 1]['par'] != i for c in n['ch']):
            return False
    return True


def run(tier, replay=None):
    if replay:
        return do_replay(replay)
    chk = Check(PID, tier)
    chk.rule = ('one case per distinct call history (TLC-generated or recorded) and per (forest, read-only call) observation; '
                'trivial = none: every history executes at least one API call on a real tree')
    d = vlib.scratch('c10')
    quick = tier == 'quick'
    # budgets of the termination guard (inherited by the forked workers); measured on the unchanged tree: one history <= 0.35 s
    # (quick) / 1.4 s (thorough), the histories of one task <= 12 s / 39 s - see termination_guard in the evidence
    if not os.environ.get('C10_HIST_CPU'):
        W.HIST_CPU = 5.0 if quick else 15.0
    if not os.environ.get('C10_TASK_CPU'):
        W.TASK_CPU = 90.0 if quick else 600.0
    try:
        tasks = []
        # spec -> code: exhaustive histories of mutating calls on small real trees (+ read-only observations on every forest reached)
        depths = {}
        try:
            with W.Budget():
                skipped = [n for n in SMALL + BIG if not explorable(n)]
        except (W.NoTermination, MemoryError) as e:
            chk.violation({'clause': 'no_termination', 'op': 'reader'},
                          'reading the fixture trees with X12ContextReader.iter_segments does not come back: ' + W.why(e),
                          {'kind': 'obs', 'fixture': 'all', 'forest': [], 'clause': 'no_termination'})
            return chk.finish()
        chk.extra['fixtures_not_explored_by_the_model'] = skipped
        for name, parts in (('s837', 8), ('s835', 4), ('s834', 4)):
            if name in skipped:
                continue
            depths[name] = 3 if (name == 's834' and not quick) else 2
            alpha = curated_alpha(fixture(name), ['v', ''])
            tasks += explore_tasks(d, name, alpha, 'bfs', depths[name], 14, True, parts if depths[name] == 2 else 64,
                                   obs_cap=(320 if quick else 3000))
        # spec -> code: random histories of all calls on the trees of the suite's documents
        for name in BIG:
            if name in skipped:
                continue
            alpha = make_alpha(fixture(name), 2, SIM_ES, ['v', 'w', ''], 9)
            for allow_copy in (True, False):
                tasks += explore_tasks(d, name, alpha, 'sim', 12 if quick else 24, 40, allow_copy, 1 if quick else 4,
                                       num=(40 if quick else 150))
        # code -> spec: usage patterns of README / test suite and seeded random histories, recorded on real trees
        for name in BIG + SMALL:
            nparts = 2 if quick else 8
            tasks += [('rec', (name, (20 if quick else 80), (30 if quick else 40), p)) for p in range(nparts)]
        tasks.sort(key=lambda t: 0 if (t[0] == 'tlc' and t[1][3] == 'bfs') else 1)
        results = vlib.parallel_map(_task, tasks, procs=vlib.NCPU)
        obs, nhs = merge_explore(chk, tasks, results)
        for name in nhs:
            chk.extra.setdefault('exhaustive_histories', {})[name] = {'max_mutating_calls': depths[name], 'histories': nhs[name],
                                                                       'forests_observed': len(obs[name])}
        traces = {}
        for t, r in zip(tasks, results):
            if t[0] == 'rec':
                traces.setdefault(t[1][0], []).extend(r['traces'])
                report(chk, r['viol'])
                _note_budget(chk, r)
        parts = []
        for name in sorted(traces):
            for t in traces[name]:
                chk.note_distinct('tr:' + hashlib.sha1(json.dumps([[e['h'], e['op'], e['path'], e['sd'], e['v'], e['a']]
                                                                   for e in t['events']]).encode()).hexdigest())
            parts += validation_parts(d, name, traces[name], [], 'traces', 2 if quick else 8)
        for name in sorted(obs):
            parts += validation_parts(d, name, [], obs[name], 'observations', 3 if quick else 12)
        out = vlib.parallel_map(_validate_part, [(x['name'], x['frag'], x['path']) for x in parts], procs=vlib.NCPU)
        bad, nev = merge_validation(chk, parts, out)
        t = (traces['b837'] or [{'events': []}])[-1]
        chk.sample({'recorded_history': 'b837', 'calls': ['node %d: %s -> %s' % (e['h'], call_text(e), short_ret(e['ret']))
                                                          for e in t['events'][:8]]})
        chk.extra['recorded_events_and_observations'] = nev
        chk.extra['recorded_calls_outside_alphabet'] = bad
        if bad > max(20, nev // 200):
            raise vlib.MachineryError('the recorder produced %d calls outside the alphabet of the specification' % bad)
        if not quick and len([t for t in traces['b837'] if len(t['events']) >= 3]) >= 6:
            selftest(chk, d, 'b837', traces['b837'])
        chk.exhaustive = False
        chk.assumptions = [
            'set_value never targets the element that carries the qualifier code of a qualified segment type, and writes an empty '
            'value only strictly inside a segment (so that a segment stays recognisable and its printed form stays canonical)',
            'add_node is only given detached nodes (fresh copies); a node is never placed twice in a tree',
            'calls on deleted nodes, absolute paths, get_value without an element index, qualifiers on unqualified segment types, '
            'unknown ids and `../` above the root are left open by the property text: only `nothing changes` and the agreement of '
            'exists/count/first/select are required there',
            'where two readings of `the first segment at the path` differ (first loop instance only vs first match overall) '
            'get_value/set_value may follow either',
            'documents use the delimiters * : ~',
        ]
        return chk.finish()
    finally:
        shutil.rmtree(d, ignore_errors=True)


if __name__ == '__main__':
    vlib.main_wrapper(run)
