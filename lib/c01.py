"""C01 - tokenisation is lossless and independent of read chunking and source kind.

spec -> code : TLC explores Tokenizer.tla (environment writes every text over the class alphabet up to a
               bound, then serves read() calls in every possible chunking; model-level theorem: yielded
               segments = TokDef!Oracle(text), format/re-read round trip) and emits every (text, read
               schedule); each is instantiated under several delimiter triples and fed to the real
               X12Reader through a stream that chunks exactly like the schedule (DEFAULT_BUFSIZE patched to
               the model's buffer size), and by path.
code -> spec : every execution, plus real-size documents (8 KiB buffer untouched) whose terminators are swept
               across the buffer boundary with all line-break conventions, short-read streams and a segment
               longer than the buffer, is validated by TLC against T_Tokenizer (TokDef definition).
"""
import io
import json
import os
import random
import shutil
import sys
import tempfile

sys.path.insert(0, os.path.dirname(os.path.abspath(__file__)))
import vlib
from vlib import run_tlc, Check

sys.path.insert(0, vlib.REPO)
import pyx12.rawx12file
import pyx12.x12file
import pyx12.segment
import pyx12.errors

TRIPLES = [('~', '*', ':'), ('+', '&', '!'), ('|', '^', '\\'), ('\x1d', '\x1c', '\x1e'), ('\n', '*', '>')]


def isa_header(triple, icvn='00401', variant=0):
    """variant 1/2: ISA values that contain the component separator (the ISA itself is never split at it)"""
    st, et, ct = triple
    rep = 'U' if icvn == '00401' else '^'
    sender = 'SENDER'.ljust(15)
    auth = ' ' * 10
    if variant == 1:
        sender = ('ACME' + ct + 'EAST' + ct + '0001' + ct).ljust(15)[:15]
    elif variant == 2:
        auth = ('A' + ct + ct + 'B').ljust(10)
        sender = (ct + 'X').ljust(15)
    el = ['ISA', '00', auth, '00', ' ' * 10, 'ZZ', sender, 'ZZ', 'RECEIVER'.ljust(15), '200101', '1200', rep, icvn, '000000001', '0', 'P', ct]
    h = et.join(el) + st
    assert len(h) == 106, len(h)
    return h


class SchedStream(object):
    """text stream whose read(n) returns the next scheduled chunk (never more than n)"""
    closed = False

    def __init__(self, text, sched):
        self.text = text
        self.pos = 0
        self.sched = list(sched)
        self.reads = []

    def read(self, n=-1):
        rem = len(self.text) - self.pos
        if n is None or n < 0:
            n = rem
        k = min(n, rem)
        if self.sched:
            k = min(k, self.sched.pop(0))
        out = self.text[self.pos:self.pos + k]
        self.pos += k
        self.reads.append([n, k])
        return out

    def close(self):
        pass


def proj_seg(seg):
    return {'id': vlib.codes(seg.get_seg_id() or ''), 'eles': [[vlib.codes(e.get_value()) for e in comp.elements] for comp in seg.elements]}


def read_all(src, bufsize=None, lx=False):
    """iterate the real reader; returns (list of (Segment, errors)), exc).  lx: the public option check_837_lx (the callers'
    837 service-line check) switched on - it must not change what is yielded"""
    old = pyx12.rawx12file.DEFAULT_BUFSIZE
    if bufsize:
        pyx12.rawx12file.DEFAULT_BUFSIZE = bufsize
    out = []
    exc = ''
    try:
        rd = pyx12.x12file.X12Reader(src)
        if lx:
            rd.check_837_lx = True
        for seg in rd:
            out.append((seg, rd.pop_errors()))
    except Exception as e:
        exc = type(e).__name__
    finally:
        pyx12.rawx12file.DEFAULT_BUFSIZE = old
    return out, exc


def record(tid, body, triple, sched=None, bufsize=None, kind='stream', with_text=True, label=''):
    """run the real reader over header+body; body is a str in concrete characters"""
    st, et, ct = triple
    header = isa_header(triple, variant=(tid % 6) if (tid % 6) in (1, 2) else 0)
    text = header + body
    tmp = None
    if kind == 'path':
        fd, tmp = tempfile.mkstemp(prefix='c01-', dir=vlib.scratch('c01p'))
        with os.fdopen(fd, 'w', encoding='ascii', newline='') as f:
            f.write(text)
        src = tmp
    elif sched is not None:
        src = SchedStream(text, sched)
    else:
        src = io.StringIO(text)
    lx = label.startswith('lx-check')
    got, exc = read_all(src, bufsize, lx)
    if tmp:
        shutil.rmtree(os.path.dirname(tmp), ignore_errors=True)
    tr = {'id': tid, 'd': {'seg': ord(st), 'ele': ord(et), 'sub': ord(ct)}, 'text': vlib.codes(body) if with_text else [],
          'pieces': [vlib.codes(p) for p in body.split(st)], 'yields': [], 'exc': exc, 'label': label, 'kind': kind,
          'sched': sched, 'bufsize': bufsize}
    if exc:
        return tr
    if not got or got[0][0].get_seg_id() != 'ISA' or [e.get_value() for c in got[0][0].elements for e in c.elements] != header[:-1].split(et)[1:]:
        tr['exc'] = 'ISA-not-first-or-altered'
        return tr
    if got[0][0].format() != header:
        tr['exc'] = 'ISA-format-altered'
        return tr
    fmts = []
    for seg, errs in got[1:]:
        f = seg.format()
        fmts.append(f)
        tr['yields'].append({'seg': proj_seg(seg), 'n1': sum(1 for e in errs if e[0] == 'seg' and e[1] == '1'),
                             'trail': any(e[1] == 'SEG1' for e in errs), 'fmt': vlib.codes(f), 'again_n': 0,
                             'again': {'id': [], 'eles': []}})
    # read the formatted text again (each formatted segment on its own so that a bad one does not shift the others)
    for y, f in zip(tr['yields'], fmts):
        g2, e2 = read_all(io.StringIO(header + f), None, lx)
        segs2 = g2[1:] if not e2 else []
        y['again_n'] = len(segs2) if not e2 else -1
        if len(segs2) == 1:
            y['again'] = proj_seg(segs2[0][0])
    return tr


def concretise(codes_seq, triple):
    st, et, ct = triple
    m = {126: st, 42: et, 58: ct}
    return ''.join(m.get(c, chr(c)) for c in codes_seq)


def _replay_batch(args):
    base, runs, buf, short = args
    out = []
    for j, r in enumerate(runs):
        tid = base + j
        triple = TRIPLES[tid % 4]           # the newline triple cannot carry CR/LF data symbols
        body = concretise(r['text'], triple)
        sched = [106] + [k for k in r['sched'] if k > 0]
        out.append(record(tid, body, triple, sched=sched, bufsize=buf, kind='stream', label='model'))
        if tid % 7 == 0:
            out.append(record(tid + 50000000, body, triple, sched=None, bufsize=buf, kind='path', label='model-path'))
    return out


def _validate_batch(traces):
    d = vlib.scratch('c01tv')
    try:
        p = os.path.join(d, 'traces.json')
        vlib.write_json(p, [{k: v for k, v in t.items() if k in ('id', 'd', 'text', 'pieces', 'yields', 'exc')} for t in traces])
        res = run_tlc('T_Tokenizer', 'SPECIFICATION Spec\nINVARIANT Report\n', env={'TRACE_FILE': p}, workers=1, timeout=2400, heap='4g')
        if res.error:
            raise vlib.MachineryError('T_Tokenizer: ' + res.error)
        rep = res.payloads.get('REJECTS')
        if not rep:
            raise vlib.MachineryError('T_Tokenizer printed no report\n' + res.out[-1500:])
        return {'distinct': res.distinct, 'generated': res.generated, 'depth': res.depth, 'wall': res.wall, 'rej': rep[-1]['rej']}
    finally:
        shutil.rmtree(d, ignore_errors=True)


def show(codes_seq):
    return ''.join(chr(c) if 32 < c < 127 else {32: '_', 10: '\\n', 13: '\\r'}.get(c, '\\x%02x' % c) for c in codes_seq)


def validate(chk, traces, label):
    if not traces:
        return
    # harness sanity: our own split of the text must agree with TLC's (clause harness_split is a machinery error)
    batches = list(vlib.chunked(traces, max(50, min(3000, len(traces) // vlib.NCPU + 1))))
    results = vlib.parallel_map(_validate_batch, batches)
    byid = {t['id']: t for t in traces}
    tot = vlib.TlcResult()
    for r in results:
        tot.distinct += r['distinct']; tot.generated += r['generated']; tot.wall = max(tot.wall, r['wall']); tot.depth = max(tot.depth, r['depth'])
        for tid, yi, clause in r['rej']:
            tr = byid[tid]
            if clause == 'harness_split':
                raise vlib.MachineryError('harness split disagrees with TokDef!SplitOn on trace %s' % tid)
            body = [c for p in tr['pieces'] for c in p + [tr['d']['seg']]][:-1]
            small = len(body) <= 40
            sig = {'clause': clause, 'source': tr['label']}
            if clause == 'exception':
                sig['exc'] = tr['exc']
                sig['kind'] = tr['kind']
            got = tr['yields'][yi - 1] if 0 < yi <= len(tr['yields']) else None
            chk.violation(sig, 'X12Reader(%s, buf=%s, reads=%s) over %s%s: clause %s at yielded segment %d%s'
                          % (tr['kind'], tr['bufsize'] or 8192, tr['sched'] if small else 'n/a', 'ISA..' + repr(chr(tr['d']['seg'])) + ' + ',
                             repr(show(body)) if small else '%d characters (%s)' % (len(body), tr['label']), clause, yi,
                             '; observed %s' % show(got['fmt']) if got else (' (%s)' % tr['exc'] if tr['exc'] else '')),
                          {'kind': 'tok', 'body': show(body) if small else None, 'body_codes': body if len(body) < 20000 else None, 'd': tr['d'],
                           'sched': tr['sched'], 'bufsize': tr['bufsize'], 'source_kind': tr['kind'], 'clause': clause, 'label': tr['label']})
    chk.add_tlc(tot, 'T_Tokenizer ' + label)
    chk.add_traces(len(traces))
    chk.add_eval(sum(len(t['pieces']) for t in traces))
    for t in traces:
        chk.note_distinct('%s|%s|%s|%s|%s' % (label, t['kind'], t['sched'], t['d']['seg'], hash(str(t['pieces']))))
    t = traces[len(traces) // 2]
    body = [c for p in t['pieces'] for c in p + [t['d']['seg']]][:-1]
    chk.sample({'source': label, 'kind': t['kind'], 'buffer': t['bufsize'] or 8192, 'read_schedule': t['sched'] if t['sched'] and len(t['sched']) < 30 else None,
                'text_after_header': show(body)[:120], 'segments_yielded': [show(y['fmt']) for y in t['yields']][:6]})


def big_docs(tier, rnd):
    """real-size inputs: terminators swept across the 8 KiB boundary, all line-break conventions, a segment longer than the buffer"""
    docs = []
    eols = ['', '\n', '\r\n', '\r']
    pads = range(0, 17) if tier == 'quick' else range(0, 34)
    nseg = 470 if tier == 'quick' else 1300      # ~ 9 KiB / 18 KiB: one / two refills
    for ti, triple in enumerate(TRIPLES[:4]):
        st, et, ct = triple
        for ei, eol in enumerate(eols):
            for pad in pads:
                if tier == 'quick' and (pad + ei) % 4 != ti:
                    continue          # quick: every (eol, alignment) once, the triple rotating
                segs = ['REF%sEA%s%s' % (et, et, 'P' * pad)]
                for i in range(nseg):
                    segs.append('NM1%s85%s2%sNAME%05d%s%sA%sB' % (et, et, et, i, et, et, ct) if i % 5 else 'N3%s%04d' % (et, i))
                docs.append(('sweep', triple, ''.join(s + st + eol for s in segs)))
    # one segment spanning more than one buffer, blank / empty-piece normalisations at real size
    for triple in TRIPLES[:3]:
        st, et, ct = triple
        for eol in ['', '\n', '\r\n']:
            long_val = 'X' * (9000 + rnd.randint(0, 300))
            segs = ['REF%sEA%s1' % (et, et), 'NTE%sADD%s%s' % (et, et, long_val), 'REF%sEA%s2' % (et, et)] + ['N4%sCITY%05d%sST' % (et, i, et) for i in range(700 if tier != 'quick' else 150)]
            docs.append(('long-segment', triple, ''.join(s + st + eol for s in segs)))
            body = ''.join(s + st + eol for s in segs[:1]) + ' ' + segs[2] + st + eol + st + eol + '  ' + st + segs[0] + et + et + st + eol
            docs.append(('normalisations', triple, body + ''.join(s + st + eol for s in segs[3:100])))
    # the reader option callers switch on for 837 maps (service-line numbering check): claims and service lines whose LX01 is
    # zero-padded, out of sequence or not a number - whatever the check reports, the segments are yielded as they were written
    for triple in TRIPLES[:3]:
        st, et, ct = triple
        for eol in ['', '\n']:
            segs = []
            for c in range(3):
                segs.append('CLM%sA%d%s100' % (et, c, et))
                for lxv in (['1', '2', '3'], ['01', '02'], ['1', '7', '3'], ['X', '2'])[(c + len(eol)) % 4]:
                    segs.append('LX%s%s' % (et, lxv))
                    segs.append('SV1%sHC%s99213%s40%sUN%s1' % (et, ct, et, et, et))
            docs.append(('lx-check', triple, ''.join(x + st + eol for x in segs)))
    return docs


def run(tier, replay=None):
    if replay:
        obj = json.load(open(replay))['replay']
        d = obj['d']
        triple = (chr(d['seg']), chr(d['ele']), chr(d['sub']))
        body = ''.join(chr(c) for c in obj['body_codes'])
        tr = record(0, body, triple, sched=obj.get('sched'), bufsize=obj.get('bufsize'), kind=obj.get('source_kind', 'stream'))
        print('body    :', repr(body[:200]))
        print('yielded :', [show(y['fmt']) for y in tr['yields']][:20], 'exc', tr['exc'])
        print('recorded clause:', obj.get('clause'))
        return 0
    chk = Check('C01', tier)
    chk.rule = ('one case per (text, read schedule / source kind, delimiter triple); non-trivial = the text after the header contains at least one character')
    q = tier == 'quick'
    rnd = random.Random(vlib.seed() + 1)
    tid = 0
    alpha = '{126, 42, 58, 13, 10, 32, 65}'
    plans = [('short-buf2', 5 if q else 6, 2, True), ('short-buf3', 4 if q else 5, 3, True), ('full-buf1', 5 if q else 6, 1, False), ('full-buf3', 5 if q else 6, 3, False)]
    for label, maxtext, buf, short in plans:
        cfg = ('SPECIFICATION Spec\nCONSTANTS Alphabet = %s\n MaxText = %d\n Buf = %d\n Short = %s\n EmitAll = TRUE\n'
               'INVARIANT Lossless\nINVARIANT RoundTrip\nINVARIANT Emit\n' % (alpha, maxtext, buf, 'TRUE' if short else 'FALSE'))
        res = run_tlc('Tokenizer', cfg, timeout=3000)
        if res.error:
            raise vlib.MachineryError('Tokenizer %s: %s' % (label, res.error))
        if res.violated:
            raise vlib.MachineryError('Tokenizer %s: model-level theorem %s violated (modelling error)\n%s' % (label, res.violated, res.out[-1500:]))
        chk.add_tlc(res, 'Tokenizer ' + label)
        runs = res.payloads.get('RUN', [])
        if not runs:
            raise vlib.MachineryError('Tokenizer emitted nothing')
        cap = 60000 if q else 400000
        if len(runs) > cap:
            # the model is explored completely; of the longest texts a seeded sample is replayed into the real reader
            longest = [r for r in runs if len(r['text']) == maxtext]
            rest = [r for r in runs if len(r['text']) <= maxtext - 1]
            runs = rest + rnd.sample(longest, min(len(longest), max(40000, cap - len(rest)) if not q else 40000))
        res.payloads.clear()
        # replayed and validated in slices (the thorough model runs emit millions of (text, schedule) pairs)
        for off in range(0, len(runs), 100000):
            part = runs[off:off + 100000]
            traces = [t for r in vlib.parallel_map(_replay_batch, [(tid + i, b, buf, short) for i, b in zip(range(0, len(part), 2000), vlib.chunked(part, 2000))]) for t in r]
            tid += len(part)
            validate(chk, traces, label if len(runs) <= 100000 else '%s [%d..]' % (label, off))
            del traces
        del runs
    # liveness: the iteration terminates on every finite input under every chunking (weak fairness on the step)
    cfg = ('SPECIFICATION FairSpec\nCONSTANTS Alphabet = {126, 42, 10, 32, 65}\n MaxText = %d\n Buf = 2\n Short = TRUE\n EmitAll = FALSE\nPROPERTY Terminates\n' % (4 if q else 5))
    res = vlib.tlc_must_pass(run_tlc('Tokenizer', cfg, timeout=3000, workers=8), 'Tokenizer termination')
    chk.add_tlc(res, 'Tokenizer liveness (Terminates under WF)')
    # real-size documents, buffer untouched
    traces = []
    for label, triple, body in big_docs(tier, rnd):
        tid += 1
        kinds = [('stream', None)]
        if tid % 3 == 0:
            kinds.append(('path', None))
        if tid % 2 == 0:
            kinds.append(('stream', 'short'))
        for kind, mode in kinds:
            tid += 1
            sched = None
            if mode == 'short':
                sched = [rnd.choice([1, 7, 50, 105, 106])] + [rnd.randint(1, 8192) for _ in range(200)]
            traces.append(record(tid, body, triple, sched=sched, kind=kind, with_text=False, label=label + ('-shortreads' if mode else '')))
    validate(chk, traces, 'real-size')
    chk.assumptions = ['data alphabet of the exhaustive model: one data symbol plus the three delimiters, CR, LF and blank; real-size runs use ASCII letters/digits',
                       'a leading run of blanks and line breaks is dropped as a whole once it contains a blank (DESIGN.md C01)',
                       'element-less segments: no claim about the formatted text (the suite documents "AAA*~")']
    return chk.finish()


if __name__ == '__main__':
    vlib.main_wrapper(run)
