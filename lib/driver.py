"""Map dispatch (spec/Driver.tla): which implementation-guide map is in force for each segment.

Not a listed property of its own; C02 runs the x12n_document side, C09 the X12ContextReader side.
  1. TLC model-checks DriverGen: every envelope-shaped history within bounds over the REAL map index, the dispatch loop
     (Driver!DStep) against the definition (WantMaps / WantRaise / WantLx) - hard invariants.
  2. every emitted history is made a real document and run through the real entry point; per segment the map file of the
     node handed to the callback / yielded, and the reader's check_837_lx flag, are recorded.
  3. TLC (T_Driver) judges every recorded run against the definition (violation) and the transcription (drift).
"""
import hashlib
import io
import json
import os
import random
import shutil
import sys

sys.path.insert(0, os.path.dirname(os.path.abspath(__file__)))
import vlib
import walkcommon as wc
import mapexport

import pyx12.errors
import pyx12.params
import pyx12.x12n_document
import pyx12.x12context


def index_file():
    d = os.path.join(vlib.ROOT, '.work', 'cache')
    os.makedirs(d, exist_ok=True)
    ents = [{k: e[k] for k in ('icvn', 'vriic', 'fic', 'tspc', 'file')} for e in mapexport.index_entries()]
    for e in ents:          # the transaction id the map file declares (the 837 service-line check is keyed on it)
        try:
            import xml.etree.ElementTree as et
            e['tid'] = et.parse(os.path.join(mapexport.MAPDIR, e['file'])).getroot().get('xid') or ''
        except Exception:
            e['tid'] = ''
    p = os.path.join(d, 'index-%s.json' % hashlib.sha1(json.dumps(ents, sort_keys=True).encode()).hexdigest()[:12])
    vlib.write_json(p, ents)
    return p, ents


INVS = 'INVARIANT MapAllowed\nINVARIANT RaiseExact\nINVARIANT LxExact\nINVARIANT RunAgrees\nINVARIANT Emit\n'


def model_histories(chk, tier, idx):
    q = tier == 'quick'
    hists = []
    runs = [('bfs', 8 if q else 10, None)]
    runs.append(('sim', 18 if q else 26, 'num=%d' % (400 if q else 4000)))
    for mode, maxlen, sim in runs:
        cfg = 'SPECIFICATION Spec\nCONSTANT MaxLen = %d\nCONSTANT EmitAll = TRUE\n' % maxlen + INVS
        res = vlib.run_tlc('DriverGen', cfg, env={'INDEX_FILE': idx}, simulate=sim, depth=maxlen + 2 if sim else None, timeout=1800, workers=None if not sim else 1)
        vlib.tlc_must_pass(res, 'DriverGen %s MaxLen=%d' % (mode, maxlen))
        chk.add_tlc(res, 'DriverGen %s MaxLen=%d' % (mode, maxlen))
        seen = set()
        for h in res.payloads.get('HIST', []):
            key = json.dumps(h, sort_keys=True)
            if key not in seen:
                seen.add(key)
                hists.append(h)
    # keep complete-ish histories: every maximal history and every history ending in a raise position is kept by construction of the
    # state graph (each state is one history); drop pure prefixes of another history only when the set is large
    uniq = {}
    for h in hists:
        uniq[json.dumps(h, sort_keys=True)] = h
    uniq = dict(sorted(uniq.items()))          # TLC's workers print in no fixed order
    hists = list(uniq.values())
    if len(hists) > (2500 if q else 30000):
        # a history all of whose one-segment extensions are present adds nothing over them, except where the run raises
        longer = set()
        for h in hists:
            if len(h) > 1:
                longer.add(json.dumps(h[:-1], sort_keys=True))
        maximal = [h for k, h in uniq.items() if k not in longer]
        rnd = random.Random(vlib.seed() + 77)
        rest = [h for k, h in uniq.items() if k in longer]
        rnd.shuffle(rest)
        hists = maximal[:(2500 if q else 30000)] + rest[:300]
    return hists


def concretise(hist):
    """abstract history -> X12 text (delimiters ~ * :)"""
    out = []
    isa_n = gs_n = st_n = 0
    for s in hist:
        k = s['k']
        if k == 'ISA':
            isa_n += 1
            v = s['a']
            out.append('ISA*00*          *00*          *ZZ*SENDER         *ZZ*RECEIVER       *200101*1200*%s*%s*%09d*0*P*:' % ('^' if v == '00501' else 'U', v, isa_n))
        elif k == 'GS':
            gs_n += 1
            out.append('GS*%s*SENDER*RECEIVER*20200101*1200*%d*X*%s' % (s['a'], gs_n, s['b']))
        elif k == 'ST':
            st_n += 1
            out.append('ST*278*%04d' % st_n)
        elif k == 'BHT':
            out.append('BHT*0078*%s*REF1*20200101*1200' % s['a'])       # 0078: the walker recognises the 278 BHT by its BHT01 code
        elif k == 'B':
            out.append('REF*EI*123456789')
        elif k == 'SE':
            out.append('SE*3*%04d' % st_n)
        elif k == 'GE':
            out.append('GE*1*%d' % gs_n)
        elif k == 'IEA':
            out.append('IEA*1*%09d' % isa_n)
    return '~\n'.join(out) + '~\n'


def _root_file(node):
    root = node
    while getattr(root, 'parent', None) is not None and not root.is_map_root():
        root = root.parent
    return getattr(root, '_verif_file', '') or ''


def run_x12n(hist):
    wc.install_recorders()
    text = concretise(hist)
    obs, lx = [], []

    def cb(seg, src, node, valid):
        obs.append(_root_file(node) if node is not None else '')
        lx.append('T' if getattr(src, 'check_837_lx', False) else 'F')
    exc = ''
    msg = ''
    try:
        pyx12.x12n_document.x12n_document(pyx12.params.params(), io.StringIO(text), io.StringIO(), None, None, None, None, cb)
    except pyx12.errors.EngineError as e:
        msg = str(e)
        exc = 'EngineError' if msg.startswith('Map not found') else 'EngineError:' + msg[:60]
    except Exception as e:
        exc = type(e).__name__
        msg = str(e)[:120]
    n = len(hist)
    raised_at = len(obs) + 1 if exc else 0
    obs = (obs + [''] * n)[:n]
    lx = (lx + [''] * n)[:n]
    return {'api': 'x12n', 'hist': hist, 'obs': obs, 'lx': lx, 'raised_at': raised_at, 'exc': exc, 'msg': msg, 'text': text}


def run_ctx(hist):
    wc.install_recorders()
    pyx12.x12context.map_if.load_map_file = pyx12.map_if.load_map_file
    text = concretise(hist)
    obs, lx = [], []
    exc = ''
    msg = ''
    try:
        rd = pyx12.x12context.X12ContextReader(pyx12.params.params(), pyx12.error_handler.errh_null(), io.StringIO(text))
        for dn in rd.iter_segments():
            obs.append(_root_file(dn.x12_map_node) if getattr(dn, 'x12_map_node', None) is not None else '')
            lx.append('T' if getattr(rd.src, 'check_837_lx', False) else 'F')
    except pyx12.errors.EngineError as e:
        msg = str(e)
        exc = 'EngineError' if msg.startswith('Map not found') else 'EngineError:' + msg[:60]
    except Exception as e:
        exc = type(e).__name__
        msg = str(e)[:120]
    n = len(hist)
    raised_at = len(obs) + 1 if exc else 0
    obs = (obs + [''] * n)[:n]
    lx = (lx + [''] * n)[:n]
    return {'api': 'ctx', 'hist': hist, 'obs': obs, 'lx': lx, 'raised_at': raised_at, 'exc': exc, 'msg': msg, 'text': text}


def _run_batch(args):
    api, hs = args
    import logging
    logging.disable(logging.CRITICAL)
    return [(run_x12n if api == 'x12n' else run_ctx)(h) for h in hs]


def _validate(args):
    idx, recs = args
    d = vlib.scratch('drvtv')
    try:
        p = os.path.join(d, 'tr.json')
        vlib.write_json(p, [{k: r[k] for k in ('id', 'api', 'hist', 'obs', 'lx', 'raised_at', 'exc')} for r in recs])
        res = vlib.run_tlc('T_Driver', 'SPECIFICATION Spec\nINVARIANT Report\n', env={'INDEX_FILE': idx, 'TRACE_FILE': p}, workers=1, timeout=1500, heap='3g')
        if res.error:
            raise vlib.MachineryError('T_Driver: ' + res.error)
        rep = res.payloads.get('REJECTS')
        if not rep:
            raise vlib.MachineryError('T_Driver printed no report\n' + res.out[-1500:])
        return {'distinct': res.distinct, 'generated': res.generated, 'depth': res.depth, 'wall': res.wall, 'rej': rep[-1]['rej'], 'drift': rep[-1]['drift']}
    finally:
        shutil.rmtree(d, ignore_errors=True)


def run_part(chk, tier, api):
    """adds the map-dispatch part to an existing Check (C02: api='x12n', C09: api='ctx')"""
    idx, ents = index_file()
    hists = model_histories(chk, tier, idx)
    jobs = [(api, b) for b in vlib.chunked(hists, 40)]
    out = [r for rs in vlib.parallel_map(_run_batch, jobs) for r in rs]
    for i, r in enumerate(out):
        r['id'] = i + 1
    vres = vlib.parallel_map(_validate, [(idx, b) for b in vlib.chunked(out, 1500)])
    tot = vlib.TlcResult()
    byid = {r['id']: r for r in out}
    drift = []
    nviol = 0
    for v in vres:
        tot.distinct += v['distinct']; tot.generated += v['generated']; tot.wall = max(tot.wall, v['wall']); tot.depth = max(tot.depth, v['depth'])
        drift += v['drift']
        for tid, clause in v['rej']:
            r = byid[tid]
            nviol += 1
            kinds = ' '.join(s['k'] + ('(%s%s)' % (s['a'], ',' + s['b'] if s['b'] else '') if s['a'] or s['b'] else '') for s in r['hist'])
            sig = {'part': 'map_dispatch', 'clause': clause, 'api': api}
            if clause == 'crash':
                sig['exc'] = r['exc']
            chk.violation(sig, 'map dispatch (%s) on %s: clause %s; observed maps %s, lx %s, raised_at %s exc %s %s' %
                          (api, kinds, clause, r['obs'], ''.join(x or '-' for x in r['lx']), r['raised_at'], r['exc'], r['msg']),
                          {'part': 'map_dispatch', 'api': api, 'hist': r['hist'], 'text': r['text'], 'clause': clause})
    chk.add_tlc(tot, 'T_Driver ' + api)
    chk.add_traces(len(out))
    chk.add_eval(sum(len(r['hist']) for r in out))
    chk.extra['map_dispatch'] = {'histories': len(hists), 'executions': len(out), 'raised': sum(1 for r in out if r['exc'] == 'EngineError'),
                                 'with_bht_switch': sum(1 for r in out if len(set(x for x in r['obs'] if x and not x.startswith('x12.control'))) > 1),
                                 'violations': nviol, 'spec_drift': drift[:10], 'spec_drift_count': len(drift), 'index_entries': len(ents)}
    return nviol


def replay(obj):
    r = (run_x12n if obj.get('api') == 'x12n' else run_ctx)(obj['hist'])
    print('history  :', ' '.join(s['k'] for s in obj['hist']))
    print('observed :', r['obs'])
    print('lx       :', r['lx'])
    print('raised_at:', r['raised_at'], r['exc'], r['msg'])
    return 0
