"""C03 - every single injected fault is rejected and localised.

spec -> code : conformant documents of the real maps come from TLC DocGen (as in C02, every situational element filled);
               TLC Fault.tla enumerates, over the full exported map, every applicable (segment, element, component, fault
               kind) plan for them together with its locality; Python applies one plan per run (value construction per
               kind) and validates the faulted document with the real x12n_document.
code -> spec : one record per run (injection coordinates, verdict, the projected error tree, per-set acknowledgement
               codes) is judged by TLC (T_Fault): rejected, localised with a matching standard code, and - for local
               faults - nothing else reported and the other sets accepted.
"""
import json
import os
import random
import shutil
import sys

sys.path.insert(0, os.path.dirname(os.path.abspath(__file__)))
import vlib
from vlib import Check
import walkcommon as wc


# ------------------------------------------------------------------ plan enumeration by TLC
def layout(full, doc):
    """conformant document as the concretiser lays it out (all situational elements filled)"""
    c = wc.Concretiser(full, ('~', '*', ':'), '\n', fill_optional=True)
    text, info = c.build(doc)
    nodes = {n['n']: n for n in full['nodes']}
    segs = []
    for nid, sid, vals in info:
        eles = nodes[nid]['eles']
        present, sub = [], []
        for i, e in enumerate(eles):
            v = vals[i] if i < len(vals) else ''
            if e['k'] == 'c':
                comp = v if isinstance(v, list) else ([] if v == '' else [v])
                present.append(any(x != '' for x in comp))
                sub.append([(j < len(comp) and comp[j] != '') for j in range(len(e['subs']))])
            else:
                present.append(v != '')
                sub.append([])
        segs.append({'node': nid, 'present': present, 'sub': sub})
    return info, segs


def enumerate_plans(fn, full, docs):
    d = vlib.scratch('c03plan')
    try:
        _, pf = wc.export_map(fn)[0], os.path.join(os.path.dirname(wc.export_map(fn)[0]), fn + '.full.json')
        layouts = [layout(full, doc) for doc in docs]
        p = os.path.join(d, 'docs.json')
        vlib.write_json(p, [{'segs': segs} for (_, segs) in layouts])
        res = vlib.run_tlc('Fault', 'SPECIFICATION Spec\nINVARIANT Emit\n', env={'FULLMAP_FILE': pf, 'FAULT_DOCS': p}, workers=1, timeout=1500, heap='3g')
        if res.error:
            raise vlib.MachineryError('Fault %s: %s' % (fn, res.error))
        plans = []
        for item in res.payloads.get('PLANS', []):
            for pl in item['plans']:
                pl['doc'] = item['doc'] - 1
                plans.append(pl)
        return layouts, plans, res
    finally:
        shutil.rmtree(d, ignore_errors=True)


def _enum_job(args):
    fn, docs = args
    _, full = wc.export_map(fn)
    layouts, plans, res = enumerate_plans(fn, full, docs)
    return fn, plans, {'distinct': res.distinct, 'generated': res.generated, 'depth': res.depth, 'wall': res.wall}


# ------------------------------------------------------------------ applying one plan
def numeric(t):
    return t == 'R' or t.startswith('N')


def bad_code(e, ext, avoid=()):
    pool = set(e['codes']) | set(ext.get(e['ext'], []) if e['ext'] else []) | set(avoid)
    L = max(e['mn'], min(e['mx'], len(e['codes'][0]) if e['codes'] else 2))
    for ch in 'ZQXJ':
        for n in range(L, e['mx'] + 1):
            v = ch * n
            if v not in pool and n >= e['mn']:
                return v
    return None


def notes_status(n, vals):
    out = []
    for s in n.get('syntax', []):
        x = wc.parse_syntax(s)
        if not x:
            out.append(None)
            continue
        ty, pos = x

        def pres(p):
            if p > len(vals):
                return False
            v = vals[p - 1]
            return any(v) if isinstance(v, list) else v != ''
        k = sum(1 for p in pos if pres(p))
        if ty == 'P':
            bad = 0 < k < len(pos)
        elif ty == 'R':
            bad = k == 0
        elif ty == 'E':
            bad = k > 1
        elif ty == 'C':
            bad = pres(pos[0]) and k < len(pos)
        else:
            bad = pres(pos[0]) and k == 1
        out.append(bad)
    return out


def apply_plan(full, info, plan, conc):
    """returns (new info, injection dict, alt positions) or None if the plan cannot be realised on this layout"""
    nodes = {n['n']: n for n in full['nodes']}
    info = [(a, b, [list(x) if isinstance(x, list) else x for x in c]) for (a, b, c) in info]
    si = plan['seg'] - 1
    nid, sid, vals = info[si]
    n = nodes[nid]
    eles = n['eles']
    kind = plan['kind']
    ei, ci = plan['ele'], plan['sub']
    if sid == 'BHT' and ei == 2 and conc.entry and conc.entry['vriic'] in ('004010X094', '004010X094A1'):
        return None               # BHT02 of these guides selects the map itself (Driver.tla): not an ordinary element fault
    alt = []
    value = ''
    until = None
    at = si          # index of the segment that carries the fault in the new document
    before = notes_status(n, vals)

    def pad(lst, k, filler=''):
        while len(lst) < k:
            lst.append(filler)

    def setval(v):
        pad(vals, ei)
        if ci:
            comp = vals[ei - 1] if isinstance(vals[ei - 1], list) else ([] if vals[ei - 1] == '' else [vals[ei - 1]])
            pad(comp, ci)
            comp[ci - 1] = v
            vals[ei - 1] = comp
        else:
            vals[ei - 1] = v
    if kind in ('TooLong', 'TooShort', 'BadCode', 'BadClass', 'BadDate', 'BadTime', 'MissingRequired', 'NotUsedPresent'):
        e = eles[ei - 1] if not ci else eles[ei - 1]['subs'][ci - 1]
        if kind == 'TooLong':
            value = ('1' if numeric(e['dtype']) else 'A') * (e['mx'] + 1)
        elif kind == 'TooShort':
            value = ('1' if numeric(e['dtype']) else 'A') * (e['mn'] - 1)
        elif kind == 'BadCode':
            # not a code by which a same-id segment elsewhere in the map is recognised (CRC*ZZ is the EPSDT referral of the 837): that would be another segment, not a bad code
            avoid = set()
            for o in full['nodes']:
                if o['kind'] == 'seg' and o['id'] == n['id'] and len(o.get('eles', [])) >= ei:
                    oe = o['eles'][ei - 1]
                    if ci and oe.get('subs') and len(oe['subs']) >= ci:
                        oe = oe['subs'][ci - 1]
                    avoid |= set(oe.get('codes') or [])
            value = bad_code(e, conc.ext, avoid)
            if value is None:
                return None
        elif kind == 'BadClass':
            value = 'A' * max(e['mn'], 1)
        elif kind == 'BadDate':
            # impossible month / day / day of that month, rotating with the position of the fault
            value = ['20041301', '20040132', '20040230', '20030229', '20040431', '20040010'][(si + ei + ci) % 6]
            if e['mn'] > 8:
                return None
        elif kind == 'BadTime':
            # impossible hour / minute / second, at every length the element admits, rotating with the position of the fault
            cands = [v for v in ('2500', '1260', '250000', '126000', '120060', '1200600', '12006000', '12600000', '120075')
                     if max(e['mn'], 4) <= len(v) <= e['mx']]
            if not cands:
                return None
            value = cands[(si + ei + ci) % len(cands)]
        elif kind == 'MissingRequired':
            value = ''
        elif kind == 'NotUsedPresent':
            value = conc.val_for(e)
            if isinstance(value, list):
                return None
        setval(value)
        if ci and isinstance(vals[ei - 1], list) and not any(vals[ei - 1]):
            return None               # the whole composite would vanish: that is a missing composite, not a missing component
        if not any((any(v) if isinstance(v, list) else v != '') for v in vals):
            return None               # the segment would be left without any data: a different fault (empty segment)
        after = notes_status(n, vals)
        if after != before:
            return None               # the change would also break (or repair) a syntax note: not a single fault
    elif kind == 'TooManySubElements':
        comp = vals[ei - 1] if isinstance(vals[ei - 1], list) else [vals[ei - 1]]
        pad(comp, len(eles[ei - 1]['subs']))
        comp.append('X')
        vals[ei - 1] = comp
        value = conc.ct.join(comp)
    elif kind == 'TooManyElements':
        pad(vals, len(eles))
        if plan.get('gap'):
            vals.append('')           # variant: the first surplus element is empty, the data sits in the one after it
            alt = [len(eles) + 1, len(eles) + 2]
        vals.append('X')
        value = 'X'
        if notes_status(n, vals) != before:
            return None
    elif kind == 'SyntaxBroken':
        ty, pos = wc.parse_syntax(n['syntax'][ci - 1])
        if before[ci - 1] is not False:
            return None

        def pres(p):
            return p <= len(vals) and (any(vals[p - 1]) if isinstance(vals[p - 1], list) else vals[p - 1] != '')

        def removable(p):
            return p <= len(eles) and eles[p - 1]['usage'] == 'S' and pres(p)
        todo = None
        if ty == 'P':
            pp = [p for p in pos if removable(p)]
            if pp and sum(1 for p in pos if pres(p)) >= 2:
                todo = [pp[-1]]
        elif ty == 'R':
            if all(removable(p) or not pres(p) for p in pos):
                todo = [p for p in pos if pres(p)]
        elif ty == 'C':
            pp = [p for p in pos[1:] if removable(p)]
            if pres(pos[0]) and pp:
                todo = [pp[-1]]
        elif ty == 'L':
            if pres(pos[0]) and all(removable(p) or not pres(p) for p in pos[1:]):
                todo = [p for p in pos[1:] if pres(p)]
        elif ty == 'E':
            # exclusion: one of the positions is present - a second one is filled in (simple, usable element)
            have = [p for p in pos if pres(p)]
            cand = [p for p in pos if not pres(p) and p <= len(eles) and eles[p - 1]['usage'] != 'N' and eles[p - 1]['k'] == 'e']
            if len(have) == 1 and cand and not plan.get('tail'):
                p = cand[(si + ci) % len(cand)]
                pad(vals, p)
                vals[p - 1] = conc.val_for(eles[p - 1])
                value = vals[p - 1]
                todo = []
        if todo is None or (ty != 'E' and not todo):
            return None
        for p in todo:
            vals[p - 1] = ''
        if plan.get('tail'):
            # variant: the segment also ENDS at the element the note hangs on (everything situational after it removed)
            anchor = pos[0] if ty in ('C', 'L') else max([p for p in pos if pres(p)] or [0])
            extra = [p for p in range(anchor + 1, len(vals) + 1) if pres(p)]
            if not extra or not anchor or not all(removable(p) for p in extra):
                return None
            for p in extra:
                vals[p - 1] = ''
        after = notes_status(n, vals)
        if [a for k, a in enumerate(after) if k != ci - 1] != [b for k, b in enumerate(before) if k != ci - 1] or after[ci - 1] is not True:
            return None
        # removing a trailing element shortens the segment; required-ness is untouched (only situational elements removed)
        ei = 0
        ci = 0                    # (the plan's sub field carried the index of the note, it is not a component position)
        alt = pos
    elif kind == 'UnknownSeg':
        info.insert(si + 1, (0, 'ZZZ', ['X1']))
        at = si + 1
        sid = 'ZZZ'
    elif kind == 'OutOfPlaceSeg':
        # a copy of an earlier segment of the same set whose identifier cannot occur from here on (Fault!ForwardIds); the plan's
        # sub field carries the index of the copied segment, it is not a component position
        src = info[ci - 1]
        info.insert(si + 1, (0, src[1], [list(x) if isinstance(x, list) else x for x in src[2]]))
        at = si + 1
        sid = src[1]
        ci = 0
    elif kind == 'MissingRequiredSeg':
        # only where the segment occurs once: with a repeated one, removing one occurrence leaves a conformant document
        if (si > 0 and info[si - 1][0] == nid) or (si + 1 < len(info) and info[si + 1][0] == nid):
            return None
        del info[si]
        at = si
        # how far the report may lag: over the following same-ordinal segment siblings of the missing node
        until = si
        while until + 1 < len(info) and info[until][0] in nodes and nodes[info[until][0]]['kind'] == 'seg' \
                and nodes[info[until][0]]['parent'] == n['parent'] and nodes[info[until][0]]['pos'] == n['pos']:
            until += 1
    elif kind == 'MissingRequiredLoop':
        loop = n['parent']

        def inside_l(x):
            p = nodes[x]['parent'] if x in nodes else None
            while p:
                if p == loop:
                    return True
                p = nodes[p]['parent']
            return False
        j = si + 1
        while j < len(info) and info[j][0] and inside_l(info[j][0]) and info[j][0] != nid:
            j += 1
        inst = info[si:j]
        # only where the loop occurs once (a repeated one leaves a conformant document), where something follows inside the set, and
        # where no hierarchical level / service line / LS-LE bracket would have to be renumbered or re-bracketed
        if j >= len(info) or info[j][0] == nid or (si > 0 and info[si - 1][0] and inside_l(info[si - 1][0])) \
                or any(x[1] in ('HL', 'LX', 'LS', 'LE') for x in inst) or (si > 0 and info[si - 1][1] == 'LS') or info[j][1] in ('SE', 'GE', 'IEA'):
            return None
        del info[si:j]
        at = si
    elif kind == 'SegOverMax':
        m = n['rep']
        have = 1
        while si > 0 and info[si - 1][0] == nid:          # the plan may sit on a later occurrence of the run: count the whole run
            si -= 1
            have += 1
        j = si + have - 1
        while j + 1 < len(info) and info[j + 1][0] == nid:
            j += 1
            have += 1
        extra = m + 1 - have
        if extra <= 0:
            return None
        for _ in range(extra):
            info.insert(j + 1, (nid, sid, [list(x) if isinstance(x, list) else x for x in vals]))
        at = j + extra
    elif kind == 'LoopOverMax':
        loop = n['parent']
        r = nodes[loop]['rep']

        def inside(x):
            p = nodes[x]['parent'] if x in nodes else None
            while p:
                if p == loop:
                    return True
                p = nodes[p]['parent']
            return False
        # the loop instance starting at si: up to the next segment outside the loop or the next first segment of the same loop
        j = si + 1
        while j < len(info) and info[j][0] and inside(info[j][0]) and info[j][0] != nid:
            j += 1
        inst = info[si:j]
        # how many instances are already there in a row (behind this one ...
        have = 1
        b = si
        while b > 0 and info[b - 1][0] and (inside(info[b - 1][0]) or info[b - 1][0] == nid):
            b -= 1
            if info[b][0] == nid:
                have += 1
        # ... and after it)
        k = j
        while k < len(info) and info[k][0] == nid:
            have += 1
            k2 = k + 1
            while k2 < len(info) and info[k2][0] and inside(info[k2][0]) and info[k2][0] != nid:
                k2 += 1
            k = k2
        extra = r + 1 - have
        if extra <= 0 or any(x[1] in ('HL', 'LX', 'LS', 'LE') for x in inst) or (si > 0 and info[si - 1][1] == 'LS'):
            return None           # renumbering hierarchical levels / service lines, or re-bracketing LS/LE, would add further faults
        pos_ins = k
        for t in range(extra):
            for x in inst:
                info.insert(pos_ins, (x[0], x[1], [list(y) if isinstance(y, list) else y for y in x[2]]))
                pos_ins += 1
        at = k + (extra - 1) * len(inst)
    else:
        return None
    if kind not in ('UnknownSeg', 'OutOfPlaceSeg', 'MissingRequiredSeg', 'MissingRequiredLoop', 'SegOverMax', 'LoopOverMax'):
        info[si] = (nid, sid, vals)
    # keep the envelope consistent: recount SE01
    cnt = 0
    for k, (a, b, v) in enumerate(info):
        if b == 'ST':
            cnt = 0
        if b not in ('ISA', 'IEA', 'GS', 'GE'):
            cnt += 1
        if b == 'SE':
            v[0] = str(cnt)
    faultset = sum(1 for x in info[:at + 1] if x[1] == 'ST')
    last_st = max([k for k, x in enumerate(info[:at + 1]) if x[1] == 'ST'] or [-1])
    last_se = max([k for k, x in enumerate(info[:at]) if x[1] == 'SE'] or [-1])
    if last_st < 0 or last_se > last_st:
        faultset = 0          # the fault is outside any transaction set (TA1 after GE ...): no set carries it
    return info, {'seg': n['id'] if kind not in ('UnknownSeg', 'OutOfPlaceSeg') else sid, 'at': at, 'until_at': until if until is not None else at, 'ele': ei, 'sub': ci, 'value': value}, alt, faultset


def _run_batch(args):
    fn, jobs = args
    _, full = wc.export_map(fn)
    out = []
    clean_cache = {}
    for tid, doc, plan in jobs:
        triple = wc.TRIPLES[tid % 3]
        eol = wc.EOLS[(tid // 3) % 3]
        conc = wc.Concretiser(full, triple, eol, fill_optional=True)
        text0, info = conc.build(doc)
        key = (tuple(doc), triple, eol)
        if key not in clean_cache:
            r0 = wc.run_validator(text0, want_ack=False)
            clean_cache[key] = (r0['verdict'] is True and not r0['errors'] and not r0['exc'])
        ap = apply_plan(full, info, plan, conc)
        if ap is None:
            continue
        info2, inj, alt, faultset = ap
        text = conc.render(info2)
        r = wc.run_validator(text, want_ack=True)
        at = inj.pop('at')
        ua = inj.pop('until_at')
        inj['until'] = r['nodes'][ua]['segpos'] if ua < len(r['nodes']) else -1
        if at < len(r['nodes']):
            inj['segpos'] = r['nodes'][at]['segpos']
            inj['line'] = r['nodes'][at]['line']
        else:
            inj['segpos'] = -1
            inj['line'] = -1
        sets, groups = wc.ack_codes(r['ack'])
        errors = [{'lvl': e['lvl'], 'code': e['code'], 'seg': e.get('seg', ''), 'segpos': e.get('segpos', -1), 'line': e.get('line', -1),
                   'ele': e.get('ele', 0), 'sub': e.get('sub', 0), 'val': e.get('val', '')} for e in r['errors']]
        out.append({'id': tid, 'map': fn, 'kind': plan['kind'], 'local': bool(plan['local']), 'inj': inj, 'alt': alt, 'verdict': r['verdict'] if r['verdict'] is not None else False,
                    'exc': r['exc'], 'site': r.get('site', ''), 'errors': errors, 'sets': sets, 'faultset': faultset, 'clean': clean_cache[key], 'text': text,
                    'triple': ''.join(triple)})
    return out


def _validate_batch(recs):
    d = vlib.scratch('c03tv')
    try:
        p = os.path.join(d, 'recs.json')
        keys = ('id', 'kind', 'local', 'inj', 'alt', 'verdict', 'exc', 'errors', 'sets', 'faultset', 'clean')
        vlib.write_json(p, [{k: r[k] for k in keys} for r in recs])
        res = vlib.run_tlc('T_Fault', 'SPECIFICATION Spec\nINVARIANT Report\n', env={'TRACE_FILE': p}, workers=1, timeout=1500, heap='3g')
        if res.error:
            raise vlib.MachineryError('T_Fault: ' + res.error)
        rep = res.payloads.get('REJECTS')
        if not rep:
            raise vlib.MachineryError('T_Fault printed no report\n' + res.out[-1500:])
        return {'distinct': res.distinct, 'generated': res.generated, 'depth': res.depth, 'wall': res.wall, 'rej': rep[-1]['rej']}
    finally:
        shutil.rmtree(d, ignore_errors=True)


def cover_docs(full, docs, k):
    """greedy choice of k documents covering as many segment nodes as possible"""
    chosen, seen = [], set()
    pool = list(docs)
    while pool and len(chosen) < k:
        best = max(pool, key=lambda d: (len(set(d) - seen), -len(d)))
        if not (set(best) - seen) and chosen:
            break
        chosen.append(best)
        seen |= set(best)
        pool.remove(best)
    return chosen


def run(tier, replay=None):
    if replay:
        obj = json.load(open(replay))['replay']
        r = wc.run_validator(obj['text'])
        print('fault    :', obj.get('kind'), obj.get('inj'), 'local' if obj.get('local') else 'structural')
        print('verdict  :', r['verdict'], 'exc', r['exc'], r.get('site', ''))
        for e in r['errors'][:12]:
            print('error    :', {k: e.get(k) for k in ('lvl', 'code', 'seg', 'segpos', 'ele', 'sub', 'val')})
        print('recorded clause:', obj.get('clause'))
        return 0
    chk = Check('C03', tier, level='model_checking')
    chk.rule = 'one case per (conformant document, fault plan = segment x element x component x kind) enumerated by TLC over the exported map; each case is one validation run'
    q = tier == 'quick'
    if not q:
        wc.MEMO_MAPS = True       # thorough tier: each worker process loads every map once (reuse of map objects is C18's subject)
    rnd = random.Random(vlib.seed() + 3)
    files = wc.choose_maps(tier, rnd)
    gens = wc.gen_docs_many(files, cap=2, maxdepth=60 if q else 80, timeout=2400)
    sims = wc.gen_docs_many(files, cap=3, maxdepth=150, mode='sim', num=40 if q else 150, seed=vlib.seed(), timeout=2400)
    ejobs = []
    for fn in files:
        _, full = wc.export_map(fn)
        # the random deep walks visit many situational segments per document: a handful of them covers (nearly) every segment node
        docs = cover_docs(full, gens[fn]['docs'] + [d for d in sims[fn]['docs'] if d not in gens[fn]['docs']], 4 if q else 40)
        ejobs.append((fn, docs))
    enum = vlib.parallel_map(_enum_job, ejobs)
    jobs = []
    tid = 0
    kinds_total = {}
    for (fn, docs), (_, plans, st) in zip(ejobs, enum):
        res = vlib.TlcResult(); res.distinct = st['distinct']; res.generated = st['generated']; res.depth = st['depth']; res.wall = st['wall']
        chk.add_tlc(res, 'Fault plans ' + fn)
        for p in plans:
            kinds_total[p['kind']] = kinds_total.get(p['kind'], 0) + 1
        # every broken-note plan also in the variant where the segment ENDS at the element the note hangs on
        tails = [dict(p, tail=True) for p in plans if p['kind'] == 'SyntaxBroken']
        # every fifth too-many-elements plan also with an empty element between the defined ones and the surplus data
        tails += [dict(p, gap=True) for k, p in enumerate(p_ for p_ in plans if p_['kind'] == 'TooManyElements') if k % 5 == 0]
        if q:
            # stratified by kind so that rare kinds are always exercised
            bykind = {}
            for p in plans:
                bykind.setdefault(p['kind'], []).append(p)
            sel = []
            for k, ps in sorted(bykind.items()):
                rnd.shuffle(ps)
                sel += ps[:45]
                # two-digit element positions (HI10 .. HI12, EB13, CAS19 ...) are few among the plans: always a handful of them
                sel += [p for p in ps[45:] if p['ele'] >= 10][:6]
            plans = sel
        plans = plans + tails
        batch = []
        for p in plans:
            tid += 1
            batch.append((tid, docs[p['doc']], p))
        for b in vlib.chunked(batch, 60):
            jobs.append((fn, b))
    results = vlib.parallel_map(_run_batch, jobs)
    recs = [r for rs in results for r in rs]
    if not recs:
        raise vlib.MachineryError('no fault could be realised')
    vres = vlib.parallel_map(_validate_batch, list(vlib.chunked(recs, max(200, len(recs) // vlib.NCPU + 1))))
    byid = {r['id']: r for r in recs}
    tot = vlib.TlcResult()
    for r in vres:
        tot.distinct += r['distinct']; tot.generated += r['generated']; tot.wall = max(tot.wall, r['wall']); tot.depth = max(tot.depth, r['depth'])
        for tid_, clause in r['rej']:
            rec = byid[tid_]
            sig = {'clause': clause, 'kind': rec['kind']}
            if clause == 'exception':
                sig.update({'exc': rec['exc'], 'site': rec['site']})
            elif clause in ('not_localised', 'other_errors_reported'):
                others = sorted(set('%s/%s' % (e['lvl'], e['code']) for e in rec['errors']))
                sig['reported'] = others[:4]
                extra = [e for e in rec['errors'] if e['segpos'] != rec['inj'].get('segpos')]
                if clause == 'other_errors_reported' and rec['kind'] == 'MissingRequiredLoop' and extra and \
                        all(e['lvl'] == 'seg' and e['code'] == '3' and e['seg'] == rec['inj']['seg'] for e in extra):
                    sig['what'] = 'same_missing_loop_reported_again_at_a_later_segment'
            chk.violation(sig, '%s: fault %s at %s (%s): clause %s; verdict=%s exc=%s %s errors=%s sets=%s'
                          % (rec['map'], rec['kind'], {k: rec['inj'][k] for k in ('seg', 'segpos', 'ele', 'sub', 'value')}, 'local' if rec['local'] else 'structural', clause,
                             rec['verdict'], rec['exc'], rec['site'], [{k: e[k] for k in ('lvl', 'code', 'seg', 'segpos', 'ele', 'sub')} for e in rec['errors'][:4]], rec['sets']),
                          {'kind': rec['kind'], 'map': rec['map'], 'inj': rec['inj'], 'local': rec['local'], 'text': rec['text'], 'clause': clause})
    chk.add_tlc(tot, 'T_Fault')
    chk.add_traces(len(recs))
    chk.add_eval(len(recs))
    done = {}
    for r in recs:
        done[r['kind']] = done.get(r['kind'], 0) + 1
        chk.note_distinct('%s|%s|%s|%s|%s|%s' % (r['map'], r['kind'], r['inj']['seg'], r['inj']['segpos'], r['inj']['ele'], r['inj']['sub']))
    for k in sorted(done):
        ex = [r for r in recs if r['kind'] == k][0]
        chk.sample({'kind': k, 'map': ex['map'], 'injected_at': ex['inj'], 'verdict': ex['verdict'], 'errors': ex['errors'][:2]}, cap=16)
    chk.extra['plans_enumerated_by_kind'] = kinds_total
    chk.extra['runs_by_kind'] = done
    chk.extra['not_clean_base_documents'] = sum(1 for r in recs if not r['clean'])
    chk.extra['maps'] = files
    chk.assumptions = ['fault values are constructed so that they break exactly one constraint (plans that would also flip a syntax note are dropped)',
                       'OutOfPlaceSeg: a copy of an earlier segment whose identifier occurs nowhere forward of the insertion point in the map (Fault!ForwardIds, by identifier only - a sufficient condition); kind NotUsedSeg is not generated: no shipped map declares a not-used segment (only empty not-used wrapper loops)',
                       'a fault on an element the qualifier tests look at, and every segment-level fault, is treated as structural: only rejection and localisation are required']
    return chk.finish()


if __name__ == '__main__':
    vlib.main_wrapper(run)
