"""C18 - results are a function of the document and the parameters alone.

spec -> code : TLC enumerates Session.tla: every history of library calls (document x call kind x reuse mode) up to
               the bound (BFS), plus a seeded sample of longer ones (TLC simulation).  Every emitted history is
               executed in ONE fresh interpreter (lib/c18_worker.py, 16 at a time); Fresh(doc, kind) comes from one-call
               fresh interpreters run under several string hash seeds.
code -> spec : the recorded observation logs (digests of the masked texts + verdict + digest of the watched globals)
               are validated by TLC against T_Session.tla: for every call Obs = Fresh(doc, kind) and globals' = globals;
               every fresh process of the same (doc, kind) observes the same, whatever its hash seed.
Python drives the code, masks exactly the differences the property allows and projects to digests; the verdict
(which clause fails where) is TLC's.
"""
import difflib
import json
import os
import random
import shutil
import subprocess
import sys
import time
from concurrent.futures import ThreadPoolExecutor

sys.path.insert(0, os.path.dirname(os.path.abspath(__file__)))
import vlib
from vlib import run_tlc, tlc_must_pass, Check
import c18_corpus

PY = '/venv/bin/python'
WORKER = os.path.join(os.path.dirname(os.path.abspath(__file__)), 'c18_worker.py')
DOCS = sorted(c18_corpus.DOCS)
KINDS = ['validate', 'context', 'convert', 'loops', 'loopcopy']
FIELDS = ['verdict', 'errors', 'xml', 'html', 'ack', 'out']
PAR = 16
ABBR = {'validate': 'V', 'context': 'C', 'convert': 'X', 'loops': 'L', 'loopcopy': 'K'}
NOTERM = 'no_termination'


def progress(msg):
    if os.environ.get('C18_PROGRESS'):
        sys.stderr.write('[c18 %s] %s\n' % (time.strftime('%H:%M:%S'), msg))
        sys.stderr.flush()


def hash_seeds(tier):
    """string hash seeds of the interpreters: a fixed base set plus VERIF_SEED-derived ones"""
    rnd = random.Random(vlib.seed() * 7919 + 18)
    extra = 2 if tier == 'quick' else 8
    out = [0, 1, 2, 3]
    while len(out) < 4 + extra:
        s = rnd.randrange(4, 2 ** 32 - 1)
        if s not in out:
            out.append(s)
    return out


# ------------------------------------------------------------------ running the real code
def run_worker(job, hseed, cwd):
    env = dict(os.environ)
    env['PYTHONPATH'] = vlib.REPO
    env['PYTHONHASHSEED'] = str(hseed)
    env['PYTHONDONTWRITEBYTECODE'] = '1'
    try:
        p = subprocess.run([PY, '-W', 'ignore', WORKER], input=json.dumps(job), cwd=cwd, env=env, stdout=subprocess.PIPE,
                           stderr=subprocess.PIPE, timeout=600, universal_newlines=True, errors='replace')
    except subprocess.TimeoutExpired:
        raise vlib.MachineryError('worker timed out on %s' % json.dumps(job['calls']))
    if p.returncode != 0:
        raise vlib.MachineryError('worker failed (rc=%s) on %s\n%s' % (p.returncode, json.dumps(job['calls']), p.stderr[-1500:]))
    try:
        res = json.loads(p.stdout)
    except ValueError:
        raise vlib.MachineryError('worker printed no JSON on %s\n%s' % (json.dumps(job['calls']), (p.stdout + p.stderr)[-1500:]))
    if not os.path.realpath(res.get('pyx12_file', '')).startswith(os.path.realpath(vlib.REPO)):
        raise vlib.MachineryError('worker imported pyx12 from %s, not from %s' % (res.get('pyx12_file'), vlib.REPO))
    return res


def run_jobs(jobs, cwd, deadline=None):
    """jobs: list of (job, hashseed); returns results in order; one fresh interpreter each, PAR at a time.
    Jobs that would start after `deadline` are not started (result None)."""
    if not jobs:
        return []

    def one(jh):
        if deadline is not None and time.time() > deadline:
            return None
        return run_worker(jh[0], jh[1], cwd)
    with ThreadPoolExecutor(PAR) as ex:
        return list(ex.map(one, jobs))


def calls_of(hist):
    return [{'doc': d, 'kind': k, 'reuse': r} for d, k, r in hist]


def hist_text(hist, mark=None):
    out = []
    for n, (d, k, r) in enumerate(hist, 1):
        s = '%s(%s%s)' % (ABBR[k], d, '' if r == 'none' else ',reuse ' + r)
        out.append('>>' + s + '<<' if n == mark else s)
    return ' ; '.join(out)


def make_local_maps(xmldir):
    """a copy of the shipped map directory (for the map_path parameter) in which the 834 5010 guide differs from the packaged one:
    834 is no transaction set identifier there, so a document that is valid against the packaged maps is not against these"""
    import shutil
    dst = os.path.join(xmldir, 'localmaps')
    shutil.copytree(os.path.join(vlib.REPO, 'pyx12', 'map'), dst)
    fn = os.path.join(dst, '834.5010.X220.A1.xml')
    txt = open(fn, encoding='utf-8').read()
    i = txt.index('xid="ST01"')
    j = txt.index('<code>834</code>', i)
    open(fn, 'w', encoding='utf-8').write(txt[:j] + '<code>83X</code>' + txt[j + len('<code>834</code>'):])
    return dst


def make_xml_inputs(docs, xmldir, cwd):
    """the XML form of each document (input of the convert calls) comes from a fresh validate under seed 0"""
    jobs = [({'calls': calls_of([(d, 'validate', 'none')]), 'xmldir': xmldir, 'savexml': True}, 0) for d in docs]
    return run_jobs(jobs, cwd)


# ------------------------------------------------------------------ TLC: histories
def session_cfg(maxlen, prune, mod=1, salt=0, emitmin=1):
    cfg = ('SPECIFICATION Spec\nCONSTANTS NDocs = %d\n MaxLen = %d\n Prune = %s\n SampleMod = %d\n SampleSalt = %d\n EmitMin = %d\n'
           % (len(DOCS), maxlen, 'TRUE' if prune else 'FALSE', mod, salt, emitmin))
    cfg += 'INVARIANT ObsIsFresh\nINVARIANT HistoryFree\nINVARIANT LegalLog\nINVARIANT GlobalsConstant\nPROPERTY GlobalsUnchanged\n'
    return cfg + 'INVARIANT Emit\n'


def session_run(chk, label, **kw):
    res = tlc_must_pass(run_tlc('Session', session_cfg(**kw), workers=1, timeout=1500), label)
    chk.add_tlc(res, label)
    hs = set(tuple(tuple(c) for c in h) for h in res.payloads.get('HIST', []))
    if not hs:
        raise vlib.MachineryError('%s emitted no histories' % label)
    return hs


def _round_robin(hs, rnd, col):
    groups = {}
    for h in sorted(hs):
        groups.setdefault(tuple(c[col] for c in h), []).append(h)
    keys = sorted(groups)
    rnd.shuffle(keys)
    for k in keys:
        rnd.shuffle(groups[k])
    out, i = [], 0
    while len(out) < len(hs):
        out += [groups[k][i] for k in keys if i < len(groups[k])]
        i += 1
    return out


def stratified(hs, rnd):
    """seeded order in which every document sequence comes up before any comes up a second time, interleaved with an order
    in which every sequence of call kinds comes up before any comes up a second time (if a stage has to stop at its
    deadline, what was executed still covers every ordered pair of documents and every ordered pair of call kinds)"""
    a, b = _round_robin(hs, rnd, 0), _round_robin(hs, rnd, 1)
    out, seen = [], set()
    for x, y in zip(a, b):
        for h in (x, y):
            if h not in seen:
                seen.add(h)
                out.append(h)
    return out


def enumerate_histories(chk, tier):
    """exhaustive part (BFS over all histories up to the bound) + seeded samples of longer ones (Sampled of SessionDef)"""
    salt = (vlib.seed() * 104729 + 18) % 1000003
    if tier == 'quick':
        full = session_run(chk, 'Session all histories <= 2', maxlen=2, prune=False)
        samples = session_run(chk, 'Session sampled histories of length 3', maxlen=3, prune=False, mod=170, salt=salt, emitmin=3)
    else:
        full = session_run(chk, 'Session all kept histories <= 3', maxlen=3, prune=True)
        samples = session_run(chk, 'Session sampled histories of length 3', maxlen=3, prune=False, mod=50, salt=salt, emitmin=3)
        samples |= session_run(chk, 'Session sampled histories of length 4', maxlen=4, prune=False, mod=2000, salt=salt, emitmin=4)
    if set(d for h in full for d, k, r in h) != set(DOCS):
        raise vlib.MachineryError('corpus of Session.tla and lib/c18_corpus.py differ')
    if set(d for h in full for d, k, r in h if k in ('loops', 'loopcopy')) != set(c18_corpus.LOOPIDS):
        raise vlib.MachineryError('LoopDocs of SessionDef.tla and LOOPIDS of lib/c18_corpus.py differ')
    if set(k for h in full for d, k, r in h) != set(KINDS):
        raise vlib.MachineryError('call kinds of SessionDef.tla and lib/c18.py differ')
    # stages: (name, histories, seconds after start when no further process of the stage is started, exhaustive?)
    rnd = random.Random(vlib.seed() + 18)
    pairs = sorted(h for h in full if len(h) == 2)
    triples = sorted(h for h in full if len(h) == 3)
    extra = sorted(samples - full)
    pairs, triples, extra = stratified(pairs, rnd), stratified(triples, rnd), stratified(extra, rnd)
    if tier == 'quick':
        stages = [('all histories of 2 calls', pairs, 170, True), ('seeded sample of longer histories', extra, 110, False)]
    else:
        stages = [('all histories of 2 calls', pairs, 1500, True), ('all kept histories of 3 calls', triples, 1380, True),
                  ('seeded sample of longer histories', extra, 1440, False)]
    return stages, full


# ------------------------------------------------------------------ TLC: trace validation
def obs_of(c):
    return {f: c[f] for f in FIELDS}


def _validate_chunk(args):
    base, hists, tag = args
    d = vlib.scratch('c18tr')
    try:
        path = os.path.join(d, 'trace.json')
        vlib.write_json(path, {'fresh': base, 'hists': hists})
        res = run_tlc('T_Session', 'SPECIFICATION Spec\nINVARIANT Report\n', env={'TRACE_FILE': path}, workers=1, timeout=1500,
                      heap='3g', tag=tag)
        if res.error or res.violated:
            raise vlib.MachineryError('T_Session: %s' % (res.error or res.violated))
        reps = res.payloads.get('REJECTS')
        if not reps:
            raise vlib.MachineryError('T_Session printed no REJECTS report\n' + res.out[-1500:])
        res.out = ''
        return res, [tuple(r) for r in reps[-1]['rej']]
    finally:
        shutil.rmtree(d, ignore_errors=True)


def validate(chk, base, hists, label, chunk=2500):
    """returns rejects as (kind, index into base / hists (0-based), call number (1-based), clause)"""
    chunks = []
    for off in range(0, max(len(hists), 1), chunk):
        chunks.append((off, hists[off:off + chunk]))
    outs = vlib.parallel_map(_validate_chunk, [(base, hs, 'c18tr%d' % n) for n, (off, hs) in enumerate(chunks)], procs=6)
    rejects = set()
    for (off, hs), (res, rej) in zip(chunks, outs):
        chk.add_tlc(res, '%s[%d..%d]' % (label, off, off + len(hs)))
        for kind, i, k, clause in rej:
            if kind == 'fresh':
                rejects.add(('fresh', i - 1, 1, clause))
            else:
                rejects.add(('hist', off + i - 1, k, clause))
    return sorted(rejects)


# ------------------------------------------------------------------ explaining a reject (full texts are re-recorded)
def diff_class(exp, obs):
    """how two masked texts differ: same lines in another order, or different content"""
    if isinstance(exp, list):
        exp = '\n'.join(exp)
    if isinstance(obs, list):
        obs = '\n'.join(obs)
    el, ol = exp.split('\n'), obs.split('\n')
    if sorted(el) == sorted(ol) and el != ol:
        ids = sorted(set(l.strip().split('*')[0][:12] for a, b in zip(el, ol) if a != b for l in (a, b)))
        return 'line_order:' + ','.join(ids[:4])
    return 'content'


def diff_excerpt(exp, obs, n=30):
    if isinstance(exp, list):
        exp = '\n'.join(exp)
    if isinstance(obs, list):
        obs = '\n'.join(obs)
    d = list(difflib.unified_diff(exp.split('\n'), obs.split('\n'), 'fresh process', 'observed', lineterm='', n=1))
    return [l[:240] for l in d[:n]]


def field_text(rec, field):
    if field == 'verdict':
        return rec['verdict']
    return rec['text'][field]


def explain_hist(hist, hseed, k, clause, xmldir, cwd):
    """re-run the history and the fresh process of its k-th call with full texts"""
    d, kind, reuse = hist[k - 1]
    jobs = [({'calls': calls_of(hist), 'xmldir': xmldir, 'full': True}, hseed),
            ({'calls': calls_of([(d, kind, 'none')]), 'xmldir': xmldir, 'full': True}, hseed)]
    rh, rf = run_jobs(jobs, cwd)
    c, f = rh['calls'][k - 1], rf['calls'][0]
    rep = {'kind': 'hist', 'hist': [list(x) for x in hist], 'hashseed': hseed, 'call': k, 'clause': clause}
    if len(rh['calls']) < k:
        rep.update({'reproduced': True, 'note': 'on re-execution: ' + rh.get('aborted', '?')})
        return rep, NOTERM, ['on re-execution an earlier call did not terminate: ' + rh.get('aborted', '?')]
    if clause == 'globals':
        prev = rh['g0'] if k == 1 else rh['calls'][k - 2]['g']
        rep.update({'reproduced': c['g'] != prev, 'changed_cells': c['gdiff']})
        return rep, 'cells:' + ','.join(c['gdiff'][:2]), ['watched global cells changed by the call: ' + ', '.join(c['gdiff'])]
    if clause not in FIELDS:
        rep.update({'reproduced': True})
        return rep, clause, [clause]
    exp, obs = field_text(f, clause), field_text(c, clause)
    rep.update({'reproduced': c[clause] != f[clause], 'expected': exp, 'observed': obs})
    ex = diff_excerpt(exp, obs)
    rep['diff'] = ex
    return rep, diff_class(exp, obs), ex


def explain_fresh(doc, kind, seed_ref, seed_other, clause, xmldir, cwd):
    jobs = [({'calls': calls_of([(doc, kind, 'none')]), 'xmldir': xmldir, 'full': True}, s) for s in (seed_ref, seed_other)]
    ra, rb = run_jobs(jobs, cwd)
    a, b = ra['calls'][0], rb['calls'][0]
    rep = {'kind': 'fresh', 'doc': doc, 'call_kind': kind, 'hashseeds': [seed_ref, seed_other], 'clause': clause}
    if clause == 'globals':
        rep.update({'reproduced': b['g'] != rb['g0'], 'changed_cells': b['gdiff']})
        return rep, 'cells:' + ','.join(b['gdiff'][:2]), ['watched global cells changed by the call: ' + ', '.join(b['gdiff'])]
    exp, obs = field_text(a, clause), field_text(b, clause)
    rep.update({'reproduced': a[clause] != b[clause], 'expected': exp, 'observed': obs})
    ex = diff_excerpt(exp, obs)
    rep['diff'] = ex
    return rep, diff_class(exp, obs), ex


def report_rejects(chk, rejects, base_meta, hist_meta, seeds, xmldir, cwd, base_why):
    """base_meta[i] = (doc, kind, seed index); hist_meta[i] = (history, seed index, result); base_why[i] = why the i-th
    fresh process did not finish its call"""
    # one-call fresh processes that disagree with the reference process / change globals
    seen = set()
    for typ, i, k, clause in rejects:
        if typ != 'fresh':
            continue
        doc, kind, sidx = base_meta[i]
        if (doc, kind, clause) in seen:
            continue
        seen.add((doc, kind, clause))
        if clause == NOTERM:
            why = base_why.get(i, '?')
            chk.violation({'clause': NOTERM, 'kind': kind, 'where': 'fresh_process'},
                          'a single %s call on %s in a fresh process (PYTHONHASHSEED %s) does not come back: %s' % (kind, doc, seeds[sidx], why),
                          {'kind': 'hist', 'hist': [[doc, kind, 'none']], 'hashseed': seeds[sidx], 'call': 1, 'clause': NOTERM, 'why': why})
            continue
        rep, dcls, ex = explain_fresh(doc, kind, seeds[0], seeds[sidx], clause, xmldir, cwd)
        if clause == 'globals':
            sig = {'clause': 'globals', 'kind': kind, 'diff': dcls}
            desc = 'a single %s call on %s in a fresh process changes watched globals: %s' % (kind, doc, '; '.join(ex))
        else:
            sig = {'clause': 'fresh_process_differs', 'field': clause, 'kind': kind, 'diff': dcls}
            desc = ('%s(%s) in two fresh processes (PYTHONHASHSEED %s vs %s) gives a different %s [%s]: %s'
                    % (kind, doc, seeds[0], seeds[sidx], clause, dcls, ' | '.join(ex[2:10])))
        chk.violation(sig, desc, rep)
    # calls of histories: group by (clause, kind of the call [, first changed cell]); of each group the example needing the
    # weakest reuse mode and the fewest calls is explained (full texts re-recorded) and reported once
    rank = {'none': 0, 'params': 1, 'maps': 2}
    groups, counts = {}, {}
    for typ, i, k, clause in rejects:
        if typ != 'hist':
            continue
        hist, sidx, res = hist_meta[i]
        d, kind, reuse = hist[k - 1]
        cell = (res['calls'][k - 1]['gdiff'] or ['?'])[0] if clause == 'globals' else ''
        key = (clause, kind, cell)
        cand = (rank[reuse], k, i)
        if key not in groups or cand < groups[key][0]:
            groups[key] = (cand, hist[:k], sidx, k, reuse)
        counts[key] = counts.get(key, 0) + 1
    budget = 10
    for key in sorted(groups):
        clause, kind, cell = key
        cand, hist, sidx, k, reuse = groups[key]
        count = counts[key]
        if clause == NOTERM:       # not re-executed for an explanation: the recorded reason is the explanation
            i = cand[2]
            why = hist_meta[i][2]['calls'][k - 1].get('why', '?')
            chk.violation({'clause': NOTERM, 'kind': kind, 'where': 'history'},
                          'history %s: the marked call does not come back (%s); the one-call fresh process does (%d such calls)'
                          % (hist_text(hist, k), why, count),
                          {'kind': 'hist', 'hist': [list(x) for x in hist], 'hashseed': seeds[sidx], 'call': k, 'clause': NOTERM,
                           'why': why, 'occurrences': count})
            continue
        if budget > 0:
            budget -= 1
            rep, dcls, ex = explain_hist(hist, seeds[sidx], k, clause, xmldir, cwd)
        else:
            rep, dcls, ex = {'kind': 'hist', 'hist': [list(x) for x in hist], 'hashseed': seeds[sidx], 'call': k, 'clause': clause}, '?', []
        rep['occurrences'] = count
        if clause == 'globals':
            sig = {'clause': 'globals', 'kind': kind, 'diff': dcls}
            desc = ('history %s: the marked call changes watched globals (%d such calls): %s'
                    % (hist_text(hist, k), count, '; '.join(ex)))
        else:
            sig = {'clause': 'history_dependent', 'field': clause, 'kind': kind, 'reuse': reuse, 'diff': dcls}
            desc = ('history %s: %s of the marked call differs from the fresh process [%s] (%d such calls): %s'
                    % (hist_text(hist, k), clause, dcls, count, ' | '.join(ex[2:10])))
        chk.violation(sig, desc, rep)


# ------------------------------------------------------------------ binding self-test
def selftest(chk, base, hists):
    import copy
    hs = copy.deepcopy(hists[:3])
    hs[0]['calls'][-1]['obs']['ack'] = 'corrupted'
    hs[1]['calls'][0]['g'] = 'corrupted'
    hs[2]['calls'][0]['obs']['verdict'] = 'corrupted'
    sub = Check('C18', chk.tier)
    rej = validate(sub, base, hs, 'selftest')
    got = set((i, c) for t, i, k, c in rej if t == 'hist')
    want = {(0, 'ack'), (1, 'globals'), (2, 'verdict')}
    ok = want <= got
    chk.extra['binding_selftest'] = {'corrupted_records': 3, 'rejected_clauses': sorted(got), 'ok': ok}
    if not ok:
        raise vlib.MachineryError('binding self-test failed: corrupted trace accepted (%s)' % sorted(got))


# ------------------------------------------------------------------ replay
def replay_file(path):
    obj = json.load(open(path))['replay']
    cwd = vlib.scratch('c18rp')
    try:
        xmldir = os.path.join(cwd, 'xml')
        os.makedirs(xmldir)
        make_local_maps(xmldir)
        bad = 0
        if obj['kind'] == 'fresh':
            make_xml_inputs([obj['doc']], xmldir, cwd)
            clause = obj['clause']
            rep, dcls, ex = explain_fresh(obj['doc'], obj['call_kind'], obj['hashseeds'][0], obj['hashseeds'][1], clause, xmldir, cwd)
            print('%s(%s) in fresh processes with PYTHONHASHSEED %s and %s: clause %s -> %s' % (
                obj['call_kind'], obj['doc'], obj['hashseeds'][0], obj['hashseeds'][1], clause,
                'DIFFERENT [%s]' % dcls if rep['reproduced'] else 'equal'))
            print('\n'.join(ex))
            bad = 1 if rep['reproduced'] else 0
        else:
            hist = [tuple(x) for x in obj['hist']]
            make_xml_inputs(sorted(set(d for d, k, r in hist)), xmldir, cwd)
            print('history (one fresh interpreter, PYTHONHASHSEED=%s): %s' % (obj['hashseed'], hist_text(hist)))
            jobs = [({'calls': calls_of(hist), 'xmldir': xmldir, 'full': True}, obj['hashseed'])]
            jobs += [({'calls': calls_of([(d, k, 'none')]), 'xmldir': xmldir, 'full': True}, obj['hashseed']) for d, k, r in hist]
            res = run_jobs(jobs, cwd)
            g = res[0]['g0']
            for n, c in enumerate(res[0]['calls'], 1):
                f = res[n]['calls'][0]
                diffs = [fl for fl in FIELDS if c[fl] != f[fl]]
                gl = c['g'] != g
                g = c['g']
                print(' call %d %s: observed vs expected (fresh process): %s%s' % (
                    n, hist_text([hist[n - 1]]), 'differs in ' + ','.join(diffs) if diffs else 'equal',
                    '; watched globals changed: ' + ','.join(c['gdiff']) if gl else ''))
                for fl in diffs:
                    print('   -- %s [%s]' % (fl, diff_class(field_text(f, fl), field_text(c, fl))))
                    print('\n'.join('   ' + l for l in diff_excerpt(field_text(f, fl), field_text(c, fl), 16)))
                if diffs or gl:
                    bad = 1
        return bad
    finally:
        shutil.rmtree(cwd, ignore_errors=True)


# ------------------------------------------------------------------ main
def run(tier, replay=None):
    if replay:
        return replay_file(replay)
    chk = Check('C18', tier)
    chk.rule = ('one case per history of library calls (document x kind in {validate with all sinks, context iteration, xml->x12 '
                'conversion} x reuse in {none, params, maps}, and for an 837 and an 835 the kinds {iteration by loop id with the '
                'iterate_loop_segments() event streams, the same with copy() of every yielded node}) executed in one fresh interpreter; '
                'every call of it is compared with the one-call fresh process; a history of one call is the trivial case (it is the '
                'baseline itself)')
    seeds = hash_seeds(tier)
    stages, full = enumerate_histories(chk, tier)
    if os.environ.get('C18_LIMIT'):     # development aid only: run a subset of the histories
        lim = int(os.environ['C18_LIMIT'])
        stages = [(nm, hs[:lim], dl, ex) for nm, hs, dl, ex in stages]
        chk.extra['development_limit'] = lim
    progress('stages: ' + ', '.join('%s=%d' % (nm, len(hs)) for nm, hs, dl, ex in stages))
    cwd = vlib.scratch('c18run')
    try:
        xmldir = os.path.join(cwd, 'xml')
        os.makedirs(xmldir)
        make_local_maps(xmldir)
        first = make_xml_inputs(DOCS, xmldir, cwd)
        # Fresh(doc, kind): one-call interpreters under every hash seed
        base_meta, jobs = [], []
        singles = sorted(set((d, k) for h in full for d, k, r in h))       # the (document, kind) pairs of the specification
        for sidx, s in enumerate(seeds):
            for d in DOCS:
                for k in [k for k in KINDS if (d, k) in singles]:
                    base_meta.append((d, k, sidx))
                    jobs.append(({'calls': calls_of([(d, k, 'none')]), 'xmldir': xmldir}, s))
        bres = run_jobs(jobs, cwd)
        progress('%d fresh processes done' % len(bres))
        base, base_why = [], {}
        for n, ((d, k, sidx), r) in enumerate(zip(base_meta, bres)):
            c = r['calls'][0]
            if c.get('why'):
                base_why[n] = c['why']
            base.append({'doc': d, 'kind': k, 'seed': sidx, 'ref': sidx == 0, 'g0': r['g0'], 'g': c['g'], 'obs': obs_of(c)})
        # the histories, hash seeds in rotation, stage by stage; a stage stops starting processes at its deadline
        hists, hseeds, hres, stage_info, complete = [], [], [], [], True
        for nm, hs, dl, exh in stages:
            sd = [seeds[n % len(seeds)] for n in range(len(hs))]
            res = run_jobs([({'calls': calls_of(h), 'xmldir': xmldir}, sidx) for h, sidx in zip(hs, sd)], cwd, deadline=chk.t0 + dl)
            done = 0
            for h, sidx, r in zip(hs, sd, res):
                if r is not None:
                    hists.append(h)
                    hseeds.append(seeds.index(sidx))
                    hres.append(r)
                    done += 1
            stage_info.append({'stage': nm, 'histories': len(hs), 'executed': done, 'exhaustive_part': exh})
            if exh and done < len(hs):
                complete = False
            progress('%s: %d of %d executed' % (nm, done, len(hs)))
        covered = set(h[:n] for h in hists for n in range(1, len(h) + 1))
        ncovered = len(covered)
        chk.extra['histories'] = {'enumerated_exhaustively': len(full), 'stages': stage_info, 'executed_processes': len(hists),
                                  'covered_including_prefixes': ncovered,
                                  'by_length': {str(n): sum(1 for h in covered if len(h) == n) for n in range(1, 5)}}
        hist_meta, trace_h = [], []
        for h, sidx, r in zip(hists, hseeds, hres):
            hist_meta.append((h, sidx, r))
            trace_h.append({'seed': sidx, 'g0': r['g0'],
                            'calls': [{'doc': c['doc'], 'kind': c['kind'], 'reuse': c['reuse'], 'g': c['g'], 'obs': obs_of(c)} for c in r['calls']]})
            chk.note_distinct('|'.join(','.join(c) for c in h))
        ncalls = sum(len(r['calls']) for r in hres)
        chk.extra['processes_stopped_at_a_call_that_did_not_come_back'] = sum(1 for r in hres if r.get('aborted'))
        chk.add_traces(len(first) + len(bres) + len(hres))
        chk.add_eval(len(bres) + ncalls)
        rejects = validate(chk, base, trace_h, 'T_Session')
        progress('trace validation done: %d rejected clauses' % len(rejects))
        report_rejects(chk, rejects, base_meta, hist_meta, seeds, xmldir, cwd, base_why)
        selftest(chk, base, trace_h)
        for n in (0, len(hists) // 2, len(hists) - 1):
            h, sidx, r = hist_meta[n]
            chk.sample({'history': hist_text(h), 'hashseed': seeds[sidx],
                        'observed': [{'verdict': c['verdict'][:60], 'nerr': c['nerr'], 'len': c['len'], 'ack': c['ack'], 'globals': c['g']} for c in r['calls']]})
        n = next((n for n, h in enumerate(hists) if [c[1] for c in h[:2]] == ['loopcopy', 'loops']), None)
        if n is not None:
            h, sidx, r = hist_meta[n]
            chk.sample({'history': hist_text(h), 'hashseed': seeds[sidx],
                        'observed': [{'verdict': c['verdict'][:80], 'len': c['len'], 'out': c['out'], 'globals': c['g']} for c in r['calls']]})
        chk.extra['corpus'] = c18_corpus.ABOUT
        chk.extra['hash_seeds'] = seeds
        chk.extra['fresh_processes'] = len(bres)
        chk.extra['calls_compared'] = ncalls
        chk.extra['histories_covered_incl_prefixes'] = ncovered
        chk.extra['rejected_calls'] = len(rejects)
        chk.extra['masked'] = ['ack ISA09 ISA10 ISA13 GS04 GS05 GS06 GE02 IEA02 ST02 SE02', 'html "Analysis Date:" line']
        chk.extra['watched_globals'] = ('__defaults__/__kwdefaults__ of every function and method of the loaded pyx12 modules, their module-level '
                                        'objects and class attributes, names bound in those modules/classes, logging configuration '
                                        '(root and pyx12 loggers), cwd, sys.path, environ, recursion limit, stdio identity')
    finally:
        shutil.rmtree(cwd, ignore_errors=True)
    chk.exhaustive = complete
    chk.extra['exhaustive_space'] = ('all histories of length <= 2 over 9 documents x 3 kinds x 3 reuse modes + 2 documents x 2 loop kinds'
                                     + ('' if tier == 'quick' else '; all kept histories of length 3 (<= 2 distinct documents, uniform reuse mode)')
                                     + '; longer histories are a seeded sample'
                                     + ('' if complete else ' -- NOT completed within the time budget on this run, see histories.stages'))
    chk.assumptions = ['Fresh(doc, kind) is taken from one-call interpreters under %d string hash seeds; a history is compared with the one-call '
                       'process of the same hash seed' % len(seeds),
                       'reuse=maps is realised by handing the library the session\'s already loaded map objects through pyx12.map_if.load_map_file '
                       '(the library has no parameter for it); the error tree is read through a recording subclass of err_handler',
                       'a change of a watched global cell is reported even when no output differs within the bounded histories',
                       'ST02/SE02 of the acknowledgement are treated as generated control numbers (masked) like ISA13 and GS06',
                       'a call (with the reading of the watched globals after it) that uses more than %s s of CPU time or exhausts the '
                       'address space of its interpreter is reported as no_termination; ordinary calls use < 3 s'
                       % os.environ.get('C18_CALL_CPU', '45')]
    return chk.finish()


if __name__ == '__main__':
    vlib.main_wrapper(run)
