"""C15 helper: value catalogues (input construction only - no verdicts are computed here).

For an element definition (as read by c15_defs) the catalogue spans every constraint boundary: counted lengths
min-1 .. max+1, sign / point forms of numbers, every control character, blanks at either end, characters at the
border of the three character sets, every inline code and neighbours of it, members and non-members of the
referenced external code set, and the characteristic invalid forms of dates and times.  What each value breaks
is decided by the TLA+ definition, never here.
"""
import random

CTRL_ALL = [chr(c) for c in range(32)] + ['\x7f']
CTRL_QUICK = ['\x00', '\x01', '\x06', '\x11', '\x17', '\x07', '\t', '\n', '\r', '\x0e', '\x1b', '\x1f', '\x7f']
CHARSET_EDGE = ['a', 'z', '^', '`', '~', '#', '$', '%', '@', '_', '{', '|', '<', '\\', '"', "'", '!', '&', '=', '*', ':', '/']
CHARSET_EDGE_QUICK = ['a', '^', '`', '~', '#', '"', '\\', '*']
NONASCII = ['\xe9', '\xa0', '\x85', '€']

D8_FORMS = ['20240229', '20230229', '20240230', '20241301', '20240001', '20240100', '17991231', '18000101', '99991231',
            '2024022', '202402291', '2024022A', '2024-229', ' 2024022', '20240229 ', '19000229', '20000229']
D6_FORMS = ['240229', '230229', '491231', '500101', '241301', '24022', '2402291', '24022A']
DT12_FORMS = ['202402291230', '202402292400', '202402291260', '202302291230', '20240229123', '2024022912300']
RD8_FORMS = ['20240101-20240229', '20240229-20230229', '20230229-20240229', '2024010120240229', '20240101--20240229',
             '20240101-2024022', '-20240229', '20240101-', '20240101-20240229-20240301', '240101-240229',
             '20240101 20240229']
# date ranges whose halves have every length a date notation can have (6 YYMMDD, 8 CCYYMMDD, 12 CCYYMMDDHHMM) or are
# empty, in all combinations: only 8-8 is a range (every half is a valid date of its own notation)
_HALF = {0: ('', ''), 6: ('240101', '240229'), 8: ('20240101', '20240229'), 12: ('202401011230', '202402291230')}
RD8_HALVES = [_HALF[a][0] + '-' + _HALF[b][1] for a in (6, 8, 12, 0) for b in (6, 8, 12, 0)]
# the qualifier-selected formats just below, at and just above every length they admit:
# D8 7/8/9, D6 5/6/7, DT 5/6/7/8/9/11/12/13, TM 3/4/5/6/7/8/9
QUAL_BOUNDARY = ['2024022', '20240229', '202402291', '24022', '240229', '2402291', '20240229123', '202402291230', '2024022912300',
                 '123', '1230', '12305', '123059', '1230591', '12305912', '123059123']
TM_FORMS = ['0000', '2359', '2400', '2360', '1230', '123', '12305', '123059', '123060', '1230591', '12305912', '123059123',
            '12:30', '123A', '1230 ', '-123', '12.3']
NUM_ODD = ['-', '.', '-.', '--1', '1-', '-1-', '+1', '1e5', '1E5', '1,5', ' 1', '1 ', '1.', '.5', '-.5', '1.5', '-1.5', '1.2.3',
           '0', '-0', '00', '1A', 'A', '1..', '.-1', '0.0']


def uniq(xs):
    seen = set()
    out = []
    for x in xs:
        if x not in seen:
            seen.add(x)
            out.append(x)
    return out


def shaped(dtype, n):
    """a value of counted length n that is in the value language of the type whenever such a value exists"""
    if n <= 0:
        return ''
    if dtype in ('AN', 'ID', 'B', ''):
        return 'A' * n
    if dtype == 'R' or dtype[:1] == 'N':
        return ('12345678901234567890' * (n // 20 + 1))[:n]
    if dtype in ('DT', 'D8', 'D6'):
        return {6: '240229', 8: '20240229', 12: '202402291230'}.get(n, ('20240229123055' * (n // 14 + 1))[:n])
    if dtype == 'RD8':
        return '20240101-20240229' if n == 17 else ('20240101-20240229' * (n // 17 + 1))[:n]
    if dtype == 'TM':
        return {4: '1230', 6: '123059', 7: '1230591', 8: '12305912'}.get(n, ('12305912' * (n // 8 + 1))[:n])
    return 'A' * n


def good_value(d, members):
    """a value meant to satisfy the definition (used to fill the other components / elements)"""
    if d['usage'] == 'N':
        return ''
    ok_len = lambda c: d['min'] <= len(c) <= d['max'] and c == c.strip() and not any(x in c for x in '*:~^')
    for c in d['codes']:
        if ok_len(c):
            return c
    if d['hasExt'] and not d['codes']:
        for c in sorted(members):
            if ok_len(c):
                return c
    if d['regex']:
        return '123456789'
    n = d['min']
    if d['dtype'] in ('DT', 'D8', 'D6'):
        n = 8 if d['min'] <= 8 <= d['max'] else (6 if d['min'] <= 6 <= d['max'] else d['min'])
    if d['dtype'] == 'TM':
        n = 4 if d['min'] <= 4 <= d['max'] else d['min']
    return shaped(d['dtype'], max(n, 1))


def lengths(d):
    mn, mx = d['min'], d['max']
    ns = set([mn - 1, mn, mn + 1, (mn + mx) // 2, mx - 1, mx, mx + 1, mx + 2])
    return sorted(n for n in ns if n >= 1)


def catalogue(d, members, tier, rnd):
    """non-empty candidate values for the element definition d (members: the external code set as read from codes.xml)"""
    quick = tier == 'quick'
    t, mn, mx = d['dtype'], d['min'], d['max']
    text = t in ('AN', 'ID')
    numeric = t == 'R' or t[:1] == 'N'
    vals = []
    for n in lengths(d):
        vals.append(shaped(t, n))
    base = good_value(d, members) or shaped(t, max(mn, 1))
    vals.append(base)
    # --- code lists
    codes = list(d['codes'])
    if codes:
        pick = codes if (not quick or len(codes) <= 12) else (codes[:4] + codes[-2:] + rnd.sample(codes, 6))
        vals.extend(pick)
        for c in pick[:3]:
            vals.extend([c + ' ', ' ' + c, c.lower(), c[:-1], c + c[-1:], c[:-1] + ('Q' if c[-1:] != 'Q' else 'X')])
    if d['hasExt']:
        ms = sorted(members)
        pick = ms if not quick else (ms[:3] + ms[-2:] + rnd.sample(ms, min(len(ms), 4)))
        vals.extend(pick)
        for c in pick[:2]:
            vals.extend([c + ' ', c.lower(), c[:-1], c + 'Q'])
        vals.extend(['QQ', 'ZZZ', 'Q' * max(mn, 1), '0' * max(mn, 1), 'Q' * mx])
    if codes or d['hasExt']:
        vals.extend([shaped(t, mn), shaped(t, mx), 'Q' * max(mn, 1)])
    if d['regex']:
        vals.extend(['123456789', '12345678', '1234567890', '12345678A', 'A23456789', '         ', 'A123456789', '12-123456789', 'AB 123456789 C'])   # (the pattern is searched for, not anchored)
    # --- numbers: sign and point are not counted
    if numeric:
        for n in (mn - 1, mn, mx, mx + 1):
            if n >= 1:
                s = shaped(t, n)
                pointed = s[:1] + '.' + s[1:] if n >= 2 else '.' + s
                vals.extend(['-' + s, pointed, '-' + pointed])
        vals.extend(NUM_ODD)
        vals.extend(['-' * (mx + 1), '.' * (mx + 1), '-' + '0' * mx, '0' * mx + '.0'])
    # --- control characters
    ctrl = CTRL_QUICK if quick else CTRL_ALL
    b_min, b_max = shaped(t, max(mn, 1)), shaped(t, mx)
    for c in ctrl:
        vals.append(b_min[:-1] + c)
        vals.append(base + c if len(base) < mx else base[:-1] + c)
    for c in (ctrl[:3] if quick else ctrl[:8]):
        vals.append(c + b_min[1:])
        vals.append(b_max + c)
        vals.append(c)
    # --- blanks
    for n in (mn - 1, mn, mx - 1, mx):
        if n >= 1:
            vals.append(shaped(t, n) + ' ')
            vals.append(' ' + shaped(t, n))
    vals.extend([' ', ' ' * max(mn, 1), ' ' * mx, ' ' * (mx + 1), shaped(t, max(mn - 2, 1)) + '  '])
    if mx >= 3:
        vals.append(shaped(t, 1) + ' ' + shaped(t, 1))
    # --- characters at the border of the character sets
    edge = CHARSET_EDGE_QUICK if quick else CHARSET_EDGE
    for c in edge + (NONASCII[:1] if quick else NONASCII):
        vals.append(b_min[:-1] + c)
        if text and mx > mn:
            vals.append(b_min + c)
    if text:
        vals.extend(['a' * max(mn, 1), 'Az09'[:mx] if mx >= max(mn, 1) else 'A', '0' * max(mn, 1), '-' * max(mn, 1)])
        if not quick:
            vals.extend([shaped(t, mn)[:-1] + '\xa0 ' if mn >= 1 else '\xa0 ', 'A\xa0 ', 'A\x85'])
    # --- dates and times
    if t in ('DT', 'D8', 'D6'):
        vals.extend(D8_FORMS + D6_FORMS + DT12_FORMS + ['20240101-20240229'])
    if t == 'TM':
        vals.extend(TM_FORMS)
    if t == 'RD8':
        vals.extend(RD8_FORMS + D8_FORMS[:4] + RD8_HALVES)
    return [v for v in uniq(vals) if v != '']


def qualified_values(quick):
    """values for an element whose date/time format is selected by a qualifier (DTP03, element 1251)"""
    v = D8_FORMS + RD8_FORMS + TM_FORMS[:8] + DT12_FORMS[:3] + D6_FORMS[:3] + ['A', '2024022\n']
    q = D8_FORMS[:8] + RD8_FORMS[:6] + TM_FORMS[:5] + DT12_FORMS[:2] + D6_FORMS[:2] + ['A']
    # both tiers: ranges with halves of every date length / empty halves, and every format at its boundary lengths
    return uniq((q if quick else v) + RD8_HALVES + QUAL_BOUNDARY)


TYPE_LISTS = [['D8'], ['RD8'], ['TM'], ['DT'], ['D6'], ['D8', 'RD8'], ['RD8', 'D8'], ['D8', 'DT']]
QUAL_GOOD = {'D8': '20240229', 'RD8': '20240101-20240229', 'TM': '1230', 'DT': '202402291230', 'D6': '240229'}
