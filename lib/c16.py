"""C16 - shipped maps, index and code tables are consistent and fully addressable.

model        : lib/c16_export.py reads maps.xml, every map file, dataele.xml and codes.xml with xml.etree (no pyx12)
               and writes them as JSON constants.  TLC evaluates spec/MapWF.tla over every exported map: the
               well-formedness clauses of the property per node, distinguishability of same-position siblings, the
               index clauses, and - as a state machine that resolves a path one component per step - that every
               loop / segment / element / component is reached again by its canonical path.  Every failing
               (map, node, clause) fact is reported (total verdicts).
code -> spec : the real pyx12 loads every indexed map twice (packaged resources; an explicit map_path copy made in a
               scratch directory, whose tables and index carry extra marker entries so that a loader ignoring
               map_path is seen), every node is walked in the order the code presents it, its own get_path() is fed
               to getnodebypath / getnodebypath2, map_index.get_filename is asked every key and near-miss keys, the
               loaded tables are projected.  TLC (spec/T_MapModel.tla) validates every record against the exported
               constants: loaded tree = exported tree, lookup(reported path) = the node, paths unique, both routes
               equal, index answers, tables.
Python only drives the real code, projects objects to JSON and turns the facts TLC prints into violations.
"""
import copy
import json
import os
import shutil
import sys
import time

sys.path.insert(0, os.path.dirname(os.path.abspath(__file__)))
import vlib
from vlib import run_tlc, Check
import c16_export as X

sys.path.insert(0, vlib.REPO)
import pyx12.codes
import pyx12.dataele
import pyx12.map_if
import pyx12.map_index
import pyx12.params

PID = 'C16'
PKG_DIR = os.path.join(vlib.REPO, 'pyx12', 'map')
MARK_DE = 'C16M'
MARK_CS = 'c16_marker'
MARK_MAP = 'c16.marker.xml'
MARK_KEY = ('00401', 'C16MARK', 'ZZ')
NOT_MAPS = ('comp_test.xml',)          # test fixture of the repository, not a transaction map
EMPTY_MAP = {'file': '', 'found': False, 'parsed': False, 'err': '', 'root_tag': '', 'xid': '', 'nodes': []}
EMPTY_TRACE = {'file': '', 'judged': 'pkg', 'routes': 'none', 'pkg': {'load': 'none', 'nodes': []}, 'dir': {'load': 'none', 'nodes': []}}
EMPTY_TABLES = {'given': False, 'de': [], 'cs': []}
ADDRESSED = ('loop', 'segment', 'element', 'component')


# ------------------------------------------------------------------ the explicit map directory
def make_copy_dir(root):
    """a copy of the packaged map directory with marker entries that no map refers to"""
    d = os.path.join(root, 'map')
    shutil.copytree(PKG_DIR, d)

    def patch(name, closing, extra):
        p = os.path.join(d, name)
        s = open(p, encoding='utf-8').read()
        k = s.rfind(closing)
        if k < 0:
            raise vlib.MachineryError('cannot add the marker to %s' % name)
        open(p, 'w', encoding='utf-8').write(s[:k] + extra + s[k:])
    patch('dataele.xml', '</data_elements>', '  <data_ele ele_num="%s" data_type="AN" min_len="1" max_len="3" name="C16 marker"/>\n' % MARK_DE)
    patch('codes.xml', '</codesets>', '  <codeset><id>%s</id><name>C16 marker</name><version><code>X</code></version></codeset>\n' % MARK_CS)
    patch('maps.xml', '</maps>', '  <version icvn="%s"><map vriic="%s" fic="%s" abbr="MARK">%s</map></version>\n' % (MARK_KEY[0], MARK_KEY[1], MARK_KEY[2], MARK_MAP))
    shutil.copy(os.path.join(d, 'x12.control.00401.xml'), os.path.join(d, MARK_MAP))
    return d


# ------------------------------------------------------------------ real code: loading and walking
def _kind(node):
    if node.is_map_root():
        return 'map'
    if node.is_loop():
        return 'loop'
    if node.is_segment():
        return 'segment'
    if node.is_composite():
        return 'composite'
    if node.is_element():
        return 'component' if node.parent is not None and node.parent.is_composite() else 'element'
    return 'other'


def _s(x):
    return '' if x is None else str(x)


def _lookup(m, api, path, index_of):
    try:
        r = getattr(m, api)(path)
    except Exception as e:
        return -1, type(e).__name__
    if r is None:
        return 0, ''
    return index_of.get(id(r), -2), ''


def walk_loaded(m, lookups=True):
    """the loaded tree in the order the code presents it -> list of node records (1-based numbers)"""
    objs = []
    recs = []
    num = {}

    def add(obj, par):
        objs.append(obj)
        me = len(objs)
        num[id(obj)] = me
        k = _kind(obj)
        rec = {'kind': k, 'id': _s(obj.id), 'par': par, 'kids': [], 'path': '', 'pexc': '', 'pos': -1, 'usage': '', 'lim': '',
               'seq': 0, 'de': '', 'ext': '', 'codes': [], 'nsyn': 0, 'dedef': False, 'extdef': False, 'g1': 0, 'g2': 0, 'x1': '', 'x2': ''}
        if k != 'map':
            rec['usage'] = _s(getattr(obj, 'usage', None))
        if k in ('loop', 'segment'):
            rec['pos'] = obj.pos if isinstance(obj.pos, int) else -1
            rec['lim'] = _s(obj.repeat if k == 'loop' else obj.max_use)
        if k == 'segment':
            rec['nsyn'] = len(obj.syntax)
        if k in ('element', 'composite', 'component'):
            rec['seq'] = obj.seq if isinstance(obj.seq, int) else -1
            rec['de'] = _s(obj.data_ele)
        if k in ('element', 'component'):
            rec['ext'] = _s(obj.external_codes)
            rec['codes'] = [_s(c) for c in obj.valid_codes]
            rec['dedef'] = obj.data_ele in obj.root.data_elements.dataele
            rec['extdef'] = obj.external_codes in obj.root.ext_codes.codes if obj.external_codes else False
        recs.append(rec)
        return me, rec

    # loops and segments: the public iterator gives them in pre-order; the parent pointer gives the shape
    for obj in m.loop_segment_iterator():
        if obj is m:
            add(obj, 0)
            continue
        par = num.get(id(obj.parent), 0)
        me, rec = add(obj, par)
        if par:
            recs[par - 1]['kids'].append(me)
        if obj.is_segment():
            for ch in obj.children:
                ce, _r = add(ch, me)
                rec['kids'].append(ce)
                if ch.is_composite():
                    for sub in ch.children:
                        se, _r2 = add(sub, ce)
                        recs[ce - 1]['kids'].append(se)
    for obj, rec in zip(objs, recs):
        if rec['kind'] == 'map':
            rec['path'] = '/'
            continue
        try:
            rec['path'] = _s(obj.get_path())
        except Exception as e:
            rec['pexc'] = type(e).__name__
            continue
        if rec['kind'] in ADDRESSED and lookups:
            rec['g1'], rec['x1'] = _lookup(m, 'getnodebypath', rec['path'], num)
            rec['g2'], rec['x2'] = _lookup(m, 'getnodebypath2', rec['path'], num)
    return recs, num


def project_tables(de, cs):
    return {'given': True,
            'de': [{'num': _s(k), 'type': _s(v['data_type']), 'min': v['min_len'], 'max': v['max_len']} for k, v in de.items()],
            'cs': [{'id': _s(k), 'n': len(v['codes'])} for k, v in cs.items()]}


def load_route(fname, map_path):
    try:
        m = pyx12.map_if.load_map_file(fname, pyx12.params.params(), map_path)
    except Exception as e:
        return {'load': 'exc:%s - %s' % (type(e).__name__, str(e)[:160].replace('Error:', 'Error -')), 'nodes': [], 'tables': EMPTY_TABLES}, None
    recs, _num = walk_loaded(m)
    # the tables this very map object validates against
    return {'load': 'ok', 'nodes': recs, 'tables': project_tables(m.data_elements.dataele, m.ext_codes.codes)}, m


def _record_map(arg):
    fname, copy_dir, routes = arg
    t0 = time.time()
    pkg = {'load': 'none', 'nodes': [], 'tables': EMPTY_TABLES}
    if routes == 'both':
        pkg, _m = load_route(fname, None)
    dr, _m = load_route(fname, copy_dir)
    return {'file': fname, 'judged': 'pkg' if routes == 'both' else 'dir', 'routes': routes, 'pkg': pkg, 'dir': dr, 'secs': round(time.time() - t0, 1)}


def record_tables(base):
    try:
        de = pyx12.dataele.DataElements(base).dataele
        cs = pyx12.codes.ExternalCodes(base, None).codes
    except Exception as e:
        raise vlib.MachineryError('the data element / code tables cannot be loaded at all: %s' % e)
    return project_tables(de, cs)


def index_queries(entries):
    """every key of the exported index and near-miss keys -> list of (icvn, vriic, fic, tspc or None)"""
    qs = []

    def add(icvn, vriic, fic, tspc):
        q = (icvn, vriic, fic, tspc)
        if q not in seen:
            seen.add(q)
            qs.append(q)
    seen = set()
    icvns = sorted(set(e['icvn'] for e in entries)) + ['00400', '00200', '0040', '004010', '']
    vriics = sorted(set(e['vriic'] for e in entries))
    fics = sorted(set(e['fic'] for e in entries))
    tspcs = sorted(set(e['tspc'] for e in entries if e['has_tspc'])) + ['99', '1', '']
    for e in entries:
        t = e['tspc'] if e['has_tspc'] else None
        add(e['icvn'], e['vriic'], e['fic'], t)
        add(e['icvn'], e['vriic'], e['fic'], None)
        for t2 in tspcs:
            add(e['icvn'], e['vriic'], e['fic'], t2)
        v, f, i = e['vriic'], e['fic'], e['icvn']
        for v2 in (v[:-1], v[:6], v + 'A', v + '1', v.lower(), v[1:], ' ' + v, v + ' ', v.replace('X', 'x')):
            add(i, v2, f, t)
            add(i, v2, f, None)
        for f2 in (f[:1], f + 'C', f.lower(), f[::-1], ' ' + f, ''):
            add(i, v, f2, t)
            add(i, v, f2, None)
        for i2 in icvns:
            add(i2, v, f, t)
            add(i2, v, f, None)
    for i in sorted(set(e['icvn'] for e in entries)):       # cross product: right parts, wrong combination
        for v in vriics:
            for f in fics:
                add(i, v, f, None)
    return qs


def record_queries(base, entries):
    idx = pyx12.map_index.map_index(base)
    out = []
    for (icvn, vriic, fic, tspc) in index_queries(entries):
        try:
            r = idx.get_filename(icvn, vriic, fic) if tspc is None else idx.get_filename(icvn, vriic, fic, tspc)
            got = _s(r) if r is None or isinstance(r, str) else 'obj:' + type(r).__name__
        except Exception as e:
            got = 'exc:' + type(e).__name__
        out.append({'icvn': icvn, 'vriic': vriic, 'fic': fic, 'tspc': _s(tspc), 'has_tspc': tspc is not None, 'got': got})
    return out


# ------------------------------------------------------------------ spec -> code: canonical paths
def _replay_canon(arg):
    """MapWF says: the text t resolves to exported node r (0 = to nothing).  Ask the real lookups."""
    fname, canon, em = arg
    try:
        m = pyx12.map_if.load_map_file(fname, pyx12.params.params())
    except Exception:
        return {'file': fname, 'n': 0, 'agree': 0, 'classes': {}, 'examples': []}
    recs, num = walk_loaded(m, lookups=False)
    if len(recs) != len(em):
        raise vlib.MachineryError('%s: a second load gave %d nodes, the first %d' % (fname, len(recs), len(em)))
    inv = {}
    for li, e in enumerate(em, 1):
        if e:
            inv[e] = li
    n = agree = 0
    classes = {}
    examples = []
    for c in canon:
        want = inv.get(c['r'], 0) if c['r'] else 0
        target = inv.get(c['n'], 0)
        kind = recs[target - 1]['kind'] if target else '?'
        for api in (('getnodebypath', 'getnodebypath2') if kind in ('loop', 'segment') else ('getnodebypath2',)):
            g, x = _lookup(m, api, c['t'], num)
            got = g if g > 0 else 0              # None and an exception both mean: nothing found
            n += 1
            if got == want:
                agree += 1
            else:
                key = '%s %s: spec says %s, code %s' % (api, kind, 'the node' if want == target and want else ('nothing' if not want else 'another node'),
                                                        ('raised ' + x) if g == -1 else 'returned None' if g == 0 else 'returned a different node')
                classes[key] = classes.get(key, 0) + 1
                if len(examples) < 3:
                    examples.append({'map': fname, 'path': c['t'], 'api': api, 'spec_node': want, 'code_result': g if g != -1 else 'exc ' + x})
    return {'file': fname, 'n': n, 'agree': agree, 'classes': classes, 'examples': examples}


# ------------------------------------------------------------------ TLC jobs
WF_CFG = ('SPECIFICATION Spec\nINVARIANT TypeOK\nINVARIANT DescentAgrees\nINVARIANT UniqueIfAddressable\n'
          'INVARIANT Report\nPROPERTY StepsGoDown\n')
TR_CFG = 'SPECIFICATION Spec\nINVARIANT TraceShape\nINVARIANT Report\n'


def _job(arg):
    """one TLC run: (label, module, cfg, constants dict) -> (label, TlcResult or error text)"""
    label, module, cfg, obj, wdir = arg
    path = os.path.join(wdir, label.replace('/', '_').replace(' ', '_') + '.json')
    vlib.write_json(path, obj)
    try:
        res = run_tlc(module, cfg, env={'TRACE_FILE': path}, workers=1, timeout=1500, heap='2g', tag='%s-%s' % (module, label[:40].replace(' ', '_')))
    except vlib.MachineryError as e:
        return label, str(e)
    finally:
        try:
            os.remove(path)
        except OSError:
            pass
    res.out = res.out[-4000:] if (res.error or res.violated) else ''
    return label, res


def constants(map_export, dataele, codesets, index=None, trace=None, queries=None, tables=None):
    return {'map': map_export, 'dataele': dataele, 'codesets': codesets,
            'index': index or {'entries': [], 'files': []}, 'trace': trace or EMPTY_TRACE,
            'queries': queries or [], 'tables': tables or EMPTY_TABLES}


def slim_trace(tr):
    """drop the fields TLC does not read (exception names are for the descriptions only)"""
    def nodes(ns):
        return [{k: v for k, v in n.items() if k not in ('x1', 'x2')} for n in ns]
    return {'file': tr['file'], 'judged': tr['judged'], 'routes': tr['routes'],
            'pkg': {'load': tr['pkg']['load'], 'nodes': nodes(tr['pkg']['nodes'])},
            'dir': {'load': tr['dir']['load'], 'nodes': nodes(tr['dir']['nodes'])}}


def report_of(res, label):
    """the final report of a run plus the facts it printed on the way (each fact once)"""
    reps = res.payloads.get('REJECTS')
    if not reps:
        raise vlib.MachineryError('%s: TLC printed no report' % label)
    rep = dict(reps[-1])
    seen = set()
    rep['rej'] = []
    for f in res.payloads.get('FACT', []):
        key = json.dumps(f, sort_keys=True)
        if key not in seen:
            seen.add(key)
            rep['rej'].append(f)
    rep['canon'] = res.payloads.get('CANON', [])
    if rep['stat']['facts'] != len(rep['rej']):
        raise vlib.MachineryError('%s: TLC counted %s facts, %d were printed' % (label, rep['stat']['facts'], len(rep['rej'])))
    return rep


def run_jobs(chk, jobs):
    # longest first, so that the big maps do not start last
    jobs = sorted(jobs, key=lambda j: -len(j[3]['map']['nodes']) - len(j[3]['trace']['pkg']['nodes']) - len(j[3]['trace']['dir']['nodes']))
    results = dict(vlib.parallel_map(_job, jobs, procs=min(vlib.NCPU, len(jobs))))
    out = {}
    for j in jobs:
        label = j[0]
        res = results[label]
        if isinstance(res, str):
            raise vlib.MachineryError('%s: %s' % (label, res[-1500:]))
        if res.error or res.violated:
            raise vlib.MachineryError('%s (%s): %s\n%s' % (label, j[1], res.error or ('model-level law %s violated' % res.violated), res.out[-2500:]))
        chk.add_tlc(res, label)
        out[label] = report_of(res, label)
    return out


# ------------------------------------------------------------------ facts -> violations
class Buffer(object):
    """collects violations and hands them to the Check one class (clause, kind, why) after the other in turn, so that the
    few lines the framework prints show the different kinds of problems instead of the first map only"""
    def __init__(self):
        self.items = []

    def violation(self, sig, desc, replay):
        self.items.append((sig, desc, replay))

    def flush(self, chk):
        rank = {}
        keyed = []
        for k, (sig, desc, replay) in enumerate(self.items):
            cls = (sig.get('clause'), sig.get('kind', ''), sig.get('why', ''))
            r = rank.get(cls, 0)
            rank[cls] = r + 1
            keyed.append((r, k, sig, desc, replay))
        for _r, _k, sig, desc, replay in sorted(keyed, key=lambda x: (x[0], x[1])):
            chk.violation(sig, desc, replay)


def node_desc(exp, n):
    """human description of exported node n (1-based) : path of ids"""
    nodes = exp['nodes']
    parts = []
    k = n
    while k >= 1:
        nd = nodes[k - 1]
        parts.append(nd['xid'] or ('#%s' % nd.get('seq', '')))
        k = nd['parent']
    return '/'.join(reversed(parts[:-1])) or '/'


def enclosing(exp, n, kind):
    nodes = exp['nodes']
    k = n
    while k >= 1:
        if nodes[k - 1]['kind'] == kind:
            return nodes[k - 1]['xid']
        k = nodes[k - 1]['parent']
    return ''


def report_wf(chk, exp, rep, indexed):
    """facts of MapWF over one exported map"""
    f = exp['file']
    n_facts = 0
    for fact in sorted(rep['rej'], key=lambda x: (x['c'], x['n'], x['a'], x['s'])):
        c, n, a, s = fact['c'], fact['n'], fact['a'], fact['s']
        n_facts += 1
        if not indexed:
            continue            # the property speaks about the maps the index names
        nd = exp['nodes'][n - 1]
        where = node_desc(exp, n)
        sig = {'clause': c, 'map': f}
        if c == 'data_ele':
            sig.update({'xid': nd['xid'], 'data_ele': s})
            desc = '%s: element %s (%s) refers to data element "%s", which dataele.xml does not define' % (f, nd['xid'], where, s)
        elif c == 'ext_codes':
            sig.update({'codeset': s})
            desc = '%s: element %s (%s) names the external code set "%s", which codes.xml does not define' % (f, nd['xid'], where, s)
        elif c == 'syntax':
            sig.update({'seg': nd['xid'], 'note': s})
            desc = ('%s: segment %s (%s) has %d elements; its syntax note "%s" is not a well-formed note over them'
                    % (f, nd['xid'], where, len(nd['kids']), s))
        elif c == 'inline_code':
            sig.update({'xid': nd['xid'], 'code': s})
            desc = '%s: element %s (%s) lists the code "%s", whose length is outside the limits of its data element %s' % (f, nd['xid'], where, s, nd['data_ele'])
        elif c == 'distinguishable':
            sig.update({'loop': enclosing(exp, nd['parent'], 'loop'), 'seg': _trigger_id(exp, n), 'shared': s})
            desc = ('%s: the siblings %s and %s at position %s of %s cannot be told apart: same segment id %s and %s'
                    % (f, where, node_desc(exp, a), nd['pos'], enclosing(exp, nd['parent'], 'loop') or 'the map', _trigger_id(exp, n),
                       ('both accept the qualifier(s) ' + s) if s else 'no disjoint qualifier code lists'))
        elif c == 'addressable':
            sig.update({'loop': enclosing(exp, n, 'loop') if nd['kind'] != 'loop' else nd['xid'], 'seg': enclosing(exp, n, 'segment'), 'kind': nd['kind']})
            desc = ('%s: no path of the documented grammar leads to %s %s: the most specific one, %s, resolves to %s'
                    % (f, nd['kind'], where, s, ('node ' + node_desc(exp, a)) if a else 'nothing'))
        else:
            sig.update({'xid': nd['xid']})
            desc = '%s: %s %s: %s "%s" is not well formed' % (f, nd['kind'], where, c, s)
        chk.violation(sig, desc, {'kind': 'wf', 'map': f, 'node': n, 'clause': c, 'fact': fact, 'where': where})
    return n_facts


def _trigger_id(exp, n):
    nodes = exp['nodes']
    k = n
    while nodes[k - 1]['kind'] == 'loop' and nodes[k - 1]['kids']:
        kids = sorted(nodes[k - 1]['kids'], key=lambda j: (int(nodes[j - 1]['pos']) if nodes[j - 1]['pos'].isdigit() else 0, j))
        k = kids[0]
    return nodes[k - 1]['xid']


LOADER_CLAUSES = ('children', 'all_nodes_loaded', 'node_loaded_twice', 'routes_equal', 'map_loads_dir')


def report_trace(chk, tr, rep, indexed):
    """facts of T_MapModel over one recorded map"""
    f = tr['file']
    nodes = tr[tr['judged']]['nodes']
    n_facts = 0
    for fact in sorted(rep['rej'], key=lambda x: (x['c'], x['n'], x['a'], x['s'])):
        c, n = fact['c'], fact['n']
        n_facts += 1
        if not indexed and not (c in LOADER_CLAUSES or c.startswith('attr_')):
            continue
        sig = {'clause': c, 'map': f}
        rp = {'kind': 'trace', 'map': f, 'route': tr['judged'], 'node': n, 'clause': c, 'fact': fact}
        if n >= 1 and c not in ('routes_equal',):
            nd = nodes[n - 1]
            sig.update({'kind': fact['k'], 'seg': fact['seg'], 'why': fact['why']})
            rp['path'] = nd['path']
            what = {-1: 'raised %s', -2: 'returned an object that is not a node of the map', 0: 'returned None'}
            if c in ('fetch1', 'fetch2'):
                api = 'getnodebypath' if c == 'fetch1' else 'getnodebypath2'
                g = nd['g1'] if c == 'fetch1' else nd['g2']
                x = nd['x1'] if c == 'fetch1' else nd['x2']
                res = (what[g] % x if g == -1 else what[g]) if g <= 0 else 'returned another node (%s %s, reported path %s)' % (nodes[g - 1]['kind'], nodes[g - 1]['id'], nodes[g - 1]['path'])
                desc = '%s: %s %s reports the path %s; %s on that path %s%s' % (f, nd['kind'], nd['id'], nd['path'], api, res, (' [%s]' % fact['why']) if fact['why'] else '')
            elif c == 'path_unique':
                o = nodes[fact['a'] - 1]
                desc = '%s: %s %s and %s %s (nodes %d and %d of the loaded tree) both report the path %s%s' % (f, o['kind'], o['id'], nd['kind'], nd['id'], fact['a'], n, nd['path'], (' [%s]' % fact['why']) if fact['why'] else '')
            elif c == 'path_self':
                desc = '%s: %s %s reports the path %s, which by the path grammar and the map does not lead to this node%s' % (f, nd['kind'], nd['id'], nd['path'], (' [%s]' % fact['why']) if fact['why'] else '')
            elif c == 'path_raises':
                desc = '%s: get_path() of %s %s raised %s' % (f, nd['kind'], nd['id'], nd['pexc'])
            elif c == 'children':
                desc = ('%s: the children the loaded %s %s presents (%s) are not the children of the map file in position order'
                        % (f, nd['kind'], nd['id'], ' '.join(nodes[k - 1]['id'] for k in nd['kids'])[:200]))
            elif c in ('de_defined', 'ext_defined'):
                sig['name'] = fact['s']
                desc = ('%s: element %s (%s): the loaded tables and the XML tables disagree on whether %s "%s" is defined'
                        % (f, nd['id'], nd['path'], 'data element' if c == 'de_defined' else 'external code set', fact['s']))
            else:
                desc = '%s: loaded %s %s (%s): %s differs from the map file (loaded value %r)' % (f, nd['kind'], nd['id'], nd['path'], c, fact['s'])
        elif c in ('tables_dataele', 'tables_codesets'):
            sig = {'clause': c, 'route': tr['judged'], 'via': 'map'}
            desc = ('%s loaded %s: the %s table the map object carries is not the table of that directory%s'
                    % (f, 'with an explicit map_path' if tr['judged'] == 'dir' else 'from the packaged resources',
                       'data element' if c == 'tables_dataele' else 'external code set', (' (missing: %s)' % fact['s']) if fact['s'] else ''))
        elif c == 'map_loads' or c == 'map_loads_dir':
            sig = {'clause': c, 'map': f}
            desc = '%s is named by the index but load_map_file%s fails: %s' % (f, ' with an explicit map_path' if c.endswith('dir') else '', fact['s'])
        elif c == 'routes_equal':
            desc = '%s: the tree loaded from the explicit map directory differs from the tree loaded from the packaged resources (first at node %d)' % (f, n)
        elif c == 'all_nodes_loaded':
            desc = '%s: node %s of the map file (and maybe others) does not appear in the loaded tree' % (f, fact['s'])
        else:
            desc = '%s: %s %s' % (f, c, fact['s'])
        chk.violation(sig, desc, rp)
    return n_facts


def report_index(chk, rep, route, queries, entries):
    for fact in sorted(rep['rej'], key=lambda x: (x['c'], x['n'])):
        c = fact['c']
        if c == 'index_lookup':
            q = queries[fact['n'] - 1]
            exp = sorted(set(e['file'] for e in entries if e['icvn'] == q['icvn'] and e['vriic'] == q['vriic'] and e['fic'] == q['fic']))
            kind = 'key' if exp else 'near_miss'
            chk.violation({'clause': c, 'route': route, 'query': kind},
                          'map_index(%s).get_filename(%r, %r, %r%s) returned %r; maps.xml has %s for these values'
                          % ('map_path' if route == 'dir' else '', q['icvn'], q['vriic'], q['fic'], (', %r' % q['tspc']) if q['has_tspc'] else '', q['got'],
                             exp or 'no entry'),
                          {'kind': 'index', 'route': route, 'query': q, 'fact': fact})
        elif c in ('tables_dataele', 'tables_codesets'):
            chk.violation({'clause': c, 'route': route},
                          'the %s table loaded %s is not the table of the XML file%s' % ('data element' if c == 'tables_dataele' else 'external code set',
                                                                                       'from the explicit map directory' if route == 'dir' else 'from the packaged resources',
                                                                                       (' (missing: %s)' % fact['s']) if fact['s'] else ''),
                          {'kind': 'tables', 'route': route, 'fact': fact})
        elif c == 'index_file':
            chk.violation({'clause': c, 'file': fact['s']}, 'maps.xml names %s, which is missing or not well-formed XML' % fact['s'], {'kind': 'indexwf', 'fact': fact})
        elif c == 'index_key':
            a, b = entries[fact['n'] - 1], entries[fact['a'] - 1]
            chk.violation({'clause': c, 'key': fact['s']}, 'maps.xml: the entries for %s and %s answer the same key %s' % (a['file'], b['file'], fact['s']),
                          {'kind': 'indexwf', 'fact': fact})
        else:
            chk.violation({'clause': c, 'route': route}, 'index run: %s %s' % (c, fact['s']), {'kind': 'index', 'route': route, 'fact': fact})


# ------------------------------------------------------------------ binding self-test
def selftest(chk, exp, tr, base_facts, dataele, codesets, wdir):
    """corrupt a recorded trace of a small map in known ways: T_MapModel must reject each corruption at the corrupted node
    with the right clause (facts the uncorrupted trace already draws are left aside)"""
    base = slim_trace(tr)
    if base['pkg']['load'] != 'ok':
        return
    nodes = base['pkg']['nodes']
    dirty = set(f['n'] for f in base_facts)
    try:
        seg = next(i for i, n in enumerate(nodes) if n['kind'] == 'segment' and len(n['kids']) >= 3 and nodes[n['par'] - 1]['par'] > 1
                   and not ({i + 1, n['par']} | set(n['kids'])) & dirty)
        loop = next(i for i, n in enumerate(nodes) if n['kind'] == 'loop' and len(n['kids']) >= 2 and (i + 1) not in dirty
                    and len(set((nodes[k - 1]['kind'], nodes[k - 1]['id']) for k in n['kids'])) > 1)
    except StopIteration:
        chk.extra['binding_selftest'] = 'skipped: no undisturbed segment / loop in the trace of %s' % tr['file']
        return
    ele = nodes[seg]['kids'][1] - 1
    cases = []

    def mk(fn, want, at):
        t = copy.deepcopy(base)
        fn(t['pkg']['nodes'])
        t['dir'] = copy.deepcopy(t['pkg'])
        cases.append((t, want, at + 1))
    mk(lambda ns: ns[ele].update({'g2': ele}), 'fetch2', ele)                                  # lookup gave the neighbour
    mk(lambda ns: ns[seg].update({'g1': -1}), 'fetch1', seg)                                   # lookup raised
    mk(lambda ns: ns[ele].update({'path': ns[ele - 1]['path']}), 'path_unique', ele)           # two nodes, one path
    mk(lambda ns: ns[loop]['kids'].reverse(), 'children', loop)                                # children out of position order
    mk(lambda ns: ns[seg].update({'usage': 'X'}), 'attr_usage', seg)
    mk(lambda ns: ns[ele].update({'codes': ns[ele]['codes'] + ['??']}), 'attr_codes', ele)
    mk(lambda ns: ns[ele].update({'dedef': not ns[ele]['dedef']}), 'de_defined', ele)
    t = copy.deepcopy(base)
    t['dir']['nodes'][ele]['usage'] = 'Q'
    cases.append((t, 'routes_equal', ele + 1))
    jobs = [('selftest %d %s' % (i, want), 'T_MapModel', TR_CFG, constants(exp, dataele, codesets, trace=t), wdir) for i, (t, want, _at) in enumerate(cases)]
    res = dict(vlib.parallel_map(_job, jobs, procs=min(vlib.NCPU, len(jobs))))
    ok = 0
    for (label, _m, _c, _o, _w), (t, want, at) in zip(jobs, cases):
        r = res[label]
        if isinstance(r, str) or r.error or r.violated or not r.payloads.get('REJECTS'):
            raise vlib.MachineryError('binding self-test %s: TLC failed: %s' % (label, r if isinstance(r, str) else (r.error or r.violated)))
        got = set((x['c'], x['n']) for x in report_of(r, label)['rej'])
        if (want, at) not in got:
            raise vlib.MachineryError('binding self-test: a trace corrupted for clause %s at node %d was accepted (reported: %s)' % (want, at, sorted(got)[:12]))
        ok += 1
    chk.extra['binding_selftest'] = {'corrupted_traces': len(cases), 'rejected_with_expected_clause': ok}


# ------------------------------------------------------------------ replay
def do_replay(path):
    obj = json.load(open(path))['replay']
    wdir = vlib.scratch('c16replay')
    try:
        dataele = X.export_dataele(PKG_DIR)['eles']
        codesets = X.export_codes(PKG_DIR)['sets']
        if obj['kind'] == 'wf':
            exp = X.export_map(PKG_DIR, obj['map'])
            _l, res = _job(('replay', 'MapWF', WF_CFG, constants(exp, dataele, codesets), wdir))
            if isinstance(res, str) or res.error or res.violated:
                raise vlib.MachineryError('MapWF failed on %s: %s' % (obj['map'], res if isinstance(res, str) else (res.error or res.violated)))
            facts = [x for x in report_of(res, 'replay')['rej'] if x['c'] == obj['clause'] and x['n'] == obj['node']]
            nd = exp['nodes'][obj['node'] - 1]
            print('%s node %d (%s %s at %s)' % (obj['map'], obj['node'], nd['kind'], nd['xid'], obj.get('where')))
            print('exported fields: %s' % {k: nd[k] for k in ('usage', 'pos', 'repeat', 'max_use', 'seq', 'data_ele', 'ext', 'syntax') if nd.get(k)})
            print('specification (MapWF) clause %s: %s' % (obj['clause'], ('FAILS ' + json.dumps(facts)) if facts else 'holds now'))
            return 1 if facts else 0
        if obj['kind'] == 'trace':
            copy_dir = make_copy_dir(wdir)
            tr = _record_map((obj['map'], copy_dir, 'both'))
            exp = X.export_map(PKG_DIR, obj['map'])
            _l, res = _job(('replay', 'T_MapModel', TR_CFG, constants(exp, dataele, codesets, trace=slim_trace(tr)), wdir))
            if isinstance(res, str) or res.error or res.violated:
                raise vlib.MachineryError('T_MapModel failed on %s: %s' % (obj['map'], res if isinstance(res, str) else (res.error or res.violated)))
            facts = [x for x in report_of(res, 'replay')['rej'] if x['c'] == obj['clause'] and x['n'] == obj['node']]
            print('%s: load (packaged) = %s, load (map_path) = %s' % (obj['map'], tr['pkg']['load'], tr['dir']['load']))
            if obj['node'] >= 1 and obj['node'] <= len(tr['pkg']['nodes']):
                nd = tr['pkg']['nodes'][obj['node'] - 1]
                print('node %d: %s %s reports path %s' % (obj['node'], nd['kind'], nd['id'], nd['path'] or ('<%s>' % nd['pexc'])))
                for api, g, x in (('getnodebypath', nd['g1'], nd['x1']), ('getnodebypath2', nd['g2'], nd['x2'])):
                    what = 'raised ' + x if g == -1 else 'None' if g == 0 else 'a foreign object' if g == -2 else \
                        ('THE NODE ITSELF' if g == obj['node'] else 'node %d (%s %s)' % (g, tr['pkg']['nodes'][g - 1]['kind'], tr['pkg']['nodes'][g - 1]['id']))
                    print('  observed %s(path) -> %s ; expected: the node itself' % (api, what))
            print('specification (T_MapModel) clause %s: %s' % (obj['clause'], ('REJECTS ' + json.dumps(facts)) if facts else 'accepts now'))
            return 1 if facts else 0
        if obj['kind'] in ('index', 'tables', 'indexwf'):
            route = obj.get('route', 'pkg')
            base = None
            d = PKG_DIR
            if route == 'dir':
                d = base = make_copy_dir(wdir)
            idx = X.export_index(d)
            files = [{'file': f, 'found': os.path.isfile(os.path.join(d, f)), 'parsed': X.export_map(d, f)['parsed']} for f in idx['files']]
            qs = record_queries(base, idx['entries'])
            cons = constants(EMPTY_MAP, X.export_dataele(d)['eles'], X.export_codes(d)['sets'], index={'entries': idx['entries'], 'files': files},
                             queries=qs, tables=record_tables(base))
            mod, cfg = ('MapWF', WF_CFG) if obj['kind'] == 'indexwf' else ('T_MapModel', TR_CFG)
            _l, res = _job(('replay', mod, cfg, cons, wdir))
            if isinstance(res, str) or res.error or res.violated:
                raise vlib.MachineryError('%s failed on the index: %s' % (mod, res if isinstance(res, str) else (res.error or res.violated)))
            facts = [x for x in report_of(res, 'replay')['rej'] if x['c'] == obj['fact']['c']]
            if obj['kind'] == 'index' and 'query' in obj:
                q = obj['query']
                now = [x for x in qs if all(x[k] == q[k] for k in ('icvn', 'vriic', 'fic', 'tspc', 'has_tspc'))]
                print('query %s: observed now %r (recorded %r)' % ({k: q[k] for k in ('icvn', 'vriic', 'fic', 'tspc')}, now[0]['got'] if now else '?', q['got']))
            print('specification clause %s: %s' % (obj['fact']['c'], ('REJECTS %d record(s), e.g. %s' % (len(facts), json.dumps(facts[0]))) if facts else 'accepts now'))
            return 1 if facts else 0
        raise vlib.MachineryError('unknown replay kind %r' % obj.get('kind'))
    finally:
        shutil.rmtree(wdir, ignore_errors=True)


# ------------------------------------------------------------------ main
def run(tier, replay=None):
    if replay:
        return do_replay(replay)
    chk = Check(PID, tier)
    chk.rule = ('one evaluation = one clause of the property on one node of one map (MapWF: exported node; T_MapModel: node of the '
                'tree the real loader built) or one index key; distinct = distinct (map, node) pairs and index queries; nothing is '
                'counted for nodes the loader did not produce')
    wdir = vlib.scratch('c16')
    try:
        copy_dir = make_copy_dir(wdir)
        idx = X.export_index(PKG_DIR)
        idx_dir = X.export_index(copy_dir)
        dataele = X.export_dataele(PKG_DIR)['eles']
        codesets = X.export_codes(PKG_DIR)['sets']
        dataele_dir = X.export_dataele(copy_dir)['eles']
        codesets_dir = X.export_codes(copy_dir)['sets']
        indexed = list(idx['files'])
        others = [f for f in X.other_map_files(PKG_DIR, indexed) if f not in NOT_MAPS] if tier == 'thorough' else []
        exports = {f: X.export_map(PKG_DIR, f) for f in indexed + others}
        exports[MARK_MAP] = X.export_map(copy_dir, MARK_MAP)

        # ---- real code
        todo = [(f, copy_dir, 'both') for f in indexed + others] + [(MARK_MAP, copy_dir, 'dir')]
        traces = {t['file']: t for t in vlib.parallel_map(_record_map, todo)}
        q_pkg = record_queries(None, idx['entries'])
        q_dir = record_queries(copy_dir, idx_dir['entries'])
        tab_pkg = record_tables(None)
        tab_dir = record_tables(copy_dir)

        # ---- TLC
        files_pkg = [{'file': f, 'found': exports[f]['found'], 'parsed': exports[f]['parsed']} for f in indexed]
        files_dir = files_pkg + [{'file': MARK_MAP, 'found': True, 'parsed': exports[MARK_MAP]['parsed']}]
        jobs = []
        for f in indexed + others:
            jobs.append(('MapWF ' + f, 'MapWF', WF_CFG, constants(exports[f], dataele, codesets), wdir))
            jobs.append(('T_MapModel ' + f, 'T_MapModel', TR_CFG,
                         constants(exports[f], dataele, codesets, trace=slim_trace(traces[f]), tables=traces[f]['pkg']['tables']), wdir))
        if tier == 'thorough':                 # the explicit-directory route judged node by node as well
            for f in indexed:
                t = dict(slim_trace(traces[f]), judged='dir')
                jobs.append(('T_MapModel(dir) ' + f, 'T_MapModel', TR_CFG,
                             constants(exports[f], dataele_dir, codesets_dir, trace=t, tables=traces[f]['dir']['tables']), wdir))
        jobs.append(('T_MapModel ' + MARK_MAP, 'T_MapModel', TR_CFG,
                     constants(exports[MARK_MAP], dataele_dir, codesets_dir, trace=slim_trace(traces[MARK_MAP]), tables=traces[MARK_MAP]['dir']['tables']), wdir))
        jobs.append(('MapWF index', 'MapWF', WF_CFG, constants(EMPTY_MAP, dataele, codesets, index={'entries': idx['entries'], 'files': files_pkg}), wdir))
        jobs.append(('T_MapModel index(pkg)', 'T_MapModel', TR_CFG,
                     constants(EMPTY_MAP, dataele, codesets, index={'entries': idx['entries'], 'files': files_pkg}, queries=q_pkg, tables=tab_pkg), wdir))
        jobs.append(('T_MapModel index(dir)', 'T_MapModel', TR_CFG,
                     constants(EMPTY_MAP, dataele_dir, codesets_dir,
                               index={'entries': idx_dir['entries'], 'files': files_dir}, queries=q_dir, tables=tab_dir), wdir))
        reps = run_jobs(chk, jobs)

        # ---- verdicts
        real_chk, chk_v = chk, Buffer()
        wf_facts = tr_facts = 0
        n_nodes = n_lookups = 0
        for f in indexed + others:
            rep = reps['MapWF ' + f]
            if rep['stat']['nodes'] != len(exports[f]['nodes']):
                raise vlib.MachineryError('MapWF judged %s nodes of %s, %d were exported' % (rep['stat']['nodes'], f, len(exports[f]['nodes'])))
            wf_facts += report_wf(chk_v, exports[f], rep, f in indexed)
            chk.add_eval(rep['stat']['nodes'] * 6 + rep['stat']['descents'])
            rep = reps['T_MapModel ' + f]
            tr = traces[f]
            if rep['stat']['nodes'] != len(tr['pkg']['nodes']):
                raise vlib.MachineryError('T_MapModel judged %s nodes of %s, %d were recorded' % (rep['stat']['nodes'], f, len(tr['pkg']['nodes'])))
            tr_facts += report_trace(chk_v, tr, rep, f in indexed)
            n_nodes += rep['stat']['mapped']
            chk.add_eval(rep['stat']['mapped'] * 8)
            for r in ('pkg', 'dir'):
                n_lookups += sum(2 for n in tr[r]['nodes'] if n['kind'] in ADDRESSED and not n['pexc'])
            for i in range(1, len(tr['pkg']['nodes']) + 1):
                chk.note_distinct('%s#%d' % (f, i))
            if tier == 'thorough' and f in indexed:
                rep = reps['T_MapModel(dir) ' + f]
                tr_facts += report_trace(chk_v, dict(tr, judged='dir'), rep, True)
                chk.add_eval(rep['stat']['mapped'] * 8)
        tr_facts += report_trace(chk_v, traces[MARK_MAP], reps['T_MapModel ' + MARK_MAP], True)
        report_index(chk_v, reps['MapWF index'], 'pkg', q_pkg, idx['entries'])
        for route, qs, ents in (('pkg', q_pkg, idx['entries']), ('dir', q_dir, idx_dir['entries'])):
            rep = reps['T_MapModel index(%s)' % route]
            if rep['stat']['queries'] != len(qs):
                raise vlib.MachineryError('T_MapModel judged %s index queries, %d were recorded' % (rep['stat']['queries'], len(qs)))
            report_index(chk_v, rep, route, qs, ents)
            chk.add_eval(len(qs) + 2)
            for q in qs:
                chk.note_distinct('q:%s/%s/%s/%s/%s' % (route, q['icvn'], q['vriic'], q['fic'], q['tspc'] if q['has_tspc'] else '-'))
        chk_v.flush(real_chk)
        # the marker key must be answered from the explicit directory only
        mk = [q for q in q_dir if (q['icvn'], q['vriic'], q['fic']) == MARK_KEY and not q['has_tspc']]
        if not mk:
            raise vlib.MachineryError('the marker key was not queried')

        loads = sum(1 for t in traces.values() for r in ('pkg', 'dir') if t[r]['load'] != 'none')
        chk.add_traces(loads + n_lookups + len(q_pkg) + len(q_dir) + 4)
        chk.extra['maps'] = {
            'indexed_map_files': len(indexed), 'other_shipped_map_files_checked_for_loader_conformance': others,
            'exported_nodes': sum(len(exports[f]['nodes']) for f in indexed + others),
            'loaded_nodes_matched_to_exported_nodes': n_nodes,
            'loads_of_the_real_loader': loads, 'real_lookups_on_reported_paths': n_lookups,
            'index_queries': {'packaged': len(q_pkg), 'explicit_directory': len(q_dir)},
            'maps_that_do_not_load': sorted(f for f, t in traces.items() if t['pkg']['load'] not in ('ok', 'none')),
            'facts_reported_by_MapWF': wf_facts, 'facts_reported_by_T_MapModel': tr_facts,
            'load_seconds_per_map_max': max(t['secs'] for t in traces.values())}
        small = 'x12.control.00401.xml' if 'x12.control.00401.xml' in traces else indexed[0]
        t = traces[small]
        if t['pkg']['load'] == 'ok':
            n = next((x for x in t['pkg']['nodes'] if x['kind'] == 'element'), None)
            if n:
                chk.sample({'recorded_node': {'map': small, 'kind': n['kind'], 'reported_path': n['path'], 'getnodebypath2_returned_node': n['g2'],
                                              'data_ele': n['de'], 'codes': n['codes'][:5]}})
        chk.sample({'index_query': q_pkg[0]})
        chk.sample({'near_miss_query': next((q for q in q_pkg if q['got'] == ''), q_pkg[-1])})
        rs = reps['T_MapModel ' + small]
        if traces[small]['pkg']['load'] == 'ok' and rs['stat']['mapped'] == rs['stat']['nodes']:
            selftest(chk, exports[small], traces[small], rs['rej'], dataele, codesets, wdir)
        else:
            chk.extra['binding_selftest'] = 'skipped: the loaded tree of %s does not match the map file' % small

        # ---- spec -> code: the canonical path texts of MapWF on the real lookups
        todo2 = [(f, reps['MapWF ' + f]['canon'], reps['T_MapModel ' + f]['em']) for f in indexed
                 if traces[f]['pkg']['load'] == 'ok' and reps['T_MapModel ' + f]['stat']['mapped'] == len(traces[f]['pkg']['nodes'])]
        canon = vlib.parallel_map(_replay_canon, todo2)
        classes = {}
        for r in canon:
            for k, v in r['classes'].items():
                classes[k] = classes.get(k, 0) + v
        chk.add_traces(sum(r['n'] for r in canon))
        chk.extra['canonical_paths_replayed_on_real_lookups'] = {
            'what': 'spec -> code: for every loop/segment/element/component MapWF prints its canonical path text and the node the text resolves to; '
                    'getnodebypath2 (and getnodebypath for loops/segments) are called with it. Not a clause of the property (the property speaks of '
                    'the paths nodes report themselves): disagreements are listed here only',
            'lookups': sum(r['n'] for r in canon), 'agree': sum(r['agree'] for r in canon), 'disagree_by_class': classes,
            'examples': [e for r in canon for e in r['examples']][:6]}
    finally:
        shutil.rmtree(wdir, ignore_errors=True)
    chk.exhaustive = True
    chk.assumptions = [
        'scope: the map files maps.xml names (%d); the other shipped map files (*.v2.xml, 277.5010.X212.xml) are used in the thorough tier for '
        'loader conformance only (tree = XML, both routes equal); comp_test.xml is a test fixture and is left out' % len(indexed),
        'composite nodes are not among the node kinds the property lists: nothing is demanded of the path they report',
        'children order: by position; nodes of one kind at one position in document order; a loop and a segment at one position may come in '
        'document order or loops first (the property does not say)',
        'qualifier of a segment = its coded element 01 (ENT: 02, composite 01: first component, also AN-typed for CTX, HL: 03), as in the matching rule of the maps',
        'fetch = getnodebypath for loops and segments, getnodebypath2 for loops, segments, elements and components (getnodebypath has no element syntax)',
        'an index query without purpose code that several entries answer may return any of them; the ISA versions the reader accepts are not part of this property',
        'inline codes are compared with the length limits of their data element only']
    if os.environ.get('C16_DUMP'):        # development aid: all violation signatures of this run
        with open(os.environ['C16_DUMP'], 'w') as fh:
            json.dump([[sig, desc] for sig, desc, _r in chk.violations], fh)
    return chk.finish()


if __name__ == '__main__':
    vlib.main_wrapper(run)
