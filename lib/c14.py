"""C14 - syntax notes (P, R, E, C, L) are evaluated exactly as X12 defines them.

spec -> code : TLC enumerates SyntaxGen (every note type x every ordered list of 2..4 distinct positions out
               of 1..MaxEle x every data segment of length 0..MaxEle with every present/empty pattern), checks
               the model-level laws (transcribed counting loops = definition, relations between the five
               conditions, ...) and emits every case with the verdict the DEFINITION (Syntax.tla) expects.
               Each case is replayed: the note text goes through the real segment_if constructor /
               _split_syntax, the data segment is a real pyx12.segment.Segment, and is_syntax_valid and
               segment_if.is_valid (errh_list) must show exactly the expected verdict / element error.
code -> spec : the COMPLETE table of the shipped maps: every syntax note of every segment node of every map of
               maps.xml x every presence pattern of the mentioned positions x every segment length
               0..element count is run through the real is_syntax_valid and the real segment_if.is_valid of
               that node; the log is validated by TLC against the definition (T_Syntax.tla).
               The notes a segment is judged by are the <syntax> texts of the map XML itself, read from the
               file independently of pyx12's loader (lib/mapexport.export, surrounding white space removed);
               what the loaded node enforces (node.syntax) is logged next to them: a well-formed note of the
               XML that the loaded node does not enforce is rejected (note_not_loaded), so is an enforced
               entry that no note of the XML stands for (split), and segment_if.is_valid is judged by the
               notes of the XML, not by what survived loading.
Python only builds inputs, projects what the real code did to JSON and compares for equality with TLC's
verdicts; what is right or wrong is decided by spec/Syntax.tla.
"""
import collections
import itertools
import json
import os
import random
import re
import shutil
import sys

sys.path.insert(0, os.path.dirname(os.path.abspath(__file__)))
import vlib
from vlib import run_tlc, tlc_must_pass, Check

sys.path.insert(0, vlib.REPO)
import pyx12.error_handler
import pyx12.map_if
import pyx12.params
import pyx12.segment
import pyx12.syntax
import xml.etree.ElementTree as ET
import mapexport

PID = 'C14'


# ------------------------------------------------------------------ real objects
def map_files():
    t = ET.parse(os.path.join(vlib.REPO, 'pyx12', 'map', 'maps.xml'))
    names = []
    for el in t.iter('map'):
        if el.text and el.text.strip() not in names:
            names.append(el.text.strip())
    return names


def load_map(fname):
    return pyx12.map_if.load_map_file(fname, pyx12.params.params())


def segment_nodes(m):
    out = []

    def rec(node):
        if getattr(node, 'base_name', '') == 'segment':
            out.append(node)
            return
        if getattr(node, 'pos_map', None):
            for pos in sorted(node.pos_map):
                for ch in node.pos_map[pos]:
                    rec(ch)
        else:
            for ch in getattr(node, 'children', None) or []:
                rec(ch)
    rec(m)
    return out


def xml_notes(fname, nodes):
    """per loaded segment node: the <syntax> texts that the map FILE writes for that segment (surrounding white
    space removed), read from the XML independently of the loader; aligned by node path (document order within
    one path)"""
    bypath = collections.OrderedDict()
    for n in mapexport.export(fname)['nodes']:
        if n['kind'] == 'seg':
            bypath.setdefault(n['path'], []).append([(t or '').strip() for t in n.get('syntax', [])])
    out = []
    used = collections.Counter()
    for node in nodes:
        path = node.get_path()
        k = used[path]
        used[path] += 1
        if path not in bypath or k >= len(bypath[path]):
            raise vlib.MachineryError('%s: loaded segment node %s has no counterpart in the map XML' % (fname, path))
        out.append(bypath[path][k])
    if any(used[p] != len(v) for p, v in bypath.items()):
        raise vlib.MachineryError('%s: segments of the map XML and loaded segment nodes cannot be aligned' % fname)
    return out


def enforced(node):
    """[(stype, spos, entry of node.syntax)]: what the loaded node really enforces"""
    return [(str(syn[0]), [int(x) for x in syn[1:]], syn) for syn in node.syntax]


def mentioned(text):
    """positions a note text mentions - lenient, used for INPUT construction only (which patterns to try)"""
    return [int(x) for x in re.findall(r'\d\d', text[1:]) if int(x) >= 1]


def sample_value(node):
    """a plausible non-empty value for an element / composite node (input construction only)"""
    if node.is_composite():
        kids = [c for c in node.children if c.seq == 1] or node.children[:1]
        return sample_value(kids[0]) if kids else 'A'
    v = None
    if node.valid_codes:
        v = node.valid_codes[0]
    else:
        try:
            de = node.root.data_elements.get_by_elem_num(node.data_ele)
            dt, mn, mx = de['data_type'], int(de['min_len']), int(de['max_len'])
        except Exception:
            dt, mn, mx = 'AN', 1, 1
        if dt in ('DT', 'D8', 'D6'):
            v = '20200101' if (mx >= 8 and dt != 'D6') else '200101'
        elif dt == 'TM':
            v = '1200'
        elif dt == 'R' or (dt and dt[0] == 'N'):
            v = '1' * max(mn, 1)
        else:
            v = 'A' * max(mn, 1)
    if not v or any(ch in v for ch in '*:~') or v.strip() == '' or v != v.strip():
        v = 'A'
    return v


def build_segment(seg_id, length, values):
    """real Segment with exactly `length` elements; values: position -> non-empty text"""
    text = seg_id + ''.join('*' + values.get(p, '') for p in range(1, length + 1)) + '~'
    seg = pyx12.segment.Segment(text, '~', '*', ':')
    if len(seg) != length:
        raise vlib.MachineryError('segment %r has %d elements, wanted %d' % (text, len(seg), length))
    for p in range(1, length + 1):
        if (seg.get_value('%02d' % p) != '') != (p in values):
            raise vlib.MachineryError('segment %r: presence of element %d is not what was intended' % (text, p))
    return seg, text


def proj_refdes(r):
    if isinstance(r, bool):
        return -1
    if isinstance(r, int):
        return r
    m = re.match(r'^(?:[A-Z][A-Z0-9]{1,2})?(\d\d)$', str(r))
    return int(m.group(1)) if m else -1


def run_is_valid(node, seg):
    errh = pyx12.error_handler.errh_list()
    try:
        ok = node.is_valid(seg, errh)
    except Exception as e:
        return 'exc:' + type(e).__name__, list(errh.err_ele)
    return bool(ok), list(errh.err_ele)


_TREE = {}


def run_is_valid_tree(node, seg):
    """the same call reported through the error TREE handler (err_handler), as x12n_document does: element errors of the segment as (code, refdes position)"""
    import io
    import pyx12.x12file
    if 'errh' not in _TREE:
        import logging
        logging.getLogger('pyx12').setLevel(logging.CRITICAL + 1)          # the tree handler logs every error it is given
        logging.getLogger('pyx12').addHandler(logging.NullHandler())
        errh = pyx12.error_handler.err_handler()
        isa = 'ISA*00*          *00*          *ZZ*S              *ZZ*R              *200101*1200*U*00401*000000001*0*P*:~'
        src = pyx12.x12file.X12Reader(io.StringIO(isa + 'GS*HC*S*R*20200101*1200*1*X*004010X098A1~ST*837*0001~'))
        for s in src:
            sid = s.get_seg_id()
            if sid == 'ISA':
                errh.add_isa_loop(s, src)
            elif sid == 'GS':
                errh.add_gs_loop(s, src)
            elif sid == 'ST':
                errh.add_st_loop(s, src)
        _TREE['errh'] = errh
    errh = _TREE['errh']
    del errh.cur_st_node.children[:]
    errh.add_seg(node, seg, 2, 4, None)
    node.is_valid(seg, errh)
    out = []
    sn = errh.cur_seg_node
    if getattr(errh, 'seg_node_added', False) and sn is not None and getattr(sn, 'id', '') == 'SEG':
        for el in sn.elements:
            for (code, _msg, _val) in el.errors:
                out.append((str(code), el.ele_pos if el.ele_pos is not None else -1))
    return out


def syn_result(seg, syn):
    try:
        r = pyx12.syntax.is_syntax_valid(seg, syn)
        return 'ok' if r[0] is True else ('viol' if r[0] is False else 'exc')
    except Exception:
        return 'exc'


def observe_case(node, syns, length, values, full):
    """run the real code on one data segment; returns the logged case (without len/pr/fill) or None"""
    seg, text = build_segment(node.id, length, values)
    case = {'syn': [syn_result(seg, syn) for syn in syns], 'text': text}
    if not full:
        return case
    saved = node.syntax
    try:
        node.syntax = []                      # what the other validations alone report
        base_ok, base_errs = run_is_valid(node, seg)
    finally:
        node.syntax = saved
    if not isinstance(base_ok, bool):
        # the node cannot validate this segment at all, notes or not (e.g. a required composite beyond the end of
        # the segment raises TypeError): not this property's business; is_syntax_valid is still judged
        case.update({'chk': False, 'valid': '', 'base': False, 'errs': []})
        return case
    case['chk'] = True
    ok, errs = run_is_valid(node, seg)
    extra = list(errs)
    for e in base_errs:                       # multiset difference: errors the notes added
        if e in extra:
            extra.remove(e)
    case['valid'] = ('true' if ok else 'false') if isinstance(ok, bool) else 'exc'
    case['base'] = base_ok
    case['errs'] = [{'c': str(e[0]), 'p': proj_refdes(e[3])} for e in extra]
    if extra and (len(extra) > 1 or base_errs):
        # several errors on one segment: the same call through the error TREE handler must report the same note errors
        # (a second case, judged by the same clauses)
        try:
            node.syntax = []
            tbase = run_is_valid_tree(node, seg)
            node.syntax = saved
            tall = run_is_valid_tree(node, seg)
            for e in tbase:
                if e in tall:
                    tall.remove(e)
            case['tree_errs'] = [{'c': c_, 'p': p_} for (c_, p_) in tall]
        except Exception as ex:
            case['tree_errs'] = [{'c': 'exc:' + type(ex).__name__, 'p': -1}]
        finally:
            node.syntax = saved
    return case


# ------------------------------------------------------------------ code -> spec : recording
def subsets(items):
    items = list(items)
    for r in range(len(items) + 1):
        for c in itertools.combinations(items, r):
            yield c


def cases_for_node(node, poslists, n, mode, opts, rnd):
    """the (length, present positions, fill) triples to run on this node"""
    want = collections.OrderedDict()
    usage_n = set(c.seq for c in node.children if getattr(c, 'usage', None) == 'N')
    for pos in poslists:
        for length in range(0, n + 1):
            reach = [p for p in pos if p <= length]
            for s in subsets(reach):
                want[(length, frozenset(s), 0)] = None
                if mode == 'full' and opts['fill']:
                    others = [p for p in range(1, length + 1) if p not in pos and p not in usage_n]
                    if others:
                        want[(length, frozenset(s) | frozenset(others), 1)] = None
    if mode == 'full' and len(poslists) > 1 and opts['combined']:
        union = sorted(set(p for pos in poslists for p in pos if p <= n))
        if len(union) <= 6:
            pats = [frozenset(s) for s in subsets(union)]
        else:
            pats = [frozenset(union), frozenset()]
            for _ in range(opts['combined']):
                pats.append(frozenset(p for p in union if rnd.random() < 0.5))
        lens = [n] + ([rnd.randint(0, n - 1)] if n > 0 else [])
        for length in lens:
            for s in pats:
                want[(length, frozenset(p for p in s if p <= length), 2)] = None
    return list(want)


def _record_map(arg):
    fname, mode, opts = arg
    rnd = random.Random('%s/%s' % (vlib.seed(), fname))
    try:
        m = load_map(fname)
    except Exception as e:
        return {'map': fname, 'loaded': False, 'why': type(e).__name__ + ': ' + str(e)[:120], 'segs': []}
    recs = []
    seen_sig = set()
    skipped = 0
    nodes = segment_nodes(m)
    from_xml = xml_notes(fname, nodes)
    for idx, node in enumerate(nodes):
        xn = from_xml[idx]
        enf = enforced(node)
        if not xn and not enf:
            continue
        n = node.get_child_count()
        cols = list(range(len(enf)))
        if mode in ('syn', 'sigfull'):
            # signatures only: is_syntax_valid (sigfull: and segment_if.is_valid) once per distinct (enforced entry, element count) of this map
            cols = [y for y in cols if (enf[y][0], tuple(enf[y][1]), n) not in seen_sig]
            seen_sig.update((enf[y][0], tuple(enf[y][1]), n) for y in cols)
        poslists = [enf[y][1] for y in cols]
        if mode == 'full':
            # the patterns of the notes the XML writes are tried whether or not the loaded node enforces them
            poslists += [p for p in (mentioned(t) for t in xn) if p and p not in poslists]
        through_is_valid = mode == 'full' or (mode == 'sigfull' and bool(cols))
        children = {c.seq: c for c in node.children}
        cases = []
        for (length, present, fill) in cases_for_node(node, poslists, n, mode, opts, rnd):
            values = {p: sample_value(children[p]) for p in present if p in children}
            if len(values) != len(present):
                raise vlib.MachineryError('%s %s: no element node for a position <= element count' % (fname, node.get_path()))
            c = observe_case(node, [enf[y][2] for y in cols], length, values, through_is_valid)
            if c.get('chk') is False:
                skipped += 1
            c.update({'len': length, 'pr': sorted(present), 'fill': fill})
            terrs = c.pop('tree_errs', None)
            cases.append(c)
            if terrs is not None:
                cases.append(dict(c, errs=terrs, text=c['text'] + '  [reported through err_handler]'))
        recs.append({'map': fname, 'path': node.get_path(), 'idx': idx, 'seg': node.id, 'n': n, 'mode': 'full' if through_is_valid else 'syn',
                     'xnotes': xn, 'enf': [{'stype': st, 'spos': sp} for (st, sp, _s) in enf],
                     'cols': [y + 1 for y in cols], 'cases': cases})
    return {'map': fname, 'loaded': True, 'segs': recs, 'skipped': skipped}


def rec_sig(rec, col):
    e = rec['enf'][col - 1]
    return (e['stype'], tuple(e['spos']), rec['n'])


def record_table(tier):
    files = map_files()
    if tier == 'quick':
        rnd = random.Random(vlib.seed() + 14)
        chosen = set(rnd.sample(files, min(4, len(files))))
        chosen.update([f for f in files if f.startswith('837.5010.')][:1])   # one map rich in multi-note segments, always
        opts = {'fill': False, 'combined': 14}
    else:
        chosen = set(files)
        opts = {'fill': True, 'combined': 62}
    # every other map: segment_if.is_valid once per distinct (note, element count) of the map - a note that reaches past the
    # elements its segment defines (830) or sits on a one-element segment is a signature of its own
    res = vlib.parallel_map(_record_map, [(f, 'full' if f in chosen else 'sigfull', opts) for f in files])
    # quick tier: keep the is_syntax_valid cases of one record per distinct (enforced entry, element count) over all
    # maps; every record stays in the log (XML notes against what the loaded node enforces), with or without cases
    seen = set()
    for r in res:
        for rec in r['segs']:
            if rec['mode'] == 'full':
                seen.update(rec_sig(rec, y) for y in rec['cols'])
    out = []
    for r in res:
        for rec in r['segs']:
            if rec['mode'] == 'syn':
                keep = [x for x, y in enumerate(rec['cols']) if rec_sig(rec, y) not in seen]
                seen.update(rec_sig(rec, rec['cols'][x]) for x in keep)
                if not keep:
                    rec = dict(rec, cols=[], cases=[])
                elif len(keep) != len(rec['cols']):
                    rec = dict(rec, cols=[rec['cols'][x] for x in keep],
                               cases=[dict(c, syn=[c['syn'][x] for x in keep]) for c in rec['cases']])
            out.append(rec)
    return res, out, sorted(chosen)


# ------------------------------------------------------------------ code -> spec : validation by TLC
def _tlc_batch(arg):
    label, recs = arg
    d = vlib.scratch('c14tr')
    try:
        path = os.path.join(d, 'trace.json')
        slim = [{'mode': r['mode'], 'xnotes': r['xnotes'], 'enf': r['enf'], 'cols': r['cols'],
                 'cases': [{k: v for k, v in c.items() if k != 'text'} for c in r['cases']]} for r in recs]
        vlib.write_json(path, {'segs': slim})
        return run_tlc('T_Syntax', 'SPECIFICATION Spec\nINVARIANT Report\n', env={'TRACE_FILE': path}, workers=1,
                       timeout=1700, heap='3g', tag='T_Syntax-' + label)
    finally:
        shutil.rmtree(d, ignore_errors=True)


def split_batches(recs, nb):
    total = sum(len(r['cases']) + 1 for r in recs)
    target = total / float(nb) if nb else total
    out, cur, w = [], [], 0
    for r in recs:
        cur.append(r)
        w += len(r['cases']) + 1
        if w >= target and len(out) < nb - 1:
            out.append(cur)
            cur, w = [], 0
    if cur:
        out.append(cur)
    return out


def describe(rec, k, j, clause):
    nx = len(rec['xnotes'])
    enf = ['%s%s' % (e['stype'], e['spos']) for e in rec['enf']]
    if clause == 'split':
        e = rec['enf'][j - nx - 1] if nx < j <= nx + len(rec['enf']) else {}
        return ('%s %s: the loaded segment node enforces %s %s, which none of the notes %s written in the map XML says'
                % (rec['map'], rec['path'], e.get('stype'), e.get('spos'), rec['xnotes']))
    text = rec['xnotes'][j - 1] if 1 <= j <= nx else '?'
    if clause == 'note_not_loaded':
        return ('%s %s: the map XML writes the syntax note %r for this segment, but the loaded segment node does not enforce it '
                '(node.syntax = %s): the note was lost while the map was loaded' % (rec['map'], rec['path'], text, enf))
    c = rec['cases'][k - 1]
    what = 'is_syntax_valid per enforced entry %s said %s' % ([enf[y - 1] for y in rec['cols']], c['syn'])
    if 'valid' in c:
        what += '; segment_if.is_valid -> %s (without notes %s), errors added by the notes: %s' % (c['valid'], c['base'], c['errs'])
    return ('%s %s: note %s of the notes %s of the map XML on segment %s (length %d, present %s): %s - rejected by the definition at clause %s'
            % (rec['map'], rec['path'], text, rec['xnotes'], c.get('text'), c['len'], c['pr'], what, clause))


def validate_table(chk, recs, label, nb=None):
    if not recs:
        raise vlib.MachineryError('no syntax-note records were produced')
    nb = nb or max(1, min(vlib.NCPU // 2, sum(len(r['cases']) for r in recs) // 4000))
    batches = split_batches(recs, nb)
    results = vlib.parallel_map(_tlc_batch, [('%s%d' % (label, b), batch) for b, batch in enumerate(batches)], procs=len(batches))
    total_rej = 0
    for b, (batch, res) in enumerate(zip(batches, results)):
        if res.error or res.violated:
            raise vlib.MachineryError('T_Syntax (%s batch %d): %s' % (label, b, res.error or res.violated))
        chk.add_tlc(res, '%s batch %d (%d segment records)' % (label, b, len(batch)))
        reps = res.payloads.get('REJECTS')
        if not reps:
            raise vlib.MachineryError('T_Syntax printed no REJECTS report\n' + res.out[-1500:])
        rep = reps[-1]
        ncases = sum(len(r['cases']) for r in batch)
        if rep['cases'] != ncases:
            raise vlib.MachineryError('T_Syntax judged %s cases, %d were recorded' % (rep['cases'], ncases))
        total_rej += rep['n']
        chk.add_eval(rep['judged'])
        for (i, k, j, clause, typ) in rep['rej']:
            rec = batch[i - 1]
            c = rec['cases'][k - 1] if k else None
            chk.violation({'clause': 'trace_' + clause, 'type': typ}, describe(rec, k, j, clause),
                          {'kind': 'trace', 'map': rec['map'], 'idx': rec['idx'], 'path': rec['path'], 'mode': rec['mode'],
                           'len': c['len'] if c else 0, 'pr': c['pr'] if c else [], 'note': j, 'clause': clause,
                           'observed': c if c else {'xml_notes': rec['xnotes'], 'enforced_by_loaded_node': rec['enf']}})
    return total_rej


# ------------------------------------------------------------------ spec -> code : replay
_SYN_XML = ('<segment xid="TST"><name>Test segment</name><usage>S</usage><pos>010</pos><max_use>1</max_use>'
            '<syntax>%s</syntax>%s</segment>')
_ELE_XML = ('<element xid="TST%02d"><data_ele>127</data_ele><name>Element %d</name><usage>S</usage><seq>%02d</seq></element>')
_ROOT = {}


def synthetic_root():
    if 'root' not in _ROOT:
        for f in ['997.4010.xml', '999.5010.xml'] + map_files():
            try:
                _ROOT['root'] = pyx12.map_if.load_map_file(f, pyx12.params.params())
                break
            except Exception:
                continue
        else:
            raise vlib.MachineryError('no shipped map could be loaded')
    return _ROOT['root']


def synthetic_node(note, nele):
    xml = _SYN_XML % (note, ''.join(_ELE_XML % (i, i, i) for i in range(1, nele + 1)))
    return pyx12.map_if.segment_if(synthetic_root(), None, ET.fromstring(xml))


def replay_case(node, case):
    """-> (observed dict, [failing clauses]) for one TLC-generated case"""
    t, pos, bits, viol, code = case['t'], case['p'], case['e'], case['v'], case['c']
    want_syn = [t] + list(pos)
    obs = {}
    bad = []
    try:
        obs['split'] = node._split_syntax(case['n'])
    except Exception as e:
        obs['split'] = 'exc:' + type(e).__name__
    obs['node_syntax'] = [list(s) for s in node.syntax]
    if obs['split'] != want_syn or obs['node_syntax'] != [want_syn]:
        bad.append('gen_split')
    seg, text = build_segment('TST', len(bits), {i + 1: 'A' for i, b in enumerate(bits) if b})
    obs['segment'] = text
    obs['syn'] = syn_result(seg, want_syn)
    if obs['syn'] == 'exc':
        bad.append('gen_exception')
    elif viol and obs['syn'] == 'ok':
        bad.append('gen_missed')
    elif not viol and obs['syn'] == 'viol':
        bad.append('gen_false_alarm')
    ok, errs = run_is_valid(node, seg)
    obs['valid'] = ok
    obs['errs'] = [[str(e[0]), proj_refdes(e[3])] for e in errs]
    if not isinstance(ok, bool):
        bad.append('gen_valid_exception')
    elif viol:
        if len(errs) == 0:
            bad.append('gen_missing_error')
        elif len(errs) > 1:
            bad.append('gen_spurious_error')
        elif obs['errs'][0][0] != code:
            bad.append('gen_err_code')
        elif obs['errs'][0][1] not in pos:
            bad.append('gen_err_pos')
        if ok is not False:
            bad.append('gen_valid_flag')
    else:
        if errs:
            bad.append('gen_spurious_error')
        if ok is not True:
            bad.append('gen_valid_flag_satisfied')
    return obs, bad


def _replay_chunk(arg):
    nele, groups = arg
    out = []
    n = 0
    for note, cases in groups:
        node = synthetic_node(note, nele)
        for c in cases:
            n += 1
            obs, bad = replay_case(node, c)
            if bad:
                out.append((c, obs, bad))
    return n, out[:200], len(out)


def generate_and_replay(chk, tier):
    maxele = 5 if tier == 'quick' else 6
    cfg = ('SPECIFICATION Spec\nCONSTANTS MaxEle = %d\n MaxPos = 4\n DoEmit = TRUE\n'
           'INVARIANT ImplEqDef\nINVARIANT ImplErrShape\nINVARIANT SplitJoin\nINVARIANT Relations\n'
           'INVARIANT OrderIrrelevant\nINVARIANT OnlyMentioned\nINVARIANT Emit\n'
           'PROPERTY TrailingEmpty\nPROPERTY MonotoneR\nPROPERTY MonotoneE\n' % maxele)
    res = tlc_must_pass(run_tlc('SyntaxGen', cfg, timeout=1500), 'SyntaxGen')
    chk.add_tlc(res, 'SyntaxGen MaxEle=%d MaxPos=4' % maxele)
    cases = res.payloads.get('CASE', [])
    nlists = sum(_perm(maxele, k) for k in (2, 3, 4))
    expected = 5 * nlists * (2 ** (maxele + 1) - 1)
    if len(cases) != expected:
        raise vlib.MachineryError('SyntaxGen emitted %d cases, the bounded space has %d' % (len(cases), expected))
    groups = collections.OrderedDict()
    for c in cases:
        groups.setdefault(c['n'], []).append(c)
    items = list(groups.items())
    synthetic_root()
    chunks = [(maxele, ch) for ch in vlib.chunked(items, max(1, len(items) // (4 * vlib.NCPU) + 1))]
    nbad = 0
    total = 0
    for n, bad, nb in vlib.parallel_map(_replay_chunk, chunks):
        total += n
        nbad += nb
        for c, obs, clauses in bad:
            for cl in clauses:
                chk.violation({'clause': cl, 'type': c['t']},
                              '[%s] note %s on segment %s: the definition expects %s%s; observed split %s, is_syntax_valid %s, is_valid %s with element errors %s'
                              % (cl, c['n'], obs['segment'], 'VIOLATED' if c['v'] else 'satisfied',
                                 (' (one element error, code %s, at one of %s)' % (c['c'], c['p'])) if c['v'] else ' (no element error)',
                                 obs['split'], obs['syn'], obs['valid'], obs['errs']),
                              {'kind': 'gen', 'case': c, 'nele': maxele, 'observed': obs})
    if total != len(cases):
        raise vlib.MachineryError('replayed %d of %d cases' % (total, len(cases)))
    chk.add_traces(total)
    chk.add_eval(2 * total)
    chk.distinct_count += total
    for c in cases[:1] + [x for x in cases if x['v'] and len(x['e']) >= 3][:2]:
        chk.sample({'generated_case': {'note': c['n'], 'segment_presence': c['e'], 'definition_says_violated': c['v'], 'error_code': c['c']}})
    chk.extra['generated_cases'] = {'types': 5, 'position_lists': nlists, 'segments_per_note': 2 ** (maxele + 1) - 1,
                                    'cases': total, 'cases_violated': sum(1 for c in cases if c['v']), 'mismatches': nbad}
    return total


def _perm(n, k):
    r = 1
    for i in range(k):
        r *= (n - i)
    return r


# ------------------------------------------------------------------ binding self-test
def selftest(chk, recs):
    """corrupt logged fields of a few records: T_Syntax must reject each corruption"""
    import copy
    full = [r for r in recs if r['mode'] == 'full' and r['cases'] and r['enf'] and all(c['chk'] for c in r['cases'])][:1]
    if not full:
        return
    r0 = copy.deepcopy(full[0])
    r0['cases'] = r0['cases'][:40]
    want = []
    a = copy.deepcopy(r0)
    a['cases'][0]['syn'][0] = 'viol' if a['cases'][0]['syn'][0] == 'ok' else 'ok'
    want.append(('missed', 'false_alarm'))
    b = copy.deepcopy(r0)
    kb = next((k for k, c in enumerate(b['cases']) if c['chk'] and not c['errs']), 0)
    b['cases'][kb]['errs'] = b['cases'][kb]['errs'] + [{'c': '2', 'p': b['enf'][0]['spos'][0]}]
    want.append(('spurious_error',))
    c_ = copy.deepcopy(r0)
    kc = next((k for k, c in enumerate(c_['cases']) if c['errs']), None)
    if kc is not None:
        c_['cases'][kc]['errs'][0]['c'] = '10' if c_['cases'][kc]['errs'][0]['c'] == '2' else '2'
        want.append(('err_code',))
    d = copy.deepcopy(r0)
    d['enf'][0]['spos'] = d['enf'][0]['spos'][::-1]
    want.append(('split',))
    e = copy.deepcopy(r0)                 # the loaded node lost its last note
    e['enf'] = e['enf'][:-1]
    e['cols'] = e['cols'][:-1]
    for c in e['cases']:
        c['syn'] = c['syn'][:-1]
    want.append(('note_not_loaded',))
    trace = [a, b] + ([c_] if kc is not None else []) + [d, e]
    res = _tlc_batch(('selftest', trace))
    if res.error or res.violated or not res.payloads.get('REJECTS'):
        raise vlib.MachineryError('binding self-test: T_Syntax failed\n' + (res.error or res.out[-1500:]))
    chk.add_tlc(res, 'binding self-test (corrupted records)')
    got = collections.defaultdict(set)
    for (i, k, j, clause, typ) in res.payloads['REJECTS'][-1]['rej']:
        got[i].add(clause)
    ok = all(got[i + 1] & set(w) for i, w in enumerate(want))
    chk.extra['binding_selftest'] = {'corrupted_records': len(trace), 'rejected_records': len(got), 'ok': ok}
    if not ok:
        raise vlib.MachineryError('binding self-test failed: a corrupted log was accepted (%s)' % dict(got))


# ------------------------------------------------------------------ replay of a stored violation
def do_replay(path):
    obj = json.load(open(path))['replay']
    if obj['kind'] == 'gen':
        c = obj['case']
        node = synthetic_node(c['n'], obj.get('nele', 6))
        obs, bad = replay_case(node, c)
        print('note %s, segment %s' % (c['n'], obs['segment']))
        print('expected (Syntax.tla): %s, element error code %s at one of %s' % ('violated' if c['v'] else 'satisfied', c['c'] if c['v'] else '-', c['p']))
        print('observed: split=%s is_syntax_valid=%s is_valid=%s errors=%s' % (obs['split'], obs['syn'], obs['valid'], obs['errs']))
        print('failing clauses: %s' % (bad or 'none'))
        return 1 if bad else 0
    m = load_map(obj['map'])
    nodes = segment_nodes(m)
    node = nodes[obj['idx']]
    xn = xml_notes(obj['map'], nodes)[obj['idx']]
    enf = enforced(node)
    rec = {'map': obj['map'], 'path': node.get_path(), 'idx': obj['idx'], 'n': node.get_child_count(), 'mode': 'full',
           'xnotes': xn, 'enf': [{'stype': st, 'spos': sp} for (st, sp, _s) in enf],
           'cols': list(range(1, len(enf) + 1)), 'cases': []}
    c = None
    if obj.get('clause') not in ('split', 'note_not_loaded'):
        children = {c.seq: c for c in node.children}
        values = {p: sample_value(children[p]) for p in obj['pr']}
        c = observe_case(node, [e[2] for e in enf], obj['len'], values, True)
        c.update({'len': obj['len'], 'pr': obj['pr'], 'fill': 0})
        terrs = c.pop('tree_errs', None)
        rec['cases'] = [c] + ([dict(c, errs=terrs, text=c['text'] + '  [reported through err_handler]')] if terrs is not None else [])
    res = _tlc_batch(('replay', [rec]))
    if res.error or not res.payloads.get('REJECTS'):
        raise vlib.MachineryError('T_Syntax failed on the replay record\n' + (res.error or res.out[-1500:]))
    rej = res.payloads['REJECTS'][-1]['rej']
    print('%s %s' % (obj['map'], node.get_path()))
    print('syntax notes written in the map XML: %s' % xn)
    print('enforced by the loaded segment node: %s' % [[st] + sp for (st, sp, _s) in enf])
    if c is not None:
        print('segment %s (length %d, present %s)' % (c['text'], obj['len'], obj['pr']))
        print('observed: is_syntax_valid per enforced entry %s; is_valid=%s (without notes %s); errors added by the notes %s'
              % (c['syn'], c['valid'], c['base'], c['errs']))
    print('specification (T_Syntax) rejects at: %s' % ([[e[3], e[4]] for e in rej] or 'nothing - accepted'))
    return 1 if rej else 0


# ------------------------------------------------------------------ main
def run(tier, replay=None):
    if replay:
        return do_replay(replay)
    chk = Check(PID, tier)
    chk.rule = ('one case = one syntax note x one data segment (length and present/empty pattern); generated: every state of SyntaxGen '
                'in phase "seg"; recorded: every distinct (segment node, length, pattern) of the shipped maps; nothing is counted as trivial '
                '(each case evaluates the note), cases where the note is violated are counted separately in generated_cases / table')
    generate_and_replay(chk, tier)
    per_map, recs, chosen = record_table(tier)
    nrej = validate_table(chk, recs, 'T_Syntax')
    loaded = [r['map'] for r in per_map if r['loaded']]
    failed = {r['map']: r['why'] for r in per_map if not r['loaded']}
    ncases = sum(len(r['cases']) for r in recs)
    nfull = sum(len(r['cases']) for r in recs if r['mode'] == 'full')
    chk.add_traces(ncases)
    chk.distinct_count += ncases
    occ = sum(len(r['xnotes']) for r in recs if r['mode'] == 'full')
    sigs = set(rec_sig(r, y) for r in recs for y in r['cols'])
    chk.extra['table'] = {
        'maps_in_index': len(per_map), 'maps_loaded': len(loaded), 'maps_not_loadable_skipped': failed,
        'maps_with_per_occurrence_is_valid_checks': len(chosen) if tier == 'quick' else len(loaded),
        'segment_records': len(recs), 'note_occurrences_checked_through_is_valid': occ,
        'notes_written_in_the_map_xml_compared_with_the_loaded_nodes': sum(len(r['xnotes']) for r in recs),
        'entries_enforced_by_the_loaded_nodes': sum(len(r['enf']) for r in recs),
        'distinct_note_x_element_count_signatures': len(sigs),
        'cases': ncases, 'cases_through_segment_if_is_valid': nfull - sum(r.get('skipped', 0) for r in per_map),
        'cases_with_a_violated_note_reported': sum(1 for r in recs for c in r['cases'] if 'viol' in c['syn']),
        'cases_is_valid_not_judged_because_node_raises_even_without_notes': sum(r.get('skipped', 0) for r in per_map),
        'rejected_by_spec': nrej}
    for r in recs:
        if r['mode'] == 'full' and r['cases']:
            c = next((x for x in r['cases'] if x['errs']), r['cases'][-1])
            if not c.get('chk'):
                continue
            chk.sample({'recorded_case': {'map': r['map'], 'path': r['path'], 'notes': r['xnotes'],
                                          'segment': c['text'], 'is_syntax_valid': c['syn'], 'is_valid': c['valid'],
                                          'errors_added_by_notes': c['errs']}})
            break
    if not chk.violations and not chk.known_hits:
        selftest(chk, recs)      # only meaningful on a log the specification accepts
    chk.exhaustive = (tier == 'thorough' and not chk.violations)
    chk.assumptions = [
        'the notes of a segment are the <syntax> texts of the map XML with surrounding white space removed (read from the file, not from '
        'the loaded map); a text that is not letter + two or more two-digit positions is not a note; segments are aligned with the '
        'loaded nodes by node path (document order within one path)',
        'present = the element carries a non-empty value; the values used are plausible for the element definition, errors that the other '
        'validations raise for them are removed by comparing with the same call made with the notes of the node switched off',
        'the position of the element error of a violated note must be one of the positions the note mentions (the property does not say which)',
        'segments longer than the element count of the node, maps that do not load (841.4010.XXXC) and notes with repeated positions are outside this property',
        'segments with several notes: every pattern of each single note (others absent / others filled) is enumerated; patterns over the union '
        'of positions are enumerated completely up to 6 positions and sampled (seeded) above']
    return chk.finish()


if __name__ == '__main__':
    vlib.main_wrapper(run)
